// Package base holds the symbol table of the pinned tree (functions, methods,
// struct fields and named types of the module packages, with their types) and
// resolves renames: a baseline symbol that is missing from the current tree is
// matched with the unique symbol of the same kind, place and type that is new
// relative to the baseline. The rule tables name symbols of the pinned tree; a
// pure rename must not turn every rule that names the symbol into "anchor not
// found".
package base

import (
	_ "embed"
	"fmt"
	"go/types"
	"sort"
	"strings"

	"golang.org/x/tools/go/packages"
)

//go:embed baseline_symbols.txt
var symbolsText string

// Symbols is the parsed baseline.
type Symbols struct {
	Funcs   map[string]map[string]string            // pkg -> name -> signature
	Methods map[string]map[string]map[string]string // pkg -> type -> name -> signature
	Fields  map[string]map[string]map[string]string // pkg -> struct -> field -> type
	Types   map[string]map[string]string            // pkg -> name -> shape
}

func newSymbols() *Symbols {
	return &Symbols{Funcs: map[string]map[string]string{}, Methods: map[string]map[string]map[string]string{}, Fields: map[string]map[string]map[string]string{}, Types: map[string]map[string]string{}}
}

// Load parses the embedded baseline.
func Load() *Symbols {
	s := newSymbols()
	for _, l := range strings.Split(symbolsText, "\n") {
		parts := strings.SplitN(l, " | ", 2)
		if len(parts) != 2 {
			continue
		}
		f := strings.Fields(parts[0])
		switch {
		case len(f) == 3 && f[0] == "F":
			m2(s.Funcs, f[1])[f[2]] = parts[1]
		case len(f) == 4 && f[0] == "M":
			m3(s.Methods, f[1], f[2])[f[3]] = parts[1]
		case len(f) == 4 && f[0] == "S":
			m3(s.Fields, f[1], f[2])[f[3]] = parts[1]
		case len(f) == 3 && f[0] == "T":
			m2(s.Types, f[1])[f[2]] = parts[1]
		}
	}
	return s
}

func m2(m map[string]map[string]string, a string) map[string]string {
	if m[a] == nil {
		m[a] = map[string]string{}
	}
	return m[a]
}

func m3(m map[string]map[string]map[string]string, a, b string) map[string]string {
	if m[a] == nil {
		m[a] = map[string]map[string]string{}
	}
	if m[a][b] == nil {
		m[a][b] = map[string]string{}
	}
	return m[a][b]
}

func recvName(sig *types.Signature) string {
	if sig.Recv() == nil {
		return ""
	}
	t := sig.Recv().Type()
	if p, ok := t.(*types.Pointer); ok {
		t = p.Elem()
	}
	if n, ok := t.(*types.Named); ok {
		return n.Obj().Name()
	}
	return ""
}

// sigString prints a signature without the receiver, with full package paths.
func sigString(sig *types.Signature, ptrRecv bool) string {
	s := types.TypeString(types.NewSignatureType(nil, nil, nil, sig.Params(), sig.Results(), sig.Variadic()), nil)
	if sig.Recv() != nil {
		if _, ok := sig.Recv().Type().(*types.Pointer); ok {
			return "*" + s
		}
		return "-" + s
	}
	return s
}

// shapeOf describes a named type independent of its own name.
func shapeOf(n *types.Named) string {
	self := types.TypeString(n, nil)
	var s string
	switch u := n.Underlying().(type) {
	case *types.Struct:
		var fs []string
		for i := 0; i < u.NumFields(); i++ {
			fs = append(fs, u.Field(i).Name()+" "+types.TypeString(u.Field(i).Type(), nil))
		}
		s = "struct{" + strings.Join(fs, "; ") + "}"
	default:
		s = types.TypeString(u, nil)
	}
	var ms []string
	for i := 0; i < n.NumMethods(); i++ {
		ms = append(ms, n.Method(i).Name())
	}
	sort.Strings(ms)
	s += " methods{" + strings.Join(ms, ",") + "}"
	return strings.ReplaceAll(s, self, "SELF")
}

// Generate prints the symbol table of the given packages.
func Generate(pkgs []*packages.Package, excluded func(string) bool) string {
	var out []string
	for _, pk := range pkgs {
		sc := pk.Types.Scope()
		for _, name := range sc.Names() {
			obj := sc.Lookup(name)
			if excluded(pk.Fset.Position(obj.Pos()).Filename) {
				continue
			}
			switch o := obj.(type) {
			case *types.Func:
				out = append(out, fmt.Sprintf("F %s %s | %s", pk.PkgPath, name, sigString(o.Type().(*types.Signature), false)))
			case *types.TypeName:
				n, ok := o.Type().(*types.Named)
				if !ok || o.IsAlias() {
					continue
				}
				out = append(out, fmt.Sprintf("T %s %s | %s", pk.PkgPath, name, shapeOf(n)))
				if st, ok := n.Underlying().(*types.Struct); ok {
					for i := 0; i < st.NumFields(); i++ {
						out = append(out, fmt.Sprintf("S %s %s %s | %s", pk.PkgPath, name, st.Field(i).Name(), types.TypeString(st.Field(i).Type(), nil)))
					}
				}
				for i := 0; i < n.NumMethods(); i++ {
					m := n.Method(i)
					if excluded(pk.Fset.Position(m.Pos()).Filename) {
						continue
					}
					out = append(out, fmt.Sprintf("M %s %s %s | %s", pk.PkgPath, name, m.Name(), sigString(m.Type().(*types.Signature), false)))
				}
			}
		}
	}
	sort.Strings(out)
	return strings.Join(out, "\n") + "\n"
}

// Renames is the result of matching the baseline against the current tree.
type Renames struct {
	Type    map[string]string      // "pkg.Old" -> new name
	TypeRev map[string]string      // "pkg.New" -> old name
	Func    map[string]*types.Func // "pkg.Old" -> current object
	Method  map[string]*types.Func // "pkg.OldType.Old" -> current object
	Field   map[string]*types.Var  // "pkg.OldStruct.Old" -> current field
	OldName map[types.Object]string
	Notes   []string
}

// Resolve matches missing baseline symbols with new symbols.
func Resolve(sym *Symbols, pkgs []*packages.Package) *Renames {
	r := &Renames{Type: map[string]string{}, TypeRev: map[string]string{}, Func: map[string]*types.Func{}, Method: map[string]*types.Func{}, Field: map[string]*types.Var{}, OldName: map[types.Object]string{}}
	for _, pk := range pkgs {
		path := pk.PkgPath
		sc := pk.Types.Scope()
		// ---- types
		var newTypes []*types.Named
		for _, name := range sc.Names() {
			if tn, ok := sc.Lookup(name).(*types.TypeName); ok && !tn.IsAlias() {
				if n, ok := tn.Type().(*types.Named); ok && sym.Types[path][name] == "" {
					newTypes = append(newTypes, n)
				}
			}
		}
		for old, shape := range sym.Types[path] {
			if sc.Lookup(old) != nil {
				continue
			}
			var cands []*types.Named
			for _, n := range newTypes {
				if shapeOf(n) == shape {
					cands = append(cands, n)
				}
			}
			if len(cands) == 1 {
				nn := cands[0].Obj().Name()
				r.Type[path+"."+old] = nn
				r.TypeRev[path+"."+nn] = old
				r.OldName[cands[0].Obj()] = old
				r.Notes = append(r.Notes, fmt.Sprintf("type %s.%s is now %s", path, old, nn))
			}
		}
		// old spelling of a type string of the current tree
		oldSpelling := func(s string) string {
			for k, old := range r.TypeRev {
				i := strings.LastIndex(k, ".")
				s = strings.ReplaceAll(s, k, k[:i+1]+old)
			}
			return s
		}
		// ---- functions
		var newFuncs []*types.Func
		for _, name := range sc.Names() {
			if f, ok := sc.Lookup(name).(*types.Func); ok && sym.Funcs[path][name] == "" {
				newFuncs = append(newFuncs, f)
			}
		}
		for old, sig := range sym.Funcs[path] {
			if sc.Lookup(old) != nil {
				continue
			}
			var cands []*types.Func
			for _, f := range newFuncs {
				if oldSpelling(sigString(f.Type().(*types.Signature), false)) == sig {
					cands = append(cands, f)
				}
			}
			if len(cands) == 1 {
				r.Func[path+"."+old] = cands[0]
				r.OldName[cands[0]] = old
				r.Notes = append(r.Notes, fmt.Sprintf("func %s.%s is now %s", path, old, cands[0].Name()))
			}
		}
		// ---- methods and fields, per (possibly renamed) type
		for oldT := range sym.Types[path] {
			cur := oldT
			if nn, ok := r.Type[path+"."+oldT]; ok {
				cur = nn
			}
			tn, ok := sc.Lookup(cur).(*types.TypeName)
			if !ok {
				continue
			}
			n, ok := tn.Type().(*types.Named)
			if !ok {
				continue
			}
			base := sym.Methods[path][oldT]
			have := map[string]*types.Func{}
			for i := 0; i < n.NumMethods(); i++ {
				have[n.Method(i).Name()] = n.Method(i)
			}
			for old, sig := range base {
				if have[old] != nil {
					continue
				}
				var cands []*types.Func
				for name, m := range have {
					if base[name] != "" {
						continue
					}
					if oldSpelling(sigString(m.Type().(*types.Signature), false)) == sig {
						cands = append(cands, m)
					}
				}
				if len(cands) == 1 {
					r.Method[path+"."+oldT+"."+old] = cands[0]
					r.OldName[cands[0]] = old
					r.Notes = append(r.Notes, fmt.Sprintf("method %s.%s.%s is now %s", path, oldT, old, cands[0].Name()))
				}
			}
			st, ok := n.Underlying().(*types.Struct)
			if !ok {
				continue
			}
			bf := sym.Fields[path][oldT]
			haveF := map[string]*types.Var{}
			for i := 0; i < st.NumFields(); i++ {
				haveF[st.Field(i).Name()] = st.Field(i)
			}
			for old, typ := range bf {
				if haveF[old] != nil {
					continue
				}
				var cands []*types.Var
				for name, f := range haveF {
					if bf[name] != "" {
						continue
					}
					if oldSpelling(types.TypeString(f.Type(), nil)) == typ {
						cands = append(cands, f)
					}
				}
				if len(cands) == 1 {
					r.Field[path+"."+oldT+"."+old] = cands[0]
					r.OldName[cands[0]] = old
					r.Notes = append(r.Notes, fmt.Sprintf("field %s.%s.%s is now %s", path, oldT, old, cands[0].Name()))
				}
			}
		}
	}
	sort.Strings(r.Notes)
	return r
}
