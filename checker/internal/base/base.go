// Package base holds the symbol table of the pinned tree (functions, methods,
// struct fields and named types of the module packages, with their types) and
// resolves renames: a baseline symbol that is missing from the current tree is
// matched with the unique symbol of the same kind, place and type that is new
// relative to the baseline. The rule tables name symbols of the pinned tree; a
// pure rename must not turn every rule that names the symbol into "anchor not
// found".
package base

import (
	_ "embed"
	"fmt"
	"go/ast"
	"go/token"
	"go/types"
	"hash/fnv"
	"reflect"
	"sort"
	"strconv"
	"strings"

	"golang.org/x/tools/go/packages"
)

//go:embed baseline_symbols.txt
var symbolsText string

// Symbols is the parsed baseline.
type Symbols struct {
	Funcs    map[string]map[string]string            // pkg -> name -> signature
	Methods  map[string]map[string]map[string]string // pkg -> type -> name -> signature
	Fields   map[string]map[string]map[string]string // pkg -> struct -> field -> type
	FieldIdx map[string]map[string]map[string]int    // pkg -> struct -> field -> position
	Types    map[string]map[string]string            // pkg -> name -> shape
	Loose    map[string]map[string]string            // pkg -> name -> shape without member names
	Sketch   map[string][]uint32                     // "pkg.Name" / "pkg.Type.Name" -> body sketch
	Callers  map[string][]string                     // function (display name) -> module functions calling it statically
}

func newSymbols() *Symbols {
	return &Symbols{Funcs: map[string]map[string]string{}, Methods: map[string]map[string]map[string]string{}, Fields: map[string]map[string]map[string]string{}, FieldIdx: map[string]map[string]map[string]int{}, Types: map[string]map[string]string{}, Loose: map[string]map[string]string{}, Sketch: map[string][]uint32{}, Callers: map[string][]string{}}
}

func parseSketch(s string) []uint32 {
	var out []uint32
	for _, f := range strings.Fields(s) {
		if v, err := strconv.ParseUint(f, 16, 32); err == nil {
			out = append(out, uint32(v))
		}
	}
	return out
}

// Load parses the embedded baseline.
func Load() *Symbols {
	s := newSymbols()
	for _, l := range strings.Split(symbolsText, "\n") {
		parts := strings.Split(l, " | ")
		if len(parts) < 2 {
			continue
		}
		if strings.HasPrefix(l, "C ") {
			s.Callers[strings.TrimPrefix(parts[0], "C ")] = strings.Split(parts[1], " ; ")
			continue
		}
		f := strings.Fields(parts[0])
		switch {
		case len(f) == 3 && f[0] == "F":
			m2(s.Funcs, f[1])[f[2]] = parts[1]
			if len(parts) > 2 {
				s.Sketch[f[1]+"."+f[2]] = parseSketch(parts[2])
			}
		case len(f) == 4 && f[0] == "M":
			m3(s.Methods, f[1], f[2])[f[3]] = parts[1]
			if len(parts) > 2 {
				s.Sketch[f[1]+"."+f[2]+"."+f[3]] = parseSketch(parts[2])
			}
		case len(f) == 4 && f[0] == "S" && len(parts) == 3:
			idx, _ := strconv.Atoi(parts[1])
			m3(s.Fields, f[1], f[2])[f[3]] = parts[2]
			if s.FieldIdx[f[1]] == nil {
				s.FieldIdx[f[1]] = map[string]map[string]int{}
			}
			if s.FieldIdx[f[1]][f[2]] == nil {
				s.FieldIdx[f[1]][f[2]] = map[string]int{}
			}
			s.FieldIdx[f[1]][f[2]][f[3]] = idx
		case len(f) == 3 && f[0] == "T":
			m2(s.Types, f[1])[f[2]] = parts[1]
			if len(parts) > 2 {
				m2(s.Loose, f[1])[f[2]] = parts[2]
			}
		}
	}
	return s
}

func m2(m map[string]map[string]string, a string) map[string]string {
	if m[a] == nil {
		m[a] = map[string]string{}
	}
	return m[a]
}

func m3(m map[string]map[string]map[string]string, a, b string) map[string]string {
	if m[a] == nil {
		m[a] = map[string]map[string]string{}
	}
	if m[a][b] == nil {
		m[a][b] = map[string]string{}
	}
	return m[a][b]
}

func unnamed(t *types.Tuple) *types.Tuple {
	var vs []*types.Var
	for i := 0; i < t.Len(); i++ {
		vs = append(vs, types.NewVar(token.NoPos, nil, "", t.At(i).Type()))
	}
	return types.NewTuple(vs...)
}

// sigString prints a signature without the receiver and without parameter
// names (renaming a parameter is not a change of the signature), with full
// package paths; the first character tells pointer from value receivers.
func sigString(sig *types.Signature) string {
	s := types.TypeString(types.NewSignatureType(nil, nil, nil, unnamed(sig.Params()), unnamed(sig.Results()), sig.Variadic()), nil)
	if sig.Recv() != nil {
		if _, ok := sig.Recv().Type().(*types.Pointer); ok {
			return "*" + s
		}
		return "-" + s
	}
	return s
}

// shapeOf describes a named type independent of its own name; loose also
// leaves out the names of fields and methods (their order and types stay).
func shapeOf(n *types.Named, loose bool) string {
	self := types.TypeString(n, nil)
	if n.TypeParams().Len() > 0 {
		self = types.TypeString(n.Origin(), nil)
		if i := strings.Index(self, "["); i > 0 {
			self = self[:i]
		}
	}
	var s string
	switch u := n.Underlying().(type) {
	case *types.Struct:
		var fs []string
		for i := 0; i < u.NumFields(); i++ {
			name := u.Field(i).Name() + " "
			if loose && !u.Field(i).Embedded() {
				name = ""
			}
			fs = append(fs, name+types.TypeString(u.Field(i).Type(), nil))
		}
		s = "struct{" + strings.Join(fs, "; ") + "}"
	default:
		s = types.TypeString(u, nil)
	}
	var ms []string
	for i := 0; i < n.NumMethods(); i++ {
		if loose {
			m := n.Method(i)
			if m.Exported() {
				ms = append(ms, m.Name())
			} else {
				ms = append(ms, "_")
			}
			continue
		}
		ms = append(ms, n.Method(i).Name())
	}
	sort.Strings(ms)
	s += " methods{" + strings.Join(ms, ",") + "}"
	return replaceWord(s, self, "SELF")
}

func isIdentByte(b byte) bool {
	return b == '_' || b >= '0' && b <= '9' || b >= 'a' && b <= 'z' || b >= 'A' && b <= 'Z' || b >= 0x80
}

// replaceWord replaces old where it is not followed by an identifier byte.
func replaceWord(s, old, new string) string {
	if old == "" || !strings.Contains(s, old) {
		return s
	}
	var b strings.Builder
	for {
		i := strings.Index(s, old)
		if i < 0 {
			b.WriteString(s)
			return b.String()
		}
		end := i + len(old)
		if end < len(s) && isIdentByte(s[end]) {
			b.WriteString(s[:end])
			s = s[end:]
			continue
		}
		b.WriteString(s[:i])
		b.WriteString(new)
		s = s[end:]
	}
}

// ---- body sketches ----
//
// The sketch of a function body is the bottom-k set of hashes of the 4-grams
// of its syntax-tree shape: node kinds, operators, literals and the names of
// things a refactoring of this module cannot rename (universe, other modules,
// exported symbols); every other identifier is a placeholder. A pure rename
// leaves the sketch unchanged.

const sketchK = 48

func bodyTokens(info *types.Info, isMod func(*types.Package) bool, body ast.Node) []string {
	var toks []string
	ast.Inspect(body, func(n ast.Node) bool {
		if n == nil {
			return false
		}
		switch x := n.(type) {
		case *ast.Ident:
			obj := info.Uses[x]
			if obj == nil {
				obj = info.Defs[x]
			}
			switch {
			case obj == nil:
				toks = append(toks, "id")
			case obj.Pkg() == nil || !isMod(obj.Pkg()):
				toks = append(toks, "id:"+obj.Name())
			case obj.Exported():
				toks = append(toks, "id:"+obj.Name())
			default:
				toks = append(toks, "id")
			}
			return false
		case *ast.BasicLit:
			toks = append(toks, "lit:"+x.Value)
			return false
		case *ast.BinaryExpr:
			toks = append(toks, "bin:"+x.Op.String())
		case *ast.UnaryExpr:
			toks = append(toks, "un:"+x.Op.String())
		case *ast.AssignStmt:
			toks = append(toks, "as:"+x.Tok.String())
		case *ast.IncDecStmt:
			toks = append(toks, "inc:"+x.Tok.String())
		case *ast.BranchStmt:
			toks = append(toks, "br:"+x.Tok.String())
			return false
		case *ast.LabeledStmt:
			toks = append(toks, "label")
		case *ast.CommentGroup, *ast.Comment:
			return false
		default:
			toks = append(toks, reflect.TypeOf(n).Elem().Name())
		}
		return true
	})
	return toks
}

func sketchOf(toks []string) []uint32 {
	set := map[uint32]bool{}
	const n = 4
	if len(toks) < n {
		h := fnv.New32a()
		h.Write([]byte(strings.Join(toks, " ")))
		set[h.Sum32()] = true
	}
	for i := 0; i+n <= len(toks); i++ {
		h := fnv.New32a()
		h.Write([]byte(strings.Join(toks[i:i+n], " ")))
		set[h.Sum32()] = true
	}
	var out []uint32
	for v := range set {
		out = append(out, v)
	}
	sort.Slice(out, func(i, j int) bool { return out[i] < out[j] })
	if len(out) > sketchK {
		out = out[:sketchK]
	}
	return out
}

// similarity estimates the Jaccard similarity of two bottom-k sketches.
func similarity(a, b []uint32) float64 {
	if len(a) == 0 || len(b) == 0 {
		return 0
	}
	// union's bottom-k, count of members present in both
	i, j, taken, both := 0, 0, 0, 0
	for taken < sketchK && (i < len(a) || j < len(b)) {
		switch {
		case j >= len(b) || i < len(a) && a[i] < b[j]:
			i++
		case i >= len(a) || b[j] < a[i]:
			j++
		default:
			both++
			i++
			j++
		}
		taken++
	}
	return float64(both) / float64(taken)
}

func sketchString(s []uint32) string {
	var fs []string
	for _, v := range s {
		fs = append(fs, strconv.FormatUint(uint64(v), 16))
	}
	return strings.Join(fs, " ")
}

// bodySketches maps every function object declared in the packages to the
// sketch of its body.
func bodySketches(pkgs []*packages.Package) map[*types.Func][]uint32 {
	mod := map[*types.Package]bool{}
	for _, pk := range pkgs {
		mod[pk.Types] = true
	}
	isMod := func(p *types.Package) bool {
		return mod[p] || strings.HasPrefix(p.Path(), "github.com/lightninglabs/neutrino")
	}
	out := map[*types.Func][]uint32{}
	for _, pk := range pkgs {
		for _, f := range pk.Syntax {
			for _, d := range f.Decls {
				fd, ok := d.(*ast.FuncDecl)
				if !ok || fd.Body == nil {
					continue
				}
				if obj, ok := pk.TypesInfo.Defs[fd.Name].(*types.Func); ok {
					out[obj] = sketchOf(bodyTokens(pk.TypesInfo, isMod, fd.Body))
				}
			}
		}
	}
	return out
}

// typeNames: the package-level named types plus the function-local ones whose
// name is unique in the package.
func typeNames(pk *packages.Package) map[string]*types.TypeName {
	out := map[string]*types.TypeName{}
	sc := pk.Types.Scope()
	for _, name := range sc.Names() {
		if tn, ok := sc.Lookup(name).(*types.TypeName); ok {
			out[name] = tn
		}
	}
	local := map[string][]*types.TypeName{}
	for _, obj := range pk.TypesInfo.Defs {
		tn, ok := obj.(*types.TypeName)
		if !ok || tn.Parent() == sc || tn.Parent() == nil {
			continue
		}
		if _, isNamed := tn.Type().(*types.Named); !isNamed {
			continue
		}
		local[tn.Name()] = append(local[tn.Name()], tn)
	}
	for name, l := range local {
		if len(l) == 1 && out[name] == nil {
			out[name] = l[0]
		}
	}
	return out
}

// Generate prints the symbol table of the given packages.
func Generate(pkgs []*packages.Package, excluded func(string) bool) string {
	var out []string
	sk := bodySketches(pkgs)
	for _, pk := range pkgs {
		sc := pk.Types.Scope()
		for _, name := range sc.Names() {
			obj := sc.Lookup(name)
			if excluded(pk.Fset.Position(obj.Pos()).Filename) {
				continue
			}
			if o, ok := obj.(*types.Func); ok {
				out = append(out, fmt.Sprintf("F %s %s | %s | %s", pk.PkgPath, name, sigString(o.Type().(*types.Signature)), sketchString(sk[o])))
			}
		}
		for name, o := range typeNames(pk) {
			if excluded(pk.Fset.Position(o.Pos()).Filename) {
				continue
			}
			n, ok := o.Type().(*types.Named)
			if !ok || o.IsAlias() {
				continue
			}
			out = append(out, fmt.Sprintf("T %s %s | %s | %s", pk.PkgPath, name, shapeOf(n, false), shapeOf(n, true)))
			if st, ok := n.Underlying().(*types.Struct); ok {
				for i := 0; i < st.NumFields(); i++ {
					out = append(out, fmt.Sprintf("S %s %s %s | %d | %s", pk.PkgPath, name, st.Field(i).Name(), i, types.TypeString(st.Field(i).Type(), nil)))
				}
			}
			for i := 0; i < n.NumMethods(); i++ {
				m := n.Method(i)
				if excluded(pk.Fset.Position(m.Pos()).Filename) {
					continue
				}
				out = append(out, fmt.Sprintf("M %s %s %s | %s | %s", pk.PkgPath, name, m.Name(), sigString(m.Type().(*types.Signature)), sketchString(sk[m])))
			}
		}
	}
	for callee, callers := range callersOf(pkgs, excluded) {
		out = append(out, fmt.Sprintf("C %s | %s", callee, strings.Join(callers, " ; ")))
	}
	sort.Strings(out)
	return strings.Join(out, "\n") + "\n"
}

const modPath = "github.com/lightninglabs/neutrino"

// DisplayName spells a function the way the rule tables do:
// "neutrino.f", "(*headerfs.blockHeaderStore).WriteHeaders",
// "(*cache/lru.Cache[K, V]).Put".
func DisplayName(f *types.Func) string {
	f = f.Origin()
	rel := func(p *types.Package) string {
		if p == nil {
			return ""
		}
		if p.Path() == modPath {
			return "neutrino"
		}
		return strings.TrimPrefix(p.Path(), modPath+"/")
	}
	sig, _ := f.Type().(*types.Signature)
	if sig == nil || sig.Recv() == nil {
		return rel(f.Pkg()) + "." + f.Name()
	}
	t := sig.Recv().Type()
	star := ""
	if p, ok := t.(*types.Pointer); ok {
		star, t = "*", p.Elem()
	}
	name := types.TypeString(t, func(p *types.Package) string { return rel(p) })
	return "(" + star + name + ")." + f.Name()
}

// callersOf: static calls between module functions (function literals are
// attributed to the declared function they are written in).
func callersOf(pkgs []*packages.Package, excluded func(string) bool) map[string][]string {
	mod := map[*types.Package]bool{}
	for _, pk := range pkgs {
		mod[pk.Types] = true
	}
	set := map[string]map[string]bool{}
	for _, pk := range pkgs {
		for _, f := range pk.Syntax {
			if excluded(pk.Fset.Position(f.Pos()).Filename) {
				continue
			}
			for _, d := range f.Decls {
				fd, ok := d.(*ast.FuncDecl)
				if !ok || fd.Body == nil {
					continue
				}
				caller, _ := pk.TypesInfo.Defs[fd.Name].(*types.Func)
				if caller == nil {
					continue
				}
				ast.Inspect(fd.Body, func(n ast.Node) bool {
					var id *ast.Ident
					switch x := n.(type) {
					case *ast.Ident:
						id = x
					case *ast.SelectorExpr:
						id = x.Sel
					}
					if id == nil {
						return true
					}
					callee, _ := pk.TypesInfo.Uses[id].(*types.Func)
					if callee == nil || !mod[callee.Pkg()] || callee.Origin() == caller {
						return true
					}
					k := DisplayName(callee)
					if set[k] == nil {
						set[k] = map[string]bool{}
					}
					set[k][DisplayName(caller)] = true
					return true
				})
			}
		}
	}
	out := map[string][]string{}
	for k, m := range set {
		for c := range m {
			out[k] = append(out[k], c)
		}
		sort.Strings(out[k])
	}
	return out
}

// Renames is the result of matching the baseline against the current tree.
type Renames struct {
	Type    map[string]string      // "pkg.Old" -> new name
	TypeRev map[string]string      // "pkg.New" -> old name
	Func    map[string]*types.Func // "pkg.Old" -> current object
	Method  map[string]*types.Func // "pkg.OldType.Old" -> current object
	Field   map[string]*types.Var  // "pkg.OldStruct.Old" -> current field
	OldName map[types.Object]string
	Notes   []string
	// Conv: unexported functions turned into methods or the reverse (the
	// receiver became a parameter); the analyser undoes these at source level.
	Conv []Conversion
}

// Conversion: the baseline symbol OldName (a method of OldType when
// OldIsMethod) is now New, with the receiver value at parameter position K of
// the function-shaped side.
type Conversion struct {
	Pkg, OldType, OldName string
	OldIsMethod           bool
	New                   *types.Func
	K                     int
}

// withParam returns the signature's parameter types with t inserted at k.
func withParam(sig *types.Signature, k int, t types.Type) *types.Signature {
	var vs []*types.Var
	for i := 0; i <= sig.Params().Len(); i++ {
		if i == k {
			vs = append(vs, types.NewVar(token.NoPos, nil, "", t))
		}
		if i < sig.Params().Len() {
			vs = append(vs, types.NewVar(token.NoPos, nil, "", sig.Params().At(i).Type()))
		}
	}
	return types.NewSignatureType(nil, nil, nil, types.NewTuple(vs...), sig.Results(), sig.Variadic())
}

// withoutParam returns the signature without parameter k.
func withoutParam(sig *types.Signature, k int) *types.Signature {
	var vs []*types.Var
	for i := 0; i < sig.Params().Len(); i++ {
		if i != k {
			vs = append(vs, types.NewVar(token.NoPos, nil, "", sig.Params().At(i).Type()))
		}
	}
	return types.NewSignatureType(nil, nil, nil, types.NewTuple(vs...), sig.Results(), sig.Variadic())
}

// matchFuncs pairs missing baseline functions with new ones: equal signature
// is required; among several candidates the bodies decide (clearly most
// similar on both sides).
func matchFuncs(olds []string, oldSig func(string) string, oldSketch func(string) []uint32, news []*types.Func, newSig func(*types.Func) string, sk map[*types.Func][]uint32) map[string]*types.Func {
	out := map[string]*types.Func{}
	sort.Strings(olds)
	cands := map[string][]*types.Func{}
	claims := map[*types.Func][]string{}
	for _, o := range olds {
		for _, f := range news {
			if newSig(f) == oldSig(o) {
				cands[o] = append(cands[o], f)
				claims[f] = append(claims[f], o)
			}
		}
	}
	sim := func(o string, f *types.Func) float64 { return similarity(oldSketch(o), sk[f]) }
	for _, o := range olds {
		cs := cands[o]
		if len(cs) == 0 {
			continue
		}
		if len(cs) == 1 && len(claims[cs[0]]) == 1 {
			out[o] = cs[0]
			continue
		}
		// best candidate for o, by a clear margin, and o the best claimant of it
		sort.Slice(cs, func(i, j int) bool { return sim(o, cs[i]) > sim(o, cs[j]) })
		best := cs[0]
		bs := sim(o, best)
		if bs < 0.5 {
			continue
		}
		if len(cs) > 1 && bs-sim(o, cs[1]) < 0.2 {
			continue
		}
		ok := true
		for _, other := range claims[best] {
			if other != o && bs-sim(other, best) < 0.2 {
				ok = false
			}
		}
		if ok {
			out[o] = best
		}
	}
	return out
}

// Resolve matches missing baseline symbols with new symbols.
func Resolve(sym *Symbols, pkgs []*packages.Package) *Renames {
	r := &Renames{Type: map[string]string{}, TypeRev: map[string]string{}, Func: map[string]*types.Func{}, Method: map[string]*types.Func{}, Field: map[string]*types.Var{}, OldName: map[types.Object]string{}}
	sk := bodySketches(pkgs)
	for _, pk := range pkgs {
		path := pk.PkgPath
		sc := pk.Types.Scope()
		// ---- types
		tns := typeNames(pk)
		var newTypes []*types.Named
		for name, tn := range tns {
			if !tn.IsAlias() {
				if n, ok := tn.Type().(*types.Named); ok && sym.Types[path][name] == "" {
					newTypes = append(newTypes, n)
				}
			}
		}
		sort.Slice(newTypes, func(i, j int) bool { return newTypes[i].Obj().Name() < newTypes[j].Obj().Name() })
		var oldTypes []string
		for old := range sym.Types[path] {
			if tns[old] == nil && sc.Lookup(old) == nil {
				oldTypes = append(oldTypes, old)
			}
		}
		sort.Strings(oldTypes)
		// old spelling of a type string of the current tree
		oldSpelling := func(s string) string {
			for k, old := range r.TypeRev {
				i := strings.LastIndex(k, ".")
				s = replaceWord(s, k, k[:i+1]+old)
			}
			return s
		}
		// blank out the names of types whose fate is still open, on both sides
		blank := func(s string) string {
			for _, o := range oldTypes {
				if _, done := r.Type[path+"."+o]; !done {
					s = replaceWord(s, path+"."+o, path+".?")
				}
			}
			for _, n := range newTypes {
				if _, done := r.TypeRev[path+"."+n.Obj().Name()]; !done {
					s = replaceWord(s, path+"."+n.Obj().Name(), path+".?")
				}
			}
			return s
		}
		for round := 0; round < 4; round++ {
			progress := false
			for _, loose := range []bool{false, true} {
				pairs := map[string][]*types.Named{}
				claims := map[*types.Named]int{}
				for _, old := range oldTypes {
					if _, done := r.Type[path+"."+old]; done {
						continue
					}
					want := sym.Types[path][old]
					if loose {
						want = sym.Loose[path][old]
					}
					if want == "" {
						continue
					}
					want = blank(want)
					for _, n := range newTypes {
						if _, done := r.TypeRev[path+"."+n.Obj().Name()]; done {
							continue
						}
						if blank(oldSpelling(shapeOf(n, loose))) == want {
							pairs[old] = append(pairs[old], n)
							claims[n]++
						}
					}
				}
				for _, old := range oldTypes {
					cs := pairs[old]
					if len(cs) != 1 || claims[cs[0]] != 1 {
						continue
					}
					nn := cs[0].Obj().Name()
					r.Type[path+"."+old] = nn
					r.TypeRev[path+"."+nn] = old
					r.OldName[cs[0].Obj()] = old
					r.Notes = append(r.Notes, fmt.Sprintf("type %s.%s is now %s", path, old, nn))
					progress = true
				}
				if progress {
					break
				}
			}
			if !progress {
				break
			}
		}
		// ---- functions
		var newFuncs []*types.Func
		for _, name := range sc.Names() {
			if f, ok := sc.Lookup(name).(*types.Func); ok && sym.Funcs[path][name] == "" {
				newFuncs = append(newFuncs, f)
			}
		}
		var oldFuncs []string
		for old := range sym.Funcs[path] {
			if sc.Lookup(old) == nil {
				oldFuncs = append(oldFuncs, old)
			}
		}
		newSig := func(f *types.Func) string { return oldSpelling(sigString(f.Type().(*types.Signature))) }
		for old, f := range matchFuncs(oldFuncs, func(o string) string { return sym.Funcs[path][o] }, func(o string) []uint32 { return sym.Sketch[path+"."+o] }, newFuncs, newSig, sk) {
			r.Func[path+"."+old] = f
			r.OldName[f] = old
			r.Notes = append(r.Notes, fmt.Sprintf("func %s.%s is now %s", path, old, f.Name()))
		}
		type oldMethod struct{ typ, name, sig string }
		var leftOldMethods []oldMethod
		var leftNewMethods []*types.Func
		// ---- methods and fields, per (possibly renamed) type
		for oldT := range sym.Types[path] {
			oldT := oldT
			cur := oldT
			if nn, ok := r.Type[path+"."+oldT]; ok {
				cur = nn
			}
			tn := tns[cur]
			if tn == nil {
				continue
			}
			n, ok := tn.Type().(*types.Named)
			if !ok {
				continue
			}
			base := sym.Methods[path][oldT]
			var newMs []*types.Func
			have := map[string]bool{}
			for i := 0; i < n.NumMethods(); i++ {
				have[n.Method(i).Name()] = true
				if base[n.Method(i).Name()] == "" {
					newMs = append(newMs, n.Method(i))
				}
			}
			var oldMs []string
			for old := range base {
				if !have[old] {
					oldMs = append(oldMs, old)
				}
			}
			matched := matchFuncs(oldMs, func(o string) string { return base[o] }, func(o string) []uint32 { return sym.Sketch[path+"."+oldT+"."+o] }, newMs, newSig, sk)
			for old, m := range matched {
				r.Method[path+"."+oldT+"."+old] = m
				r.OldName[m] = old
				r.Notes = append(r.Notes, fmt.Sprintf("method %s.%s.%s is now %s", path, oldT, old, m.Name()))
			}
			for _, o := range oldMs {
				if matched[o] == nil {
					leftOldMethods = append(leftOldMethods, oldMethod{oldT, o, base[o]})
				}
			}
			for _, m := range newMs {
				if _, isRenamed := r.OldName[m]; !isRenamed && n.TypeParams().Len() == 0 {
					leftNewMethods = append(leftNewMethods, m)
				}
			}
			st, ok := n.Underlying().(*types.Struct)
			if !ok {
				continue
			}
			bf := sym.Fields[path][oldT]
			haveF := map[string]*types.Var{}
			for i := 0; i < st.NumFields(); i++ {
				haveF[st.Field(i).Name()] = st.Field(i)
			}
			taken := map[*types.Var]bool{}
			note := func(old string, f *types.Var) {
				r.Field[path+"."+oldT+"."+old] = f
				r.OldName[f] = old
				taken[f] = true
				r.Notes = append(r.Notes, fmt.Sprintf("field %s.%s.%s is now %s", path, oldT, old, f.Name()))
			}
			var missing []string
			for old := range bf {
				if haveF[old] == nil {
					missing = append(missing, old)
				}
			}
			sort.Strings(missing)
			// same position, same type, a name the baseline does not know
			sameLen := len(bf) == st.NumFields()
			var rest []string
			for _, old := range missing {
				idx, okIdx := sym.FieldIdx[path][oldT][old]
				if okIdx && sameLen && idx < st.NumFields() {
					f := st.Field(idx)
					if bf[f.Name()] == "" && oldSpelling(types.TypeString(f.Type(), nil)) == bf[old] {
						note(old, f)
						continue
					}
				}
				rest = append(rest, old)
			}
			for _, old := range rest {
				var cands []*types.Var
				for name, f := range haveF {
					if bf[name] != "" || taken[f] {
						continue
					}
					if oldSpelling(types.TypeString(f.Type(), nil)) == bf[old] {
						cands = append(cands, f)
					}
				}
				claimants := 0
				for _, o2 := range rest {
					if bf[o2] == bf[old] {
						claimants++
					}
				}
				if len(cands) == 1 && claimants == 1 {
					note(old, cands[0])
				}
			}
		}
		// ---- function <-> method conversions among what is left
		sort.Slice(leftNewMethods, func(i, j int) bool { return leftNewMethods[i].FullName() < leftNewMethods[j].FullName() })
		sort.Slice(leftOldMethods, func(i, j int) bool {
			return leftOldMethods[i].typ+"."+leftOldMethods[i].name < leftOldMethods[j].typ+"."+leftOldMethods[j].name
		})
		type cand struct {
			f *types.Func
			k int
		}
		claimed := map[*types.Func]int{}
		byOld := map[string][]cand{}
		sort.Strings(oldFuncs)
		for _, o := range oldFuncs {
			if r.Func[path+"."+o] != nil {
				continue
			}
			for _, m := range leftNewMethods {
				sig := m.Type().(*types.Signature)
				if sig.TypeParams().Len() > 0 {
					continue
				}
				for k := 0; k <= sig.Params().Len(); k++ {
					if sig.Variadic() && k == sig.Params().Len() {
						continue
					}
					if oldSpelling(sigString(withParam(sig, k, sig.Recv().Type()))) == sym.Funcs[path][o] {
						byOld["F "+o] = append(byOld["F "+o], cand{m, k})
						claimed[m]++
					}
				}
			}
		}
		for _, om := range leftOldMethods {
			curT := om.typ
			if nn, ok := r.Type[path+"."+om.typ]; ok {
				curT = nn
			}
			for _, f := range newFuncs {
				if _, isRenamed := r.OldName[f]; isRenamed {
					continue
				}
				sig := f.Type().(*types.Signature)
				if sig.TypeParams().Len() > 0 {
					continue
				}
				for k := 0; k < sig.Params().Len(); k++ {
					if sig.Variadic() && k == sig.Params().Len()-1 {
						continue
					}
					pt := sig.Params().At(k).Type()
					prefix := "-"
					if p, ok := pt.(*types.Pointer); ok {
						prefix, pt = "*", p.Elem()
					}
					nt, ok := pt.(*types.Named)
					if !ok || nt.Obj().Pkg() != pk.Types || nt.Obj().Name() != curT {
						continue
					}
					if prefix+oldSpelling(sigString(withoutParam(sig, k))) == om.sig {
						key := "M " + om.typ + " " + om.name
						byOld[key] = append(byOld[key], cand{f, k})
						claimed[f]++
					}
				}
			}
		}
		var keys []string
		for k := range byOld {
			keys = append(keys, k)
		}
		sort.Strings(keys)
		for _, key := range keys {
			cs := byOld[key]
			if len(cs) != 1 || claimed[cs[0].f] != 1 {
				continue
			}
			f := strings.Fields(key)
			if f[0] == "F" {
				r.Conv = append(r.Conv, Conversion{Pkg: path, OldName: f[1], New: cs[0].f, K: cs[0].k})
				r.Notes = append(r.Notes, fmt.Sprintf("func %s.%s is now the method %s (its receiver was parameter %d)", path, f[1], cs[0].f.FullName(), cs[0].k))
			} else {
				r.Conv = append(r.Conv, Conversion{Pkg: path, OldType: f[1], OldName: f[2], OldIsMethod: true, New: cs[0].f, K: cs[0].k})
				r.Notes = append(r.Notes, fmt.Sprintf("method %s.%s.%s is now the function %s (its receiver is parameter %d)", path, f[1], f[2], cs[0].f.Name(), cs[0].k))
			}
		}
	}
	sort.Strings(r.Notes)
	return r
}
