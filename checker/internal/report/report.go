// Package report collects obligations, matches them against the committed
// known-findings file and writes evidence and replay files.
package report

import (
	"encoding/json"
	"fmt"
	"os"
	"path/filepath"
	"sort"
	"strings"
	"time"
)

// Status of an obligation.
const (
	OK        = "discharged"
	Violation = "violation"
	Undecided = "undecided"
)

// Ob is one proof obligation of a rule: a named structural fact about one
// construct of the program, with the verdict the engine reached.
type Ob struct {
	Rule       string   `json:"rule"`
	Construct  string   `json:"construct"` // symbol-level key, never a line number
	Pos        string   `json:"pos,omitempty"`
	Status     string   `json:"status"`
	Detail     string   `json:"detail,omitempty"`
	Sites      []string `json:"sites,omitempty"` // effect / guard / path sites inspected
	Nontrivial bool     `json:"nontrivial"`
	Known      bool     `json:"known_finding,omitempty"`
}

// Run accumulates one check run.
type Run struct {
	Property    string
	Tier        string
	Seed        int64
	Start       time.Time
	Obs         []Ob
	Rules       map[string]string // rule id -> what it decides
	RuleOrder   []string
	Funcs       map[string]bool
	CallSites   int
	Packages    int
	FuncsTotal  int
	Assumptions []string
	NotDecided  []string
	Broken      []string // reasons the check itself is broken (exit 2)
	Extra       map[string]any
}

// NewRun creates a run.
func NewRun(prop, tier string, seed int64) *Run {
	return &Run{Property: prop, Tier: tier, Seed: seed, Start: time.Now(),
		Rules: map[string]string{}, Funcs: map[string]bool{}, Extra: map[string]any{}}
}

// Describe registers what a rule decides (shown in evidence).
func (r *Run) Describe(rule, what string) {
	if _, ok := r.Rules[rule]; !ok {
		r.RuleOrder = append(r.RuleOrder, rule)
	}
	r.Rules[rule] = what
}

// Add records an obligation.
func (r *Run) Add(o Ob) { r.Obs = append(r.Obs, o) }

// Known is one entry of known_findings.json.
type Known struct {
	Property  string `json:"property"`
	Rule      string `json:"rule"`
	Construct string `json:"construct"`
	What      string `json:"what"`
	Finding   string `json:"finding,omitempty"`
	Status    string `json:"status"` // "open" | "fixed"
	Commit    string `json:"commit,omitempty"`
}

// LoadKnown reads the committed known-findings file. It is never written at
// run time.
func LoadKnown(path string) ([]Known, error) {
	b, err := os.ReadFile(path)
	if err != nil {
		if os.IsNotExist(err) {
			return nil, nil
		}
		return nil, err
	}
	var doc struct {
		Findings []Known `json:"findings"`
	}
	if err := json.Unmarshal(b, &doc); err != nil {
		return nil, fmt.Errorf("%s: %v", path, err)
	}
	return doc.Findings, nil
}

// Finish matches failing obligations with open known findings, prints the
// protocol lines, writes evidence and replay files, and returns the exit code.
func (r *Run) Finish(verifDir string, known []Known) int {
	sort.SliceStable(r.Obs, func(i, j int) bool {
		if r.Obs[i].Rule != r.Obs[j].Rule {
			return r.Obs[i].Rule < r.Obs[j].Rule
		}
		return r.Obs[i].Construct < r.Obs[j].Construct
	})
	// duplicate construct keys would make known-finding matching ambiguous.
	seenKey := map[string]int{}
	for i := range r.Obs {
		k := r.Obs[i].Rule + "|" + r.Obs[i].Construct
		seenKey[k]++
		if seenKey[k] > 1 {
			r.Obs[i].Construct = fmt.Sprintf("%s #%d", r.Obs[i].Construct, seenKey[k])
		}
	}
	open := map[string]Known{}
	for _, k := range known {
		if k.Property == r.Property && k.Status == "open" {
			open[k.Rule+"|"+k.Construct] = k
		}
	}
	var viol []int
	discharged, nontriv, knownMatched := 0, 0, 0
	distinct := map[string]bool{}
	for i := range r.Obs {
		o := &r.Obs[i]
		if o.Nontrivial {
			distinct[o.Rule+"|"+o.Construct] = true
		}
		switch o.Status {
		case OK:
			discharged++
		default:
			if k, ok := open[o.Rule+"|"+o.Construct]; ok {
				o.Known = true
				knownMatched++
				fmt.Printf("KNOWN-FINDING: property=%s %s %s [%s] %s — %s\n", r.Property, k.Finding, o.Rule, o.Construct, o.Pos, k.What)
			} else {
				viol = append(viol, i)
			}
		}
	}
	nontriv = len(distinct)
	usedOpen := map[string]bool{}
	for _, o := range r.Obs {
		if o.Known {
			usedOpen[o.Rule+"|"+o.Construct] = true
		}
	}
	var stale []string
	for k := range open {
		if !usedOpen[k] {
			stale = append(stale, k)
		}
	}
	sort.Strings(stale)

	os.MkdirAll(filepath.Join(verifDir, "replay"), 0o755)
	os.MkdirAll(filepath.Join(verifDir, "evidence"), 0o755)
	// remove replay files of earlier runs of this property
	old, _ := filepath.Glob(filepath.Join(verifDir, "replay", r.Property+"-*.json"))
	for _, f := range old {
		os.Remove(f)
	}
	for n, i := range viol {
		o := r.Obs[i]
		path := filepath.Join(verifDir, "replay", fmt.Sprintf("%s-%d.json", r.Property, n+1))
		b, _ := json.MarshalIndent(map[string]any{
			"property": r.Property, "tier": r.Tier, "obligation": o,
			"rule_decides":  r.Rules[o.Rule],
			"how_to_replay": fmt.Sprintf("cd /verif && ./check.sh %s %s   # re-analyses /repo and re-evaluates this obligation", r.Property, r.Tier),
		}, "", " ")
		os.WriteFile(path, b, 0o644)
		pos := o.Pos
		if pos == "" {
			pos = "-"
		}
		fmt.Printf("%s: %s %s [%s] %s: %s\n", strings.ToUpper(o.Status), pos, o.Rule, o.Construct, r.Rules[o.Rule], o.Detail)
		fmt.Printf("VIOLATION property=%s replay=%s\n", r.Property, path)
	}
	for _, b := range r.Broken {
		fmt.Printf("CHECK-BROKEN property=%s %s\n", r.Property, b)
	}

	// evidence
	var expl []string
	for _, id := range r.RuleOrder {
		expl = append(expl, id+": "+r.Rules[id])
	}
	samples := []any{}
	for _, o := range r.Obs {
		samples = append(samples, o)
	}
	funcs := make([]string, 0, len(r.Funcs))
	for f := range r.Funcs {
		funcs = append(funcs, f)
	}
	sort.Strings(funcs)
	cov := map[string]any{
		"explanation": "Static analysis of /repo's current source (go/packages + go/types + go/ssa; nothing is executed). " +
			"Each obligation is a structural necessary condition of the property (the mechanism clause), not the behaviour itself. Rules: " +
			strings.Join(expl, " || "),
		"obligations":            len(r.Obs),
		"discharged":             discharged,
		"known_findings_matched": knownMatched,
		"evaluations":            len(r.Obs),
		"distinct_nontrivial":    nontriv,
		"rule": "one evaluation per (rule, construct) obligation enumerated from the frozen rule table over the current source; " +
			"non-trivial = the obligation had at least one concrete subject site (guard, effect, access, path) in the program",
		"exhaustive":           true,
		"samples":              samples,
		"functions_analysed":   funcs,
		"functions_in_program": r.FuncsTotal,
		"packages":             r.Packages,
		"call_sites_inspected": r.CallSites,
		"not_decided":          r.NotDecided,
		"stale_known_findings": stale,
		"checker_cmd":          fmt.Sprintf("./check.sh %s %s", r.Property, r.Tier),
		"trusted_base":         []string{"go/types, go/ssa (x/tools v0.29.0)", "frozen rule tables in /verif/checker/internal/rules"},
	}
	for k, v := range r.Extra {
		cov[k] = v
	}
	ev := map[string]any{
		"property_id": r.Property,
		"tier":        r.Tier,
		"seed":        r.Seed,
		"level":       "other",
		"coverage":    cov,
		"assumptions": r.Assumptions,
		"wall_s":      time.Since(r.Start).Seconds(),
		"violations":  len(viol),
	}
	b, _ := json.MarshalIndent(ev, "", " ")
	if err := os.WriteFile(filepath.Join(verifDir, "evidence", r.Property+".json"), b, 0o644); err != nil {
		fmt.Printf("CHECK-BROKEN property=%s cannot write evidence: %v\n", r.Property, err)
		return 2
	}
	fmt.Printf("%s %s: %d obligations, %d discharged, %d known findings, %d violations, %d functions, %.1fs\n",
		r.Property, r.Tier, len(r.Obs), discharged, knownMatched, len(viol), len(funcs), time.Since(r.Start).Seconds())
	if len(r.Broken) > 0 {
		return 2
	}
	if len(viol) > 0 {
		return 1
	}
	return 0
}
