package ir

import (
	"go/types"

	"golang.org/x/tools/go/ssa"
)

// Function-value aliases. A testability refactoring routes a hard-wired call
// through a seam that production code fills with the original function and
// never changes: a package-level variable (`var checkSanity =
// blockchain.CheckBlockHeaderSanity`), a func-typed struct field set in
// constructors only (`deps.newTicker = time.NewTicker`), an unexported
// function's func-typed parameter that every call site gives the same function.
// Where the set of functions that can reach such a variable / field /
// parameter in the analysed (non-test) program is a singleton, a call through
// it IS a call of that function, and Resolve says so. Anything else (a second
// assignment anywhere, an exported function's parameter, a value that is not a
// plain function) leaves the call dynamic, as before.
var (
	aliasGlobal = map[*ssa.Global]*ssa.Function{}
	aliasField  = map[*types.Var]*ssa.Function{}
	aliasParam  = map[*ssa.Parameter]*ssa.Function{}
)

// AliasOf: the one function value v can denote, or nil.
func AliasOf(v ssa.Value) *ssa.Function { return aliasOf(v, 0) }

func aliasOf(v ssa.Value, d int) *ssa.Function {
	if v == nil || d > 6 {
		return nil
	}
	switch x := v.(type) {
	case *ssa.Function:
		if x.Parent() != nil {
			return nil // a closure is not "the original function"
		}
		return x
	case *ssa.ChangeType:
		return aliasOf(x.X, d+1)
	case *ssa.MakeInterface:
		return nil
	case *ssa.Parameter:
		return aliasParam[x]
	case *ssa.Field:
		if f := FieldOfValue(x); f != nil {
			return aliasField[f]
		}
	case *ssa.UnOp:
		switch a := x.X.(type) {
		case *ssa.Global:
			return aliasGlobal[a]
		case *ssa.FieldAddr:
			if f := FieldOfAddr(a); f != nil {
				return aliasField[f]
			}
		case *ssa.Alloc:
			var only *ssa.Function
			n := 0
			for _, r := range Refs(a) {
				if st, ok := r.(*ssa.Store); ok && st.Addr == ssa.Value(a) {
					n++
					only = aliasOf(st.Val, d+1)
				}
			}
			if n == 1 {
				return only
			}
		}
	}
	return nil
}

// buildAliases computes the three tables for one program by iteration to a
// fixed point (a field filled from a parameter filled from a function).
func (p *Program) buildAliases() {
	isFunc := func(t types.Type) bool {
		_, ok := t.Underlying().(*types.Signature)
		return ok
	}
	type cand struct {
		vals []ssa.Value
	}
	globals := map[*ssa.Global]*cand{}
	fields := map[*types.Var]*cand{}
	params := map[*ssa.Parameter]*cand{}
	calledFns := map[*ssa.Function]bool{}
	for _, fn := range p.Funcs {
		Instrs(fn, func(in ssa.Instruction) {
			switch x := in.(type) {
			case *ssa.Store:
				if !isFunc(x.Val.Type()) {
					return
				}
				switch a := x.Addr.(type) {
				case *ssa.Global:
					if globals[a] == nil {
						globals[a] = &cand{}
					}
					globals[a].vals = append(globals[a].vals, x.Val)
				case *ssa.FieldAddr:
					if f := FieldOfAddr(a); f != nil {
						if fields[f] == nil {
							fields[f] = &cand{}
						}
						fields[f].vals = append(fields[f].vals, x.Val)
					}
				}
			}
			cc := CallOf(in)
			if cc == nil || cc.IsInvoke() {
				return
			}
			callee := cc.StaticCallee()
			if callee == nil || callee.Object() == nil || callee.Object().Exported() || !p.IsModPkg(callee.Object().Pkg()) {
				return
			}
			if callee.Signature.Variadic() {
				return
			}
			calledFns[callee] = true
			for i, a := range cc.Args {
				if i < len(callee.Params) && isFunc(callee.Params[i].Type()) {
					pr := callee.Params[i]
					if params[pr] == nil {
						params[pr] = &cand{}
					}
					params[pr].vals = append(params[pr].vals, a)
				}
			}
		})
	}
	// a function whose value is taken (stored, passed on) can be called from
	// anywhere: its parameters are not resolved
	escaping := map[*ssa.Function]bool{}
	for _, fn := range p.Funcs {
		Instrs(fn, func(in ssa.Instruction) {
			for _, op := range in.Operands(nil) {
				if op == nil || *op == nil {
					continue
				}
				f, ok := (*op).(*ssa.Function)
				if !ok {
					continue
				}
				if cc := CallOf(in); cc != nil && cc.Value == ssa.Value(f) {
					continue
				}
				escaping[f] = true
			}
		})
	}
	single := func(c *cand) *ssa.Function {
		var only *ssa.Function
		for _, v := range c.vals {
			f := AliasOf(v)
			if f == nil {
				return nil
			}
			if only != nil && only != f {
				return nil
			}
			only = f
		}
		return only
	}
	for round := 0; round < 4; round++ {
		for g, c := range globals {
			if f := single(c); f != nil {
				aliasGlobal[g] = f
			}
		}
		for fl, c := range fields {
			if f := single(c); f != nil {
				aliasField[fl] = f
			}
		}
		for pr, c := range params {
			if escaping[pr.Parent()] {
				continue
			}
			if f := single(c); f != nil {
				aliasParam[pr] = f
			}
		}
	}
}

// AliasSummary lists the seams that were resolved (for the evidence file).
func AliasSummary(name func(*ssa.Function) string) []string {
	var out []string
	for g, f := range aliasGlobal {
		out = append(out, "package variable "+g.Pkg.Pkg.Name()+"."+g.Name()+" = "+name(f))
	}
	for fl, f := range aliasField {
		out = append(out, "field "+fl.Name()+" = "+name(f))
	}
	for p, f := range aliasParam {
		out = append(out, "parameter "+p.Name()+" of "+p.Parent().Name()+" = "+name(f))
	}
	return out
}
