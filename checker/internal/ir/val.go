package ir

import (
	"go/constant"
	"go/token"
	"go/types"

	"golang.org/x/tools/go/ssa"
)

// IsNil reports whether v is the nil constant.
func IsNil(v ssa.Value) bool {
	c, ok := v.(*ssa.Const)
	return ok && c.IsNil()
}

// ConstBool returns (value, true) when v is a boolean constant.
func ConstBool(v ssa.Value) (bool, bool) {
	c, ok := v.(*ssa.Const)
	if !ok || c.Value == nil || c.Value.Kind() != constant.Bool {
		return false, false
	}
	return constant.BoolVal(c.Value), true
}

// ConstInt returns (value, true) when v is an integer constant.
func ConstInt(v ssa.Value) (int64, bool) {
	c, ok := v.(*ssa.Const)
	if !ok || c.Value == nil || c.Value.Kind() != constant.Int {
		return 0, false
	}
	i, exact := constant.Int64Val(c.Value)
	return i, exact
}

// Strip removes value-preserving conversions.
func Strip(v ssa.Value) ssa.Value {
	for {
		switch x := v.(type) {
		case *ssa.ChangeType:
			v = x.X
		case *ssa.MakeInterface:
			v = x.X
		case *ssa.ChangeInterface:
			v = x.X
		case *ssa.Convert:
			v = x.X
		default:
			return v
		}
	}
}

// Refs returns the referrers of v (nil-safe).
func Refs(v ssa.Value) []ssa.Instruction {
	r := v.Referrers()
	if r == nil {
		return nil
	}
	return *r
}

// Result returns the SSA values carrying result #idx of call: the call value
// itself for single-result functions, the matching Extracts for tuples.
func Result(call ssa.Value, idx int) []ssa.Value {
	if tup, ok := call.Type().(*types.Tuple); ok {
		var out []ssa.Value
		if idx < 0 {
			idx = tup.Len() + idx
		}
		for _, r := range Refs(call) {
			if e, ok := r.(*ssa.Extract); ok && e.Index == idx {
				out = append(out, e)
			}
		}
		return out
	}
	if idx == 0 || idx == -1 {
		return []ssa.Value{call}
	}
	return nil
}

// Aliases returns v plus the values that provably carry the same value: loads
// (in the same block, before any other store to the same address) of a local
// variable cell or free variable v was just stored into, and conversions of v.
func Aliases(v ssa.Value) []ssa.Value {
	out := []ssa.Value{v}
	seen := map[ssa.Value]bool{v: true}
	for i := 0; i < len(out); i++ {
		cur := out[i]
		for _, r := range Refs(cur) {
			switch x := r.(type) {
			case *ssa.Store:
				if x.Val != cur {
					continue
				}
				b := x.Block()
				for j := IndexIn(x) + 1; j < len(b.Instrs); j++ {
					if st, ok := b.Instrs[j].(*ssa.Store); ok && st.Addr == x.Addr {
						break
					}
					if ld, ok := b.Instrs[j].(*ssa.UnOp); ok && ld.Op == token.MUL && ld.X == x.Addr && !seen[ld] {
						seen[ld] = true
						out = append(out, ld)
					}
				}
			case *ssa.ChangeType, *ssa.ChangeInterface, *ssa.MakeInterface:
				val := r.(ssa.Value)
				if !seen[val] {
					seen[val] = true
					out = append(out, val)
				}
			}
		}
	}
	return out
}

// Branch names the successor of an If taken when a stated predicate holds.
type Branch struct {
	If  *ssa.If
	Idx int
	// Pol: 0 = the test is exactly the predicate; +1 = the Idx edge implies
	// the predicate but the other edge does not imply its negation (the
	// value went through the phi of a short-circuit &&); -1 = the opposite.
	// A guard may use a branch only when, oriented to its success edge, Pol>=0.
	Pol int
	// Via: for Pol -1 branches produced by an or-like merge (`a || x`, or a
	// boolean variable already true on the other paths), the merging phi.
	Via *ssa.Phi
}

// Flip returns the branch for the negated predicate.
func (b Branch) Flip() Branch { return Branch{b.If, 1 - b.Idx, -b.Pol, b.Via} }

// Edge returns the CFG edge of the branch.
func (b Branch) Edge() Edge { return Edge{b.If.Block(), b.Idx} }

// Other returns the opposite edge.
func (b Branch) Other() Edge { return Edge{b.If.Block(), 1 - b.Idx} }

// TrueBranches lists the Ifs that test boolean value v (through negations and
// comparisons with boolean constants); Idx is the successor taken when v is
// true.
func TrueBranches(v ssa.Value) []Branch {
	var out []Branch
	for _, a := range Aliases(v) {
		for _, r := range Refs(a) {
			switch x := r.(type) {
			case *ssa.If:
				if x.Cond == a {
					out = append(out, Branch{x, 0, 0, nil})
				}
			case *ssa.Phi:
				// short-circuit `p && a`, or a boolean result variable set to
				// false on the other paths: phi [false, ..., a]
				okAnd := true
				okOr := true
				for i, e := range x.Edges {
					if e == a {
						continue
					}
					cb, isC := ConstBool(e)
					if (!isC || cb) && !falseOnEdge(e, x.Block().Preds[i], x.Block()) {
						okAnd = false
					}
					// true on that edge: the constant true, or the edge is the
					// true edge of a test of the incoming value itself
					if !(isC && cb) && !trueOnEdge(e, x.Block().Preds[i], x.Block()) {
						okOr = false
					}
				}
				if !okAnd && okOr {
					// `p || a`: the merged value being false implies a false;
					// being true does not imply a (Pol -1)
					for _, b := range TrueBranches(x) {
						if b.Pol == 0 {
							out = append(out, Branch{b.If, b.Idx, -1, x})
						}
					}
					continue
				}
				if !okAnd {
					continue
				}
				for _, b := range TrueBranches(x) {
					if b.Pol >= 0 {
						out = append(out, Branch{b.If, b.Idx, 1, nil})
					}
				}
			case *ssa.UnOp:
				if x.Op == token.NOT {
					for _, b := range TrueBranches(x) {
						out = append(out, b.Flip())
					}
				}
			case *ssa.BinOp:
				if x.Op != token.EQL && x.Op != token.NEQ {
					continue
				}
				other := x.Y
				if other == a {
					other = x.X
				}
				cb, ok := ConstBool(other)
				if !ok {
					continue
				}
				same := (x.Op == token.EQL) == cb // x is true iff a is true
				for _, b := range TrueBranches(x) {
					if same {
						out = append(out, b)
					} else {
						out = append(out, b.Flip())
					}
				}
			}
		}
	}
	return out
}

// NilBranches lists the Ifs that compare v with nil; Idx is the successor
// taken when v == nil.
func NilBranches(v ssa.Value) []Branch { return nilBranches(v, 0) }

func nilBranches(v ssa.Value, depth int) []Branch {
	var out []Branch
	for _, a := range Aliases(v) {
		for _, r := range Refs(a) {
			// the value is carried to a join by a result variable (typically
			// after a helper was inlined: res = f(); ...; if res != nil): the
			// test of the merged value is the test of v on the paths through v
			if ph, isPhi := r.(*ssa.Phi); isPhi && depth < 2 {
				// ... provided the merged value cannot be nil on the other
				// paths: a nil that arrives without v having been computed
				// ("nothing to check here") passes the merged test too, and
				// then that test does not establish v == nil. Such a test is
				// only a weak site (usable as one disjunct of a union).
				weak := false
				for _, e := range ph.Edges {
					if e == a {
						continue
					}
					if !KnownNonNil(e) {
						weak = true
					}
				}
				for _, b := range nilBranches(ph, depth+1) {
					if weak && b.Pol >= 0 {
						b.Pol, b.Via = -1, ph
					}
					out = append(out, b)
				}
				continue
			}
			x, ok := r.(*ssa.BinOp)
			if !ok || (x.Op != token.EQL && x.Op != token.NEQ) {
				continue
			}
			other := x.Y
			if x.Y == a {
				other = x.X
			}
			if !IsNil(other) {
				continue
			}
			for _, b := range TrueBranches(x) {
				if x.Op == token.EQL {
					out = append(out, b)
				} else {
					out = append(out, b.Flip())
				}
			}
		}
	}
	return out
}

// EqBranches: for a comparison instruction (==/!=) the Ifs testing it; Idx is
// the successor taken when the operands are equal.
func EqBranches(x *ssa.BinOp) []Branch {
	var out []Branch
	for _, b := range TrueBranches(x) {
		if x.Op == token.EQL {
			out = append(out, b)
		} else if x.Op == token.NEQ {
			out = append(out, b.Flip())
		}
	}
	return out
}

// IntCmpBranches lists, for an integer value v, the Ifs comparing it with an
// integer constant: v == k. Idx is the successor taken when v == k.
type IntBranch struct {
	Branch
	K int64
}

func IntEqBranches(v ssa.Value) []IntBranch {
	var out []IntBranch
	for _, r := range Refs(v) {
		x, ok := r.(*ssa.BinOp)
		if !ok || (x.Op != token.EQL && x.Op != token.NEQ) {
			continue
		}
		other := x.Y
		if x.Y == v {
			other = x.X
		}
		k, ok := ConstInt(other)
		if !ok {
			continue
		}
		for _, b := range EqBranches(x) {
			out = append(out, IntBranch{b, k})
		}
	}
	return out
}

// Deref: when v is a load (*addr), the address.
func Deref(v ssa.Value) ssa.Value {
	if u, ok := v.(*ssa.UnOp); ok && u.Op == token.MUL {
		return u.X
	}
	return nil
}

// DerivesFrom reports whether v is computed from some value satisfying src,
// following phis, extracts, conversions, loads of local cells (through their
// stores), field/index selections and slices. Bounded, cycle-safe.
func DerivesFrom(v ssa.Value, src func(ssa.Value) bool) bool {
	return derives(v, src, false)
}

// InfluencedBy is DerivesFrom that also flows through the arguments and
// receivers of calls (the result of f(x) is influenced by x).
func InfluencedBy(v ssa.Value, src func(ssa.Value) bool) bool {
	return derives(v, src, true)
}

func derives(v ssa.Value, src func(ssa.Value) bool, throughCalls bool) bool {
	seen := map[ssa.Value]bool{}
	var rec func(v ssa.Value, depth int) bool
	rec = func(v ssa.Value, depth int) bool {
		if v == nil || seen[v] || depth > 40 {
			return false
		}
		seen[v] = true
		if src(v) {
			return true
		}
		switch x := v.(type) {
		case *ssa.Phi:
			for _, e := range x.Edges {
				if rec(e, depth+1) {
					return true
				}
			}
		case *ssa.Extract:
			return rec(x.Tuple, depth+1)
		case *ssa.ChangeType:
			return rec(x.X, depth+1)
		case *ssa.Convert:
			return rec(x.X, depth+1)
		case *ssa.MakeInterface:
			return rec(x.X, depth+1)
		case *ssa.ChangeInterface:
			return rec(x.X, depth+1)
		case *ssa.TypeAssert:
			return rec(x.X, depth+1)
		case *ssa.Slice:
			return rec(x.X, depth+1)
		case *ssa.Field:
			return rec(x.X, depth+1)
		case *ssa.FieldAddr:
			return rec(x.X, depth+1)
		case *ssa.IndexAddr:
			return rec(x.X, depth+1)
		case *ssa.Index:
			return rec(x.X, depth+1)
		case *ssa.Lookup:
			return rec(x.X, depth+1)
		case *ssa.UnOp:
			if x.Op == token.MUL {
				// load: follow stores into a local cell, else the address.
				if a, ok := x.X.(*ssa.Alloc); ok {
					for _, st := range storesInto(a) {
						if rec(st.Val, depth+1) {
							return true
						}
					}
					return false
				}
				return rec(x.X, depth+1)
			}
			return rec(x.X, depth+1)
		case *ssa.BinOp:
			return rec(x.X, depth+1) || rec(x.Y, depth+1)
		case *ssa.Call:
			_, isBuiltin := x.Call.Value.(*ssa.Builtin)
			if isBuiltin || throughCalls {
				for _, a := range x.Call.Args {
					if rec(a, depth+1) {
						return true
					}
				}
				if throughCalls && x.Call.IsInvoke() {
					return rec(x.Call.Value, depth+1)
				}
			}
		case *ssa.Alloc:
			// a local cell used as a value (address passed on): what was stored
			for _, st := range storesInto(x) {
				if rec(st.Val, depth+1) {
					return true
				}
			}
		}
		return false
	}
	return rec(v, 0)
}

// StoresTo lists the values stored into address a (an Alloc or FreeVar cell)
// anywhere in the enclosing function and its closures.
func StoresTo(a ssa.Value) []*ssa.Store {
	var out []*ssa.Store
	for _, r := range Refs(a) {
		if st, ok := r.(*ssa.Store); ok && st.Addr == a {
			out = append(out, st)
		}
	}
	return out
}

// storesInto lists the stores into a local cell or into any field / element
// address rooted at it (struct and array literals are built that way).
func storesInto(a ssa.Value) []*ssa.Store {
	var out []*ssa.Store
	seen := map[ssa.Value]bool{}
	var walk func(addr ssa.Value, depth int)
	walk = func(addr ssa.Value, depth int) {
		if seen[addr] || depth > 6 {
			return
		}
		seen[addr] = true
		for _, r := range Refs(addr) {
			switch x := r.(type) {
			case *ssa.Store:
				if x.Addr == addr {
					out = append(out, x)
				}
			case *ssa.FieldAddr:
				if x.X == addr {
					walk(x, depth+1)
				}
			case *ssa.IndexAddr:
				if x.X == addr {
					walk(x, depth+1)
				}
			}
		}
	}
	walk(a, 0)
	return out
}

// RetVal returns the value a Return yields for result #idx, looking through
// the defer spill (functions with defers store results into cells, run the
// defers, reload and return): the value stored last into the cell in the
// return's own block.
func RetVal(r *ssa.Return, idx int) ssa.Value {
	v := r.Results[idx]
	ld, ok := v.(*ssa.UnOp)
	if !ok || ld.Op != token.MUL {
		return v
	}
	a, ok := ld.X.(*ssa.Alloc)
	if !ok {
		return v
	}
	b := r.Block()
	for i := len(b.Instrs) - 1; i >= 0; i-- {
		if st, ok := b.Instrs[i].(*ssa.Store); ok && st.Addr == ssa.Value(a) {
			return st.Val
		}
	}
	return v
}

// trueOnEdge: boolean v is known true when control takes the edge pred -> b
// (pred ends in `if v` and b is its true successor).
// falseOnEdge: the edge pred -> b is the false edge of a test of v itself.
func falseOnEdge(v ssa.Value, pred, b *ssa.BasicBlock) bool {
	if len(pred.Instrs) == 0 || len(pred.Succs) != 2 {
		return false
	}
	iff, ok := pred.Instrs[len(pred.Instrs)-1].(*ssa.If)
	return ok && iff.Cond == v && pred.Succs[1] == b && pred.Succs[0] != b
}

func trueOnEdge(v ssa.Value, pred, b *ssa.BasicBlock) bool {
	if len(pred.Instrs) == 0 || len(pred.Succs) != 2 {
		return false
	}
	iff, ok := pred.Instrs[len(pred.Instrs)-1].(*ssa.If)
	return ok && iff.Cond == v && pred.Succs[0] == b && pred.Succs[1] != b
}
