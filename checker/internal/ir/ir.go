// Package ir loads /repo (root module plus the cache module, which the root
// module replaces into itself) with go/packages, builds go/ssa for the whole
// program and offers symbol resolution and CFG helpers to the rule engines.
package ir

import (
	"fmt"
	"go/token"
	"go/types"
	"os"
	"path/filepath"
	"sort"
	"strings"

	"golang.org/x/tools/go/packages"

	"golang.org/x/tools/go/ssa"
	"golang.org/x/tools/go/ssa/ssautil"
	"verif/checker/internal/base"
)

// ModPath is the import path prefix of every package that is a rule subject.
const ModPath = "github.com/lightninglabs/neutrino"

// Program is the loaded, type-checked and SSA-built repository.
type Program struct {
	Root    string
	Fset    *token.FileSet
	All     []*packages.Package // every package of the build (deps included)
	Mod     []*packages.Package // packages of the two neutrino modules
	Prog    *ssa.Program
	Funcs   []*ssa.Function // every source function of Mod (methods of generic and unexported types and closures included), mocks and tests excluded
	byName  map[string]*ssa.Function
	modPkgs map[*types.Package]bool
	LoadS   float64
	Cache   *Program      // the separately loaded /repo/cache module (nil inside it)
	Ren     *base.Renames // baseline symbols that were renamed in the current tree
	Base    *base.Symbols // the symbol table of the pinned tree
}

// Load loads root (normally /repo). Any load or type error is returned: a
// check never reports "held" on a tree it could not fully see.
func Load(root string) (*Program, error) { return LoadOverlay(root, nil) }

// LoadOverlay is Load with some files replaced by the given contents (the
// source-level inlining of helper functions that are new relative to the
// pinned tree, see package inl).
func LoadOverlay(root string, overlay map[string][]byte) (*Program, error) {
	p, err := load(root, root, 11, overlay)
	if err != nil {
		return nil, err
	}
	// The cache module is a separate module (the root module builds against
	// the released copy in the module cache), so /repo/cache is analysed from
	// its own directory.
	cp, err := load(root, filepath.Join(root, "cache"), 2, overlay)
	if err != nil {
		return nil, fmt.Errorf("cache module: %v", err)
	}
	p.Cache = cp
	return p, nil
}

func load(root, dir string, minPkgs int, overlay map[string][]byte) (*Program, error) {
	cfg := &packages.Config{
		Mode:    packages.LoadAllSyntax,
		Dir:     dir,
		Tests:   false,
		Env:     append(os.Environ(), "GOWORK=off"),
		Overlay: overlay,
	}
	pkgs, err := packages.Load(cfg, "./...")
	if err != nil {
		return nil, fmt.Errorf("go/packages: %v", err)
	}
	if len(pkgs) == 0 {
		return nil, fmt.Errorf("go/packages returned no packages for %s", root)
	}
	var errs []string
	packages.Visit(pkgs, nil, func(p *packages.Package) {
		for _, e := range p.Errors {
			errs = append(errs, e.Error())
		}
	})
	if len(errs) > 0 {
		sort.Strings(errs)
		if len(errs) > 10 {
			errs = errs[:10]
		}
		return nil, fmt.Errorf("load/type errors: %s", strings.Join(errs, "; "))
	}
	p := &Program{Root: root, byName: map[string]*ssa.Function{}, modPkgs: map[*types.Package]bool{}}
	p.Fset = pkgs[0].Fset
	packages.Visit(pkgs, nil, func(pk *packages.Package) { p.All = append(p.All, pk) })
	for _, pk := range pkgs {
		if pk.PkgPath == ModPath+"/tools" {
			continue
		}
		p.Mod = append(p.Mod, pk)
		p.modPkgs[pk.Types] = true
	}
	sort.Slice(p.Mod, func(i, j int) bool { return p.Mod[i].PkgPath < p.Mod[j].PkgPath })
	if len(p.Mod) < minPkgs {
		return nil, fmt.Errorf("expected at least %d module packages in %s, loaded %d", minPkgs, dir, len(p.Mod))
	}
	p.Base = base.Load()
	p.Ren = base.Resolve(p.Base, p.Mod)
	prog, _ := ssautil.AllPackages(pkgs, ssa.BuilderMode(0))
	prog.Build()
	p.Prog = prog
	p.collectFuncs()
	p.buildAliases()
	return p, nil
}

// IsModPkg reports whether pkg belongs to the neutrino modules.
func (p *Program) IsModPkg(pkg *types.Package) bool { return pkg != nil && p.modPkgs[pkg] }

// ExcludedFile: tests and hand-written mocks are never rule subjects.
func ExcludedFile(name string) bool { return excludedFile(name) }

func excludedFile(name string) bool {
	b := filepath.Base(name)
	return strings.HasSuffix(b, "_test.go") || strings.HasSuffix(b, "_mock.go")
}

func (p *Program) collectFuncs() {
	seen := map[*ssa.Function]bool{}
	var add func(fn *ssa.Function)
	add = func(fn *ssa.Function) {
		if fn == nil || seen[fn] || fn.Blocks == nil && fn.Synthetic != "" {
			return
		}
		if fn.Synthetic != "" && !strings.HasPrefix(fn.Synthetic, "package initializer") {
			return
		}
		pos := fn.Pos()
		if pos.IsValid() && excludedFile(p.Fset.Position(pos).Filename) {
			return
		}
		seen[fn] = true
		p.Funcs = append(p.Funcs, fn)
		for _, a := range fn.AnonFuncs {
			add(a)
		}
	}
	for _, pk := range p.Mod {
		sp := p.Prog.Package(pk.Types)
		if sp == nil {
			continue
		}
		for _, m := range sp.Members {
			switch m := m.(type) {
			case *ssa.Function:
				add(m)
			case *ssa.Type:
				named, ok := m.Type().(*types.Named)
				if !ok {
					continue
				}
				for i := 0; i < named.NumMethods(); i++ {
					add(p.Prog.FuncValue(named.Method(i)))
				}
			}
		}
	}
	sort.Slice(p.Funcs, func(i, j int) bool { return p.Name(p.Funcs[i]) < p.Name(p.Funcs[j]) })
	for _, fn := range p.Funcs {
		p.byName[p.Name(fn)] = fn
	}
}

// Name gives the repo-relative name of a function:
// "neutrino.(*blockManager).handleHeadersMsg", "headerfs.NewBlockHeaderStore",
// "neutrino.(*ChainService).GetBlock$1".
func (p *Program) Name(fn *ssa.Function) string {
	s := fn.String()
	if p.Ren != nil && (len(p.Ren.OldName) > 0) {
		root := fn
		for root.Parent() != nil {
			root = root.Parent()
		}
		if obj, ok := root.Object().(*types.Func); ok {
			if old, ok := p.Ren.OldName[obj.Origin()]; ok {
				rs := root.String()
				if i := strings.LastIndex(rs, "."); i >= 0 && strings.HasPrefix(s, rs) {
					s = rs[:i+1] + old + s[len(rs):]
				}
			}
		}
		for k, old := range p.Ren.TypeRev {
			i := strings.LastIndex(k, ".")
			s = strings.ReplaceAll(s, k+")", k[:i+1]+old+")")
		}
	}
	s = strings.ReplaceAll(s, ModPath+"/", "")
	s = strings.ReplaceAll(s, ModPath, "neutrino")
	return s
}

// ObjName is the name an object had in the pinned tree (its current name
// unless the rename resolution matched it with a baseline symbol): constructs,
// table keys and known findings are spelled in baseline names.
func (p *Program) ObjName(o types.Object) string {
	if o == nil {
		return ""
	}
	if p.Ren != nil && len(p.Ren.OldName) > 0 {
		var k types.Object = o
		switch x := o.(type) {
		case *types.Var:
			k = x.Origin()
		case *types.Func:
			k = x.Origin()
		}
		if old, ok := p.Ren.OldName[k]; ok {
			return old
		}
	}
	return o.Name()
}

// Func resolves a repo-relative function name, nil when absent.
func (p *Program) Func(name string) *ssa.Function { return p.byName[name] }

// Pkg returns the types.Package with the given repo-relative path ("neutrino",
// "headerfs", "cache/lru") or full import path for dependencies.
func (p *Program) Pkg(rel string) *types.Package {
	full := rel
	switch {
	case rel == "neutrino":
		full = ModPath
	case !strings.Contains(rel, "."):
		full = ModPath + "/" + rel
	}
	for _, pk := range p.All {
		if pk.PkgPath == full {
			return pk.Types
		}
	}
	// std packages have no dot either.
	for _, pk := range p.All {
		if pk.PkgPath == rel {
			return pk.Types
		}
	}
	return nil
}

// Named looks up a named type "pkg.Type".
func (p *Program) Named(pkg, typ string) *types.Named {
	tp := p.Pkg(pkg)
	if tp == nil {
		return nil
	}
	o := tp.Scope().Lookup(typ)
	if o == nil && p.Ren != nil {
		if nn, ok := p.Ren.Type[tp.Path()+"."+typ]; ok {
			o = tp.Scope().Lookup(nn)
		}
	}
	if o == nil {
		return nil
	}
	n, _ := o.Type().(*types.Named)
	return n
}

// Field returns the struct field object pkg.Type.field (nil if absent).
func (p *Program) Field(pkg, typ, field string) *types.Var {
	n := p.Named(pkg, typ)
	if n == nil {
		return nil
	}
	st, ok := n.Underlying().(*types.Struct)
	if !ok {
		return nil
	}
	for i := 0; i < st.NumFields(); i++ {
		if st.Field(i).Name() == field {
			return st.Field(i).Origin()
		}
	}
	if p.Ren != nil {
		if tp := p.Pkg(pkg); tp != nil {
			if f := p.Ren.Field[tp.Path()+"."+typ+"."+field]; f != nil {
				return f.Origin()
			}
		}
	}
	return nil
}

// Method returns the method object pkg.Type.name for concrete types and
// interface types alike (nil if absent).
func (p *Program) Method(pkg, typ, name string) *types.Func {
	n := p.Named(pkg, typ)
	if n == nil {
		return nil
	}
	if it, ok := n.Underlying().(*types.Interface); ok {
		for i := 0; i < it.NumMethods(); i++ {
			if it.Method(i).Name() == name {
				return it.Method(i)
			}
		}
		return nil
	}
	for i := 0; i < n.NumMethods(); i++ {
		if n.Method(i).Name() == name {
			return n.Method(i)
		}
	}
	if p.Ren != nil {
		if tp := p.Pkg(pkg); tp != nil {
			if m := p.Ren.Method[tp.Path()+"."+typ+"."+name]; m != nil {
				return m
			}
		}
	}
	return nil
}

// FuncObj returns the package-level function object pkg.name.
func (p *Program) FuncObj(pkg, name string) *types.Func {
	tp := p.Pkg(pkg)
	if tp == nil {
		return nil
	}
	f, _ := tp.Scope().Lookup(name).(*types.Func)
	if f == nil && p.Ren != nil {
		f = p.Ren.Func[tp.Path()+"."+name]
	}
	return f
}

// Pos renders a position relative to the repository root.
func (p *Program) Pos(pos token.Pos) string {
	if !pos.IsValid() {
		return "?"
	}
	ps := p.Fset.Position(pos)
	f := ps.Filename
	if r, err := filepath.Rel(p.Root, f); err == nil && !strings.HasPrefix(r, "..") {
		f = r
	}
	return fmt.Sprintf("%s:%d", f, ps.Line)
}

// InstrPos finds a usable position for an instruction: its own, else that of
// its operands, else that of the nearest positioned instruction of its block.
func (p *Program) InstrPos(in ssa.Instruction) token.Pos {
	if in == nil {
		return token.NoPos
	}
	if in.Pos().IsValid() {
		return in.Pos()
	}
	var ops []*ssa.Value
	for _, op := range in.Operands(ops) {
		if *op != nil && (*op).Pos().IsValid() {
			if _, isParam := (*op).(*ssa.Parameter); !isParam {
				return (*op).Pos()
			}
		}
	}
	b := in.Block()
	if b == nil {
		return token.NoPos
	}
	idx := -1
	for i, x := range b.Instrs {
		if x == in {
			idx = i
		}
	}
	for i := idx; i >= 0; i-- {
		if b.Instrs[i].Pos().IsValid() {
			return b.Instrs[i].Pos()
		}
	}
	for i := idx + 1; i < len(b.Instrs); i++ {
		if b.Instrs[i].Pos().IsValid() {
			return b.Instrs[i].Pos()
		}
	}
	return in.Parent().Pos()
}

// At is Pos(InstrPos(in)).
func (p *Program) At(in ssa.Instruction) string { return p.Pos(p.InstrPos(in)) }

// Line returns the source line of an instruction (0 if unknown).
func (p *Program) Line(in ssa.Instruction) int {
	pos := p.InstrPos(in)
	if !pos.IsValid() {
		return 0
	}
	return p.Fset.Position(pos).Line
}
