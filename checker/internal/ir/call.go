package ir

import (
	"go/types"

	"golang.org/x/tools/go/ssa"
)

// Callee is the resolved target of a call site. Exactly one of Func, Field,
// Local is meaningful:
//   - Func: a statically known function/method, or the interface method of an
//     invoke-mode call (always the generic origin, never an instantiation or a
//     synthetic wrapper);
//   - Field: a dynamic call of a func-typed struct field (cfg.BanPeer(...));
//   - Fn: the ssa function when it is a source function (closures included).
type Callee struct {
	Func   *types.Func
	Field  *types.Var
	Fn     *ssa.Function
	Invoke bool
}

// CallOf returns the CallCommon of a call-like instruction (Call, Go, Defer).
func CallOf(in ssa.Instruction) *ssa.CallCommon {
	if c, ok := in.(ssa.CallInstruction); ok {
		return c.Common()
	}
	return nil
}

// origin strips generic instantiation.
func origin(f *types.Func) *types.Func {
	if f == nil {
		return nil
	}
	return f.Origin()
}

// unwrapFn follows synthetic wrappers ($bound, $thunk, promoted-method
// wrappers, generic instantiations) to the declared function object.
func funcObj(fn *ssa.Function) *types.Func {
	if fn == nil {
		return nil
	}
	if o := fn.Origin(); o != nil {
		fn = o
	}
	if f, ok := fn.Object().(*types.Func); ok {
		return origin(f)
	}
	return nil
}

// Resolve resolves the callee of a call site without a call graph.
func Resolve(cc *ssa.CallCommon) Callee {
	if cc == nil {
		return Callee{}
	}
	if cc.IsInvoke() {
		return Callee{Func: origin(cc.Method), Invoke: true}
	}
	if fn := cc.StaticCallee(); fn != nil {
		c := Callee{Func: funcObj(fn)}
		if fn.Synthetic == "" {
			c.Fn = fn
		} else if o := fn.Origin(); o != nil && o.Synthetic == "" {
			c.Fn = o
		}
		return c
	}
	// dynamic call: value loaded from a struct field?
	if f := FieldOfValue(cc.Value); f != nil {
		return Callee{Field: f}
	}
	return Callee{}
}

// FieldOfValue: when v is (a load of) a struct field, the field object.
func FieldOfValue(v ssa.Value) *types.Var {
	switch x := v.(type) {
	case *ssa.UnOp:
		if fa, ok := x.X.(*ssa.FieldAddr); ok {
			return FieldOfAddr(fa)
		}
	case *ssa.Field:
		st, ok := x.X.Type().Underlying().(*types.Struct)
		if ok {
			return st.Field(x.Field).Origin()
		}
	case *ssa.FieldAddr:
		return FieldOfAddr(x)
	}
	return nil
}

// FieldOfAddr returns the field object addressed by a FieldAddr.
func FieldOfAddr(fa *ssa.FieldAddr) *types.Var {
	t := fa.X.Type().Underlying()
	if pt, ok := t.(*types.Pointer); ok {
		t = pt.Elem().Underlying()
	}
	if st, ok := t.(*types.Struct); ok {
		return st.Field(fa.Field).Origin()
	}
	return nil
}

// SameFunc compares function objects modulo generic instantiation.
func SameFunc(a, b *types.Func) bool { return a != nil && b != nil && origin(a) == origin(b) }

// Implements reports whether concrete method m can be the target of an
// invoke of interface method im (same name, receiver type implements the
// interface that declares im).
func Implements(m, im *types.Func) bool {
	if m == nil || im == nil || m.Name() != im.Name() {
		return false
	}
	sig, ok := m.Type().(*types.Signature)
	if !ok || sig.Recv() == nil {
		return false
	}
	isig := im.Type().(*types.Signature)
	if isig.Recv() == nil {
		return false
	}
	it, ok := isig.Recv().Type().Underlying().(*types.Interface)
	if !ok {
		return false
	}
	rt := sig.Recv().Type()
	if types.Implements(rt, it) {
		return true
	}
	if _, isPtr := rt.(*types.Pointer); !isPtr {
		return types.Implements(types.NewPointer(rt), it)
	}
	return false
}

// Calls lists every call-like instruction (Call, Go, Defer) of fn.
func Calls(fn *ssa.Function) []ssa.CallInstruction {
	var out []ssa.CallInstruction
	for _, b := range fn.Blocks {
		for _, in := range b.Instrs {
			if c, ok := in.(ssa.CallInstruction); ok {
				out = append(out, c)
			}
		}
	}
	return out
}

// Instrs iterates all instructions of fn.
func Instrs(fn *ssa.Function, f func(ssa.Instruction)) {
	for _, b := range fn.Blocks {
		for _, in := range b.Instrs {
			f(in)
		}
	}
}

// WithClosures returns fn and every function literal nested in it.
func WithClosures(fn *ssa.Function) []*ssa.Function {
	out := []*ssa.Function{fn}
	for _, a := range fn.AnonFuncs {
		out = append(out, WithClosures(a)...)
	}
	return out
}
