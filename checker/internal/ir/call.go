package ir

import (
	"go/types"

	"golang.org/x/tools/go/ssa"
)

// Callee is the resolved target of a call site. Exactly one of Func, Field,
// Local is meaningful:
//   - Func: a statically known function/method, or the interface method of an
//     invoke-mode call (always the generic origin, never an instantiation or a
//     synthetic wrapper);
//   - Field: a dynamic call of a func-typed struct field (cfg.BanPeer(...));
//   - Fn: the ssa function when it is a source function (closures included).
type Callee struct {
	Func   *types.Func
	Field  *types.Var
	Fn     *ssa.Function
	Invoke bool
}

// CallOf returns the CallCommon of a call-like instruction (Call, Go, Defer).
func CallOf(in ssa.Instruction) *ssa.CallCommon {
	if c, ok := in.(ssa.CallInstruction); ok {
		return c.Common()
	}
	return nil
}

// origin strips generic instantiation.
func origin(f *types.Func) *types.Func {
	if f == nil {
		return nil
	}
	return f.Origin()
}

// unwrapFn follows synthetic wrappers ($bound, $thunk, promoted-method
// wrappers, generic instantiations) to the declared function object.
func funcObj(fn *ssa.Function) *types.Func {
	if fn == nil {
		return nil
	}
	if o := fn.Origin(); o != nil {
		fn = o
	}
	if f, ok := fn.Object().(*types.Func); ok {
		return origin(f)
	}
	return nil
}

// Resolve resolves the callee of a call site without a call graph.
func Resolve(cc *ssa.CallCommon) Callee {
	if cc == nil {
		return Callee{}
	}
	if cc.IsInvoke() {
		return Callee{Func: origin(cc.Method), Invoke: true}
	}
	if fn := cc.StaticCallee(); fn != nil {
		c := Callee{Func: funcObj(fn)}
		if fn.Synthetic == "" {
			c.Fn = fn
		} else if o := fn.Origin(); o != nil && o.Synthetic == "" {
			c.Fn = o
		}
		return c
	}
	// dynamic call: a seam that production code fills with one function
	// only is a call of that function (see alias.go)
	var c Callee
	if fn := AliasOf(cc.Value); fn != nil {
		c.Func = funcObj(fn)
		if fn.Synthetic == "" {
			c.Fn = fn
		}
	}
	// value loaded from a struct field?
	if f := FieldOfValue(cc.Value); f != nil {
		c.Field = f
	}
	return c
}

// FieldOfValue: when v is (a load of) a struct field, the field object.
func FieldOfValue(v ssa.Value) *types.Var {
	switch x := v.(type) {
	case *ssa.UnOp:
		if fa, ok := x.X.(*ssa.FieldAddr); ok {
			return FieldOfAddr(fa)
		}
	case *ssa.Field:
		st, ok := x.X.Type().Underlying().(*types.Struct)
		if ok {
			return st.Field(x.Field).Origin()
		}
	case *ssa.FieldAddr:
		return FieldOfAddr(x)
	}
	return nil
}

// FieldOfAddr returns the field object addressed by a FieldAddr.
func FieldOfAddr(fa *ssa.FieldAddr) *types.Var {
	t := fa.X.Type().Underlying()
	if pt, ok := t.(*types.Pointer); ok {
		t = pt.Elem().Underlying()
	}
	if st, ok := t.(*types.Struct); ok {
		return st.Field(fa.Field).Origin()
	}
	return nil
}

// SameFunc compares function objects modulo generic instantiation.
func SameFunc(a, b *types.Func) bool { return a != nil && b != nil && origin(a) == origin(b) }

// Implements reports whether concrete method m can be the target of an
// invoke of interface method im (same name, receiver type implements the
// interface that declares im).
func Implements(m, im *types.Func) bool {
	if m == nil || im == nil || m.Name() != im.Name() {
		return false
	}
	sig, ok := m.Type().(*types.Signature)
	if !ok || sig.Recv() == nil {
		return false
	}
	isig := im.Type().(*types.Signature)
	if isig.Recv() == nil {
		return false
	}
	it, ok := isig.Recv().Type().Underlying().(*types.Interface)
	if !ok {
		return false
	}
	rt := sig.Recv().Type()
	if types.Implements(rt, it) {
		return true
	}
	if _, isPtr := rt.(*types.Pointer); !isPtr {
		return types.Implements(types.NewPointer(rt), it)
	}
	return false
}

// Calls lists every call-like instruction (Call, Go, Defer) of fn.
func Calls(fn *ssa.Function) []ssa.CallInstruction {
	var out []ssa.CallInstruction
	for _, b := range fn.Blocks {
		for _, in := range b.Instrs {
			if c, ok := in.(ssa.CallInstruction); ok {
				out = append(out, c)
			}
		}
	}
	return out
}

// Instrs iterates all instructions of fn.
func Instrs(fn *ssa.Function, f func(ssa.Instruction)) {
	for _, b := range fn.Blocks {
		for _, in := range b.Instrs {
			f(in)
		}
	}
}

// WithClosures returns fn and every function literal nested in it.
func WithClosures(fn *ssa.Function) []*ssa.Function {
	out := []*ssa.Function{fn}
	for _, a := range fn.AnonFuncs {
		out = append(out, WithClosures(a)...)
	}
	return out
}

// NarrowedInvoke reports whether an invoke of interface method im (declared by
// a module interface I') can be a call of o: a "narrowed dependency" - a
// function that used to take a big interface or a concrete type now takes a
// small interface naming just the methods it uses, and is still handed the
// same value. o is either a method of an interface I whose method set
// includes I' (same name, identical signature), or a concrete method whose
// receiver type implements I'. For generic types the check is by name and
// arity within one package (instantiation is not tracked).
func NarrowedInvoke(im, o *types.Func) bool {
	if im == nil || o == nil || im.Name() != o.Name() {
		return false
	}
	isig, ok1 := im.Type().(*types.Signature)
	osig, ok2 := o.Type().(*types.Signature)
	if !ok1 || !ok2 || isig.Recv() == nil || osig.Recv() == nil {
		return false
	}
	it, ok := isig.Recv().Type().Underlying().(*types.Interface)
	if !ok {
		return false
	}
	generic := func(t types.Type) bool {
		if p, ok := t.(*types.Pointer); ok {
			t = p.Elem()
		}
		n, ok := t.(*types.Named)
		return ok && n.TypeParams() != nil && n.TypeParams().Len() > 0
	}
	ort := osig.Recv().Type()
	if generic(isig.Recv().Type()) || generic(ort) {
		return im.Pkg() == o.Pkg() && isig.Params().Len() == osig.Params().Len() && isig.Results().Len() == osig.Results().Len()
	}
	same := types.Identical(types.NewSignatureType(nil, nil, nil, isig.Params(), isig.Results(), isig.Variadic()),
		types.NewSignatureType(nil, nil, nil, osig.Params(), osig.Results(), osig.Variadic()))
	if !same {
		return false
	}
	if oi, isI := ort.Underlying().(*types.Interface); isI {
		return oi != it && types.Implements(ort, it)
	}
	if types.Implements(ort, it) {
		return true
	}
	if _, isPtr := ort.(*types.Pointer); !isPtr {
		return types.Implements(types.NewPointer(ort), it)
	}
	return false
}
