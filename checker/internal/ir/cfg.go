package ir

import (
	"golang.org/x/tools/go/ssa"
)

// Edge is the CFG edge from block From to its Succ-th successor.
type Edge struct {
	From *ssa.BasicBlock
	Succ int
}

// Cut is a set of deleted CFG edges.
type Cut map[Edge]bool

// Reach returns the blocks reachable from the given start blocks (the start
// blocks themselves included) without using cut edges.
func Reach(starts []*ssa.BasicBlock, cut Cut) map[*ssa.BasicBlock]bool {
	seen := map[*ssa.BasicBlock]bool{}
	var stack []*ssa.BasicBlock
	for _, s := range starts {
		if s != nil && !seen[s] {
			seen[s] = true
			stack = append(stack, s)
		}
	}
	for len(stack) > 0 {
		b := stack[len(stack)-1]
		stack = stack[:len(stack)-1]
		for i, s := range b.Succs {
			if cut[Edge{b, i}] || seen[s] {
				continue
			}
			seen[s] = true
			stack = append(stack, s)
		}
	}
	return seen
}

// ReachEntry is Reach from the function entry.
func ReachEntry(fn *ssa.Function, cut Cut) map[*ssa.BasicBlock]bool {
	if len(fn.Blocks) == 0 {
		return nil
	}
	return Reach([]*ssa.BasicBlock{fn.Blocks[0]}, cut)
}

// BackEdges returns the back edges of fn (edges whose target dominates their
// source).
func BackEdges(fn *ssa.Function) Cut {
	c := Cut{}
	for _, b := range fn.Blocks {
		for i, s := range b.Succs {
			if s.Dominates(b) {
				c[Edge{b, i}] = true
			}
		}
	}
	return c
}

// BackEdgesTo returns the back edges into the given loop header.
func BackEdgesTo(h *ssa.BasicBlock) Cut {
	c := Cut{}
	for _, b := range h.Parent().Blocks {
		for i, s := range b.Succs {
			if s == h && h.Dominates(b) {
				c[Edge{b, i}] = true
			}
		}
	}
	return c
}

// Union merges cuts.
func Union(cs ...Cut) Cut {
	out := Cut{}
	for _, c := range cs {
		for e := range c {
			out[e] = true
		}
	}
	return out
}

// IndexIn returns the index of in within its block (-1 if absent).
func IndexIn(in ssa.Instruction) int {
	for i, x := range in.Block().Instrs {
		if x == in {
			return i
		}
	}
	return -1
}

// Walk explores, at instruction granularity, everything executable after the
// start point (block b from instruction index idx on) without crossing cut
// edges. visit is called for each instruction; returning false stops the
// exploration of that path at that instruction (the instruction "absorbs" the
// path). Each block is entered at most once from its top.
func Walk(b *ssa.BasicBlock, idx int, cut Cut, visit func(ssa.Instruction) bool) {
	seenTop := map[*ssa.BasicBlock]bool{}
	type item struct {
		b   *ssa.BasicBlock
		idx int
	}
	stack := []item{{b, idx}}
	if idx == 0 {
		seenTop[b] = true
	}
	for len(stack) > 0 {
		it := stack[len(stack)-1]
		stack = stack[:len(stack)-1]
		stopped := false
		for i := it.idx; i < len(it.b.Instrs); i++ {
			if !visit(it.b.Instrs[i]) {
				stopped = true
				break
			}
		}
		if stopped {
			continue
		}
		for i, s := range it.b.Succs {
			if cut[Edge{it.b, i}] || seenTop[s] {
				continue
			}
			seenTop[s] = true
			stack = append(stack, item{s, 0})
		}
	}
}

// WalkAfter is Walk starting right after instruction in.
func WalkAfter(in ssa.Instruction, cut Cut, visit func(ssa.Instruction) bool) {
	Walk(in.Block(), IndexIn(in)+1, cut, visit)
}

// WalkEdge is Walk starting at the target of an edge.
func WalkEdge(e Edge, cut Cut, visit func(ssa.Instruction) bool) {
	Walk(e.From.Succs[e.Succ], 0, cut, visit)
}

// EdgeDominates reports whether every path from entry to block x uses edge e.
// Computed by reachability with the edge deleted.
func EdgeDominates(fn *ssa.Function, e Edge, x *ssa.BasicBlock) bool {
	r := ReachEntry(fn, Cut{e: true})
	return !r[x]
}

// LoopHeaderOf returns the innermost loop header h such that b is in the
// natural loop of h, or nil.
func LoopHeaderOf(b *ssa.BasicBlock) *ssa.BasicBlock {
	fn := b.Parent()
	var best *ssa.BasicBlock
	for _, h := range fn.Blocks {
		be := BackEdgesTo(h)
		if len(be) == 0 || !h.Dominates(b) {
			continue
		}
		// b is in the loop of h iff b reaches a back-edge source without
		// leaving through h (i.e. in the CFG without edges into h... use
		// reverse reachability from back-edge sources, stopping at h).
		in := map[*ssa.BasicBlock]bool{h: true}
		var stack []*ssa.BasicBlock
		for e := range be {
			if !in[e.From] {
				in[e.From] = true
				stack = append(stack, e.From)
			}
		}
		for len(stack) > 0 {
			x := stack[len(stack)-1]
			stack = stack[:len(stack)-1]
			for _, p := range x.Preds {
				if !in[p] {
					in[p] = true
					stack = append(stack, p)
				}
			}
		}
		if in[b] {
			if best == nil || best.Dominates(h) {
				best = h
			}
		}
	}
	return best
}

// LoopBlocks returns the natural loop of header h: h plus every block that
// reaches the source of a back edge to h without passing through h.
func LoopBlocks(h *ssa.BasicBlock) map[*ssa.BasicBlock]bool {
	in := map[*ssa.BasicBlock]bool{h: true}
	var stack []*ssa.BasicBlock
	for e := range BackEdgesTo(h) {
		if !in[e.From] {
			in[e.From] = true
			stack = append(stack, e.From)
		}
	}
	for len(stack) > 0 {
		b := stack[len(stack)-1]
		stack = stack[:len(stack)-1]
		for _, p := range b.Preds {
			if !in[p] {
				in[p] = true
				stack = append(stack, p)
			}
		}
	}
	return in
}

// LoopExits returns the edges leaving the natural loop of h.
func LoopExits(h *ssa.BasicBlock) []Edge {
	in := LoopBlocks(h)
	var out []Edge
	for b := range in {
		for i, s := range b.Succs {
			if !in[s] {
				out = append(out, Edge{b, i})
			}
		}
	}
	return out
}
