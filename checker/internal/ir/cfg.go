package ir

import (
	"go/constant"
	"go/token"
	"go/types"
	"os"

	"golang.org/x/tools/go/ssa"
)

// Edge is the CFG edge from block From to its Succ-th successor.
type Edge struct {
	From *ssa.BasicBlock
	Succ int
}

// Cut is a set of deleted CFG edges.
type Cut map[Edge]bool

// Reach returns the blocks reachable from the given start blocks (the start
// blocks themselves included) without using cut edges.
func Reach(starts []*ssa.BasicBlock, cut Cut) map[*ssa.BasicBlock]bool {
	seen := map[*ssa.BasicBlock]bool{}
	type key struct {
		e   Edge
		ctx string
	}
	done := map[key]bool{}
	type item struct {
		b   *ssa.BasicBlock
		ctx joinCtx
	}
	var stack []item
	for _, s := range starts {
		if s != nil && !seen[s] {
			seen[s] = true
			stack = append(stack, item{s, nil})
		}
	}
	for len(stack) > 0 {
		it := stack[len(stack)-1]
		stack = stack[:len(stack)-1]
		b := it.b
		only := it.ctx.decide(b, nil)
		ng := NilGuardEdges(b.Parent())
		for i, s := range b.Succs {
			e := Edge{b, i}
			if cut[e] || ng[e] || (only >= 0 && only != i) {
				continue
			}
			nctx := it.ctx.enter(b, s)
			k := key{e, nctx.String()}
			if done[k] {
				continue
			}
			done[k] = true
			seen[s] = true
			stack = append(stack, item{s, nctx})
		}
	}
	return seen
}

// ReachEntry is Reach from the function entry.
func ReachEntry(fn *ssa.Function, cut Cut) map[*ssa.BasicBlock]bool {
	if len(fn.Blocks) == 0 {
		return nil
	}
	return Reach([]*ssa.BasicBlock{fn.Blocks[0]}, cut)
}

// BackEdges returns the back edges of fn (edges whose target dominates their
// source).
func BackEdges(fn *ssa.Function) Cut {
	c := Cut{}
	for _, b := range fn.Blocks {
		for i, s := range b.Succs {
			if s.Dominates(b) {
				c[Edge{b, i}] = true
			}
		}
	}
	return c
}

// BackEdgesTo returns the back edges into the given loop header.
func BackEdgesTo(h *ssa.BasicBlock) Cut {
	c := Cut{}
	for _, b := range h.Parent().Blocks {
		for i, s := range b.Succs {
			if s == h && h.Dominates(b) {
				c[Edge{b, i}] = true
			}
		}
	}
	return c
}

// Union merges cuts.
func Union(cs ...Cut) Cut {
	out := Cut{}
	for _, c := range cs {
		for e := range c {
			out[e] = true
		}
	}
	return out
}

// IndexIn returns the index of in within its block (-1 if absent).
func IndexIn(in ssa.Instruction) int {
	for i, x := range in.Block().Instrs {
		if x == in {
			return i
		}
	}
	return -1
}

// Walk explores, at instruction granularity, everything executable after the
// start point (block b from instruction index idx on) without crossing cut
// edges. visit is called for each instruction; returning false stops the
// exploration of that path at that instruction (the instruction "absorbs" the
// path). Each block is entered at most once from its top.
func Walk(b *ssa.BasicBlock, idx int, cut Cut, visit func(ssa.Instruction) bool) {
	WalkCtx(b, idx, nil, cut, visit)
}

// WalkCtx is Walk for a start point that was reached through the edge
// pred -> b (pred may be nil): the values the phis of b take on that edge are
// known to the exploration.
func WalkCtx(b *ssa.BasicBlock, idx int, pred *ssa.BasicBlock, cut Cut, visit func(ssa.Instruction) bool) {
	WalkFacts(b, idx, pred, cut, nil, visit)
}

// WalkFacts is WalkCtx with boolean values whose outcome is known for the
// whole exploration (the start point lies behind the instruction that
// computed them, and the question asked is "what happens when it was true /
// false"): an If on such a value, or on a result variable that holds it on the
// incoming edge, goes one way only.
func WalkFacts(b *ssa.BasicBlock, idx int, pred *ssa.BasicBlock, cut Cut, facts map[ssa.Value]bool, visit func(ssa.Instruction) bool) {
	visited := map[*ssa.BasicBlock]bool{}  // instructions visited from the top
	absorbed := map[*ssa.BasicBlock]bool{} // a visit stopped the path inside the block
	type key struct {
		e   Edge
		ctx string
	}
	done := map[key]bool{}
	type item struct {
		b   *ssa.BasicBlock
		idx int
		ctx joinCtx
	}
	var ctx0 joinCtx
	if pred != nil {
		ctx0 = ctx0.enter(pred, b)
	}
	stack := []item{{b, idx, ctx0}}
	first := true
	for len(stack) > 0 {
		it := stack[len(stack)-1]
		stack = stack[:len(stack)-1]
		partial := first && it.idx > 0
		first = false
		if partial || !visited[it.b] {
			if !partial {
				visited[it.b] = true
			}
			stopped := false
			for i := it.idx; i < len(it.b.Instrs); i++ {
				if !visit(it.b.Instrs[i]) {
					stopped = true
					break
				}
			}
			if stopped {
				if !partial {
					absorbed[it.b] = true
				}
				continue
			}
		} else if absorbed[it.b] {
			continue
		}
		only := it.ctx.decide(it.b, facts)
		ng := NilGuardEdges(it.b.Parent())
		for i, s := range it.b.Succs {
			e := Edge{it.b, i}
			if cut[e] || ng[e] || (only >= 0 && only != i) {
				continue
			}
			nctx := it.ctx.enter(it.b, s)
			k := key{e, nctx.String()}
			if done[k] {
				continue
			}
			done[k] = true
			stack = append(stack, item{s, 0, nctx})
		}
	}
}

// WalkPaths is WalkCtx with visits that know how the exploration got there:
// a block is visited once per context (the recent joins and the edges they
// were entered through), and the visitor is handed a function that tells which
// value a phi of such a join holds on the path being explored. For questions
// about a value that result variables carry to a common exit ("is this return
// a success on this path?").
func WalkPaths(b *ssa.BasicBlock, idx int, pred *ssa.BasicBlock, cut Cut, visit func(in ssa.Instruction, incoming func(*ssa.Phi) (ssa.Value, bool)) bool) {
	type bk struct {
		b   *ssa.BasicBlock
		ctx string
	}
	visited := map[bk]bool{}
	absorbed := map[bk]bool{}
	type key struct {
		e   Edge
		ctx string
	}
	done := map[key]bool{}
	type item struct {
		b   *ssa.BasicBlock
		idx int
		ctx joinCtx
	}
	var ctx0 joinCtx
	if pred != nil {
		ctx0 = ctx0.enter(pred, b)
	}
	stack := []item{{b, idx, ctx0}}
	first := true
	steps := 0
	for len(stack) > 0 && steps < 200000 {
		steps++
		it := stack[len(stack)-1]
		stack = stack[:len(stack)-1]
		partial := first && it.idx > 0
		first = false
		k0 := bk{it.b, it.ctx.String()}
		if partial || !visited[k0] {
			if !partial {
				visited[k0] = true
			}
			inc := func(ph *ssa.Phi) (ssa.Value, bool) {
				for _, e := range it.ctx {
					if e.j == ph.Block() && e.pi < len(ph.Edges) {
						return ph.Edges[e.pi], true
					}
				}
				return nil, false
			}
			stopped := false
			for i := it.idx; i < len(it.b.Instrs); i++ {
				if !visit(it.b.Instrs[i], inc) {
					stopped = true
					break
				}
			}
			if stopped {
				if !partial {
					absorbed[k0] = true
				}
				continue
			}
		} else if absorbed[k0] {
			continue
		}
		only := it.ctx.decide(it.b, nil)
		ng := NilGuardEdges(it.b.Parent())
		for i, s := range it.b.Succs {
			e := Edge{it.b, i}
			if cut[e] || ng[e] || (only >= 0 && only != i) {
				continue
			}
			nctx := it.ctx.enter(it.b, s)
			k := key{e, nctx.String()}
			if done[k] {
				continue
			}
			done[k] = true
			stack = append(stack, item{s, 0, nctx})
		}
	}
}

// WalkAfter is Walk starting right after instruction in.
func WalkAfter(in ssa.Instruction, cut Cut, visit func(ssa.Instruction) bool) {
	Walk(in.Block(), IndexIn(in)+1, cut, visit)
}

// WalkEdge is Walk starting at the target of an edge.
func WalkEdge(e Edge, cut Cut, visit func(ssa.Instruction) bool) {
	WalkCtx(e.From.Succs[e.Succ], 0, e.From, cut, visit)
}

// EdgeDominates reports whether every path from entry to block x uses edge e.
// Computed by reachability with the edge deleted.
func EdgeDominates(fn *ssa.Function, e Edge, x *ssa.BasicBlock) bool {
	r := ReachEntry(fn, Cut{e: true})
	return !r[x]
}

// LoopHeaderOf returns the innermost loop header h such that b is in the
// natural loop of h, or nil.
func LoopHeaderOf(b *ssa.BasicBlock) *ssa.BasicBlock {
	fn := b.Parent()
	var best *ssa.BasicBlock
	for _, h := range fn.Blocks {
		be := BackEdgesTo(h)
		if len(be) == 0 || !h.Dominates(b) {
			continue
		}
		// b is in the loop of h iff b reaches a back-edge source without
		// leaving through h (i.e. in the CFG without edges into h... use
		// reverse reachability from back-edge sources, stopping at h).
		in := map[*ssa.BasicBlock]bool{h: true}
		var stack []*ssa.BasicBlock
		for e := range be {
			if !in[e.From] {
				in[e.From] = true
				stack = append(stack, e.From)
			}
		}
		for len(stack) > 0 {
			x := stack[len(stack)-1]
			stack = stack[:len(stack)-1]
			for _, p := range x.Preds {
				if !in[p] {
					in[p] = true
					stack = append(stack, p)
				}
			}
		}
		if in[b] {
			if best == nil || best.Dominates(h) {
				best = h
			}
		}
	}
	return best
}

// LoopBlocks returns the natural loop of header h: h plus every block that
// reaches the source of a back edge to h without passing through h.
func LoopBlocks(h *ssa.BasicBlock) map[*ssa.BasicBlock]bool {
	in := map[*ssa.BasicBlock]bool{h: true}
	var stack []*ssa.BasicBlock
	for e := range BackEdgesTo(h) {
		if !in[e.From] {
			in[e.From] = true
			stack = append(stack, e.From)
		}
	}
	for len(stack) > 0 {
		b := stack[len(stack)-1]
		stack = stack[:len(stack)-1]
		for _, p := range b.Preds {
			if !in[p] {
				in[p] = true
				stack = append(stack, p)
			}
		}
	}
	return in
}

// LoopExits returns the edges leaving the natural loop of h.
func LoopExits(h *ssa.BasicBlock) []Edge {
	in := LoopBlocks(h)
	var out []Edge
	for b := range in {
		for i, s := range b.Succs {
			if !in[s] {
				out = append(out, Edge{b, i})
			}
		}
	}
	return out
}

// joinCtx remembers, for the most recently entered join blocks of the path
// being explored, through which predecessor they were entered. A later If
// that tests a phi of such a block (against nil, a constant, or as a boolean)
// whose value on that incoming edge is known can go only one way. This
// removes the classic infeasible path through a result variable ("res =
// errors.New(..); ...; if res != nil") without general path sensitivity.
type joinEntry struct {
	j  *ssa.BasicBlock
	pi int
}

type joinCtx []joinEntry

const maxJoinCtx = 4

func (c joinCtx) String() string {
	if len(c) == 0 {
		return ""
	}
	out := make([]byte, 0, 8*len(c))
	for _, e := range c {
		out = append(out, byte(e.j.Index), byte(e.j.Index>>8), byte(e.pi), ';')
	}
	return string(out)
}

// enter returns the context after taking the edge p -> s.
func (c joinCtx) enter(p, s *ssa.BasicBlock) joinCtx {
	hasPhi := false
	if len(s.Preds) > 1 && len(s.Instrs) > 0 {
		_, hasPhi = s.Instrs[0].(*ssa.Phi)
	}
	var out joinCtx
	for _, e := range c {
		if e.j != s {
			out = append(out, e)
		}
	}
	if !hasPhi {
		return out
	}
	pi := -1
	for i, pr := range s.Preds {
		if pr == p {
			if pi >= 0 {
				return out // two edges from the same block: unknown
			}
			pi = i
		}
	}
	if pi < 0 {
		return out
	}
	out = append(out, joinEntry{s, pi})
	if len(out) > maxJoinCtx {
		out = out[len(out)-maxJoinCtx:]
	}
	return out
}

// decide returns the only feasible successor index of b under the context,
// or -1.
func (c joinCtx) decide(b *ssa.BasicBlock, facts map[ssa.Value]bool) int {
	if (len(c) == 0 && len(facts) == 0) || len(b.Instrs) == 0 || len(b.Succs) != 2 {
		return -1
	}
	iff, ok := b.Instrs[len(b.Instrs)-1].(*ssa.If)
	if !ok {
		return -1
	}
	if len(facts) > 0 {
		cond, neg := iff.Cond, false
		for {
			u, ok := cond.(*ssa.UnOp)
			if !ok || u.Op != token.NOT {
				break
			}
			neg, cond = !neg, u.X
		}
		known, have := facts[cond]
		if !have {
			if ph, isPhi := cond.(*ssa.Phi); isPhi {
				for _, e := range c {
					if e.j == ph.Block() && e.pi < len(ph.Edges) {
						known, have = facts[ph.Edges[e.pi]]
					}
				}
			}
		}
		if have {
			if known != neg {
				return 0
			}
			return 1
		}
	}
	if len(c) == 0 {
		return -1
	}
	incoming := func(v ssa.Value) (ssa.Value, bool) {
		ph, ok := v.(*ssa.Phi)
		if !ok {
			return nil, false
		}
		for _, e := range c {
			if e.j == ph.Block() && e.pi < len(ph.Edges) {
				return ph.Edges[e.pi], true
			}
		}
		return nil, false
	}
	ph := func(v ssa.Value) *ssa.Phi { p, _ := v.(*ssa.Phi); return p }
	cond := iff.Cond
	neg := false
	for {
		u, ok := cond.(*ssa.UnOp)
		if !ok || u.Op != token.NOT {
			break
		}
		neg = !neg
		cond = u.X
	}
	val := -1 // 1: condition true, 0: false
	if v, ok := incoming(cond); ok {
		if k, isC := ConstBool(v); isC {
			val = 0
			if k {
				val = 1
			}
		} else if p, isPhi := cond.(*ssa.Phi); isPhi {
			// the incoming value is the very condition the predecessor
			// branched on: its outcome on that edge is known
			for _, e := range c {
				if e.j != p.Block() || e.pi >= len(e.j.Preds) {
					continue
				}
				pred := e.j.Preds[e.pi]
				if len(pred.Instrs) == 0 || len(pred.Succs) != 2 || pred.Succs[0] == pred.Succs[1] {
					continue
				}
				pi, isIf := pred.Instrs[len(pred.Instrs)-1].(*ssa.If)
				if !isIf {
					continue
				}
				pc, pneg := pi.Cond, false
				for {
					u, isU := pc.(*ssa.UnOp)
					if !isU || u.Op != token.NOT {
						break
					}
					pneg, pc = !pneg, u.X
				}
				vv, vneg := v, false
				for {
					u, isU := vv.(*ssa.UnOp)
					if !isU || u.Op != token.NOT {
						break
					}
					vneg, vv = !vneg, u.X
				}
				if pc != vv {
					continue
				}
				taken := 1 // condition true on Succs[0]
				if pred.Succs[1] == e.j {
					taken = 0
				}
				if pneg {
					taken = 1 - taken
				}
				if vneg {
					taken = 1 - taken
				}
				val = taken
			}
		}
	} else if bo, ok := cond.(*ssa.BinOp); ok && (bo.Op == token.EQL || bo.Op == token.NEQ) {
		for _, pr := range [][2]ssa.Value{{bo.X, bo.Y}, {bo.Y, bo.X}} {
			v, ok := incoming(pr[0])
			if !ok {
				continue
			}
			eq := -1
			switch {
			case IsNil(pr[1]):
				if IsNil(v) || nilOnEdge(v, c, ph(pr[0])) {
					eq = 1
				} else if KnownNonNil(v) || nonNilOnEdge(v, c, ph(pr[0])) {
					eq = 0
				}
			default:
				kc, ok1 := pr[1].(*ssa.Const)
				vc, ok2 := v.(*ssa.Const)
				if ok1 && ok2 && kc.Value != nil && vc.Value != nil {
					if constant.Compare(kc.Value, token.EQL, vc.Value) {
						eq = 1
					} else {
						eq = 0
					}
				}
			}
			if eq >= 0 {
				val = eq
				if bo.Op == token.NEQ {
					val = 1 - eq
				}
			}
		}
	}
	if val < 0 {
		return -1
	}
	if neg {
		val = 1 - val
	}
	if val == 1 {
		return 0
	}
	return 1
}

// KnownNonNil: v is an interface / pointer value that cannot be nil: the
// result of fmt.Errorf / errors.New, an interface made from a non-pointer
// value or from the address of a composite literal, an allocation, or a load
// of a package-level error variable that its package sets once to such a value.
func KnownNonNil(v ssa.Value) bool {
	switch x := v.(type) {
	case *ssa.Call:
		if f := x.Call.StaticCallee(); f != nil && f.Pkg != nil {
			full := f.Pkg.Pkg.Path() + "." + f.Name()
			return full == "fmt.Errorf" || full == "errors.New"
		}
		// ctx.Err() on the arm of a select that found ctx.Done() closed
		// (the documented contract of context.Context)
		if x.Call.IsInvoke() && x.Call.Method.Name() == "Err" && x.Call.Method.Pkg() != nil && x.Call.Method.Pkg().Path() == "context" {
			return afterDone(x)
		}
	case *ssa.MakeInterface:
		if _, isPtr := x.X.Type().Underlying().(*types.Pointer); !isPtr {
			return true
		}
		_, isAlloc := x.X.(*ssa.Alloc)
		return isAlloc
	case *ssa.Alloc:
		return true
	case *ssa.UnOp:
		if g, ok := x.X.(*ssa.Global); ok && x.Op == token.MUL {
			return GlobalIsErrSentinel(g)
		}
	}
	return false
}

// afterDone: the ctx.Err() call runs only on the arm of a select that received
// from Done() of the same context value.
func afterDone(call *ssa.Call) bool {
	fn := call.Parent()
	if fn == nil {
		return false
	}
	for _, b := range fn.Blocks {
		for _, in := range b.Instrs {
			sel, ok := in.(*ssa.Select)
			if !ok {
				continue
			}
			for i, st := range sel.States {
				dc, isCall := st.Chan.(*ssa.Call)
				if st.Dir != types.RecvOnly || !isCall || !dc.Call.IsInvoke() || dc.Call.Method.Name() != "Done" || dc.Call.Value != call.Call.Value {
					continue
				}
				for _, r := range Refs(sel) {
					e, isE := r.(*ssa.Extract)
					if !isE || e.Index != 0 {
						continue
					}
					for _, ib := range IntEqBranches(e) {
						if ib.K == int64(i) && EdgeDominates(fn, ib.Edge(), call.Block()) {
							return true
						}
					}
				}
			}
		}
	}
	return false
}

// GlobalIsErrSentinel: a package-level variable that the package initialiser
// sets to a freshly constructed non-nil value and nothing else in its package
// assigns.
func GlobalIsErrSentinel(g *ssa.Global) bool {
	if g.Pkg == nil {
		return false
	}
	init := g.Pkg.Func("init")
	if init == nil {
		return false
	}
	set := false
	for _, b := range init.Blocks {
		for _, in := range b.Instrs {
			if st, ok := in.(*ssa.Store); ok && st.Addr == ssa.Value(g) && KnownNonNil(st.Val) {
				set = true
			}
		}
	}
	if !set {
		return false
	}
	for _, m := range g.Pkg.Members {
		fn, ok := m.(*ssa.Function)
		if !ok || fn == init {
			continue
		}
		for _, b := range fn.Blocks {
			for _, in := range b.Instrs {
				if st, ok := in.(*ssa.Store); ok && st.Addr == ssa.Value(g) {
					return false
				}
			}
		}
	}
	return true
}

// ValueAt resolves a phi as seen from block use: if a later If tests a
// sibling phi of the same join block (against nil / a constant / as a
// boolean) and use lies behind exactly one outcome of that test, only the
// incoming edges compatible with that outcome can have led to use; when all
// of them carry the same value, that value is returned (recursively), else v.
// Typical: `k, err := helper(); if err != nil { return }; f(k)` after the
// helper was inlined: k is a phi of (nil, buf.Bytes()), err a phi of
// (someError, nil); at f(k) the value is buf.Bytes().
func ValueAt(v ssa.Value, use *ssa.BasicBlock) ssa.Value {
	for round := 0; round < 6; round++ {
		v = valueAtPhi(v, use)
		w := freshStructField(v, use)
		if w == nil {
			return v
		}
		v = w
	}
	return v
}

// freshStructField: v loads field f of a struct that this function allocates
// itself (a composite literal, possibly behind phis whose other edges are
// infeasible at use or nil), never hands to anyone (its address is used for
// field accesses, nil tests and phis only) and whose field f it stores exactly
// once: the stored value. This is what is left of a small parameter / result
// struct of a helper once the helper has been written out in its caller. nil
// when v is not such a load.
func freshStructField(v ssa.Value, use *ssa.BasicBlock) ssa.Value {
	ld, ok := v.(*ssa.UnOp)
	if !ok || ld.Op != token.MUL {
		if f, isF := v.(*ssa.Field); isF {
			// field of a struct value loaded from such a cell
			if l2, ok2 := f.X.(*ssa.UnOp); ok2 && l2.Op == token.MUL {
				if a := freshAlloc(l2.X, use); a != nil {
					return singleFieldStore(a, f.Field)
				}
			}
		}
		return nil
	}
	fa, ok := ld.X.(*ssa.FieldAddr)
	if !ok {
		return nil
	}
	a := freshAlloc(fa.X, use)
	if a == nil {
		// a field of a struct-typed field: outer.inner.f
		if outer, isFA := fa.X.(*ssa.FieldAddr); isFA {
			if oa := freshAlloc(outer.X, use); oa != nil {
				if inner := singleFieldStore(oa, outer.Field); inner != nil {
					return fieldOfStructValue(inner, fa.Field, use, 0)
				}
			}
		}
		return nil
	}
	return singleFieldStore(a, fa.Field)
}

// fieldOfStructValue: field #field of the struct value v, when v is (at use,
// looking through the merges of result variables where only one edge can get
// there) a copy of a struct this function built itself.
func fieldOfStructValue(v ssa.Value, field int, use *ssa.BasicBlock, depth int) ssa.Value {
	if depth > 4 {
		return nil
	}
	if in, ok := v.(ssa.Instruction); ok && in.Block() != nil {
		v = valueAtPhi(v, use)
	}
	if ld, ok := v.(*ssa.UnOp); ok && ld.Op == token.MUL {
		if a := freshAlloc(ld.X, use); a != nil {
			if w := singleFieldStore(a, field); w != nil {
				return w
			}
		}
	}
	return nil
}

func freshAlloc(p ssa.Value, use *ssa.BasicBlock) *ssa.Alloc {
	p = valueAtPhi(p, use)
	if ph, isPhi := p.(*ssa.Phi); isPhi {
		// all non-nil edges are one alloc
		var one ssa.Value
		for _, e := range ph.Edges {
			e = valueAtPhi(e, use)
			if IsNil(e) {
				continue
			}
			if one != nil && one != e {
				return nil
			}
			one = e
		}
		p = one
	}
	a, ok := p.(*ssa.Alloc)
	if !ok {
		return nil
	}
	if _, isStruct := a.Type().(*types.Pointer).Elem().Underlying().(*types.Struct); !isStruct {
		return nil
	}
	// the address stays in the function
	seen := map[ssa.Value]bool{}
	var local func(x ssa.Value) bool
	local = func(x ssa.Value) bool {
		if seen[x] {
			return true
		}
		seen[x] = true
		for _, r := range Refs(x) {
			switch r := r.(type) {
			case *ssa.FieldAddr:
				var inner func(fa *ssa.FieldAddr) bool
				inner = func(fa *ssa.FieldAddr) bool {
					for _, rr := range Refs(fa) {
						switch rr := rr.(type) {
						case *ssa.Store:
							if rr.Addr != ssa.Value(fa) {
								return false
							}
						case *ssa.UnOp:
							if rr.Op != token.MUL {
								return false
							}
						case *ssa.FieldAddr:
							if !inner(rr) {
								return false
							}
						case *ssa.DebugRef:
						default:
							return false
						}
					}
					return true
				}
				if !inner(r) {
					return false
				}
			case *ssa.Phi:
				if !local(r) {
					return false
				}
			case *ssa.BinOp:
				if r.Op != token.EQL && r.Op != token.NEQ {
					return false
				}
			case *ssa.UnOp:
				// a load of the whole struct (copy into a value)
				if r.Op != token.MUL {
					return false
				}
			case *ssa.Store:
				// the composite literal written as a whole into the cell
				if r.Addr != x {
					return false
				}
				return false
			case *ssa.DebugRef:
			default:
				return false
			}
		}
		return true
	}
	if !local(a) {
		return nil
	}
	return a
}

func singleFieldStore(a *ssa.Alloc, field int) ssa.Value {
	var val ssa.Value
	n := 0
	for _, r := range Refs(a) {
		fa, ok := r.(*ssa.FieldAddr)
		if !ok || fa.Field != field {
			continue
		}
		for _, rr := range Refs(fa) {
			if st, isSt := rr.(*ssa.Store); isSt && st.Addr == ssa.Value(fa) {
				n++
				// (what the phis it is made of hold where the store stands)
				val = valueAtPhi(st.Val, st.Block())
			}
		}
	}
	if n != 1 {
		return nil
	}
	return val
}

func valueAtPhi(v ssa.Value, use *ssa.BasicBlock) ssa.Value {
	for depth := 0; depth < 4; depth++ {
		ph, ok := v.(*ssa.Phi)
		if !ok || use == nil {
			return v
		}
		j := ph.Block()
		fn := j.Parent()
		feasible := make([]bool, len(ph.Edges))
		for i := range feasible {
			feasible[i] = true
		}
		for _, b := range fn.Blocks {
			if len(b.Instrs) == 0 || len(b.Succs) != 2 {
				continue
			}
			if _, ok := b.Instrs[len(b.Instrs)-1].(*ssa.If); !ok {
				continue
			}
			// which outcome of this test leads to use?
			out := -1
			for s := 0; s < 2; s++ {
				if EdgeDominates(fn, Edge{b, s}, use) {
					out = s
				}
			}
			if out < 0 {
				continue
			}
			for i := range ph.Edges {
				c := joinCtx{{j, i}}
				if d := c.decide(b, nil); d >= 0 && d != out {
					feasible[i] = false
				}
			}
		}
		var val ssa.Value
		same := true
		n := 0
		for i, e := range ph.Edges {
			if !feasible[i] {
				continue
			}
			n++
			if val == nil {
				val = e
			} else if val != e {
				same = false
			}
		}
		if n == 0 || !same || val == nil {
			return v
		}
		v = val
	}
	return v
}

// nonNilOnEdge: the value v that phi p receives on the incoming edge recorded
// in the context was tested non-nil on the way there (the predecessor block is
// dominated by the non-nil edge of a test of v).
func nonNilOnEdge(v ssa.Value, c joinCtx, p *ssa.Phi) bool {
	if p == nil {
		return false
	}
	for _, e := range c {
		if e.j != p.Block() || e.pi >= len(e.j.Preds) {
			continue
		}
		pred := e.j.Preds[e.pi]
		for _, br := range NilBranches(v) {
			if br.Pol < 0 {
				continue // a test of a merged value says nothing about v alone
			}
			other := br.Other()
			// block reached only through the non-nil edge?
			if other.From.Succs[other.Succ] == pred || edgeDominatesRaw(pred.Parent(), other, pred) {
				return true
			}
		}
	}
	return false
}

// nilOnEdge: the value the phi receives over the context's edge was tested
// nil on the way there (the edge's source is reached only through the nil edge
// of a test of v itself).
func nilOnEdge(v ssa.Value, c joinCtx, p *ssa.Phi) bool {
	if p == nil {
		return false
	}
	for _, e := range c {
		if e.j != p.Block() || e.pi >= len(e.j.Preds) {
			continue
		}
		pred := e.j.Preds[e.pi]
		for _, br := range NilBranches(v) {
			if br.Pol < 0 {
				continue
			}
			ne := br.Edge()
			if ne.From.Succs[ne.Succ] == pred || ne.From == pred && ne.From.Succs[ne.Succ] == e.j || edgeDominatesRaw(pred.Parent(), ne, pred) {
				return true
			}
		}
	}
	return false
}

// edgeDominatesRaw is EdgeDominates over the plain CFG (no join context): used
// inside the context machinery itself.
func edgeDominatesRaw(fn *ssa.Function, e Edge, x *ssa.BasicBlock) bool {
	if len(fn.Blocks) == 0 {
		return false
	}
	seen := map[*ssa.BasicBlock]bool{fn.Blocks[0]: true}
	stack := []*ssa.BasicBlock{fn.Blocks[0]}
	for len(stack) > 0 {
		b := stack[len(stack)-1]
		stack = stack[:len(stack)-1]
		for i, s := range b.Succs {
			if (Edge{b, i}) == e || seen[s] {
				continue
			}
			seen[s] = true
			stack = append(stack, s)
		}
	}
	return !seen[x]
}

// ---- "cannot happen" guard clauses ----

// onlyForMessage: the call takes no arguments besides its receiver and its
// result goes nowhere but into the arguments of a logger / fmt call (it is
// asked for a name, an address, a height to print).
func onlyForMessage(call *ssa.Call, depth int) bool {
	cc := call.Common()
	n := len(cc.Args)
	if !cc.IsInvoke() && cc.Signature().Recv() != nil {
		n--
	}
	if n > 0 {
		return false
	}
	if cc.Signature().Results().Len() != 1 {
		return false
	}
	var sink func(v ssa.Value, d int) bool
	sink = func(v ssa.Value, d int) bool {
		refs := v.Referrers()
		if refs == nil || len(*refs) == 0 || d > 4 {
			return false
		}
		for _, r := range *refs {
			switch x := r.(type) {
			case *ssa.MakeInterface, *ssa.ChangeInterface, *ssa.ChangeType, *ssa.Convert:
				if !sink(x.(ssa.Value), d+1) {
					return false
				}
			case *ssa.Store:
				// into the argument array of a variadic call
				ia, ok := x.Addr.(*ssa.IndexAddr)
				if !ok {
					return false
				}
				if _, isAl := ia.X.(*ssa.Alloc); !isAl {
					return false
				}
			case *ssa.Call:
				c2 := x.Common()
				if c2.IsInvoke() {
					if nn, ok := c2.Value.Type().(*types.Named); ok && nn.Obj().Name() == "Logger" {
						continue
					}
					return false
				}
				f := c2.StaticCallee()
				if f == nil || f.Pkg == nil || f.Pkg.Pkg.Path() != "fmt" {
					return false
				}
			default:
				return false
			}
		}
		return true
	}
	return sink(call, 0)
}

var nilGuardCache = map[*ssa.Function]Cut{}

// every "something that must be present is missing" edge, whatever happens
// behind it (NilGuardEdges keeps only those behind which nothing happens)
var missingEdgeCache = map[*ssa.Function]Cut{}

// UnderMissingInput reports whether the instruction only runs behind an edge
// on which a value that must be present (see NilGuardEdges) was found missing:
// its block is dominated by the target of such an edge.
func UnderMissingInput(in ssa.Instruction) bool {
	b := in.Block()
	if b == nil {
		return false
	}
	fn := b.Parent()
	NilGuardEdges(fn)
	for e := range missingEdgeCache[fn] {
		t := e.From.Succs[e.Succ]
		all := true
		for _, p := range t.Preds {
			found := false
			for i, sc := range p.Succs {
				if sc == t && missingEdgeCache[fn][Edge{p, i}] {
					found = true
				}
			}
			if !found {
				all = false
			}
		}
		if all && (t == b || t.Dominates(b)) {
			return true
		}
	}
	return false
}

// NeverNilField, when set, reports that a struct field holds a freshly made
// value from construction on and is never stored to again (see the rules
// package): a test of it against nil goes one way.
var NeverNilField func(f *types.Var) bool

// DisableNilGuards switches the pruning of NilGuardEdges off (self-test).
var DisableNilGuards = os.Getenv("NVET_NONILGUARD") != ""

// NilGuardEdges returns the edges taken when a value that the code around it
// treats as always present - a parameter, an element of a slice being ranged
// over, the result of a call - is found to be nil, where all that happens on
// that edge is logging / building an error value before the function returns
// or the loop goes on to its next element ("defensive" guard clauses: `if sp
// == nil { log.Warn(..); return }`, `if hdr == nil { continue }`). The
// explorations of this package do not follow these edges: what a rule says
// about "every path" is said about the paths on which the inputs exist, which
// is what the code said before the guard was there (it dereferenced them).
func NilGuardEdges(fn *ssa.Function) Cut {
	if DisableNilGuards || fn == nil {
		return nil
	}
	if c, ok := nilGuardCache[fn]; ok {
		return c
	}
	cut := Cut{}
	nilGuardCache[fn] = cut
	depthSrc := 0
	var source func(v ssa.Value) bool
	source = func(v ssa.Value) bool {
		for i := 0; i < 4; i++ {
			switch x := v.(type) {
			case *ssa.ChangeType:
				v = x.X
				continue
			case *ssa.ChangeInterface:
				v = x.X
				continue
			}
			break
		}
		switch x := v.(type) {
		case *ssa.Parameter:
			return true
		case *ssa.Call:
			return true
		case *ssa.Extract:
			_, isCall := x.Tuple.(*ssa.Call)
			if isCall {
				return true
			}
			// element delivered by a range over a slice / map
			if _, isNext := x.Tuple.(*ssa.Next); isNext {
				return true
			}
			// a value received in a select arm / by a comma-ok receive
			if _, isSel := x.Tuple.(*ssa.Select); isSel && x.Index >= 2 {
				return true
			}
			if u, isU := x.Tuple.(*ssa.UnOp); isU && u.Op == token.ARROW && x.Index == 0 {
				return true
			}
			// the value of a comma-ok type assertion
			if ta, isTA := x.Tuple.(*ssa.TypeAssert); isTA && ta.CommaOk && x.Index == 0 {
				return true
			}
			return false
		case *ssa.UnOp:
			if x.Op == token.ARROW {
				return true // a received value
			}
			if x.Op != token.MUL {
				return false
			}
			switch a := x.X.(type) {
			case *ssa.IndexAddr:
				return true // s[i]
			case *ssa.Alloc:
				// a parameter / call result kept in a cell (a local that a
				// function literal captures) and never written again
				sts := StoresTo(a)
				if len(sts) != 1 || depthSrc > 2 {
					return false
				}
				depthSrc++
				okS := source(sts[0].Val)
				depthSrc--
				return okS
			}
		case *ssa.Index, *ssa.Lookup:
			return true
		}
		return false
	}
	var allNilTests func(s *ssa.BasicBlock) bool
	benign := func(b *ssa.BasicBlock) bool {
		for _, in := range b.Instrs {
			switch x := in.(type) {
			case *ssa.Store:
				// only into memory made right here (the argument array of a
				// variadic log call)
				root := x.Addr
				for {
					if ia, ok := root.(*ssa.IndexAddr); ok {
						root = ia.X
						continue
					}
					if fa, ok := root.(*ssa.FieldAddr); ok {
						root = fa.X
						continue
					}
					break
				}
				al, ok := root.(*ssa.Alloc)
				if !ok || al.Block() != b {
					return false
				}
			case *ssa.Call:
				cc := x.Common()
				if cc.IsInvoke() {
					if n, ok := cc.Value.Type().(*types.Named); ok && n.Obj().Name() == "Logger" && n.Obj().Pkg() != nil && n.Obj().Pkg().Name() == "btclog" {
						continue
					}
					if cc.Method.Name() == "Error" || cc.Method.Name() == "String" {
						continue
					}
					if onlyForMessage(x, 0) {
						continue // a getter called for the log line
					}
					return false
				}
				if f := cc.StaticCallee(); f != nil && f.Pkg != nil {
					switch f.Pkg.Pkg.Path() + "." + f.Name() {
					case "fmt.Errorf", "fmt.Sprintf", "errors.New", "fmt.Sprint":
						continue
					}
				}
				if bi, ok := cc.Value.(*ssa.Builtin); ok && (bi.Name() == "len" || bi.Name() == "cap") {
					continue
				}
				if onlyForMessage(x, 0) {
					continue // a getter called for the log line
				}
				return false
			case *ssa.Send, *ssa.Go, *ssa.Defer, *ssa.MapUpdate, *ssa.Select, *ssa.Panic, *ssa.RunDefers:
				if _, isRD := in.(*ssa.RunDefers); isRD {
					continue
				}
				// telling the requester "no" (an error that is not nil)
				// before leaving is part of refusing
				if snd, isSend := in.(*ssa.Send); isSend && KnownNonNil(snd.X) &&
					types.Identical(snd.X.Type(), types.Universe.Lookup("error").Type()) {
					continue
				}
				return false
			}
		}
		return true
	}
	// nilTest: block b ends in a test of a "present" value against nil; the
	// index of the successor taken when it is nil, or -1
	// present: v is a value the code treats as present, or a field reached
	// from one that is not the method's own receiver (req.Input of a
	// request handed in; never b.nextCheckpoint)
	var present func(v ssa.Value, d int) bool
	present = func(v ssa.Value, d int) bool {
		if types.Identical(v.Type(), types.Universe.Lookup("error").Type()) {
			return false // an error that is nil is the ordinary case
		}
		if source(v) {
			return true
		}
		if d > 3 {
			return false
		}
		if ld, ok := v.(*ssa.UnOp); ok && ld.Op == token.MUL {
			if fa, ok := ld.X.(*ssa.FieldAddr); ok {
				if p, isP := fa.X.(*ssa.Parameter); isP && fn.Signature.Recv() != nil && len(fn.Params) > 0 && p == fn.Params[0] {
					return false
				}
				return present(fa.X, d+1)
			}
		}
		if f, ok := v.(*ssa.Field); ok {
			return present(f.X, d+1)
		}
		return false
	}
	// condNil: for a condition that says "something that must be present is
	// nil" (== nil; a disjunction of such tests) the successor index taken
	// then is 0; for "everything is present" (!= nil; a conjunction) it is 1;
	// -1 otherwise
	var condNil func(c ssa.Value, d int) int
	condNil = func(c ssa.Value, d int) int {
		if d > 4 {
			return -1
		}
		switch x := c.(type) {
		case *ssa.BinOp:
			if x.Op != token.EQL && x.Op != token.NEQ {
				return -1
			}
			var v ssa.Value
			switch {
			case IsNil(x.Y):
				v = x.X
			case IsNil(x.X):
				v = x.Y
			default:
				return -1
			}
			if !present(v, 0) {
				return -1
			}
			if x.Op == token.NEQ {
				return 1
			}
			return 0
		case *ssa.UnOp:
			if x.Op == token.NOT {
				if k := condNil(x.X, d+1); k >= 0 {
					return 1 - k
				}
			}
		case *ssa.Extract:
			// the ok of `v, ok := <-ch`, `v, ok := x.(T)`, `v, ok := m[k]`:
			// "not ok" is the missing case
			if x.Index != 1 {
				if sel, isSel := x.Tuple.(*ssa.Select); !isSel || x.Index != 1 || !sel.Blocking {
					return -1
				}
			}
			switch t := x.Tuple.(type) {
			case *ssa.Select:
				return 1
			case *ssa.UnOp:
				if t.Op == token.ARROW && t.CommaOk {
					return 1
				}
			case *ssa.TypeAssert:
				if t.CommaOk {
					return 1
				}
			case *ssa.Lookup:
				if t.CommaOk {
					return 1
				}
			}
			return -1
		case *ssa.Phi:
			kind := -1
			for _, e := range x.Edges {
				if b, isC := ConstBool(e); isC {
					// false joins a conjunction, true a disjunction
					k := 1
					if b {
						k = 0
					}
					if kind >= 0 && kind != k {
						return -1
					}
					kind = k
					continue
				}
				k := condNil(e, d+1)
				if k < 0 || (kind >= 0 && kind != k) {
					return -1
				}
				kind = k
			}
			return kind
		}
		return -1
	}
	// nilTest: block b ends in such a test; the index of the successor taken
	// when something is missing, or -1
	nilTest := func(b *ssa.BasicBlock) int {
		if len(b.Instrs) == 0 || len(b.Succs) != 2 {
			return -1
		}
		iff, ok := b.Instrs[len(b.Instrs)-1].(*ssa.If)
		if !ok {
			return -1
		}
		return condNil(iff.Cond, 0)
	}
	// allNilTests: every way into s is the nil edge of such a test (the body
	// of `if a == nil || b == nil { .. }`)
	allNilTests = func(s *ssa.BasicBlock) bool {
		for _, p := range s.Preds {
			k := nilTest(p)
			if k < 0 || p.Succs[k] != s {
				return false
			}
		}
		return len(s.Preds) > 0
	}
	missing := Cut{}
	missingEdgeCache[fn] = missing
	// tests of fields that are never nil
	if NeverNilField != nil {
		for _, b := range fn.Blocks {
			if len(b.Instrs) == 0 || len(b.Succs) != 2 {
				continue
			}
			iff, ok := b.Instrs[len(b.Instrs)-1].(*ssa.If)
			if !ok {
				continue
			}
			bo, ok := iff.Cond.(*ssa.BinOp)
			if !ok || (bo.Op != token.EQL && bo.Op != token.NEQ) {
				continue
			}
			var v ssa.Value
			switch {
			case IsNil(bo.Y):
				v = bo.X
			case IsNil(bo.X):
				v = bo.Y
			default:
				continue
			}
			ld, ok := v.(*ssa.UnOp)
			if !ok || ld.Op != token.MUL {
				continue
			}
			fa, ok := ld.X.(*ssa.FieldAddr)
			if !ok {
				continue
			}
			if f := FieldOfAddr(fa); f != nil && NeverNilField(f) {
				k := 0
				if bo.Op == token.NEQ {
					k = 1
				}
				cut[Edge{b, k}] = true
			}
		}
	}
	for _, b := range fn.Blocks {
		nilSucc := nilTest(b)
		if nilSucc < 0 {
			continue
		}
		missing[Edge{b, nilSucc}] = true
		// the region behind the nil edge
		s := b.Succs[nilSucc]
		okRegion := true
		for depth := 0; depth < 4 && okRegion; depth++ {
			if len(s.Preds) > 1 && !(depth == 0 && allNilTests(s)) {
				// straight to a join: only the next round of the enclosing
				// loop (`continue`) is a way out; skipping an optional step
				// (`if cb != nil { cb() }`) is not a guard clause
				if !(depth > 0 || s.Dominates(b)) {
					okRegion = false
				}
				break
			}
			if !benign(s) {
				okRegion = false
				break
			}
			last := s.Instrs[len(s.Instrs)-1]
			if _, isRet := last.(*ssa.Return); isRet {
				break
			}
			if _, isJump := last.(*ssa.Jump); !isJump {
				// a further test inside the guard: too much for a guard clause
				okRegion = false
				break
			}
			t := s.Succs[0]
			if len(t.Preds) > 1 {
				// a join with the ordinary flow (next iteration, code
				// behind the if): nothing else happened on the way ...
				// unless a variable leaves the clause with another value
				// than it has on the other ways in (`if el.Next() == nil {
				// found = false }` decides something; it guards nothing)
				if !t.Dominates(b) {
					pi := -1
					for i, p := range t.Preds {
						if p == s {
							pi = i
						}
					}
					for _, in := range t.Instrs {
						ph, isPhi := in.(*ssa.Phi)
						if !isPhi {
							break
						}
						for i, e := range ph.Edges {
							if pi >= 0 && i != pi && e != ph.Edges[pi] {
								okRegion = false
							}
						}
					}
				}
				break
			}
			s = t
		}
		if okRegion {
			cut[Edge{b, nilSucc}] = true
		}
	}
	return cut
}

// InGuardClause reports whether the instruction sits in the part of the
// function that only runs behind a NilGuardEdges edge (the body of a guard
// clause on a value that must be present).
func InGuardClause(in ssa.Instruction) bool {
	b := in.Block()
	if b == nil {
		return false
	}
	fn := b.Parent()
	ng := NilGuardEdges(fn)
	if len(ng) == 0 {
		return false
	}
	return !ReachEntry(fn, nil)[b]
}
