package rules

import (
	"fmt"
	"go/token"
	"go/types"
	"sort"

	"golang.org/x/tools/go/ssa"

	"verif/checker/internal/ir"
)

func init() {
	register(&Prop{ID: "C03", Run: runC03, NotDecided: []string{
		"that the honest value wins a disagreement between peers (depends on what peers send)",
		"resolveFilterMismatchFromBlock heuristics; 'an honest peer is never banned'",
		"that the filter-header chain never runs ahead of the block-header chain at run time (only the ordering of the two rollbacks and the ancestor lookup are decided)",
	}})
}

const (
	fnWriteCFH   = "(*neutrino.blockManager).writeCFHeadersMsg"
	fnRollBack   = "(*neutrino.blockManager).rollBackToHeight"
	fnCFHResp    = "(*neutrino.checkpointedCFHeadersQuery).handleResponse"
	fnUncheckCFH = "(*neutrino.blockManager).getUncheckpointedCFHeaders"
	fnResolve    = "(*neutrino.blockManager).resolveConflict"
)

// banCalls selects calls of the ban function: through the func-typed config
// field blockManagerCfg.BanPeer or directly (*ChainService).BanPeer.
func (c *Ctx) banCalls() Sel {
	f := c.field("neutrino", "blockManagerCfg", "BanPeer")
	m := c.method("neutrino", "ChainService", "BanPeer")
	return anyOf(callVia(f), callTo(m))
}

// banReason returns the constant reason argument of a ban call (-1 if not
// constant).
func banReason(in ssa.Instruction) int64 {
	args := argsOf(in)
	if len(args) < 2 {
		return -1
	}
	if k, ok := ir.ConstInt(args[len(args)-1]); ok {
		return k
	}
	return -1
}

func (c *Ctx) banReasonConst(name string) int64 {
	p := c.P.Pkg("banman")
	if p == nil {
		panic(anchorErr{"package banman"})
	}
	k, ok := p.Scope().Lookup(name).(*types.Const)
	if !ok {
		panic(anchorErr{"const banman." + name})
	}
	v, _ := ir.ConstInt(ssa.NewConst(k.Val(), k.Type()))
	return v
}

func runC03(c *Ctx) {
	fhs := func(m string) *types.Func { return c.method("headerfs", "FilterHeaderStore", m) }
	bhs := func(m string) *types.Func { return c.method("headerfs", "BlockHeaderStore", m) }
	prevFH := func() *types.Var { return c.field(pWire, "MsgCFHeaders", "PrevFilterHeader") }

	c.rule("C03.G1", "writeCFHeadersMsg: store.WriteHeaders(headerBatch...) only if the message continues the stored filter tip (*tip != msg.PrevFilterHeader is false) and its blocks are known (FetchHeaderAncestors(n-1,&msg.StopHash)=nil)", func() {
		fn := c.fn(fnWriteCFH)
		writes := find(fn, callTo(fhs("WriteHeaders")))
		tipCalls := find(fn, callTo(fhs("ChainTip")))
		isTip := func(v ssa.Value) bool {
			return ir.DerivesFrom(v, func(x ssa.Value) bool {
				in, ok := x.(ssa.Instruction)
				return ok && callTo(fhs("ChainTip"))(in)
			})
		}
		cmps := find(fn, binops(eqOps, isTip, loadsField(prevFH())))
		c.guarded(fn, errNil("store.ChainTip()", tipCalls, 2), 1, "store.WriteHeaders", writes, 1, gDominate)
		c.guarded(fn, equalIs("*tip vs msg.PrevFilterHeader", cmps, true), 1, "store.WriteHeaders", writes, 1, gDominate)
		stopHash := c.field(pWire, "MsgCFHeaders", "StopHash")
		anc := find(fn, anyArg(callTo(bhs("FetchHeaderAncestors")), fieldAddrOf(stopHash)))
		c.guarded(fn, errNil("BlockHeaders.FetchHeaderAncestors(n-1,&msg.StopHash)", anc, 2), 1, "store.WriteHeaders", writes, 1, gDominate)
		// the store tip that is compared is that of the store that is written
		okSame := len(writes) == 1 && len(tipCalls) >= 1
		if okSame {
			w := ir.CallOf(writes[0])
			for _, t := range tipCalls {
				if ir.CallOf(t).Value != w.Value {
					okSame = false
				}
			}
		}
		c.verdict(okSame, c.nm(fn)+" | tip checked on the store that is written", c.P.Pos(fn.Pos()),
			"ChainTip and WriteHeaders use the same store value", "ChainTip is read from a different store value than the one written", c.ats(writes)...)
	})

	c.rule("C03.V1", "writeCFHeadersMsg: every FilterHash written is chainhash.DoubleHashH(filterHash || previous header) seeded with msg.PrevFilterHeader; the last entry's HeaderHash/Height come from the fetched block headers", func() {
		fn := c.fn(fnWriteCFH)
		dh := c.funcObj(pChainhash, "DoubleHashH")
		fHash := c.field("headerfs", "FilterHeader", "FilterHash")
		hHash := c.field("headerfs", "FilterHeader", "HeaderHash")
		hHeight := c.field("headerfs", "FilterHeader", "Height")
		fHashes := c.field(pWire, "MsgCFHeaders", "FilterHashes")
		anc := bhs("FetchHeaderAncestors")
		check := func(f *types.Var, what string, pred func(ssa.Value) bool, min int) {
			sts := find(fn, storeToField(f))
			okv := len(sts) >= min
			for _, s := range sts {
				if !pred(s.(*ssa.Store).Val) {
					okv = false
				}
			}
			c.verdict(okv, c.nm(fn)+" | provenance of FilterHeader."+f.Name(), c.P.Pos(fn.Pos()), what, "a value stored into FilterHeader."+f.Name()+" does not have the required provenance ("+what+")", c.ats(sts)...)
		}
		check(fHash, "result of DoubleHashH", func(v ssa.Value) bool { return ir.DerivesFrom(v, valIsCallTo(dh)) }, 1)
		check(hHash, "influenced by the FetchHeaderAncestors result", func(v ssa.Value) bool { return ir.InfluencedBy(v, valIsCallTo(anc)) }, 1)
		check(hHeight, "influenced by the FetchHeaderAncestors start height", func(v ssa.Value) bool { return ir.InfluencedBy(v, valIsCallTo(anc)) }, 1)
		dhs := find(fn, callTo(dh))
		okv := len(dhs) >= 1
		for _, d := range dhs {
			a := ir.CallOf(d).Args[0]
			if !bytesFrom(a, loadsField(fHashes)) || !bytesFrom(a, loadsField(prevFH())) {
				okv = false
			}
		}
		c.verdict(okv, c.nm(fn)+" | DoubleHashH input = msg.FilterHashes[i] || running header seeded by msg.PrevFilterHeader", c.P.Pos(fn.Pos()),
			"hash input derives from both msg.FilterHashes and msg.PrevFilterHeader", "DoubleHashH input is not built from msg.FilterHashes and the header chain seeded with msg.PrevFilterHeader", c.ats(dhs)...)
	})

	c.rule("C03.G2", "checkpointedCFHeadersQuery.handleResponse: delivery on headerChan and a positive Progress only for a *MsgCFHeaders answering our *MsgGetCFHeaders with equal FilterType and StopHash, a requested stop hash, and verifyCheckpoint=true; on its false edge BanPeer(InvalidFilterHeaderCheckpoint) follows", func() {
		fn := c.fn(fnCFHResp)
		hc := c.field("neutrino", "checkpointedCFHeadersQuery", "headerChan")
		effects := append(find(fn, sendOn(loadsField(hc))), progressReturns(fn, true)...)
		msgCFH := c.P.Named(pWire, "MsgCFHeaders")
		msgGet := c.P.Named(pWire, "MsgGetCFHeaders")
		if msgCFH == nil || msgGet == nil {
			panic(anchorErr{"wire.MsgCFHeaders / MsgGetCFHeaders"})
		}
		c.guarded(fn, okIs("resp.(*wire.MsgCFHeaders)", find(fn, typeAsserts(types.NewPointer(msgCFH)))), 1, "headerChan send / positive progress", effects, 2, gDominate)
		c.guarded(fn, okIs("req.(*wire.MsgGetCFHeaders)", find(fn, typeAsserts(types.NewPointer(msgGet)))), 1, "headerChan send / positive progress", effects, 2, gDominate)
		ftQ := c.field(pWire, "MsgGetCFHeaders", "FilterType")
		ftR := c.field(pWire, "MsgCFHeaders", "FilterType")
		shQ := c.field(pWire, "MsgGetCFHeaders", "StopHash")
		shR := c.field(pWire, "MsgCFHeaders", "StopHash")
		c.guarded(fn, equalIs("q.FilterType vs r.FilterType", find(fn, binops(eqOps, loadsField(ftQ), loadsField(ftR))), true), 1, "headerChan send / positive progress", effects, 2, gDominate)
		c.guarded(fn, equalIs("q.StopHash vs r.StopHash", find(fn, binops(eqOps, loadsField(shQ), loadsField(shR))), true), 1, "headerChan send / positive progress", effects, 2, gDominate)
		sh := c.field("neutrino", "checkpointedCFHeadersQuery", "stopHashes")
		c.guarded(fn, okIs("c.stopHashes[r.StopHash]", find(fn, lookupsOn(loadsField(sh)))), 1, "headerChan send / positive progress", effects, 2, gDominate)
		want := c.banReasonConst("InvalidFilterHeaderCheckpoint")
		ban := func(in ssa.Instruction) bool { return c.banCalls()(in) && banReason(in) == want }
		if vc := c.P.FuncObj("neutrino", "verifyCheckpoint"); vc != nil {
			g := boolIs("verifyCheckpoint(prev,next,r)", find(fn, callTo(vc)), 0, true)
			c.guarded(fn, g, 1, "headerChan send / positive progress", effects, 2, gDominate)
			c.mustFollow(fn, "verifyCheckpoint=false", c.failEdges(g), ban, "BanPeer(peer, InvalidFilterHeaderCheckpoint)", nil, 1)
		} else {
			// the verification is written out in the handler: both of its
			// comparisons guard the delivery, a failed one leads to the ban
			gp, gf := c.checkpointCmps(fn)
			c.guarded(fn, gp, 1, "headerChan send / positive progress", effects, 2, gDominate)
			c.guarded(fn, gf, 1, "headerChan send / positive progress", effects, 2, gDominate)
			c.mustFollow(fn, "response does not start at the previous checkpoint", c.failEdges(gp), ban, "BanPeer(peer, InvalidFilterHeaderCheckpoint)", nil, 1)
			c.mustFollow(fn, "folded header chain does not end at the next checkpoint", c.failEdges(gf), ban, "BanPeer(peer, InvalidFilterHeaderCheckpoint)", nil, 1)
		}
		// the message delivered is the verified response
		okMsg := true
		for _, e := range find(fn, sendOn(loadsField(hc))) {
			if sel, ok := e.(*ssa.Select); ok {
				for _, st := range sel.States {
					if st.Dir == types.SendOnly && !ir.DerivesFrom(st.Send, isParam(fn, 2)) {
						okMsg = false
					}
				}
			}
		}
		c.verdict(okMsg, c.nm(fn)+" | delivered message is the response that was verified", c.P.Pos(fn.Pos()), "value sent on headerChan derives from the resp parameter", "value sent on headerChan is not the verified response")
	})

	c.rule("C03.G3", "verifyCheckpoint returns true only if *prevCheckpoint == cfheaders.PrevFilterHeader and the folded DoubleHashH chain equals *nextCheckpoint", func() {
		dh := c.funcObj(pChainhash, "DoubleHashH")
		if c.P.Func("neutrino.verifyCheckpoint") == nil {
			// folded into the response handler: the two comparisons exist (their
			// guarding role is C03.G2) and the fold consumes the right input
			fn := c.fn(fnCFHResp)
			gp, gf := c.checkpointCmps(fn)
			c.verdict(len(gp.sites) >= 1 && len(gf.sites) >= 1, c.nm(fn)+" | compares *prevCheckpoint with PrevFilterHeader and the DoubleHashH fold with *nextCheckpoint", c.P.Pos(fn.Pos()), "both comparisons present", "the response handler no longer compares the response's PrevFilterHeader with the previous checkpoint and the folded header chain with the next checkpoint")
			fHashes := c.field(pWire, "MsgCFHeaders", "FilterHashes")
			dhs := find(fn, callTo(dh))
			okv := len(dhs) >= 1
			for _, d := range dhs {
				a := ir.CallOf(d).Args[0]
				if !bytesFrom(a, loadsField(fHashes)) || !bytesFrom(a, loadsField(prevFH())) {
					okv = false
				}
			}
			c.verdict(okv, c.nm(fn)+" | fold input = FilterHashes[i] || running header seeded by PrevFilterHeader", c.P.Pos(fn.Pos()), "fold consumes cfheaders.FilterHashes seeded with PrevFilterHeader", "the DoubleHashH fold is not over cfheaders.FilterHashes seeded with PrevFilterHeader", c.ats(dhs)...)
			return
		}
		fn := c.fn("neutrino.verifyCheckpoint")
		var mayTrue []ssa.Instruction
		okShape := true
		var detail string
		for _, in := range find(fn, isExit) {
			r := in.(*ssa.Return)
			v := ir.RetVal(r, 0)
			if b, isC := ir.ConstBool(v); isC {
				if b {
					mayTrue = append(mayTrue, in)
					okShape = false
					detail += "unconditional `return true` at " + c.at(in) + "; "
				}
				continue
			}
			mayTrue = append(mayTrue, in)
			bo, isB := v.(*ssa.BinOp)
			if !isB || bo.Op != token.EQL {
				okShape = false
				detail += "return at " + c.at(in) + " is not an equality with *nextCheckpoint; "
				continue
			}
			l, rr := bo.X, bo.Y
			if isParam(fn, 1)(l) {
				l, rr = rr, l
			}
			if !isParam(fn, 1)(rr) || !ir.DerivesFrom(l, valIsCallTo(dh)) {
				okShape = false
				detail += "equality at " + c.at(in) + " does not compare the folded header chain with *nextCheckpoint; "
			}
		}
		c.verdict(okShape && len(mayTrue) >= 1, c.nm(fn)+" | every possibly-true return is `foldedHeader == *nextCheckpoint`", c.P.Pos(fn.Pos()),
			"the only non-false return compares the DoubleHashH fold with *nextCheckpoint", detail, c.ats(mayTrue)...)
		cmps := find(fn, binops(eqOps, isParam(fn, 0), loadsField(prevFH())))
		c.guarded(fn, equalIs("*prevCheckpoint vs cfheaders.PrevFilterHeader", cmps, true), 1, "possibly-true return", mayTrue, 1, gDominate)
		// fold input
		fHashes := c.field(pWire, "MsgCFHeaders", "FilterHashes")
		dhs := find(fn, callTo(dh))
		okv := len(dhs) >= 1
		for _, d := range dhs {
			a := ir.CallOf(d).Args[0]
			if !bytesFrom(a, loadsField(fHashes)) || !bytesFrom(a, loadsField(prevFH())) {
				okv = false
			}
		}
		c.verdict(okv, c.nm(fn)+" | fold input = FilterHashes[i] || running header seeded by PrevFilterHeader", c.P.Pos(fn.Pos()), "fold consumes cfheaders.FilterHashes seeded with PrevFilterHeader", "the DoubleHashH fold is not over cfheaders.FilterHashes seeded with PrevFilterHeader", c.ats(dhs)...)
	})

	c.rule("C03.O1", "lying peers are banned and their data dropped: resolveConflict (checkpoint mismatch => BanPeer + delete(checkpoints,peer)); getUncheckpointedCFHeaders (wrong PrevFilterHeader => BanPeer + delete(headers,peer); every detectBadPeers result => BanPeer + delete); writeCFHeadersMsg only after the mismatch loop, with an entry that survived", func() {
		// resolveConflict
		fn := c.fn(fnResolve)
		vcf := c.funcObj("chainsync", "ValidateCFHeader")
		errMis := c.P.Pkg("chainsync").Scope().Lookup("ErrCheckpointMismatch")
		if errMis == nil {
			panic(anchorErr{"chainsync.ErrCheckpointMismatch"})
		}
		isErrMis := func(v ssa.Value) bool {
			return ir.DerivesFrom(v, func(x ssa.Value) bool {
				g, ok := x.(*ssa.Global)
				return ok && g.Object() == errMis
			})
		}
		cmps := find(fn, binops(eqOps, valIsCallTo(vcf), isErrMis))
		g := equalIs("ValidateCFHeader(...) vs ErrCheckpointMismatch", cmps, false) // success = NOT a mismatch
		c.mustFollow(fn, "ValidateCFHeader = ErrCheckpointMismatch", c.failEdges(g), c.banCalls(), "BanPeer", nil, 1)
		c.mustFollow(fn, "ValidateCFHeader = ErrCheckpointMismatch", c.failEdges(g), mapDelete(isParam(fn, 1)), "delete(checkpoints, peer)", nil, 1)
		// every ValidateCFHeader error other than mismatch aborts: err != nil returns
		c.detectLoop(fn, "resolveConflict", isParam(fn, 1), true)
		// ... and nobody else is banned here: each ban in resolveConflict
		// has one of the tabled grounds - a checkpoint that contradicts a
		// hard-coded one, a peer named by detectBadPeers (its filter
		// headers do not match the filter it served), or a peer that sent no
		// headers at all (an honest peer banned on another ground takes the
		// honest value out of the comparison)
		{
			dbp := c.method("neutrino", "blockManager", "detectBadPeers")
			grounds := map[ir.Edge]bool{}
			for _, st := range g.sites {
				grounds[st.br.Other()] = true
			}
			for _, st := range g.weak {
				grounds[st.br.Other()] = true
			}
			isHdrMap := func(v ssa.Value) bool {
				m, ok := v.Type().Underlying().(*types.Map)
				if !ok {
					return false
				}
				p, ok := m.Elem().(*types.Pointer)
				if !ok {
					return false
				}
				n, ok := p.Elem().(*types.Named)
				return ok && n.Obj().Name() == "MsgCFHeaders"
			}
			miss := okIs("headers[peer]", find(fn, lookupsOn(isHdrMap)))
			for _, st := range miss.sites {
				grounds[st.br.Other()] = true
			}
			var bad, sites []string
			for _, ban := range find(fn, c.banCalls()) {
				sites = append(sites, c.at(ban))
				okGround := false
				for e := range grounds {
					if ir.EdgeDominates(fn, e, ban.Block()) {
						okGround = true
					}
				}
				if a := argsOf(ban); len(a) >= 1 && ir.DerivesFrom(a[0], func(x ssa.Value) bool {
					ia, isIA := x.(*ssa.IndexAddr)
					if !isIA {
						return false
					}
					e, isE := ir.Strip(ia.X).(*ssa.Extract)
					return isE && e.Index == 0 && valIsCallTo(dbp)(e.Tuple)
				}) {
					okGround = true
				}
				if !okGround {
					bad = append(bad, "the ban at "+c.at(ban)+" has none of the tabled grounds (checkpoint mismatch, named by detectBadPeers, no headers sent)")
				}
			}
			sort.Strings(bad)
			c.verdict(len(bad) == 0 && len(sites) >= 3, c.nm(fn)+" | bans only on the tabled grounds", c.P.Pos(fn.Pos()), fmt.Sprintf("%d ban site(s), each behind a tabled ground", len(sites)), join(bad), sites...)
		}

		// getUncheckpointedCFHeaders
		fu := c.fn(fnUncheckCFH)
		tipCalls := valIsCallTo(fhs("ChainTip"))
		isTip := func(v ssa.Value) bool { return ir.DerivesFrom(v, tipCalls) }
		pc := find(fu, binops(eqOps, loadsField(prevFH()), isTip))
		gp := equalIs("msg.PrevFilterHeader vs *filterTip", pc, true)
		getAll := c.method("neutrino", "blockManager", "getCFHeadersForAllPeers")
		isHeaders := func(v ssa.Value) bool { return ir.DerivesFrom(v, valIsCallTo(getAll)) }
		c.mustFollowIter(fu, "msg.PrevFilterHeader != *filterTip", c.failEdges(gp), c.banCalls(), "BanPeer", nil, 1)
		c.mustFollowIter(fu, "msg.PrevFilterHeader != *filterTip", c.failEdges(gp), mapDelete(isHeaders), "delete(headers, peer)", nil, 1)
		c.detectLoop(fu, "getUncheckpointedCFHeaders", nil, false)
		// write only after the mismatch loop and only a surviving entry
		wcf := c.method("neutrino", "blockManager", "writeCFHeadersMsg")
		cfm := c.funcObj("neutrino", "checkForCFHeaderMismatch")
		writes := find(fu, callTo(wcf))
		mism := find(fu, callTo(cfm))
		okDom := len(writes) == 1 && len(mism) >= 1
		for _, m := range mism {
			h := ir.LoopHeaderOf(m.Block())
			for _, w := range writes {
				if h == nil || !h.Dominates(w.Block()) || h == ir.LoopHeaderOf(w.Block()) {
					okDom = false
				}
			}
		}
		c.verdict(okDom, c.nm(fu)+" | writeCFHeadersMsg after the mismatch-resolution loop", c.P.Pos(fu.Pos()), "the loop calling checkForCFHeaderMismatch dominates the single writeCFHeadersMsg call and does not contain it", "writeCFHeadersMsg can run before/without the mismatch-resolution loop", c.ats(append(writes, mism...))...)
		c.guarded(fu, okIs("headers[key]", find(fu, lookupsOn(isHeaders))), 1, "writeCFHeadersMsg", writes, 1, gDominate)
		okArg := len(writes) == 1
		for _, w := range writes {
			a := argsOf(w)
			if len(a) < 1 || !isHeaders(a[0]) {
				okArg = false
			}
		}
		c.verdict(okArg, c.nm(fu)+" | written message is an entry of the (pruned) headers map", c.P.Pos(fu.Pos()), "argument derives from the headers map", "writeCFHeadersMsg argument is not taken from the pruned headers map", c.ats(writes)...)
	})

	c.rule("C03.O2", filterRollbackFirstDoc, func() { c.filterRollbackFirst() })

	c.rule("C03.G4", "VerifyBasicBlockFilter (the arbiter when peers disagree): every output script of every non-coinbase transaction must be matched by the filter, a miss returning an error, and the only exemptions are an empty script and a script whose first byte is OP_RETURN; only the transaction at index 0 is skipped", func() {
		fn := c.fn("neutrino.VerifyBasicBlockFilter")
		txOut := c.field(pWire, "MsgTx", "TxOut")
		pk := c.field(pWire, "TxOut", "PkScript")
		matchM := c.method(pGcs, "Filter", "Match")
		// per-output start points
		var starts []start
		var outHeader *ssa.BasicBlock
		ir.Instrs(fn, func(in ssa.Instruction) {
			ia, ok := in.(*ssa.IndexAddr)
			if ok && isLoadOfPath(ia.X, txOut) {
				starts = append(starts, afterInstr(c, in))
				outHeader = ir.LoopHeaderOf(in.Block())
			}
		})
		if outHeader == nil {
			c.fail(c.nm(fn)+" | output loop", c.P.Pos(fn.Pos()), "no loop over tx.MsgTx().TxOut found")
			return
		}
		// must-match calls: Match on an output script whose miss leaves the function
		isPk := func(v ssa.Value) bool { return loadsField(pk)(v) }
		var must []ssa.Instruction
		for _, m := range find(fn, callTo(matchM)) {
			a := argsOf(m)
			if len(a) < 2 || !isPk(a[1]) {
				continue
			}
			g := boolIs("match", []ssa.Instruction{m}, 0, true)
			if len(g.sites) == 0 {
				continue
			}
			leaves := true
			be := ir.BackEdges(fn)
			for _, s := range g.sites {
				ir.WalkEdge(s.br.Other(), nil, func(in ssa.Instruction) bool {
					blk := in.Block()
					if in == blk.Instrs[len(blk.Instrs)-1] {
						for e := range be {
							if e.From == blk {
								leaves = false
							}
						}
					}
					if r, ok := in.(*ssa.Return); ok {
						if ir.IsNil(ir.RetVal(r, 1)) {
							leaves = false
						}
						return false
					}
					return true
				})
			}
			if leaves {
				must = append(must, m)
			}
		}
		isMust := func(in ssa.Instruction) bool {
			for _, m := range must {
				if m == in {
					return true
				}
			}
			return false
		}
		// tabled exemptions
		cut := ir.Cut{}
		nEx := 0
		ir.Instrs(fn, func(in ssa.Instruction) {
			b, ok := in.(*ssa.BinOp)
			if !ok || b.Op != token.EQL {
				return
			}
			k, isC := ir.ConstInt(b.Y)
			if !isC {
				return
			}
			exempt := false
			if call, ok := b.X.(*ssa.Call); ok && isBuiltin("len")(call) && isPk(call.Call.Args[0]) && k == 0 {
				exempt = true // empty script
			}
			if ld, ok := b.X.(*ssa.UnOp); ok && k == 0x6a {
				if ia, ok := ld.X.(*ssa.IndexAddr); ok && isPk(ia.X) {
					if i0, isC0 := ir.ConstInt(ia.Index); isC0 && i0 == 0 {
						exempt = true // first byte is OP_RETURN
					}
				}
			}
			if exempt {
				for _, tb := range ir.TrueBranches(b) {
					cut[tb.Edge()] = true
					nEx++
				}
			}
		})
		c.verdict(len(must) >= 1 && nEx == 2, c.nm(fn)+" | one must-match check, exemptions = {empty script, first byte OP_RETURN}", c.P.Pos(fn.Pos()), fmt.Sprintf("%d must-match site(s), %d exemption edges", len(must), nEx), fmt.Sprintf("expected a filter.Match whose miss returns an error and exactly the two BIP-158 exemptions; found %d must-match site(s), %d exemption edges", len(must), nEx), c.ats(must)...)
		c.mustFollowIter(fn, "each output of a non-coinbase transaction", starts, isMust, "filter.Match(key, txOut.PkScript) with error on a miss", cut, 1)
		// only tx index 0 is skipped: the outer skip compares the index with 0
		txs := c.method(pBtcutil, "Block", "Transactions")
		okSkip := false
		ir.Instrs(fn, func(in ssa.Instruction) {
			b, ok := in.(*ssa.BinOp)
			if !ok || b.Op != token.EQL {
				return
			}
			if k, isC := ir.ConstInt(b.Y); isC && k == 0 {
				if phi, ok := b.X.(*ssa.BinOp); ok || b.X != nil {
					_ = phi
					h := ir.LoopHeaderOf(in.Block())
					if h != nil && h != outHeader && len(find(fn, callTo(txs))) == 1 {
						if _, isLen := b.X.(*ssa.Call); !isLen {
							okSkip = true
						}
					}
				}
			}
		})
		c.verdict(okSkip, c.nm(fn)+" | only the coinbase (index 0) is skipped", c.P.Pos(fn.Pos()), "idx == 0 skip present", "the coinbase skip is not `idx == 0`")
	})

	c.rule("C03.O3", "the ban of a detected liar is recorded: "+banRecordedDoc, func() { c.banRecorded() })

	c.rule("C03.G5", "an answer is taken for what was asked only: the callback of getCFHeadersForAllPeers records a peer's cfheaders message (headers[addr] = m) only behind the type assertion, m.StopHash == the requested stop hash, m.FilterType == the requested type and len(m.FilterHashes) == the number of headers asked for (an over-long answer that agrees on the requested range would be written whole by writeCFHeadersMsg: filter headers past the block tip, later a false header committed and the honest peers banned)", func() {
		fn := c.fn("(*neutrino.blockManager).getCFHeadersForAllPeers")
		msgT := c.P.Named(pWire, "MsgCFHeaders")
		stopF := c.field(pWire, "MsgCFHeaders", "StopHash")
		typF := c.field(pWire, "MsgCFHeaders", "FilterType")
		hashesF := c.field(pWire, "MsgCFHeaders", "FilterHashes")
		n := 0
		for _, cl := range fn.AnonFuncs {
			ups := find(cl, func(in ssa.Instruction) bool {
				mu, ok := in.(*ssa.MapUpdate)
				if !ok {
					return false
				}
				p, ok := mu.Value.Type().(*types.Pointer)
				return ok && msgT != nil && types.Identical(p.Elem(), msgT)
			})
			if len(ups) == 0 {
				continue
			}
			n++
			var asserts []ssa.Instruction
			ir.Instrs(cl, func(in ssa.Instruction) {
				if ta, ok := in.(*ssa.TypeAssert); ok && ta.CommaOk {
					if p, ok := ta.AssertedType.(*types.Pointer); ok && types.Identical(p.Elem(), msgT) {
						asserts = append(asserts, in)
					}
				}
			})
			c.guarded(cl, okIs("resp.(*wire.MsgCFHeaders)", asserts), 1, "headers[peer] = m", ups, 1, gDominate)
			any := func(ssa.Value) bool { return true }
			c.guarded(cl, equalIs("m.StopHash vs the requested stop hash", find(cl, binops(eqOps, loadsField(stopF), any)), true), 1, "headers[peer] = m", ups, 1, gDominate)
			c.guarded(cl, equalIs("m.FilterType vs the requested filter type", find(cl, binops(eqOps, loadsField(typF), any)), true), 1, "headers[peer] = m", ups, 1, gDominate)
			isLen := func(v ssa.Value) bool {
				call, ok := ir.Strip(v).(*ssa.Call)
				return ok && isBuiltin("len")(call) && loadsField(hashesF)(call.Call.Args[0])
			}
			c.guarded(cl, equalIs("len(m.FilterHashes) vs the number of headers asked for", find(cl, binops(eqOps, isLen, any)), true), 1, "headers[peer] = m", ups, 1, gDominate)
		}
		c.verdict(n == 1, c.nm(fn)+" | one response callback records answers", c.P.Pos(fn.Pos()), "one callback", fmt.Sprintf("%d function literal(s) of getCFHeadersForAllPeers store a *wire.MsgCFHeaders into a map, 1 tabled", n))
	})

	c.rule("C03.V4", "served checkpoint lists are re-fetched as soon as the header chain is past them: in cfHandler the test that triggers getCheckpts is minCheckpointHeight(<cached lists>) < <header height to sync to>, with no slack (a cached list that reaches above the current chain, as after a reorganisation below the last cached checkpoint, must not be trusted for another interval: its last entry belongs to a disconnected block and the honest peer's answer for the new branch would be judged against it)", func() {
		fn := c.fn("(*neutrino.blockManager).cfHandler")
		minCp := c.funcObj("neutrino", "minCheckpointHeight")
		getCp := c.method("neutrino", "blockManager", "getCheckpts")
		isMin := func(v ssa.Value) bool { return valIsCallTo(minCp)(ir.Strip(v)) }
		other := func(v ssa.Value) bool {
			if _, isC := v.(*ssa.Const); isC {
				return false
			}
			return !ir.DerivesFrom(v, valIsCallTo(minCp))
		}
		g, odd := relGuard("minCheckpointHeight(cached lists) < header height", fn, isMin, other, token.LSS)
		calls := find(fn, callTo(getCp))
		construct := c.nm(fn) + " | cached checkpoint lists are refreshed when they end below the header height"
		if len(g.sites) == 0 {
			c.fail(construct, c.P.Pos(fn.Pos()), "no test of the form minCheckpointHeight(cached lists) < height found in cfHandler (a test with slack, e.g. minCheckpointHeight(..)+interval <= height, keeps stale lists after a reorganisation)"+join(odd))
			return
		}
		c.mustFollow(fn, "cached lists end below the header height", c.successEdges(g), callTo(getCp), "b.getCheckpts(..)", nil, 1)
		c.verdict(len(calls) >= 1, construct, c.P.Pos(fn.Pos()), fmt.Sprintf("%d test site(s), %d getCheckpts call(s)", len(g.sites), len(calls)), "cfHandler no longer calls getCheckpts")
	})

	c.rule("C03.O4", "every peer is heard before peers are judged: the response callbacks the block manager hands to queryAllPeers (getCheckpts, getCFHeadersForAllPeers, fetchFilterFromAllPeers) may retire the answering peer (close(peerQuit)) but never end the whole query (close(quit)): a peer that has not answered yet would be treated as silent and, in a dispute, banned, while the remaining answers are never compared", func() {
		qf := c.field("neutrino", "blockManagerCfg", "queryAllPeers")
		var bad, sites []string
		n := 0
		for _, f := range c.P.Funcs {
			for _, x := range find(f, callVia(qf)) {
				for _, a := range ir.CallOf(x).Args {
					mc, ok := a.(*ssa.MakeClosure)
					if !ok {
						continue
					}
					cl := mc.Fn.(*ssa.Function)
					if len(cl.Params) != 4 {
						continue
					}
					n++
					sites = append(sites, c.nm(cl)+"@"+c.at(x))
					for _, g := range ir.WithClosures(cl) {
						for _, cc := range find(g, isBuiltin("close")) {
							arg := ir.CallOf(cc).Args[0]
							if ir.DerivesFrom(arg, func(v ssa.Value) bool { return v == ssa.Value(cl.Params[2]) }) {
								bad = append(bad, c.nm(cl)+" closes the query-wide quit channel at "+c.at(cc))
							}
						}
					}
				}
			}
		}
		sort.Strings(bad)
		c.verdict(len(bad) == 0 && n >= 3, "blockManager | all-peer queries run until every peer answered or timed out", "-", fmt.Sprintf("%d response callback(s); none closes the query-wide quit channel", n), join(bad)+fmt.Sprintf(" (%d callbacks found, 3 tabled)", n), sites...)
	})

	c.rule("C03.V6", "the checkpoint a batched answer must end in is the one the request was made for: in the response handler of the checkpointed query the checkpoint handed to verifyCheckpoint as the end of the range is picked by an index worked out from the request (its start height, the number of intervals asked for, the length of the checkpoint list) - nothing of the response enters it; derived from the length of the answer instead, an answer cut short at an interval boundary verifies against the earlier checkpoint, is written, and the filter tip - which follows the answer's stop hash - moves to a block whose filter header was never stored", func() {
		fn := c.fn(fnCFHResp)
		vc := c.P.Func("neutrino.verifyCheckpoint")
		if vc == nil {
			c.pass(c.nm(fn)+" | end checkpoint index comes from the request", c.P.Pos(fn.Pos()), "verifyCheckpoint is folded into the handler: the comparisons themselves are C03.G2 / C03.G3")
			return
		}
		calls := find(fn, func(in ssa.Instruction) bool { cc := ir.CallOf(in); return cc != nil && cc.StaticCallee() == vc })
		fh := c.field(pWire, "MsgCFHeaders", "FilterHashes")
		var bad []string
		for _, in := range calls {
			end := ir.CallOf(in).Args[1]
			var idx ssa.Value
			ir.DerivesFrom(end, func(x ssa.Value) bool {
				if ia, ok := x.(*ssa.IndexAddr); ok && idx == nil {
					idx = ia.Index
					return true
				}
				return false
			})
			if idx == nil {
				bad = append(bad, "the end checkpoint at "+c.at(in)+" is not an element of the checkpoint list")
				continue
			}
			fromResp := ir.InfluencedBy(idx, func(x ssa.Value) bool {
				if loadsField(fh)(x) {
					return true
				}
				ta, isTA := x.(*ssa.TypeAssert)
				return isTA && len(fn.Params) >= 3 && ta.X == ssa.Value(fn.Params[2])
			})
			if fromResp {
				bad = append(bad, "the index of the end checkpoint at "+c.at(in)+" is worked out from the response")
			}
		}
		sort.Strings(bad)
		c.verdict(len(bad) == 0 && len(calls) >= 1, c.nm(fn)+" | end checkpoint index comes from the request", c.P.Pos(fn.Pos()), fmt.Sprintf("%d verifyCheckpoint call(s); the index of the end checkpoint is independent of the response", len(calls)), join(bad)+" (or no verifyCheckpoint call)", c.ats(calls)...)
	})

	c.rule("C03.G7", "a peer is retired only by its answer to this request: in the response callbacks of getCheckpts and getCFHeadersForAllPeers the answering peer's slot is ended (close(peerQuit)) only behind the tests that the message carries the requested filter type and the requested stop hash; a late reply to the previous round's request (the tip moved in between) must not cost the peer its current answer - with the only honest answer dropped the remaining liars agree, no conflict is seen, their list is adopted and the honest peer is banned when its headers fail the false checkpoints", func() {
		qf := c.field("neutrino", "blockManagerCfg", "queryAllPeers")
		n := 0
		for _, host := range []struct{ fn, msg string }{
			{"(*neutrino.blockManager).getCheckpts", "MsgCFCheckpt"},
			{"(*neutrino.blockManager).getCFHeadersForAllPeers", "MsgCFHeaders"},
		} {
			f := c.fn(host.fn)
			for _, x := range find(f, callVia(qf)) {
				for _, a := range ir.CallOf(x).Args {
					mc, ok := a.(*ssa.MakeClosure)
					if !ok {
						continue
					}
					cl := mc.Fn.(*ssa.Function)
					if len(cl.Params) != 4 {
						continue
					}
					var closes []ssa.Instruction
					for _, cc := range find(cl, isBuiltin("close")) {
						if ir.DerivesFrom(ir.CallOf(cc).Args[0], func(v ssa.Value) bool { return v == ssa.Value(cl.Params[3]) }) {
							closes = append(closes, cc)
						}
					}
					if len(closes) == 0 {
						continue // the slot runs into its timeout: nothing to guard
					}
					n++
					for _, fld := range []string{"FilterType", "StopHash"} {
						fv := c.field(pWire, host.msg, fld)
						cmps := find(cl, binops(eqOps, loadsField(fv), func(v ssa.Value) bool { return !loadsField(fv)(v) }))
						c.guarded(cl, equalIs("m."+fld+" vs the requested one", cmps, true), 1, "close(peerQuit)", closes, 1, gDominate)
					}
				}
			}
		}
		if n < 2 {
			c.undecided("blockManager | all-peer callbacks that retire the answering peer", "", fmt.Sprintf("found %d, 2 tabled", n))
		}
	})

	c.rule("C03.V2", "the whole cfheaders message is hashed: the header-chain loops of verifyCheckpoint and writeCFHeadersMsg visit every entry of FilterHashes (indices 0..len-1, no early exit), each iteration folding the entry into the running header with DoubleHashH; writeCFHeadersMsg's notification loop visits every matching block header", func() {
		dh := c.funcObj(pChainhash, "DoubleHashH")
		fh := c.field(pWire, "MsgCFHeaders", "FilterHashes")
		vcName := "neutrino.verifyCheckpoint"
		if c.P.Func(vcName) == nil {
			vcName = fnCFHResp // folded into the response handler
		}
		for _, name := range []string{vcName, "(*neutrino.blockManager).writeCFHeadersMsg"} {
			fn := c.fn(name)
			calls := find(fn, callTo(dh))
			if len(calls) != 1 || ir.LoopHeaderOf(calls[0].Block()) == nil {
				c.fail(name+" | header chain loop", c.P.Pos(fn.Pos()), fmt.Sprintf("%d DoubleHashH call(s) in a loop, 1 tabled", len(calls)))
				continue
			}
			h := ir.LoopHeaderOf(calls[0].Block())
			c.fullRange(fn, h, "the header-chain loop", loadsField(fh), 0, func(*ssa.Return) bool { return true })
			var starts []start
			for i, sc := range h.Succs {
				if ir.LoopBlocks(h)[sc] {
					starts = append(starts, atEdge(c, ir.Edge{From: h, Succ: i}, "next filter hash"))
				}
			}
			call := calls[0]
			c.mustFollowIter(fn, "each filter hash", starts, func(in ssa.Instruction) bool { return in == call }, "DoubleHashH(hash || lastHeader)", nil, 1)
		}
	})

	c.rule("C03.O6", "no committed filter header outlives its block across a restart: a crash between the index update and the file cut of a rollback (or after the file append of a write) leaves the filter header file ahead of the index; NewFilterHeaderStore, on every non-empty open, reads the index tip, compares it with the last record in the file and cuts the file back to the index tip (truncateHeaders) when they differ, before the store is handed out - the surplus entries belong to disconnected blocks, and the next append would otherwise land behind them, off the height its index entry names", func() {
		c.startupReconciliation(reconSpec{fnNewF, "IsEqual"})
	})
	c.rule("C03.O5", "served checkpoint lists meet the hard-coded checkpoints first: in resolveConflict the comparison with the built-in checkpoints (chainsync.ValidateCFHeader over every entry of every served list) lies before the peers' lists are compared with each other (checkCFCheckptSanity) and before any list is returned: unanimous peers cannot get a false list through; the inner loop covers every entry of the list with the height (i+1)*interval", func() {
		fn := c.fn(fnResolve)
		vcf := c.funcObj("chainsync", "ValidateCFHeader")
		sanity := c.funcObj("neutrino", "checkCFCheckptSanity")
		calls := find(fn, callTo(vcf))
		if len(calls) != 1 {
			c.fail(c.nm(fn)+" | hard-coded checkpoint comparison", c.P.Pos(fn.Pos()), fmt.Sprintf("%d ValidateCFHeader call(s), 1 tabled", len(calls)))
			return
		}
		// the loop over the served lists: the map range whose body contains the call
		var outerNext ssa.Instruction
		ir.Instrs(fn, func(in ssa.Instruction) {
			n, ok := in.(*ssa.Next)
			if !ok {
				return
			}
			r, ok := n.Iter.(*ssa.Range)
			if !ok || r.X != ssa.Value(fn.Params[1]) {
				return
			}
			h := ir.LoopHeaderOf(in.Block())
			if h == nil {
				h = in.Block()
			}
			if ir.LoopBlocks(in.Block())[calls[0].Block()] || (h != nil && ir.LoopBlocks(h)[calls[0].Block()]) {
				outerNext = in
			}
		})
		if outerNext == nil {
			c.fail(c.nm(fn)+" | hard-coded checkpoint comparison", c.P.Pos(fn.Pos()), "the ValidateCFHeader call is not inside a loop over the served checkpoint lists")
			return
		}
		isOuter := func(in ssa.Instruction) bool { return in == outerNext }
		c.mustPrecede(fn, isOuter, "the loop comparing served lists with the built-in checkpoints", callTo(sanity), "checkCFCheckptSanity", 1)
		nonNilRet := func(in ssa.Instruction) bool {
			r, ok := in.(*ssa.Return)
			return ok && !ir.IsNil(ir.RetVal(r, 0))
		}
		c.mustPrecede(fn, isOuter, "the loop comparing served lists with the built-in checkpoints", nonNilRet, "return of a checkpoint list", 1)
		// inner loop: every entry
		h := ir.LoopHeaderOf(calls[0].Block())
		isList := func(v ssa.Value) bool {
			return ir.DerivesFrom(v, func(x ssa.Value) bool { return x == ssa.Value(outerNext.(*ssa.Next)) })
		}
		// tabled early exit: the list was thrown away (delete(checkpoints, peer)
		// dominates the break)
		discarded := func(e ir.Edge) bool {
			del := mapDelete(isParam(fn, 1))
			ok := true
			ir.WalkEdge(e, nil, func(in ssa.Instruction) bool {
				if del(in) {
					return false
				}
				if r, isRet := in.(*ssa.Return); isRet {
					if errSuccess(r) {
						ok = false
					}
					return false
				}
				if in == outerNext {
					ok = false
					return false
				}
				return true
			})
			return ok
		}
		c.fullRange(fn, h, "the loop over one served list", isList, 0, errSuccess, discarded)
		c.everyServedCheckpointChecked()
		// height argument = (i+1) * interval
		lf := loopFormOf(h)
		okH := false
		hv := ir.Strip(argsOf(calls[0])[2])
		if cv, ok := hv.(*ssa.Convert); ok {
			hv = ir.Strip(cv.X)
		}
		{
			if m, ok := hv.(*ssa.BinOp); ok && m.Op == token.MUL {
				for _, pr := range [][2]ssa.Value{{m.X, m.Y}, {m.Y, m.X}} {
					if d, ok := counterOffset(lf, pr[0]); ok && d == 1 {
						if k, isC := ir.ConstInt(pr[1]); isC && k == 1000 {
							okH = true
						}
					}
				}
			}
		}
		c.verdict(okH, c.nm(fn)+" | checkpoint height = (index+1) * CFCheckptInterval", c.at(calls[0]), "uint32((i+1)*wire.CFCheckptInterval)", "the height passed to ValidateCFHeader is not (index+1)*1000")
	})

	c.rule("C03.V3", "peers' checkpoint lists are compared along the longest list: in checkCFCheckptSanity the comparison loop runs up to a running maximum of the list lengths (it is raised to len(list) exactly on the edge len(list) > bound, starting from 0), so a peer cannot hide a false tail behind another peer's shorter list", func() {
		fn := c.fn("neutrino.checkCFCheckptSanity")
		isLen := func(v ssa.Value) bool {
			call, ok := ir.Strip(v).(*ssa.Call)
			return ok && isBuiltin("len")(call)
		}
		// the loop that compares: its bound
		var cmpLoop *loopForm
		for _, b := range fn.Blocks {
			if len(ir.BackEdgesTo(b)) == 0 {
				continue
			}
			lf := loopFormOf(b)
			if lf.problem == "" && lf.step == 1 && !isLen(lf.bound) {
				if _, isPhi := ir.Strip(lf.bound).(*ssa.Phi); isPhi {
					cmpLoop = lf
				}
			}
		}
		construct := c.nm(fn) + " | comparison bound = max of the list lengths"
		if cmpLoop == nil {
			c.fail(construct, c.P.Pos(fn.Pos()), "no counting loop bounded by a computed length found")
			return
		}
		isBound := func(v ssa.Value) bool {
			// the running bound: a phi from which the loop bound derives
			p, ok := ir.Strip(v).(*ssa.Phi)
			if !ok {
				return false
			}
			return ir.DerivesFrom(cmpLoop.bound, func(x ssa.Value) bool { return x == ssa.Value(p) })
		}
		g, odd := relGuard("len(list) > bound", fn, isLen, isBound, token.GTR)
		// the bound starts at 0
		okInit := false
		var visit func(v ssa.Value, d int)
		visit = func(v ssa.Value, d int) {
			if d > 4 {
				return
			}
			if p, ok := ir.Strip(v).(*ssa.Phi); ok {
				for _, e := range p.Edges {
					if k, isC := ir.ConstInt(e); isC && k == 0 {
						okInit = true
					} else {
						visit(e, d+1)
					}
				}
			}
		}
		visit(cmpLoop.bound, 0)
		// ... or raised with the max builtin: bound = max(bound, len(list))
		raises := len(g.sites)
		ir.Instrs(fn, func(in ssa.Instruction) {
			call, ok := in.(*ssa.Call)
			if !ok || !isBuiltin("max")(call) || len(call.Call.Args) != 2 {
				return
			}
			a, b := call.Call.Args[0], call.Call.Args[1]
			if (isBound(a) && isLen(b) || isBound(b) && isLen(a)) && ir.DerivesFrom(cmpLoop.bound, func(x ssa.Value) bool { return x == ssa.Value(call) }) {
				raises++
			}
		})
		c.verdict(len(odd) == 0 && raises >= 1 && okInit, construct, c.at(cmpLoop.test), "bound raised on len(list) > bound, from 0", "the comparison bound is not the maximum of the list lengths ("+join(odd)+fmt.Sprintf("; %d raising edge(s), starts at 0: %v): lists are compared only along a shorter one", raises, okInit), c.at(cmpLoop.test))
	})

	c.rule("C03.V5", everyPositionComparedDoc, func() { c.everyPositionCompared() })

	c.rule("C03.G6", "a checkpoint list is used only when every peer still listened to agrees with it: resolveConflict returns a list only behind checkCFCheckptSanity = -1 (full agreement) of a call that was given the whole remaining checkpoints map (its own parameter, from which the liars found so far were deleted) - a list that is merely consistent with the store on its own may be any liar's whose first false entry lies outside the interval just examined", func() {
		fn := c.fn(fnResolve)
		sanity := c.funcObj("neutrino", "checkCFCheckptSanity")
		var whole []ssa.Instruction
		for _, in := range find(fn, callTo(sanity)) {
			a := argsOf(in)
			if len(a) >= 1 && ir.Strip(a[0]) == ssa.Value(fn.Params[1]) {
				whole = append(whole, in)
			}
		}
		var rets []ssa.Instruction
		for _, in := range find(fn, isExit) {
			r, ok := in.(*ssa.Return)
			if ok && !ir.IsNil(ir.Strip(ir.RetVal(r, 0))) {
				rets = append(rets, in)
			}
		}
		var cmps []ssa.Instruction
		for _, w := range whole {
			for _, res := range ir.Result(w.(ssa.Value), 0) {
				for _, r := range ir.Refs(res) {
					if b, ok := r.(*ssa.BinOp); ok && (b.Op == token.EQL || b.Op == token.NEQ) {
						if k, isC := ir.ConstInt(b.Y); isC && k == -1 {
							cmps = append(cmps, r)
						}
					}
				}
			}
		}
		g := equalIs("checkCFCheckptSanity(checkpoints, store) vs -1", cmps, true)
		c.guarded(fn, g, 1, "return a checkpoint list", rets, 1, gDominate)
	})

	c.rule("C03.W1", "only the tabled functions write or roll back the filter-header store", func() {
		c.whoMay("FilterHeaderStore.{WriteHeaders,RollbackLastBlock}", callTo(fhs("WriteHeaders"), fhs("RollbackLastBlock")), []string{
			fnWriteCFH, fnRollBack,
			"(*chainimport.headersImport).writeHeadersToTargetStores",
			"headerfs.NewFilterHeaderStore",
		}, 4)
		wcf := c.method("neutrino", "blockManager", "writeCFHeadersMsg")
		c.whoMay("blockManager.writeCFHeadersMsg", callTo(wcf), []string{
			fnUncheckCFH, "(*neutrino.blockManager).getCheckpointedCFHeaders",
		}, 2)
	})
}

// detectLoop: inside the loop ranging over the detectBadPeers result every
// iteration bans the peer and deletes it from the headers map (and from the
// checkpoints map when cpMap is given).
func (c *Ctx) detectLoop(fn *ssa.Function, tag string, cpMap func(ssa.Value) bool, alsoCp bool) {
	dbp := c.method("neutrino", "blockManager", "detectBadPeers")
	getAll := c.method("neutrino", "blockManager", "getCFHeadersForAllPeers")
	isHeaders := func(v ssa.Value) bool { return ir.DerivesFrom(v, valIsCallTo(getAll)) }
	// exactly the []string result of detectBadPeers (not anything computed from it)
	isBad := func(v ssa.Value) bool {
		e, ok := ir.Strip(v).(*ssa.Extract)
		return ok && e.Index == 0 && valIsCallTo(dbp)(e.Tuple)
	}
	// element loads of the badPeers slice
	var starts []start
	ir.Instrs(fn, func(in ssa.Instruction) {
		ia, ok := in.(*ssa.IndexAddr)
		if ok && isBad(ia.X) {
			starts = append(starts, afterInstr(c, in))
		}
	})
	c.mustFollowIter(fn, "each peer returned by detectBadPeers", starts, c.banCalls(), "BanPeer", nil, 1)
	c.mustFollowIter(fn, "each peer returned by detectBadPeers", starts, mapDelete(isHeaders), "delete(headers, peer)", nil, 1)
	if alsoCp {
		c.mustFollowIter(fn, "each peer returned by detectBadPeers", starts, mapDelete(cpMap), "delete(checkpoints, peer)", nil, 1)
	}
	g := errNil("detectBadPeers", find(fn, callTo(dbp)), 1)
	var after []ssa.Instruction
	wcf := c.P.Method("neutrino", "blockManager", "writeCFHeadersMsg")
	if wcf != nil {
		after = find(fn, callTo(wcf))
	}
	if len(after) > 0 {
		c.guarded(fn, g, 1, "writeCFHeadersMsg", after, 1, gFailEdge)
	}
}

const filterRollbackFirstDoc = "rollBackToHeight: in every iteration the filter-header store is rolled back (when bs.Height <= regHeight, and successfully) before the block-header store"

// filterRollbackFirst: see filterRollbackFirstDoc.
func (c *Ctx) filterRollbackFirst() {
	fhs := func(m string) *types.Func { return c.method("headerfs", "FilterHeaderStore", m) }
	bhs := func(m string) *types.Func { return c.method("headerfs", "BlockHeaderStore", m) }
	fn := c.fn(fnRollBack)
	fr := find(fn, callTo(fhs("RollbackLastBlock")))
	br := find(fn, callTo(bhs("RollbackLastBlock")))
	stampH := c.field("headerfs", "BlockStamp", "Height")
	isReg := func(v ssa.Value) bool {
		return ir.DerivesFrom(v, func(x ssa.Value) bool {
			in, ok := x.(ssa.Instruction)
			return ok && (callTo(fhs("ChainTip"))(in) || callTo(fhs("RollbackLastBlock"))(in))
		})
	}
	// condition bs.Height <= regHeight: as "regHeight < bs.Height is false"
	g, odd := lessFalse("regHeight < bs.Height", fn, isReg, func(v ssa.Value) bool { return loadsField(stampH)(v) && !isReg(v) })
	if len(odd) > 0 {
		c.fail(c.nm(fn)+" | filter rollback condition shape", c.P.Pos(fn.Pos()), "bs.Height is compared with regHeight by an operator other than `<=`/`>`: "+join(odd)+" (a filter header at exactly regHeight must be rolled back)")
	}
	// with the "filter store not this far" edge removed, the block rollback
	// must be preceded by the filter rollback
	cut := ir.Cut{}
	for _, s := range g.sites {
		cut[s.br.Other()] = true
	}
	construct := c.nm(fn) + " | FilterHeaderStore.RollbackLastBlock precedes BlockHeaderStore.RollbackLastBlock when bs.Height <= regHeight"
	// the decision is taken per removed block: the comparison is evaluated
	// inside the rollback loop with the current heights (decided once
	// before the loop, a filter tip between the fork point and the block
	// tip is never rolled back)
	if len(br) >= 1 {
		h := ir.LoopHeaderOf(br[0].Block())
		perIter := h != nil && len(g.sites) >= 1
		for _, s := range g.sites {
			if ir.LoopHeaderOf(s.site.Block()) != h {
				perIter = false
			}
		}
		c.verdict(perIter, c.nm(fn)+" | bs.Height <= regHeight is evaluated for every removed block", c.P.Pos(fn.Pos()), "comparison inside the rollback loop", "the decision whether filter headers must be rolled back is not taken inside the rollback loop: filter headers of removed blocks can survive when the filter tip lies between the fork point and the block tip")
	}
	if len(g.sites) < 1 || len(fr) < 1 || len(br) < 1 {
		c.fail(construct, c.P.Pos(fn.Pos()), fmt.Sprintf("expected the comparison bs.Height <= regHeight (%d found), a filter rollback (%d) and a block rollback (%d)", len(g.sites), len(fr), len(br)))
	} else {
		var bad []string
		isF := callTo(fhs("RollbackLastBlock"))
		isB := callTo(bhs("RollbackLastBlock"))
		ir.Walk(fn.Blocks[0], 0, cut, func(in ssa.Instruction) bool {
			if isF(in) {
				return false
			}
			if isB(in) {
				bad = append(bad, c.at(in))
			}
			return true
		})
		c.verdict(len(bad) == 0, construct, c.P.Pos(fn.Pos()), "block rollback unreachable without the filter rollback when the filter store has caught up", "block-header rollback at "+join(bad)+" is reachable without rolling the filter store back first", c.ats(append(fr, br...))...)
	}
	c.guarded(fn, errNil("RegFilterHeaders.RollbackLastBlock", fr, 1), 1, "BlockHeaders.RollbackLastBlock", br, 1, gFailEdge)
	// the filter store is rolled back to the parent of the block removed
	prevBlock := c.field(pWire, "BlockHeader", "PrevBlock")
	okArg := len(fr) >= 1
	for _, f := range fr {
		a := argsOf(f)
		if len(a) != 1 || !ir.DerivesFrom(a[0], func(x ssa.Value) bool { return fieldAddrOf(prevBlock)(x) }) {
			okArg = false
		}
	}
	c.verdict(okArg, c.nm(fn)+" | filter store new tip = PrevBlock of the header being removed", c.P.Pos(fn.Pos()), "RollbackLastBlock(&header.PrevBlock)", "filter store is rolled back to something other than the removed header's PrevBlock", c.ats(fr)...)
}

// checkpointCmps: the two comparisons of a checkpoint verification written out
// in fn: response.PrevFilterHeader against a checkpoint, and the DoubleHashH
// fold against a checkpoint.
func (c *Ctx) checkpointCmps(fn *ssa.Function) (prev, fold guard) {
	prevFH := c.field(pWire, "MsgCFHeaders", "PrevFilterHeader")
	dh := c.funcObj(pChainhash, "DoubleHashH")
	isFold := func(v ssa.Value) bool { return ir.DerivesFrom(v, valIsCallTo(dh)) }
	any := func(ssa.Value) bool { return true }
	notFold := func(v ssa.Value) bool { return !isFold(v) }
	prev = equalIs("*prevCheckpoint vs response.PrevFilterHeader", find(fn, binops(eqOps, func(v ssa.Value) bool { return loadsField(prevFH)(v) && !isFold(v) }, notFold)), true)
	fold = equalIs("folded header chain vs *nextCheckpoint", find(fn, binops(eqOps, isFold, any)), true)
	return
}

const everyPositionComparedDoc = "peers' answers are compared at every position that may be written: in getUncheckpointedCFHeaders and resolveConflict the loop calling checkForCFHeaderMismatch counts from 0 while below the number of filter hashes every kept answer has (the count getCFHeadersForAllPeers returned together with the answers, not a height read at another moment), and hands its counter to the comparison; a position left out is written as the longest-answer peer served it, unchallenged; the loop is left early only towards a failure return (a liar at a later position is still found, banned and dropped)"

// everyPositionCompared: see everyPositionComparedDoc (C03.V5, also C13.V1).
func (c *Ctx) everyPositionCompared() {
	cfm := c.funcObj("neutrino", "checkForCFHeaderMismatch")
	getAll := c.method("neutrino", "blockManager", "getCFHeadersForAllPeers")
	for _, name := range []string{fnUncheckCFH, fnResolve} {
		fn := c.fn(name)
		construct := c.nm(fn) + " | the mismatch loop covers positions 0 .. numHeaders-1 of the answers"
		calls := find(fn, callTo(cfm))
		if len(calls) != 1 {
			c.fail(construct, c.P.Pos(fn.Pos()), fmt.Sprintf("%d calls of checkForCFHeaderMismatch, 1 tabled", len(calls)))
			continue
		}
		call := calls[0]
		h := ir.LoopHeaderOf(call.Block())
		if h == nil {
			c.fail(construct, c.at(call), "checkForCFHeaderMismatch is not called in a loop")
			continue
		}
		lf := loopFormOf(h)
		if lf.problem != "" {
			c.fail(construct, c.at(call), lf.problem)
			continue
		}
		var bad []string
		a := argsOf(call)
		// the answers and their count come from one getCFHeadersForAllPeers call
		var src ssa.Value
		if ex, ok := ir.Strip(a[0]).(*ssa.Extract); ok && ex.Index == 0 && valIsCallTo(getAll)(ex.Tuple) {
			src = ex.Tuple
		} else {
			bad = append(bad, "the compared answers are not the map getCFHeadersForAllPeers returned")
		}
		if ex, ok := ir.Strip(lf.bound).(*ssa.Extract); !ok || ex.Index != 1 || ex.Tuple != src {
			bad = append(bad, "the loop bound at "+c.at(lf.test)+" is not the count returned with the answers")
		}
		if k, isC := lf.firstConst(); !isC || k != 0 || lf.step != 1 || lf.op != token.LSS {
			bad = append(bad, "the loop at "+c.at(lf.test)+" does not count 0, 1, .. while below the bound")
		}
		if off, ok := counterOffset(lf, a[1]); !ok || off != 0 {
			bad = append(bad, "the position compared is not the loop counter")
		}
		for _, e := range ir.LoopExits(h) {
			if e == lf.exit {
				continue
			}
			ir.WalkEdge(e, nil, func(in ssa.Instruction) bool {
				if r, ok := in.(*ssa.Return); ok {
					if errSuccess(r) {
						bad = append(bad, "the loop is left early at "+c.at(e.From.Instrs[len(e.From.Instrs)-1])+" and the function goes on to succeed (return at "+c.at(r)+"): later positions are not compared")
					}
					return false
				}
				return true
			})
		}
		sort.Strings(bad)
		bad = uniq(bad)
		c.verdict(len(bad) == 0, construct, c.at(call), "for i := 0; i < numHeaders; i++ { checkForCFHeaderMismatch(headers, i) .. } with headers, numHeaders from one getCFHeadersForAllPeers call", join(bad), c.at(lf.test))
	}
}

const everyServedCheckpointCheckedDoc = "a peer serving a filter checkpoint that contradicts a built-in one is banned wherever the client's own filter headers stand: in resolveConflict every entry of every served list reaches chainsync.ValidateCFHeader (no entry is skipped on account of its height or of what the store already holds; the later comparison with the store finds a mismatch but bans nobody)"

// everyServedCheckpointChecked: see everyServedCheckpointCheckedDoc (part of
// C03.O5, also C13.V2).
func (c *Ctx) everyServedCheckpointChecked() {
	fn := c.fn(fnResolve)
	vcf := c.funcObj("chainsync", "ValidateCFHeader")
	calls := find(fn, callTo(vcf))
	if len(calls) != 1 {
		c.fail(c.nm(fn)+" | every served checkpoint reaches ValidateCFHeader", c.P.Pos(fn.Pos()), fmt.Sprintf("%d ValidateCFHeader call(s), 1 tabled", len(calls)))
		return
	}
	h := ir.LoopHeaderOf(calls[0].Block())
	if h == nil {
		c.fail(c.nm(fn)+" | every served checkpoint reaches ValidateCFHeader", c.at(calls[0]), "ValidateCFHeader is not called in a loop over the served entries")
		return
	}
	in := ir.LoopBlocks(h)
	var starts []start
	for i, sc := range h.Succs {
		if in[sc] {
			starts = append(starts, atEdge(c, ir.Edge{From: h, Succ: i}, "next served checkpoint"))
		}
	}
	c.mustFollowIter(fn, "each served checkpoint", starts, func(x ssa.Instruction) bool { return x == calls[0] }, "chainsync.ValidateCFHeader", nil, 1)
}
