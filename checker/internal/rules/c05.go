package rules

import (
	"fmt"
	"go/token"
	"go/types"
	"sort"

	"golang.org/x/tools/go/ssa"

	"verif/checker/internal/ir"
)

func init() {
	register(&Prop{ID: "C05", Run: runC05, NotDecided: []string{
		"that builder.MakeHeaderForFilter is BIP157's header construction (trusted)",
		"filters already in the database/cache are trusted because only the guarded handler writes them (decided by who-may-call, not by re-validation)",
		"response streams, batching modes and range boundaries as run-time inputs",
	}})
}

const (
	fnCFResp    = "(*neutrino.cfiltersQuery).handleResponse"
	fnPrepareCF = "(*neutrino.ChainService).prepareCFiltersQuery"
	fnGetCF     = "(*neutrino.ChainService).GetCFilter"
)

func runC05(c *Ctx) {
	q := func(f string) *types.Var { return c.field("neutrino", "cfiltersQuery", f) }
	cs := func(f string) *types.Var { return c.field("neutrino", "ChainService", f) }
	putCache := func() *types.Func { return c.method("neutrino", "ChainService", "putFilterToCache") }
	addItem := func() *types.Func { return c.method("chanutils", "BatchWriter", "AddItem") }
	lruPut := func() *types.Func { return c.method("cache/lru", "Cache", "Put") }
	filterCachePut := func() Sel { return withArg(callTo(lruPut()), 0, loadsField(cs("FilterCache"))) }

	c.rule("C05.G1", "cfiltersQuery.handleResponse: a filter is kept (targetFilter, cache, batch writer, headerIndex delete, positive Progress) only behind: both type assertions, both filter-type equalities, a headerIndex hit, gcs.FromNBytes=nil, builder.MakeHeaderForFilter=nil and filterHeader == curHeader", func() {
		fn := c.fn(fnCFResp)
		kinds := []struct {
			name string
			sel  Sel
		}{
			{"q.targetFilter = filter", storeToField(q("targetFilter"))},
			{"filter cache put", anyOf(callTo(putCache()), filterCachePut())},
			{"batch writer AddItem", callTo(addItem())},
			{"delete(q.headerIndex, hash)", mapDelete(loadsField(q("headerIndex")))},
		}
		var eff []ssa.Instruction
		var missing []string
		for _, k := range kinds {
			x := find(fn, k.sel)
			if len(x) == 0 {
				missing = append(missing, k.name)
			}
			eff = append(eff, x...)
		}
		pr := progressReturns(fn, true)
		if len(pr) == 0 {
			missing = append(missing, "positive Progress return")
		}
		eff = append(eff, pr...)
		c.verdict(len(missing) == 0, c.nm(fn)+" | every kind of keep-effect is present", c.P.Pos(fn.Pos()), "targetFilter, cache, batch writer, headerIndex delete, positive progress", "not found in the handler: "+join(missing))
		const en = "keep filter (targetFilter/cache/AddItem/delete headerIndex/positive progress)"
		getCF := c.P.Named(pWire, "MsgGetCFilters")
		cf := c.P.Named(pWire, "MsgCFilter")
		if getCF == nil || cf == nil {
			panic(anchorErr{"wire.MsgGetCFilters / MsgCFilter"})
		}
		c.guarded(fn, okIs("req.(*wire.MsgGetCFilters)", find(fn, typeAsserts(types.NewPointer(getCF)))), 1, en, eff, 5, gDominate)
		c.guarded(fn, okIs("resp.(*wire.MsgCFilter)", find(fn, typeAsserts(types.NewPointer(cf)))), 1, en, eff, 5, gDominate)
		ftReq := c.field(pWire, "MsgGetCFilters", "FilterType")
		ftResp := c.field(pWire, "MsgCFilter", "FilterType")
		c.guarded(fn, equalIs("q.filterType vs request.FilterType", find(fn, binops(eqOps, loadsField(q("filterType")), loadsField(ftReq))), true), 1, en, eff, 5, gDominate)
		c.guarded(fn, equalIs("q.filterType vs response.FilterType", find(fn, binops(eqOps, loadsField(q("filterType")), loadsField(ftResp))), true), 1, en, eff, 5, gDominate)
		lk := find(fn, lookupsOn(loadsField(q("headerIndex"))))
		c.guarded(fn, okIs("q.headerIndex[response.BlockHash]", lk), 1, en, eff, 5, gDominate)
		fromN := c.funcObj(pGcs, "FromNBytes")
		mk := c.funcObj(pBuilder, "MakeHeaderForFilter")
		c.guarded(fn, errNil("gcs.FromNBytes", find(fn, callTo(fromN)), 1), 1, en, eff, 5, gDominate)
		isMkHash := func(v ssa.Value) bool {
			e, ok := v.(*ssa.Extract)
			return ok && e.Index == 0 && valIsCallTo(mk)(e.Tuple)
		}
		// these two may live in a helper extracted from the handler (bool or
		// error result); the helper's positive result must then be protected
		// by them and the helper call is the guard site
		mkErr := func(f *ssa.Function) guard {
			return errNil("builder.MakeHeaderForFilter", find(f, callTo(mk)), 1)
		}
		mkEq := func(f *ssa.Function) guard {
			return equalIs("filterHeader vs curHeader", find(f, binops(eqOps, isMkHash, loadsField(q("filterHeaders")))), true)
		}
		c.guarded(fn, c.liftGuard(fn, mkErr, 2), 1, en, eff, 5, gDominate)
		c.guarded(fn, c.liftGuard(fn, mkEq, 2), 1, en, eff, 5, gDominate)
	})

	c.rule("C05.V1", "the header pair used for validation is (filterHeaders[i-1], filterHeaders[i]) with i = headerIndex[response.BlockHash]; the filter hashed is the one decoded from response.Data; prepareCFiltersQuery fetches block and filter header ancestors with the same (numFilters, stopHash), checks both lengths and indexes block i (from 1) under its own hash", func() {
		fn := c.fn(fnCFResp)
		mk := c.funcObj(pBuilder, "MakeHeaderForFilter")
		fromN := c.funcObj(pGcs, "FromNBytes")
		lk := find(fn, lookupsOn(loadsField(q("headerIndex"))))
		if len(lk) != 1 {
			c.fail(c.nm(fn)+" | single headerIndex lookup", c.P.Pos(fn.Pos()), "expected exactly one comma-ok lookup in q.headerIndex")
			return
		}
		// the function that recomputes the header: the handler or a helper it calls
		host := fn
		if len(find(fn, callTo(mk))) == 0 {
			for _, hc := range c.helperCallsOf(fn) {
				if len(find(hc.callee, callTo(mk))) > 0 {
					host = hc.callee
					c.R.Funcs[c.nm(host)] = true
				}
			}
		}
		isIdx := func(v ssa.Value) bool {
			e, ok := ir.Strip(c.actual(ir.Strip(v))).(*ssa.Extract)
			return ok && e.Index == 0 && e.Tuple == lk[0].(ssa.Value)
		}
		isIdxMinus1 := func(v ssa.Value) bool {
			b, ok := ir.Strip(v).(*ssa.BinOp)
			if !ok || b.Op != token.SUB || !isIdx(b.X) {
				return false
			}
			k, isC := ir.ConstInt(b.Y)
			return isC && k == 1
		}
		// i-1 computed from such a result variable
		idxVia := func(ia *ssa.IndexAddr, idx func(ssa.Value) bool) bool {
			bo, ok := ir.Strip(ia.Index).(*ssa.BinOp)
			if !ok || bo.Op != token.SUB {
				return false
			}
			k, isC := ir.ConstInt(bo.Y)
			if !isC || k != 1 {
				return false
			}
			x := ir.ValueAt(bo.X, ia.Block())
			if x == bo.X {
				return false
			}
			// idx is isIdxMinus1 exactly when it refuses the bare index
			return !idx(x) && isIdx(x)
		}
		elemOf := func(v ssa.Value, idx func(ssa.Value) bool) bool {
			ld, ok := v.(*ssa.UnOp)
			if !ok || ld.Op != token.MUL {
				return false
			}
			ia, ok := ld.X.(*ssa.IndexAddr)
			// (the index as what a result variable of a written-out lookup
			// helper holds where the element is read)
			return ok && loadsField(q("filterHeaders"))(ia.X) && (idx(ia.Index) || idx(ir.ValueAt(ia.Index, ia.Block())) || idxVia(ia, idx))
		}
		okKey := false
		bh := c.field(pWire, "MsgCFilter", "BlockHash")
		if l, ok := lk[0].(*ssa.Lookup); ok {
			okKey = loadsField(bh)(l.Index)
		}
		c.verdict(okKey, c.nm(fn)+" | index looked up under response.BlockHash", c.at(lk[0]), "lookup key is response.BlockHash", "headerIndex is not looked up under the response's block hash", c.at(lk[0]))
		mkCalls := find(host, callTo(mk))
		okPrev, okFilter := len(mkCalls) == 1, len(mkCalls) == 1
		for _, m := range mkCalls {
			a := ir.CallOf(m).Args
			if !elemOf(a[1], isIdxMinus1) {
				okPrev = false
			}
			fv, isE := c.actual(a[0]).(*ssa.Extract)
			if !isE || fv.Index != 0 || !valIsCallTo(fromN)(fv.Tuple) {
				okFilter = false
			} else {
				data := c.field(pWire, "MsgCFilter", "Data")
				fa := ir.CallOf(fv.Tuple.(ssa.Instruction)).Args
				if !loadsField(data)(fa[len(fa)-1]) {
					okFilter = false
				}
			}
		}
		c.verdict(okPrev, c.nm(fn)+" | prevHeader = q.filterHeaders[i-1]", c.P.Pos(fn.Pos()), "MakeHeaderForFilter's previous header is filterHeaders[i-1]", "the previous header given to MakeHeaderForFilter is not q.filterHeaders[i-1]", c.ats(mkCalls)...)
		c.verdict(okFilter, c.nm(fn)+" | hashed filter = FromNBytes(response.Data)", c.P.Pos(fn.Pos()), "the filter hashed is the one decoded from response.Data", "the filter given to MakeHeaderForFilter is not the decoding of response.Data", c.ats(mkCalls)...)
		isMkHash := func(v ssa.Value) bool {
			e, ok := v.(*ssa.Extract)
			return ok && e.Index == 0 && valIsCallTo(mk)(e.Tuple)
		}
		okCur := false
		for _, in := range find(host, binops(eqOps, isMkHash, anyVal)) {
			b := in.(*ssa.BinOp)
			o := b.Y
			if isMkHash(b.Y) {
				o = b.X
			}
			okCur = elemOf(o, isIdx)
		}
		c.verdict(okCur, c.nm(fn)+" | curHeader = q.filterHeaders[i]", c.P.Pos(fn.Pos()), "the computed header is compared with filterHeaders[i]", "the computed header is not compared with q.filterHeaders[i]")
		// the filter kept is the filter validated
		okKept := true
		isFilter := func(v ssa.Value) bool {
			return ir.DerivesFrom(v, func(x ssa.Value) bool {
				e, ok := x.(*ssa.Extract)
				return ok && e.Index == 0 && valIsCallTo(fromN)(e.Tuple)
			})
		}
		for _, st := range find(fn, storeToField(q("targetFilter"))) {
			if !isFilter(st.(*ssa.Store).Val) {
				okKept = false
			}
		}
		for _, pc := range find(fn, callTo(putCache())) {
			a := argsOf(pc)
			// the decoded filter, or the query's targetFilter, which (above)
			// only ever holds a decoded and, by C05.G1, validated filter
			if !isFilter(a[len(a)-1]) && !loadsField(q("targetFilter"))(a[len(a)-1]) {
				okKept = false
			}
		}
		fdFilter := c.field("filterdb", "FilterData", "Filter")
		for _, st := range find(fn, storeToField(fdFilter)) {
			if !isFilter(st.(*ssa.Store).Val) {
				okKept = false
			}
		}
		c.verdict(okKept, c.nm(fn)+" | the filter stored/cached/persisted is the validated one", c.P.Pos(fn.Pos()), "targetFilter, cache and FilterData.Filter all take the decoded filter", "a filter other than the validated one is stored, cached or persisted")

		// prepareCFiltersQuery
		fp := c.fn(fnPrepareCF)
		bAnc := find(fp, callTo(c.method("headerfs", "BlockHeaderStore", "FetchHeaderAncestors")))
		fAnc := find(fp, callTo(c.method("headerfs", "FilterHeaderStore", "FetchHeaderAncestors")))
		okSame := len(bAnc) == 1 && len(fAnc) == 1
		if okSame {
			a, b := argsOf(bAnc[0]), argsOf(fAnc[0])
			okSame = len(a) == 2 && len(b) == 2 && a[0] == b[0] && a[1] == b[1]
		}
		c.verdict(okSame, c.nm(fp)+" | block and filter header ancestors fetched with identical (numFilters, stopHash)", c.P.Pos(fp.Pos()), "same SSA values passed to both FetchHeaderAncestors", "the two FetchHeaderAncestors calls use different ranges: filterHeaders[i] would not be the header of block i", c.ats(append(bAnc, fAnc...))...)
		if !okSame {
			return
		}
		// stored filterHeaders is the filter store's result
		okStore := false
		for _, st := range find(fp, storeToField(q("filterHeaders"))) {
			okStore = ir.DerivesFrom(st.(*ssa.Store).Val, func(x ssa.Value) bool {
				e, ok := x.(*ssa.Extract)
				return ok && e.Index == 0 && e.Tuple == fAnc[0].(ssa.Value)
			})
		}
		c.verdict(okStore, c.nm(fp)+" | cfiltersQuery.filterHeaders = RegFilterHeaders.FetchHeaderAncestors result", c.P.Pos(fp.Pos()), "field initialised from the filter store's ancestors", "cfiltersQuery.filterHeaders is not the filter-header ancestor slice")
		// headerIndex[blockHeaders[i].BlockHash()] = i, i from 1
		var ups []ssa.Instruction
		ir.Instrs(fp, func(in ssa.Instruction) {
			if mu, ok := in.(*ssa.MapUpdate); ok {
				if _, isMake := mu.Map.(*ssa.MakeMap); isMake {
					ups = append(ups, in)
				}
			}
		})
		okIdx := len(ups) == 1 && ir.LoopHeaderOf(ups[0].Block()) != nil
		if okIdx {
			mu := ups[0].(*ssa.MapUpdate)
			h := ir.LoopHeaderOf(mu.Block())
			lf := loopFormOf(h)
			isBlockHeaders := func(y ssa.Value) bool {
				return ir.DerivesFrom(y, func(z ssa.Value) bool {
					e, ok := z.(*ssa.Extract)
					return ok && e.Index == 0 && e.Tuple == bAnc[0].(ssa.Value)
				})
			}
			// value = counter + dv
			dv, okV := counterOffset(lf, mu.Value)
			// key = hash of blockHeaders[counter + di (+ low bound of a sub-slice)]
			okKey := false
			var elem int64
			ir.InfluencedBy(mu.Key, func(x ssa.Value) bool {
				ia, ok := x.(*ssa.IndexAddr)
				if !ok || !isBlockHeaders(ia.X) {
					return false
				}
				di, okI := counterOffset(lf, ia.Index)
				if !okI {
					return false
				}
				low := int64(0)
				if sl, ok := ir.Strip(ia.X).(*ssa.Slice); ok {
					k, isC := ir.ConstInt(sl.Low)
					if sl.Low == nil || !isC || sl.High != nil {
						return false
					}
					low = k
				}
				okKey, elem = true, di+low
				return true
			})
			okIdx = okV && okKey && dv == elem
			if okIdx {
				// the loop covers elements 1 .. len-1 of blockHeaders (a loop
				// over all elements that skips the first ones with a guard
				// counts from the first element that reaches the update)
				if first, ok := lf.firstConst(); ok {
					if k, ok := skippedPrefix(fp, lf, mu.Block()); ok && k > first {
						elemShift := k - first
						_ = elemShift
						okIdx = c.fullRangeOff(fp, h, "the loop building headerIndex (elements 1..len-1; element 0 is only the predecessor)", func(v ssa.Value) bool {
							_, isSl := ir.Strip(v).(*ssa.Slice)
							return !isSl && isBlockHeaders(v)
						}, elem-1+elemShift, elem, func(*ssa.Return) bool { return true })
						goto doneRange
					}
				}
				okIdx = c.fullRangeOff(fp, h, "the loop building headerIndex (elements 1..len-1; element 0 is only the predecessor)", func(v ssa.Value) bool {
					_, isSl := ir.Strip(v).(*ssa.Slice)
					return !isSl && isBlockHeaders(v)
				}, elem-1, elem, func(*ssa.Return) bool { return true })
			doneRange:
			}
		}
		c.verdict(okIdx, c.nm(fp)+" | headerIndex[blockHeaders[i].BlockHash()] = i for i from 1", c.P.Pos(fp.Pos()), "index map built from position 1 with matching key/value index", "headerIndex is not built as hash(blockHeaders[i]) -> i starting at 1 (position 0 is the predecessor used only for validation)", c.ats(ups)...)
		// both length checks guard the construction
		var lenCmps []ssa.Instruction
		ir.Instrs(fp, func(in ssa.Instruction) {
			b, ok := in.(*ssa.BinOp)
			if !ok || (b.Op != token.EQL && b.Op != token.NEQ) {
				return
			}
			for _, op := range []ssa.Value{b.X, b.Y} {
				if call, ok := op.(*ssa.Call); ok && isBuiltin("len")(call) {
					if ir.DerivesFrom(call.Call.Args[0], func(y ssa.Value) bool {
						e, ok := y.(*ssa.Extract)
						return ok && e.Index == 0 && (e.Tuple == bAnc[0].(ssa.Value) || e.Tuple == fAnc[0].(ssa.Value))
					}) {
						lenCmps = append(lenCmps, in)
					}
				}
			}
		})
		c.guarded(fp, equalIs("len(headers) vs numFilters+1", lenCmps, true), 2, "build headerIndex", ups, 1, gDominate)
	})

	c.rule("C05.V6", "the two header slices stay parallel: the response handler reads filterHeaders[i-1] and filterHeaders[i] for the position i that headerIndex gives the response's block hash, and headerIndex is built by position in blockHeaders; so in prepareCFiltersQuery the slice headerIndex is built from and the slice stored as the query's filterHeaders are the two results of FetchHeaderAncestors as they came - neither is re-sliced (leading entries dropped from one of them, to skip filters that are already cached, shift every later block onto the committed header of an earlier one: a genuine filter of block h-k passes as the filter of block h)", func() {
		fn := c.fn("(*neutrino.ChainService).prepareCFiltersQuery")
		bhA := c.method("headerfs", "BlockHeaderStore", "FetchHeaderAncestors")
		fhA := c.method("headerfs", "FilterHeaderStore", "FetchHeaderAncestors")
		var whole func(v ssa.Value, m *types.Func, d int) bool
		whole = func(v ssa.Value, m *types.Func, d int) bool {
			if d > 6 {
				return false
			}
			switch x := v.(type) {
			case *ssa.Extract:
				call, ok := x.Tuple.(*ssa.Call)
				return ok && x.Index == 0 && callTo(m)(call)
			case *ssa.Phi:
				for _, e := range x.Edges {
					if !whole(e, m, d+1) {
						return false
					}
				}
				return len(x.Edges) > 0
			case *ssa.UnOp:
				// a local cell: every store into it
				if a, ok := x.X.(*ssa.Alloc); ok && x.Op == token.MUL {
					n := 0
					okAll := true
					for _, r := range ir.Refs(a) {
						if st, isSt := r.(*ssa.Store); isSt && st.Addr == ssa.Value(a) {
							n++
							if !whole(st.Val, m, d+1) {
								okAll = false
							}
						}
					}
					return n > 0 && okAll
				}
			}
			return false
		}
		fhF := c.field("neutrino", "cfiltersQuery", "filterHeaders")
		var bad []string
		n := 0
		for _, st := range find(fn, storeToField(fhF)) {
			n++
			// (a result variable of a written-out fetch helper holds, where
			// it is used, what the edges that can get there put into it: the
			// nil placeholders of its error exits cannot)
			if !whole(st.(*ssa.Store).Val, fhA, 0) && !whole(ir.ValueAt(st.(*ssa.Store).Val, st.Block()), fhA, 0) {
				bad = append(bad, "the filterHeaders stored in the query at "+c.at(st)+" are not the slice FetchHeaderAncestors returned")
			}
		}
		// the slice the index is built from: element hashed into the map key
		hiF := c.field("neutrino", "cfiltersQuery", "headerIndex")
		_ = hiF
		idx := 0
		ir.Instrs(fn, func(in ssa.Instruction) {
			mu, ok := in.(*ssa.MapUpdate)
			if !ok {
				return
			}
			if _, isInt := mu.Value.Type().Underlying().(*types.Basic); !isInt {
				return
			}
			var src ssa.Value
			ir.InfluencedBy(mu.Key, func(x ssa.Value) bool {
				if ia, isIA := x.(*ssa.IndexAddr); isIA && src == nil {
					src = ia.X
					return true
				}
				return false
			})
			if src == nil {
				return
			}
			idx++
			if whole(src, bhA, 0) || whole(ir.ValueAt(src, in.Block()), bhA, 0) {
				return
			}
			// a window blockHeaders[k:] is fine when the position stored is
			// shifted by the same k: position = index in the fetched slice
			var offOf func(v ssa.Value, d int) (int64, bool)
			offOf = func(v ssa.Value, d int) (int64, bool) {
				if d > 6 {
					return 0, false
				}
				if whole(v, bhA, 0) {
					return 0, true
				}
				switch x := v.(type) {
				case *ssa.Slice:
					k := int64(0)
					if x.Low != nil {
						kk, isC := ir.ConstInt(x.Low)
						if !isC {
							return 0, false
						}
						k = kk
					}
					o, ok := offOf(x.X, d+1)
					return o + k, ok
				case *ssa.Phi:
					var off int64
					for i, e := range x.Edges {
						o, ok := offOf(e, d+1)
						if !ok || (i > 0 && o != off) {
							return 0, false
						}
						off = o
					}
					return off, len(x.Edges) > 0
				}
				return 0, false
			}
			okWin := false
			if off, ok := offOf(src, 0); ok {
				if h := ir.LoopHeaderOf(in.Block()); h != nil {
					if lf := loopFormOf(h); lf.problem == "" {
						var elemIdx ssa.Value
						ir.InfluencedBy(mu.Key, func(x ssa.Value) bool {
							if ia, isIA := x.(*ssa.IndexAddr); isIA && elemIdx == nil {
								elemIdx = ia.Index
								return true
							}
							return false
						})
						a, okA := counterOffset(lf, elemIdx)
						b, okB := counterOffset(lf, mu.Value)
						okWin = okA && okB && off+a == b
					}
				}
			}
			if !okWin {
				bad = append(bad, "headerIndex is built at "+c.at(in)+" from a slice that is not the one FetchHeaderAncestors returned (nor a window of it with the stored position shifted alike)")
			}
		})
		sort.Strings(bad)
		c.verdict(len(bad) == 0 && n >= 1 && idx >= 1, c.nm(fn)+" | headerIndex and filterHeaders come from the fetched slices as they are", c.P.Pos(fn.Pos()), "both are the unsliced results of FetchHeaderAncestors", join(bad)+fmt.Sprintf(" (%d store(s) of filterHeaders, %d index update(s))", n, idx))
	})

	c.rule("C05.V2", "every non-nil filter returned by GetCFilter comes from the cache, the filter database or the validated targetFilter", func() {
		fn := c.fn(fnGetCF)
		getCache := c.method("neutrino", "ChainService", "getFilterFromCache")
		fetch := c.method("filterdb", "FilterDatabase", "FetchFilter")
		src := func(v ssa.Value) bool {
			if valIsCallTo(getCache, fetch)(v) {
				return true
			}
			if fa, ok := v.(*ssa.FieldAddr); ok && ir.FieldOfAddr(fa) == q("targetFilter") {
				return true
			}
			return false
		}
		bad, good := returnsDerive(fn, 0, src)
		c.verdict(len(bad) == 0 && len(good) >= 4, c.nm(fn)+" | provenance of returned filter", c.P.Pos(fn.Pos()), "all non-nil returns derive from cache / FilterDB / targetFilter", "a returned filter has another origin at "+join(c.ats(bad)), c.ats(append(good, bad...))...)
	})

	c.rule("C05.V3", "the filter handed back is the one for the requested block: targetFilter is assigned only behind response.BlockHash == q.<target hash field>, that field is set from prepareCFiltersQuery's blockHash parameter, GetCFilter passes its own blockHash there, and the cache / database lookups of GetCFilter are keyed by that same hash", func() {
		h := c.fn(fnCFResp)
		cfBlockHash := c.field(pWire, "MsgCFilter", "BlockHash")
		hashT := c.P.Named(pChainhash, "Hash")
		// comparisons response.BlockHash == q.<Hash field>
		var cmps []ssa.Instruction
		var target *types.Var
		ir.Instrs(h, func(in ssa.Instruction) {
			b, ok := in.(*ssa.BinOp)
			if !ok || (b.Op != token.EQL && b.Op != token.NEQ) {
				return
			}
			for _, pr := range [][2]ssa.Value{{b.X, b.Y}, {b.Y, b.X}} {
				if !loadsField(cfBlockHash)(pr[0]) {
					continue
				}
				ld, ok := pr[1].(*ssa.UnOp)
				if !ok {
					continue
				}
				fa, ok := ld.X.(*ssa.FieldAddr)
				if !ok || fa.X != ssa.Value(h.Params[0]) {
					continue
				}
				f := ir.FieldOfAddr(fa)
				if hashT != nil && types.Identical(f.Type(), hashT) {
					cmps = append(cmps, in)
					target = f
				}
			}
		})
		stores := find(h, storeToField(q("targetFilter")))
		c.guarded(h, equalIs("response.BlockHash == q.targetHash", cmps, true), 1, "q.targetFilter = filter", stores, 1, gDominate)
		if target == nil {
			return
		}
		// prepareCFiltersQuery: the field is initialised from the blockHash parameter
		fp := c.fn(fnPrepareCF)
		okInit := false
		for _, st := range find(fp, storeToField(target)) {
			okInit = paramOrSpill(fp.Params[1])(st.(*ssa.Store).Val)
		}
		c.verdict(okInit, c.nm(fp)+" | target hash = the requested block hash", c.P.Pos(fp.Pos()), target.Name()+": blockHash", "the query's target hash is not the blockHash parameter")
		// GetCFilter: same hash everywhere
		g := c.fn(fnGetCF)
		param := g.Params[1]
		isParam := paramOrSpill(param)
		var bad, sites []string
		n := 0
		for _, spec := range []struct {
			sel Sel
			arg int
			nm  string
		}{
			{callTo(c.method("neutrino", "ChainService", "prepareCFiltersQuery")), 0, "prepareCFiltersQuery"},
			{callTo(c.method("neutrino", "ChainService", "getFilterFromCache")), 0, "getFilterFromCache"},
			{callTo(c.method("filterdb", "FilterDatabase", "FetchFilter")), 0, "FilterDB.FetchFilter"},
		} {
			for _, x := range find(g, spec.sel) {
				n++
				sites = append(sites, spec.nm+"@"+c.at(x))
				if !isParam(argsOf(x)[spec.arg]) {
					bad = append(bad, spec.nm+" at "+c.at(x)+" is not given the requested block hash")
				}
			}
		}
		c.verdict(len(bad) == 0 && n >= 4, c.nm(g)+" | cache, database and network lookups use the requested hash", c.P.Pos(g.Pos()), fmt.Sprintf("%d lookups keyed by blockHash", n), join(bad)+fmt.Sprintf(" (%d lookups)", n), sites...)
	})

	c.rule("C05.V4", "the call fails rather than hand back nothing: GetCFilter returns the query's targetFilter with a nil error only behind targetFilter != nil (a finished range that did not contain the requested block must end in ErrFilterFetchFailed, not in (nil, nil))", func() {
		fn := c.fn(fnGetCF)
		tf := q("targetFilter")
		var rets, cmps []ssa.Instruction
		for _, in := range find(fn, isExit) {
			r := in.(*ssa.Return)
			if !ir.IsNil(ir.RetVal(r, 1)) {
				continue
			}
			if ir.DerivesFrom(ir.RetVal(r, 0), func(v ssa.Value) bool {
				fa, ok := v.(*ssa.FieldAddr)
				return ok && ir.FieldOfAddr(fa) == tf
			}) {
				rets = append(rets, in)
			}
		}
		ir.Instrs(fn, func(in ssa.Instruction) {
			b, ok := in.(*ssa.BinOp)
			if !ok || (b.Op != token.EQL && b.Op != token.NEQ) {
				return
			}
			if (loadsField(tf)(b.X) && ir.IsNil(b.Y)) || (loadsField(tf)(b.Y) && ir.IsNil(b.X)) {
				cmps = append(cmps, in)
			}
		})
		c.guarded(fn, equalIs("filterQuery.targetFilter vs nil", cmps, false), 1, "return filterQuery.targetFilter, nil", rets, 1, gDominate)
	})

	c.rule("C05.P1", "GetCFilter serialises network fetches: the second cache lookup, the range preparation and the query all run with mtxCFilter held, so two callers cannot fetch (and validate against) the same range concurrently and the re-check after the lock sees the other caller's result", func() {
		fn := c.fn(fnGetCF)
		res := c.lockResults()
		key := lockKey{cs("mtxCFilter")}
		getCache := c.method("neutrino", "ChainService", "getFilterFromCache")
		prep := c.method("neutrino", "ChainService", "prepareCFiltersQuery")
		q := c.method("query", "WorkManager", "Query")
		var bad []string
		sites := find(fn, callTo(prep, q))
		for _, s := range sites {
			if res[fn].mustHold[s][key] != "W" {
				bad = append(bad, describeCall(s)+" at "+c.at(s)+" without mtxCFilter")
			}
		}
		// a cache lookup happens under the lock before the query
		under := 0
		for _, s := range find(fn, callTo(getCache)) {
			if res[fn].mustHold[s][key] == "W" {
				under++
			}
		}
		if under < 1 {
			bad = append(bad, "no cache re-check under mtxCFilter before fetching")
		}
		c.verdict(len(bad) == 0 && len(sites) >= 2, c.nm(fn)+" | fetch path under mtxCFilter", c.P.Pos(fn.Pos()), "prepare + query + cache re-check under the mutex", join(bad), c.ats(sites)...)
	})

	c.rule("C05.T1", "writer/reader agreement of the persistent filter store and the cache: putFilter stores filter.NBytes() under the block hash it is given; PutFilters passes each record's own hash and filter; FetchFilter reads under the requested hash and decodes with the same parameters (builder.DefaultP/DefaultM) as the network handler; cache get/put build the same key from (block hash, filter type)", func() {
		pf := c.fn("filterdb.putFilter")
		put := c.method("github.com/btcsuite/btcwallet/walletdb", "ReadWriteBucket", "Put")
		nbytes := c.method(pGcs, "Filter", "NBytes")
		okPut, n := true, 0
		for _, call := range find(pf, callTo(put)) {
			a := ir.CallOf(call).Args
			n++
			if !ir.DerivesFrom(a[0], func(x ssa.Value) bool { return x == ssa.Value(pf.Params[1]) }) {
				okPut = false
			}
			if !ir.IsNil(a[1]) && !(ir.DerivesFrom(a[1], valIsCallTo(nbytes))) {
				okPut = false
			}
		}
		for _, nb := range find(pf, callTo(nbytes)) {
			if ir.CallOf(nb).Args[0] != ssa.Value(pf.Params[2]) {
				okPut = false
			}
		}
		c.verdict(okPut && n >= 1, c.nm(pf)+" | bucket.Put(hash[:], filter.NBytes())", c.P.Pos(pf.Pos()), "key from the hash parameter, value from the filter parameter", "putFilter does not store the given filter's NBytes under the given hash")
		pfs := c.fn("(*filterdb.FilterStore).PutFilters")
		fd := func(f string) *types.Var { return c.field("filterdb", "FilterData", f) }
		okRec := false
		for _, f := range ir.WithClosures(pfs) {
			for _, call := range find(f, callTo(c.funcObj("filterdb", "putFilter"))) {
				a := ir.CallOf(call).Args
				// both from the same FilterData element
				var recH, recF ssa.Value
				ir.DerivesFrom(a[1], func(x ssa.Value) bool {
					if fa, ok := x.(*ssa.FieldAddr); ok && ir.FieldOfAddr(fa) == fd("BlockHash") {
						recH = fa.X
					}
					return false
				})
				ir.DerivesFrom(a[2], func(x ssa.Value) bool {
					if fa, ok := x.(*ssa.FieldAddr); ok && ir.FieldOfAddr(fa) == fd("Filter") {
						recF = fa.X
					}
					return false
				})
				okRec = recH != nil && recH == recF
			}
		}
		c.verdict(okRec, c.nm(pfs)+" | each record's filter is stored under that record's block hash", c.P.Pos(pfs.Pos()), "BlockHash and Filter of the same FilterData", "PutFilters pairs a filter with the hash of a different record")
		ff := c.fn("(*filterdb.FilterStore).FetchFilter")
		get := c.method("github.com/btcsuite/btcwallet/walletdb", "ReadBucket", "Get")
		fromN := c.funcObj(pGcs, "FromNBytes")
		okFetch := false
		pv, mv := c.builderConst("DefaultP"), c.builderConst("DefaultM")
		for _, f := range ir.WithClosures(ff) {
			for _, g := range find(f, callTo(get)) {
				a := argsOf(g)[0]
				keyOK := ir.DerivesFrom(a, func(x ssa.Value) bool {
					if x == ssa.Value(ff.Params[1]) {
						return true
					}
					fv, ok := x.(*ssa.FreeVar)
					return ok && fv.Name() == ff.Params[1].Name()
				})
				for _, d := range find(f, callTo(fromN)) {
					da := ir.CallOf(d).Args
					p0, ok0 := ir.ConstInt(da[0])
					m0, ok1 := ir.ConstInt(da[1])
					okFetch = keyOK && ok0 && ok1 && p0 == pv && m0 == mv && ir.DerivesFrom(da[2], func(x ssa.Value) bool { return x == g.(ssa.Value) })
				}
			}
		}
		c.verdict(okFetch, c.nm(ff)+" | Get(blockHash[:]) decoded with gcs.FromNBytes(DefaultP, DefaultM, bytes)", c.P.Pos(ff.Pos()), "reader mirrors the writer", "FetchFilter does not read under the requested hash or does not decode with builder.DefaultP/DefaultM")
		hr := c.fn(fnCFResp)
		okNet := false
		for _, d := range find(hr, callTo(fromN)) {
			da := ir.CallOf(d).Args
			p0, ok0 := ir.ConstInt(da[0])
			m0, ok1 := ir.ConstInt(da[1])
			okNet = ok0 && ok1 && p0 == pv && m0 == mv
		}
		c.verdict(okNet, c.nm(hr)+" | network filters decoded with builder.DefaultP/DefaultM", c.P.Pos(hr.Pos()), "same parameters", "the response handler decodes filters with parameters other than builder.DefaultP/DefaultM")
		// cache key
		key := func(fn *ssa.Function) (ssa.Value, ssa.Value) {
			var bh, ft ssa.Value
			for _, st := range find(fn, storeToField(c.field("neutrino", "FilterCacheKey", "BlockHash"))) {
				bh = st.(*ssa.Store).Val
			}
			for _, st := range find(fn, storeToField(c.field("neutrino", "FilterCacheKey", "FilterType"))) {
				ft = st.(*ssa.Store).Val
			}
			return bh, ft
		}
		okKey := true
		for _, name := range []string{"(*neutrino.ChainService).getFilterFromCache", "(*neutrino.ChainService).putFilterToCache"} {
			fn := c.fn(name)
			bh, ft := key(fn)
			if bh == nil || ft == nil || !isParam(fn, 1)(bh) || !isParam(fn, 2)(ft) {
				okKey = false
			}
		}
		c.verdict(okKey, "getFilterFromCache / putFilterToCache | key = {*blockHash, filterType} from the arguments", "", "both build the key from (blockHash, filterType)", "the cache key is not built from the block hash and filter type arguments on both sides")
		// the record handed to the batch writer names the response's block
		bhResp := c.field(pWire, "MsgCFilter", "BlockHash")
		okFD := false
		for _, st := range find(hr, storeToField(fd("BlockHash"))) {
			okFD = ir.DerivesFrom(st.(*ssa.Store).Val, func(x ssa.Value) bool { return fieldAddrOf(bhResp)(x) })
		}
		c.verdict(okFD, c.nm(hr)+" | persisted record is keyed by response.BlockHash", c.P.Pos(hr.Pos()), "FilterData.BlockHash = &response.BlockHash", "the filter is persisted under a hash other than the response's block hash")
	})

	c.rule("C05.V5", "a filter is filed under the block it was validated for: in cfiltersQuery.handleResponse every putFilterToCache call and every record handed to the batch writer carries the block hash of this response (&response.BlockHash) together with the filter decoded from this response's data (gcs.FromNBytes(.., response.Data)); no other key (the query's target hash, a hash from an earlier response) is ever paired with it", func() {
		fn := c.fn(fnCFResp)
		fromN := c.funcObj(pGcs, "FromNBytes")
		bh := c.field(pWire, "MsgCFilter", "BlockHash")
		isRespHash := func(v ssa.Value) bool {
			fa, ok := ir.Strip(v).(*ssa.FieldAddr)
			return ok && ir.FieldOfAddr(fa) == bh
		}
		isFilter := func(v ssa.Value) bool {
			e, ok := ir.Strip(c.actual(ir.Strip(v))).(*ssa.Extract)
			return ok && e.Index == 0 && valIsCallTo(fromN)(e.Tuple)
		}
		n := 0
		for _, in := range find(fn, callTo(putCache())) {
			n++
			a := argsOf(in)
			okv := len(a) == 3 && (isRespHash(a[0]) || isRespHash(ir.ValueAt(a[0], in.Block()))) && (isFilter(a[2]) || isFilter(ir.ValueAt(a[2], in.Block())))
			// the one other sound pair: the query's target under its own hash
			// (targetFilter is assigned only for response.BlockHash == targetHash, C05.V3)
			if !okv && len(a) == 3 {
				if fa, isFa := ir.Strip(a[0]).(*ssa.FieldAddr); isFa && ir.FieldOfAddr(fa) == q("targetHash") && loadsField(q("targetFilter"))(a[2]) {
					okv = true
				}
			}
			c.verdict(okv, c.nm(fn)+" | cache entry = (this response's block hash, the filter decoded from it)", c.at(in), "putFilterToCache(&response.BlockHash, .., filter)", "the filter cache is written with a key other than this response's block hash or a value other than the filter decoded from this response: a later lookup of that key returns a filter of another block", c.at(in))
		}
		c.verdict(n >= 1, c.nm(fn)+" | putFilterToCache calls", c.P.Pos(fn.Pos()), fmt.Sprintf("%d call(s)", n), "no putFilterToCache call found in the response handler")
		fdHash := c.field("filterdb", "FilterData", "BlockHash")
		fdFilter := c.field("filterdb", "FilterData", "Filter")
		m := 0
		ir.Instrs(fn, func(in ssa.Instruction) {
			st, ok := in.(*ssa.Store)
			if !ok {
				return
			}
			fa, ok := st.Addr.(*ssa.FieldAddr)
			if !ok {
				return
			}
			switch ir.FieldOfAddr(fa) {
			case fdHash:
				m++
				c.verdict(isRespHash(st.Val) || isRespHash(ir.ValueAt(st.Val, in.Block())), c.nm(fn)+" | persisted record's block hash is this response's", c.at(in), "&response.BlockHash", "the record handed to the filter database carries a block hash other than this response's", c.at(in))
			case fdFilter:
				m++
				c.verdict(isFilter(st.Val) || isFilter(ir.ValueAt(st.Val, in.Block())), c.nm(fn)+" | persisted record's filter is the one decoded from this response", c.at(in), "filter", "the record handed to the filter database carries a filter other than the one decoded from this response", c.at(in))
			}
		})
		c.verdict(m >= 2, c.nm(fn)+" | persisted record fields", c.P.Pos(fn.Pos()), fmt.Sprintf("%d field store(s)", m), "the FilterData record built for the batch writer was not found")
	})

	c.rule("C05.W1", "only the validating handler feeds the filter cache and the persistent filter store: FilterCache.Put only in putFilterToCache, called only from handleResponse; AddItem only from handleResponse; FilterDB.PutFilters only as the batch writer's PutItems (wired in NewChainService)", func() {
		c.whoMay("ChainService.FilterCache.Put", filterCachePut(), []string{"(*neutrino.ChainService).putFilterToCache"}, 1)
		c.whoMay("ChainService.putFilterToCache", callTo(putCache()), []string{fnCFResp}, 1)
		c.whoMay("BatchWriter.AddItem", callTo(addItem()), []string{fnCFResp}, 1)
		put := c.method("filterdb", "FilterDatabase", "PutFilters")
		c.whoMay("FilterDatabase.PutFilters (call or method value)", anyOf(callTo(put), refersTo(put)), []string{"neutrino.NewChainService"}, 1)
		c.whoMay("store to cfiltersQuery.targetFilter", storeToField(q("targetFilter")), []string{fnCFResp}, 1)
	})
}

func (c *Ctx) builderConst(name string) int64 {
	p := c.P.Pkg(pBuilder)
	if p == nil {
		panic(anchorErr{"package gcs/builder"})
	}
	k, ok := p.Scope().Lookup(name).(*types.Const)
	if !ok {
		panic(anchorErr{"const builder." + name})
	}
	v, _ := ir.ConstInt(ssa.NewConst(k.Val(), k.Type()))
	return v
}
