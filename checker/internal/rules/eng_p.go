package rules

import (
	"fmt"
	"go/types"
	"sort"
	"strings"

	"golang.org/x/tools/go/ssa"

	"verif/checker/internal/ir"
)

// ---- engine P: path-sensitive lockset ----

// lockKey identifies a mutex by the struct field that holds it (after
// resolving sync.Cond.L aliases). Two objects of one type share a key; the
// rules are about methods working on their own receiver.
type lockKey struct {
	f *types.Var
}

func (k lockKey) String() string {
	if k.f == nil {
		return "?"
	}
	return k.f.Name()
}

type lockOp struct {
	key   lockKey
	acq   bool // acquire / release
	read  bool // RLock/RUnlock
	wait  bool // Cond.Wait (needs the lock, releases and re-takes it)
	known bool
}

// lockFacts are program-wide facts the lockset engine needs.
type lockFacts struct {
	condAlias map[*types.Var]*types.Var // cond field -> mutex field it wraps
}

func (c *Ctx) lockFacts() *lockFacts {
	if c.lf != nil {
		return c.lf
	}
	lf := &lockFacts{condAlias: map[*types.Var]*types.Var{}}
	for _, fn := range c.P.Funcs {
		ir.Instrs(fn, func(in ssa.Instruction) {
			st, ok := in.(*ssa.Store)
			if !ok {
				return
			}
			fa, ok := st.Addr.(*ssa.FieldAddr)
			if !ok {
				return
			}
			call, ok := st.Val.(*ssa.Call)
			if !ok {
				return
			}
			callee := call.Call.StaticCallee()
			if callee == nil || callee.Pkg == nil || callee.Pkg.Pkg.Path() != "sync" || callee.Name() != "NewCond" {
				return
			}
			arg := ir.Strip(call.Call.Args[0])
			if mfa, ok := arg.(*ssa.FieldAddr); ok {
				lf.condAlias[ir.FieldOfAddr(fa)] = ir.FieldOfAddr(mfa)
			}
		})
	}
	c.lf = lf
	return lf
}

// mutexOfValue resolves the mutex a Lock/Unlock receiver denotes.
func (lf *lockFacts) mutexOfValue(v ssa.Value) (lockKey, bool) {
	v = ir.Strip(v)
	switch x := v.(type) {
	case *ssa.Parameter:
		// a helper that is handed the lock to work on (`func WithLock(l
		// sync.Locker, fn func())`): inside the helper the parameter is the
		// lock's name
		if pv, _ := x.Object().(*types.Var); pv != nil {
			return lockKey{pv}, true
		}
	case *ssa.FieldAddr:
		f := ir.FieldOfAddr(x)
		// cond.L field of a sync.Cond held in a struct field
		if f != nil && f.Name() == "L" && f.Pkg() != nil && f.Pkg().Path() == "sync" {
			return lf.mutexOfCond(x.X)
		}
		return lockKey{f}, f != nil
	case *ssa.UnOp:
		// load of cond.L (a sync.Locker interface value)
		if fa, ok := x.X.(*ssa.FieldAddr); ok {
			f := ir.FieldOfAddr(fa)
			if f != nil && f.Name() == "L" && f.Pkg() != nil && f.Pkg().Path() == "sync" {
				return lf.mutexOfCond(fa.X)
			}
		}
	}
	return lockKey{}, false
}

// mutexOfCond: v is a *sync.Cond value; find the mutex it was built on.
func (lf *lockFacts) mutexOfCond(v ssa.Value) (lockKey, bool) {
	v = ir.Strip(v)
	// *sync.Cond loaded from a struct field
	if ld, ok := v.(*ssa.UnOp); ok {
		if fa, ok := ld.X.(*ssa.FieldAddr); ok {
			if m, ok := lf.condAlias[ir.FieldOfAddr(fa)]; ok {
				return lockKey{m}, true
			}
		}
	}
	// sync.Cond embedded by value: &x.cond
	if fa, ok := v.(*ssa.FieldAddr); ok {
		if m, ok := lf.condAlias[ir.FieldOfAddr(fa)]; ok {
			return lockKey{m}, true
		}
	}
	return lockKey{}, false
}

// lockOpOf classifies an instruction as a lock operation.
func (c *Ctx) lockOpOf(in ssa.Instruction) (lockOp, bool) {
	cc := ir.CallOf(in)
	if cc == nil {
		return lockOp{}, false
	}
	lf := c.lockFacts()
	var name string
	var recv ssa.Value
	if cc.IsInvoke() {
		// sync.Locker
		if cc.Method.Pkg() == nil || cc.Method.Pkg().Path() != "sync" {
			return lockOp{}, false
		}
		name, recv = cc.Method.Name(), cc.Value
		// m.RLocker(): Lock / Unlock of the result are RLock / RUnlock of m
		if call, isCall := ir.Strip(recv).(*ssa.Call); isCall {
			if f := call.Call.StaticCallee(); f != nil && f.Pkg != nil && f.Pkg.Pkg.Path() == "sync" && f.Name() == "RLocker" && len(call.Call.Args) == 1 {
				recv = call.Call.Args[0]
				switch name {
				case "Lock":
					name = "RLock"
				case "Unlock":
					name = "RUnlock"
				}
			}
		}
	} else {
		fn := cc.StaticCallee()
		if fn == nil || fn.Pkg == nil || fn.Pkg.Pkg.Path() != "sync" || len(cc.Args) == 0 {
			return lockOp{}, false
		}
		sig := fn.Signature
		if sig.Recv() == nil {
			return lockOp{}, false
		}
		rt := sig.Recv().Type().String()
		name, recv = fn.Name(), cc.Args[0]
		if rt == "*sync.Cond" {
			if name != "Wait" {
				return lockOp{}, false
			}
			k, ok := lf.mutexOfCond(recv)
			return lockOp{key: k, wait: true, known: ok}, true
		}
		if rt != "*sync.Mutex" && rt != "*sync.RWMutex" {
			return lockOp{}, false
		}
	}
	op := lockOp{}
	switch name {
	case "Lock":
		op.acq = true
	case "RLock":
		op.acq, op.read = true, true
	case "Unlock":
	case "RUnlock":
		op.read = true
	default:
		return lockOp{}, false
	}
	op.key, op.known = lf.mutexOfValue(recv)
	return op, true
}

// lstate is one abstract state: held locks (key -> mode) and deferred releases.
type lstate struct {
	held     map[lockKey]string // "W" | "R"
	deferred []lockOp
}

func (s lstate) clone() lstate {
	n := lstate{held: map[lockKey]string{}}
	for k, v := range s.held {
		n.held[k] = v
	}
	n.deferred = append([]lockOp{}, s.deferred...)
	return n
}

func (s lstate) sig() string {
	var parts []string
	for k, v := range s.held {
		parts = append(parts, fmt.Sprintf("%p:%s", k.f, v))
	}
	sort.Strings(parts)
	var d []string
	for _, o := range s.deferred {
		d = append(d, fmt.Sprintf("%p:%v", o.key.f, o.read))
	}
	return strings.Join(parts, ",") + "|" + strings.Join(d, ",")
}

func (s lstate) heldStr() string {
	var parts []string
	for k, v := range s.held {
		parts = append(parts, k.String()+":"+v)
	}
	sort.Strings(parts)
	return "[" + strings.Join(parts, " ") + "]"
}

// lockIssue is a finding of the lockset walk.
type lockIssue struct {
	kind string // "exit-held" | "double" | "unheld" | "unknown-mutex" | "wait-unheld"
	in   ssa.Instruction
	key  lockKey
	text string
}

// lockResult of analysing one function.
type lockResult struct {
	issues []lockIssue
	// mustHold[instr] = locks held (with weakest mode) on every path reaching instr
	mustHold map[ssa.Instruction]map[lockKey]string
	ops      int
}

// deferredOps: lock operations performed by a deferred call: a direct
// Unlock/RUnlock, or a closure whose body releases locks it did not take.
func (c *Ctx) deferredOps(d *ssa.Defer) []lockOp {
	if op, ok := c.lockOpOf(d); ok {
		return []lockOp{op}
	}
	var fn *ssa.Function
	switch v := d.Call.Value.(type) {
	case *ssa.MakeClosure:
		fn, _ = v.Fn.(*ssa.Function)
	case *ssa.Function:
		fn = v
	}
	if fn == nil || fn.Blocks == nil || !c.P.IsModPkg(pkgOf(fn)) {
		return nil
	}
	// summary: releases performed on every path (approximated by: release ops
	// present in the body that are not preceded by an acquire of the same key)
	var out []lockOp
	acq := map[lockKey]bool{}
	ir.Instrs(fn, func(in ssa.Instruction) {
		if _, isDefer := in.(*ssa.Defer); isDefer {
			return
		}
		op, ok := c.lockOpOf(in)
		if !ok || op.wait {
			return
		}
		if op.acq {
			acq[op.key] = true
		} else if !acq[op.key] {
			out = append(out, op)
		}
	})
	return out
}

func pkgOf(fn *ssa.Function) *types.Package {
	for fn.Parent() != nil {
		fn = fn.Parent()
	}
	if fn.Pkg != nil {
		return fn.Pkg.Pkg
	}
	if o := fn.Object(); o != nil {
		return o.Pkg()
	}
	return nil
}

// locksetOf runs the path-sensitive lockset analysis of fn starting with the
// given entry lockset.
func (c *Ctx) locksetOf(fn *ssa.Function, entry map[lockKey]string) *lockResult {
	res := &lockResult{mustHold: map[ssa.Instruction]map[lockKey]string{}}
	if len(fn.Blocks) == 0 {
		return res
	}
	type item struct {
		b *ssa.BasicBlock
		s lstate
	}
	seen := map[*ssa.BasicBlock]map[string]bool{}
	init := lstate{held: map[lockKey]string{}}
	for k, v := range entry {
		init.held[k] = v
	}
	work := []item{{fn.Blocks[0], init}}
	issued := map[string]bool{}
	countedOps := map[ssa.Instruction]bool{}
	issue := func(kind string, in ssa.Instruction, key lockKey, text string) {
		id := fmt.Sprintf("%s/%p/%p", kind, in, key.f)
		if issued[id] {
			return
		}
		issued[id] = true
		res.issues = append(res.issues, lockIssue{kind, in, key, text})
	}
	record := func(in ssa.Instruction, s lstate) {
		cur, ok := res.mustHold[in]
		if !ok {
			m := map[lockKey]string{}
			for k, v := range s.held {
				m[k] = v
			}
			res.mustHold[in] = m
			return
		}
		for k, v := range cur {
			hv, held := s.held[k]
			if !held {
				delete(cur, k)
			} else if hv == "R" && v == "W" {
				cur[k] = "R"
			}
		}
	}
	apply := func(s *lstate, op lockOp, in ssa.Instruction, deferredRun bool) {
		if !op.known {
			issue("unknown-mutex", in, op.key, "lock operation on a mutex the engine cannot identify")
			return
		}
		if op.wait {
			if s.held[op.key] != "W" {
				issue("wait-unheld", in, op.key, fmt.Sprintf("sync.Cond.Wait on %s without holding its mutex exclusively (held: %s)", op.key, s.heldStr()))
			}
			return
		}
		if op.acq {
			if m, held := s.held[op.key]; held {
				issue("double", in, op.key, fmt.Sprintf("acquires %s while already holding it (%s) on some path: self-deadlock", op.key, m))
				return
			}
			if op.read {
				s.held[op.key] = "R"
			} else {
				s.held[op.key] = "W"
			}
			return
		}
		m, held := s.held[op.key]
		if !held {
			issue("unheld", in, op.key, fmt.Sprintf("releases %s which is not held on some path (held: %s)", op.key, s.heldStr()))
			return
		}
		if (m == "R") != op.read {
			issue("unheld", in, op.key, fmt.Sprintf("releases %s with the wrong mode (held %s)", op.key, m))
		}
		if _, inherited := entry[op.key]; inherited {
			issue("caller-lock-released", in, op.key, fmt.Sprintf("releases %s, which its callers hold across the call: the callers' critical section is split in two and other goroutines can observe (and change) the half-updated state in between", op.key))
		}
		delete(s.held, op.key)
	}
	for len(work) > 0 {
		it := work[len(work)-1]
		work = work[:len(work)-1]
		sg := it.s.sig()
		if seen[it.b] == nil {
			seen[it.b] = map[string]bool{}
		}
		if seen[it.b][sg] {
			continue
		}
		seen[it.b][sg] = true
		if len(seen[it.b]) > 64 {
			issue("explosion", it.b.Instrs[0], lockKey{}, "lockset state explosion")
			continue
		}
		s := it.s.clone()
		for _, in := range it.b.Instrs {
			record(in, s)
			switch x := in.(type) {
			case *ssa.Defer:
				s.deferred = append(s.deferred, c.deferredOps(x)...)
				continue
			case *ssa.RunDefers:
				for i := len(s.deferred) - 1; i >= 0; i-- {
					apply(&s, s.deferred[i], in, true)
				}
				s.deferred = nil
				continue
			case *ssa.Go:
				continue
			case *ssa.Return:
				// compare with entry
				for k, v := range s.held {
					if ev, ok := entry[k]; !ok || ev != v {
						issue("exit-held", in, k, fmt.Sprintf("returns holding %s (%s)", k, v))
					}
				}
				for k := range entry {
					if _, ok := s.held[k]; !ok {
						issue("exit-released", in, k, fmt.Sprintf("returns having released %s which was held on entry", k))
					}
				}
				continue
			}
			if op, ok := c.lockOpOf(in); ok {
				if op.acq && !countedOps[in] {
					countedOps[in] = true
					res.ops++
				}
				apply(&s, op, in, false)
			}
		}
		for _, succ := range it.b.Succs {
			work = append(work, item{succ, s})
		}
	}
	return res
}

// pairing evaluates rule P on a set of functions: every exit is reached with
// the entry lockset, no double acquire, no release of an unheld lock.
// entryHeld gives, per function name, locks held by all callers (helpers that
// run under the caller's lock).
func (c *Ctx) pairing(fns []*ssa.Function, entryHeld map[string]map[lockKey]string, minOps int) {
	total := 0
	for _, fn := range fns {
		res := c.locksetOf(fn, entryHeld[c.nm(fn)])
		total += res.ops
		if res.ops == 0 && len(res.issues) == 0 {
			continue
		}
		byKind := map[string][]lockIssue{}
		for _, is := range res.issues {
			byKind[is.kind+" "+is.key.String()] = append(byKind[is.kind+" "+is.key.String()], is)
		}
		if len(res.issues) == 0 {
			c.pass(c.nm(fn)+" | lock pairing", c.P.Pos(fn.Pos()), fmt.Sprintf("%d lock acquisition(s): every exit reached with the entry lockset, no double acquire, no release of an unheld lock", res.ops), fmt.Sprintf("%d acquisitions", res.ops))
			continue
		}
		var kinds []string
		for k := range byKind {
			kinds = append(kinds, k)
		}
		sort.Strings(kinds)
		for _, k := range kinds {
			iss := byKind[k]
			var texts, sites []string
			for _, is := range iss {
				texts = append(texts, is.text+" at "+c.at(is.in))
				sites = append(sites, c.at(is.in))
			}
			sort.Strings(texts)
			c.fail(c.nm(fn)+" | lock pairing | "+k, c.at(iss[0].in), join(texts), sites...)
		}
	}
	if total < minOps {
		c.undecided("lock operations | floor", "", fmt.Sprintf("found %d lock acquisitions in the analysed functions, the rule table requires at least %d", total, minOps))
	}
}

// ---- lock order ----

const lockOrderDoc = "no two goroutines can wait for each other's mutex: taking a mutex B while holding a mutex A (directly, or by calling a function that takes B) orders A before B; over the whole module these orderings contain no cycle in which a writer takes part (two sites that each look fine alone - a caller keeping its mutex across a call, a reader of another subsystem's state - are what closes such a cycle)"

type lockEdge struct {
	from, to lockKey
	fromMode string // mode in which from is held
	toRead   bool   // to is taken in read mode
	at       ssa.Instruction
	fn       *ssa.Function
}

// lockOrder: see lockOrderDoc. The locks held at a point are the must-held
// locksets of the lockset engine (a lock held on only some paths to a call is
// not seen: the rule reports cycles, it does not prove their absence).
func (c *Ctx) lockOrder() { c.lockOrderMin(1) }

// lockOrderMin: lockOrder for a module tabled with at least minEdges ordered
// pairs (0 for a module with a single mutex, where only the re-acquisition
// clause can fire).
func (c *Ctx) lockOrderMin(minEdges int) {
	res := c.lockResults()
	g := c.graph()
	// locks a function may take, itself or in what it calls
	takes := map[*ssa.Function]map[lockKey]bool{}
	direct := map[*ssa.Function]map[lockKey]bool{}
	for _, fn := range c.P.Funcs {
		m := map[lockKey]bool{}
		ir.Instrs(fn, func(in ssa.Instruction) {
			if _, isDefer := in.(*ssa.Defer); isDefer {
				return
			}
			if op, ok := c.lockOpOf(in); ok && op.known && op.acq && !op.wait {
				m[lockKey{op.key.f}] = op.read || m[lockKey{op.key.f}]
			}
		})
		direct[fn] = m
	}
	readOnly := map[*ssa.Function]map[lockKey]bool{} // taken in read mode only
	for fn, m := range direct {
		t, r := map[lockKey]bool{}, map[lockKey]bool{}
		for k, rd := range m {
			t[k] = true
			r[k] = rd
		}
		takes[fn], readOnly[fn] = t, r
	}
	for changed := true; changed; {
		changed = false
		for _, fn := range c.P.Funcs {
			for _, callee := range g.out[fn] {
				for k := range takes[callee] {
					if !takes[fn][k] {
						takes[fn][k] = true
						readOnly[fn][k] = readOnly[callee][k]
						changed = true
					} else if readOnly[fn][k] && !readOnly[callee][k] {
						readOnly[fn][k] = false
						changed = true
					}
				}
			}
		}
	}
	var edges []lockEdge
	for _, fn := range c.P.Funcs {
		lr := res[fn]
		if lr == nil {
			continue
		}
		fn := fn
		ir.Instrs(fn, func(in ssa.Instruction) {
			held := lr.mustHold[in]
			if len(held) == 0 {
				return
			}
			if _, isDefer := in.(*ssa.Defer); isDefer {
				return
			}
			if _, isGo := in.(*ssa.Go); isGo {
				return
			}
			if op, ok := c.lockOpOf(in); ok {
				if op.known && op.acq && !op.wait {
					for h, mode := range held {
						if h.f != op.key.f {
							edges = append(edges, lockEdge{h, lockKey{op.key.f}, mode, op.read, in, fn})
						}
					}
				}
				return
			}
			cc := ir.CallOf(in)
			if cc == nil {
				return
			}
			cal := ir.Resolve(cc)
			var callees []*ssa.Function
			if cal.Fn != nil {
				callees = c.srcFunc(cal.Fn)
			} else if cc.IsInvoke() {
				callees = c.implsOf(cc.Method.Origin())
			}
			for _, callee := range callees {
				for k := range takes[callee] {
					for h, mode := range held {
						if h.f != k.f {
							edges = append(edges, lockEdge{h, k, mode, readOnly[callee][k], in, fn})
						}
					}
				}
			}
		})
	}
	// cycles of length two and three among distinct locks, with a writer
	adj := map[lockKey][]lockEdge{}
	for _, e := range edges {
		adj[e.from] = append(adj[e.from], e)
	}
	writer := func(es ...lockEdge) bool {
		for _, e := range es {
			if e.fromMode == "W" || !e.toRead {
				return true
			}
		}
		return false
	}
	seen := map[string]bool{}
	var bad []string
	var sites []ssa.Instruction
	desc := func(e lockEdge) string {
		m := "Lock"
		if e.toRead {
			m = "RLock"
		}
		return fmt.Sprintf("%s(%s) held while %s.%s is taken at %s in %s", c.on(e.from.f), e.fromMode, c.on(e.to.f), m, c.at(e.at), c.nm(e.fn))
	}
	for _, e1 := range edges {
		for _, e2 := range adj[e1.to] {
			if e2.to == e1.from && writer(e1, e2) {
				a, b := c.on(e1.from.f), c.on(e1.to.f)
				if a > b {
					a, b = b, a
				}
				key := a + "/" + b
				if !seen[key] {
					seen[key] = true
					bad = append(bad, "cycle "+c.on(e1.from.f)+" -> "+c.on(e1.to.f)+" -> "+c.on(e1.from.f)+": "+desc(e1)+"; "+desc(e2))
					sites = append(sites, e1.at, e2.at)
				}
			}
			for _, e3 := range adj[e2.to] {
				if e3.to == e1.from && e2.to != e1.from && e2.to != e1.to && writer(e1, e2, e3) {
					ks := []string{c.on(e1.from.f), c.on(e1.to.f), c.on(e2.to.f)}
					sort.Strings(ks)
					key := strings.Join(ks, "/")
					if !seen[key] {
						seen[key] = true
						bad = append(bad, "cycle over "+key+": "+desc(e1)+"; "+desc(e2)+"; "+desc(e3))
						sites = append(sites, e1.at, e2.at, e3.at)
					}
				}
			}
		}
	}
	// a mutex taken again while it is held: certain self-deadlock, except
	// read-inside-read, which deadlocks as soon as a writer queues in between
	// (any Lock of that mutex anywhere in the module)
	hasWriter := map[*types.Var]bool{}
	for _, m := range direct {
		for k, rd := range m {
			if !rd {
				hasWriter[k.f] = true
			}
		}
	}
	for _, fn := range c.P.Funcs {
		lr := res[fn]
		if lr == nil {
			continue
		}
		fn := fn
		ir.Instrs(fn, func(in ssa.Instruction) {
			held := lr.mustHold[in]
			if len(held) == 0 {
				return
			}
			switch in.(type) {
			case *ssa.Defer, *ssa.Go:
				return
			}
			report := func(k lockKey, mode string, read bool, how string) {
				if read && mode == "R" && !hasWriter[k.f] {
					return
				}
				key := "self/" + c.on(k.f) + "/" + c.nm(fn) + "/" + how
				if seen[key] {
					return
				}
				seen[key] = true
				m := "Lock"
				if read {
					m = "RLock"
				}
				bad = append(bad, fmt.Sprintf("%s is taken again (%s, %s) at %s in %s while it is already held (%s): a writer queued between the two acquisitions blocks both", c.on(k.f), m, how, c.at(in), c.nm(fn), mode))
				sites = append(sites, in)
			}
			if op, ok := c.lockOpOf(in); ok {
				if op.known && op.acq && !op.wait {
					if mode, isHeld := held[lockKey{op.key.f}]; isHeld {
						report(lockKey{op.key.f}, mode, op.read, "directly")
					}
				}
				return
			}
			cc := ir.CallOf(in)
			if cc == nil {
				return
			}
			cal := ir.Resolve(cc)
			if cal.Fn == nil {
				return
			}
			for _, callee := range c.srcFunc(cal.Fn) {
				// only a method called on the same receiver can mean the same
				// mutex object (the key names the field, not the object)
				if len(cc.Args) == 0 || len(fn.Params) == 0 || ir.Strip(cc.Args[0]) != ssa.Value(fn.Params[0]) {
					continue
				}
				for k := range takes[callee] {
					if mode, isHeld := held[k]; isHeld {
						report(k, mode, readOnly[callee][k], "in "+c.nm(callee))
					}
				}
			}
		})
	}
	sort.Strings(bad)
	c.R.CallSites += len(edges)
	pos := ""
	if len(sites) > 0 {
		pos = c.at(sites[0])
	}
	c.verdict(len(bad) == 0 && len(edges) >= minEdges, "module | mutex acquisition order is acyclic", pos, fmt.Sprintf("%d ordered pair(s) of mutexes (A held while B is taken); no cycle of length 2 or 3 with a writer", len(edges)), join(bad), c.ats(sites)...)
}
