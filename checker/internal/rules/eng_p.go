package rules

import (
	"fmt"
	"go/types"
	"sort"
	"strings"

	"golang.org/x/tools/go/ssa"

	"verif/checker/internal/ir"
)

// ---- engine P: path-sensitive lockset ----

// lockKey identifies a mutex by the struct field that holds it (after
// resolving sync.Cond.L aliases). Two objects of one type share a key; the
// rules are about methods working on their own receiver.
type lockKey struct {
	f *types.Var
}

func (k lockKey) String() string {
	if k.f == nil {
		return "?"
	}
	return k.f.Name()
}

type lockOp struct {
	key   lockKey
	acq   bool // acquire / release
	read  bool // RLock/RUnlock
	wait  bool // Cond.Wait (needs the lock, releases and re-takes it)
	known bool
}

// lockFacts are program-wide facts the lockset engine needs.
type lockFacts struct {
	condAlias map[*types.Var]*types.Var // cond field -> mutex field it wraps
}

func (c *Ctx) lockFacts() *lockFacts {
	if c.lf != nil {
		return c.lf
	}
	lf := &lockFacts{condAlias: map[*types.Var]*types.Var{}}
	for _, fn := range c.P.Funcs {
		ir.Instrs(fn, func(in ssa.Instruction) {
			st, ok := in.(*ssa.Store)
			if !ok {
				return
			}
			fa, ok := st.Addr.(*ssa.FieldAddr)
			if !ok {
				return
			}
			call, ok := st.Val.(*ssa.Call)
			if !ok {
				return
			}
			callee := call.Call.StaticCallee()
			if callee == nil || callee.Pkg == nil || callee.Pkg.Pkg.Path() != "sync" || callee.Name() != "NewCond" {
				return
			}
			arg := ir.Strip(call.Call.Args[0])
			if mfa, ok := arg.(*ssa.FieldAddr); ok {
				lf.condAlias[ir.FieldOfAddr(fa)] = ir.FieldOfAddr(mfa)
			}
		})
	}
	c.lf = lf
	return lf
}

// mutexOfValue resolves the mutex a Lock/Unlock receiver denotes.
func (lf *lockFacts) mutexOfValue(v ssa.Value) (lockKey, bool) {
	v = ir.Strip(v)
	switch x := v.(type) {
	case *ssa.FieldAddr:
		f := ir.FieldOfAddr(x)
		// cond.L field of a sync.Cond held in a struct field
		if f != nil && f.Name() == "L" && f.Pkg() != nil && f.Pkg().Path() == "sync" {
			return lf.mutexOfCond(x.X)
		}
		return lockKey{f}, f != nil
	case *ssa.UnOp:
		// load of cond.L (a sync.Locker interface value)
		if fa, ok := x.X.(*ssa.FieldAddr); ok {
			f := ir.FieldOfAddr(fa)
			if f != nil && f.Name() == "L" && f.Pkg() != nil && f.Pkg().Path() == "sync" {
				return lf.mutexOfCond(fa.X)
			}
		}
	}
	return lockKey{}, false
}

// mutexOfCond: v is a *sync.Cond value; find the mutex it was built on.
func (lf *lockFacts) mutexOfCond(v ssa.Value) (lockKey, bool) {
	v = ir.Strip(v)
	// *sync.Cond loaded from a struct field
	if ld, ok := v.(*ssa.UnOp); ok {
		if fa, ok := ld.X.(*ssa.FieldAddr); ok {
			if m, ok := lf.condAlias[ir.FieldOfAddr(fa)]; ok {
				return lockKey{m}, true
			}
		}
	}
	// sync.Cond embedded by value: &x.cond
	if fa, ok := v.(*ssa.FieldAddr); ok {
		if m, ok := lf.condAlias[ir.FieldOfAddr(fa)]; ok {
			return lockKey{m}, true
		}
	}
	return lockKey{}, false
}

// lockOpOf classifies an instruction as a lock operation.
func (c *Ctx) lockOpOf(in ssa.Instruction) (lockOp, bool) {
	cc := ir.CallOf(in)
	if cc == nil {
		return lockOp{}, false
	}
	lf := c.lockFacts()
	var name string
	var recv ssa.Value
	if cc.IsInvoke() {
		// sync.Locker
		if cc.Method.Pkg() == nil || cc.Method.Pkg().Path() != "sync" {
			return lockOp{}, false
		}
		name, recv = cc.Method.Name(), cc.Value
	} else {
		fn := cc.StaticCallee()
		if fn == nil || fn.Pkg == nil || fn.Pkg.Pkg.Path() != "sync" || len(cc.Args) == 0 {
			return lockOp{}, false
		}
		sig := fn.Signature
		if sig.Recv() == nil {
			return lockOp{}, false
		}
		rt := sig.Recv().Type().String()
		name, recv = fn.Name(), cc.Args[0]
		if rt == "*sync.Cond" {
			if name != "Wait" {
				return lockOp{}, false
			}
			k, ok := lf.mutexOfCond(recv)
			return lockOp{key: k, wait: true, known: ok}, true
		}
		if rt != "*sync.Mutex" && rt != "*sync.RWMutex" {
			return lockOp{}, false
		}
	}
	op := lockOp{}
	switch name {
	case "Lock":
		op.acq = true
	case "RLock":
		op.acq, op.read = true, true
	case "Unlock":
	case "RUnlock":
		op.read = true
	default:
		return lockOp{}, false
	}
	op.key, op.known = lf.mutexOfValue(recv)
	return op, true
}

// lstate is one abstract state: held locks (key -> mode) and deferred releases.
type lstate struct {
	held     map[lockKey]string // "W" | "R"
	deferred []lockOp
}

func (s lstate) clone() lstate {
	n := lstate{held: map[lockKey]string{}}
	for k, v := range s.held {
		n.held[k] = v
	}
	n.deferred = append([]lockOp{}, s.deferred...)
	return n
}

func (s lstate) sig() string {
	var parts []string
	for k, v := range s.held {
		parts = append(parts, fmt.Sprintf("%p:%s", k.f, v))
	}
	sort.Strings(parts)
	var d []string
	for _, o := range s.deferred {
		d = append(d, fmt.Sprintf("%p:%v", o.key.f, o.read))
	}
	return strings.Join(parts, ",") + "|" + strings.Join(d, ",")
}

func (s lstate) heldStr() string {
	var parts []string
	for k, v := range s.held {
		parts = append(parts, k.String()+":"+v)
	}
	sort.Strings(parts)
	return "[" + strings.Join(parts, " ") + "]"
}

// lockIssue is a finding of the lockset walk.
type lockIssue struct {
	kind string // "exit-held" | "double" | "unheld" | "unknown-mutex" | "wait-unheld"
	in   ssa.Instruction
	key  lockKey
	text string
}

// lockResult of analysing one function.
type lockResult struct {
	issues []lockIssue
	// mustHold[instr] = locks held (with weakest mode) on every path reaching instr
	mustHold map[ssa.Instruction]map[lockKey]string
	ops      int
}

// deferredOps: lock operations performed by a deferred call: a direct
// Unlock/RUnlock, or a closure whose body releases locks it did not take.
func (c *Ctx) deferredOps(d *ssa.Defer) []lockOp {
	if op, ok := c.lockOpOf(d); ok {
		return []lockOp{op}
	}
	var fn *ssa.Function
	switch v := d.Call.Value.(type) {
	case *ssa.MakeClosure:
		fn, _ = v.Fn.(*ssa.Function)
	case *ssa.Function:
		fn = v
	}
	if fn == nil || fn.Blocks == nil || !c.P.IsModPkg(pkgOf(fn)) {
		return nil
	}
	// summary: releases performed on every path (approximated by: release ops
	// present in the body that are not preceded by an acquire of the same key)
	var out []lockOp
	acq := map[lockKey]bool{}
	ir.Instrs(fn, func(in ssa.Instruction) {
		if _, isDefer := in.(*ssa.Defer); isDefer {
			return
		}
		op, ok := c.lockOpOf(in)
		if !ok || op.wait {
			return
		}
		if op.acq {
			acq[op.key] = true
		} else if !acq[op.key] {
			out = append(out, op)
		}
	})
	return out
}

func pkgOf(fn *ssa.Function) *types.Package {
	for fn.Parent() != nil {
		fn = fn.Parent()
	}
	if fn.Pkg != nil {
		return fn.Pkg.Pkg
	}
	if o := fn.Object(); o != nil {
		return o.Pkg()
	}
	return nil
}

// locksetOf runs the path-sensitive lockset analysis of fn starting with the
// given entry lockset.
func (c *Ctx) locksetOf(fn *ssa.Function, entry map[lockKey]string) *lockResult {
	res := &lockResult{mustHold: map[ssa.Instruction]map[lockKey]string{}}
	if len(fn.Blocks) == 0 {
		return res
	}
	type item struct {
		b *ssa.BasicBlock
		s lstate
	}
	seen := map[*ssa.BasicBlock]map[string]bool{}
	init := lstate{held: map[lockKey]string{}}
	for k, v := range entry {
		init.held[k] = v
	}
	work := []item{{fn.Blocks[0], init}}
	issued := map[string]bool{}
	countedOps := map[ssa.Instruction]bool{}
	issue := func(kind string, in ssa.Instruction, key lockKey, text string) {
		id := fmt.Sprintf("%s/%p/%p", kind, in, key.f)
		if issued[id] {
			return
		}
		issued[id] = true
		res.issues = append(res.issues, lockIssue{kind, in, key, text})
	}
	record := func(in ssa.Instruction, s lstate) {
		cur, ok := res.mustHold[in]
		if !ok {
			m := map[lockKey]string{}
			for k, v := range s.held {
				m[k] = v
			}
			res.mustHold[in] = m
			return
		}
		for k, v := range cur {
			hv, held := s.held[k]
			if !held {
				delete(cur, k)
			} else if hv == "R" && v == "W" {
				cur[k] = "R"
			}
		}
	}
	apply := func(s *lstate, op lockOp, in ssa.Instruction, deferredRun bool) {
		if !op.known {
			issue("unknown-mutex", in, op.key, "lock operation on a mutex the engine cannot identify")
			return
		}
		if op.wait {
			if s.held[op.key] != "W" {
				issue("wait-unheld", in, op.key, fmt.Sprintf("sync.Cond.Wait on %s without holding its mutex exclusively (held: %s)", op.key, s.heldStr()))
			}
			return
		}
		if op.acq {
			if m, held := s.held[op.key]; held {
				issue("double", in, op.key, fmt.Sprintf("acquires %s while already holding it (%s) on some path: self-deadlock", op.key, m))
				return
			}
			if op.read {
				s.held[op.key] = "R"
			} else {
				s.held[op.key] = "W"
			}
			return
		}
		m, held := s.held[op.key]
		if !held {
			issue("unheld", in, op.key, fmt.Sprintf("releases %s which is not held on some path (held: %s)", op.key, s.heldStr()))
			return
		}
		if (m == "R") != op.read {
			issue("unheld", in, op.key, fmt.Sprintf("releases %s with the wrong mode (held %s)", op.key, m))
		}
		if _, inherited := entry[op.key]; inherited {
			issue("caller-lock-released", in, op.key, fmt.Sprintf("releases %s, which its callers hold across the call: the callers' critical section is split in two and other goroutines can observe (and change) the half-updated state in between", op.key))
		}
		delete(s.held, op.key)
	}
	for len(work) > 0 {
		it := work[len(work)-1]
		work = work[:len(work)-1]
		sg := it.s.sig()
		if seen[it.b] == nil {
			seen[it.b] = map[string]bool{}
		}
		if seen[it.b][sg] {
			continue
		}
		seen[it.b][sg] = true
		if len(seen[it.b]) > 64 {
			issue("explosion", it.b.Instrs[0], lockKey{}, "lockset state explosion")
			continue
		}
		s := it.s.clone()
		for _, in := range it.b.Instrs {
			record(in, s)
			switch x := in.(type) {
			case *ssa.Defer:
				s.deferred = append(s.deferred, c.deferredOps(x)...)
				continue
			case *ssa.RunDefers:
				for i := len(s.deferred) - 1; i >= 0; i-- {
					apply(&s, s.deferred[i], in, true)
				}
				s.deferred = nil
				continue
			case *ssa.Go:
				continue
			case *ssa.Return:
				// compare with entry
				for k, v := range s.held {
					if ev, ok := entry[k]; !ok || ev != v {
						issue("exit-held", in, k, fmt.Sprintf("returns holding %s (%s)", k, v))
					}
				}
				for k := range entry {
					if _, ok := s.held[k]; !ok {
						issue("exit-released", in, k, fmt.Sprintf("returns having released %s which was held on entry", k))
					}
				}
				continue
			}
			if op, ok := c.lockOpOf(in); ok {
				if op.acq && !countedOps[in] {
					countedOps[in] = true
					res.ops++
				}
				apply(&s, op, in, false)
			}
		}
		for _, succ := range it.b.Succs {
			work = append(work, item{succ, s})
		}
	}
	return res
}

// pairing evaluates rule P on a set of functions: every exit is reached with
// the entry lockset, no double acquire, no release of an unheld lock.
// entryHeld gives, per function name, locks held by all callers (helpers that
// run under the caller's lock).
func (c *Ctx) pairing(fns []*ssa.Function, entryHeld map[string]map[lockKey]string, minOps int) {
	total := 0
	for _, fn := range fns {
		res := c.locksetOf(fn, entryHeld[c.nm(fn)])
		total += res.ops
		if res.ops == 0 && len(res.issues) == 0 {
			continue
		}
		byKind := map[string][]lockIssue{}
		for _, is := range res.issues {
			byKind[is.kind+" "+is.key.String()] = append(byKind[is.kind+" "+is.key.String()], is)
		}
		if len(res.issues) == 0 {
			c.pass(c.nm(fn)+" | lock pairing", c.P.Pos(fn.Pos()), fmt.Sprintf("%d lock acquisition(s): every exit reached with the entry lockset, no double acquire, no release of an unheld lock", res.ops), fmt.Sprintf("%d acquisitions", res.ops))
			continue
		}
		var kinds []string
		for k := range byKind {
			kinds = append(kinds, k)
		}
		sort.Strings(kinds)
		for _, k := range kinds {
			iss := byKind[k]
			var texts, sites []string
			for _, is := range iss {
				texts = append(texts, is.text+" at "+c.at(is.in))
				sites = append(sites, c.at(is.in))
			}
			sort.Strings(texts)
			c.fail(c.nm(fn)+" | lock pairing | "+k, c.at(iss[0].in), join(texts), sites...)
		}
	}
	if total < minOps {
		c.undecided("lock operations | floor", "", fmt.Sprintf("found %d lock acquisitions in the analysed functions, the rule table requires at least %d", total, minOps))
	}
}
