package rules

import (
	"fmt"
	"go/types"
	"sort"
	"strings"

	"golang.org/x/tools/go/ssa"

	"verif/checker/internal/ir"
)

// ---- engine R: goroutine-root ownership; engine A: atomic-only ----

// threadRoots: every function in which a goroutine of the client can start
// executing module code: `go` targets, exported functions and methods (API
// entry points called on the user's goroutines), and function values handed to
// code outside the module (peer listeners, connmgr callbacks).
func (c *Ctx) threadRoots() map[*ssa.Function]string {
	if c.roots != nil {
		return c.roots
	}
	g := c.graph()
	roots := map[*ssa.Function]string{}
	for _, gs := range g.goSites {
		for _, t := range gs.targets {
			roots[t] = "go"
		}
	}
	for _, fn := range c.P.Funcs {
		if fn.Parent() != nil {
			continue
		}
		obj, _ := fn.Object().(*types.Func)
		if obj == nil || !obj.Exported() {
			continue
		}
		// methods of unexported types are not API entry points
		if sig, ok := obj.Type().(*types.Signature); ok && sig.Recv() != nil {
			rt := sig.Recv().Type()
			if p, ok := rt.(*types.Pointer); ok {
				rt = p.Elem()
			}
			if n, ok := rt.(*types.Named); ok && !n.Obj().Exported() {
				// unless the type implements an exported interface of the module / deps
				// (then it is reached through interface dispatch from its callers)
				continue
			}
		}
		if _, ok := roots[fn]; !ok {
			roots[fn] = "api"
		}
	}
	// callbacks: function values stored into fields of non-module struct types
	// or passed to non-module functions
	for _, fn := range c.P.Funcs {
		ir.Instrs(fn, func(in ssa.Instruction) {
			if st, ok := in.(*ssa.Store); ok {
				if fa, ok := st.Addr.(*ssa.FieldAddr); ok {
					f := ir.FieldOfAddr(fa)
					if f != nil && !c.P.IsModPkg(f.Pkg()) {
						for _, t := range c.valueFuncs(st.Val, 0) {
							if _, ok := roots[t]; !ok {
								roots[t] = "callback"
							}
						}
					}
				}
			}
		})
	}
	c.roots = roots
	return roots
}

// rootsReaching: the thread roots from which fn is reachable.
func (c *Ctx) rootsReaching(fn *ssa.Function) []*ssa.Function {
	if c.reachCache == nil {
		c.reachCache = map[*ssa.Function]map[*ssa.Function]bool{}
	}
	var out []*ssa.Function
	for r := range c.threadRoots() {
		rs, ok := c.reachCache[r]
		if !ok {
			rs = c.reachable(r)
			c.reachCache[r] = rs
		}
		if rs[fn] {
			out = append(out, r)
		}
	}
	sort.Slice(out, func(i, j int) bool { return c.nm(out[i]) < c.nm(out[j]) })
	return out
}

// ownedBy evaluates ownership of a field by one goroutine root: every function
// that touches the field is reachable only from the owner root or from the
// tabled pre-start / post-join functions.
func (c *Ctx) ownedBy(field *types.Var, owner string, allowedRoots map[string]string, minAcc int) {
	n := 0
	for _, fn := range c.P.Funcs {
		acc := accessesOf(fn, field, nil)
		if len(acc) == 0 {
			continue
		}
		n += len(acc)
		construct := fmt.Sprintf("field %s owned by goroutine %s | %s", field.Name(), owner, c.nm(fn))
		var bad []string
		rs := c.rootsReaching(fn)
		for _, r := range rs {
			name := c.nm(r)
			if name == owner {
				continue
			}
			if _, ok := allowedRoots[name]; ok {
				continue
			}
			// a goroutine literal that only wraps the owner (wg.Go(func() {
			// w.owner() }), go func() { defer ...; w.owner() }()): fn is
			// reached from it through the owner and in no other way
			if r.Parent() != nil {
				if of := c.P.Func(owner); of != nil && c.reachable(r)[of] && !c.reachableWithout(r, of)[fn] {
					continue
				}
			}
			bad = append(bad, name)
		}
		var sites []string
		for _, a := range acc {
			sites = append(sites, a.kind+"@"+c.at(a.in))
		}
		sort.Strings(sites)
		if len(rs) == 0 {
			if _, ok := allowedRoots[c.nm(outermost(fn))]; !ok && c.nm(outermost(fn)) != owner {
				bad = append(bad, "(unreachable from any root: "+c.nm(fn)+")")
			}
		}
		if len(bad) > 0 {
			p := c.pathTo(c.P.Func(bad[0]), fn)
			c.fail(construct, c.at(acc[0].in), fmt.Sprintf("%s touches %s and is reachable from %s (e.g. %v): the field is no longer confined to the %s goroutine", c.nm(fn), field.Name(), join(bad), p, owner), sites...)
		} else {
			c.pass(construct, c.P.Pos(fn.Pos()), fmt.Sprintf("%d access(es); reachable only from the owner / tabled roots", len(acc)), sites...)
		}
	}
	if n < minAcc {
		c.undecided(fmt.Sprintf("field %s ownership | access floor", c.on(field)), "", fmt.Sprintf("found %d accesses, need %d", n, minAcc))
	}
}

// atomicOnly: every use of the field's address is the operand of a
// sync/atomic call (constructors exempt).
func (c *Ctx) atomicOnly(fields []*types.Var, exempt map[string]string, minAcc int) {
	n := 0
	for _, f := range fields {
		var bad, sites []string
		for _, fn := range c.P.Funcs {
			if _, ok := exempt[c.nm(outermost(fn))]; ok {
				continue
			}
			ir.Instrs(fn, func(in ssa.Instruction) {
				fa, ok := in.(*ssa.FieldAddr)
				if !ok || ir.FieldOfAddr(fa) != f {
					if fv, ok := in.(*ssa.Field); ok && ir.FieldOfValue(fv) == f {
						n++
						bad = append(bad, "plain read at "+c.at(in))
					}
					return
				}
				n++
				sites = append(sites, c.at(in))
				for _, r := range ir.Refs(fa) {
					call, isCall := r.(ssa.CallInstruction)
					okUse := false
					if isCall {
						if cal := call.Common().StaticCallee(); cal != nil && cal.Pkg != nil && cal.Pkg.Pkg.Path() == "sync/atomic" {
							okUse = true
						}
					}
					if !okUse {
						bad = append(bad, fmt.Sprintf("non-atomic use at %s in %s", c.at(r), c.nm(fn)))
					}
				}
			})
		}
		sort.Strings(bad)
		sort.Strings(sites)
		construct := "atomic-only field " + fieldOwnerName(f) + "." + c.on(f)
		if len(bad) > 0 {
			c.fail(construct, "", join(bad), sites...)
		} else {
			c.pass(construct, "", fmt.Sprintf("%d access(es), all through sync/atomic", len(sites)), sites...)
		}
	}
	if n < minAcc {
		c.undecided("atomic fields | access floor", "", fmt.Sprintf("found %d accesses, need %d", n, minAcc))
	}
}

func fieldOwnerName(f *types.Var) string {
	if f.Pkg() != nil {
		return f.Pkg().Name()
	}
	return "?"
}

const selfConcurrentDoc = "a method that runs on a goroutine its own type spawned, and is also called from elsewhere, can run twice at once on one receiver: such a method does not write a plain field of its receiver outside a lock (sync.Once, a mutex, an atomic or a channel has to carry the once-only / hand-over logic); a bool flag checked and set in a 'close once' helper that both a timer goroutine and a callback call is a data race and a double close"

// selfConcurrent: see selfConcurrentDoc. For every method m of a module type T
// that is called inside a function literal started with `go` in a method of T
// (or started itself: `go t.m()`) and that has another call site outside such
// literals, every store to a field of m's receiver made with an empty must-held
// lockset is reported.
func (c *Ctx) selfConcurrent(minMethods int) {
	g := c.graph()
	res := c.lockResults()
	recvType := func(fn *ssa.Function) *types.Named {
		if fn == nil || fn.Signature.Recv() == nil {
			return nil
		}
		t := fn.Signature.Recv().Type()
		if p, ok := t.(*types.Pointer); ok {
			t = p.Elem()
		}
		n, _ := t.(*types.Named)
		return n
	}
	inSpawn := map[*ssa.Function]bool{}              // literals (and their nested literals) started by go inside a method
	spawnedOf := map[*ssa.Function][]*ssa.Function{} // method -> spawning literals that call it
	for _, gs := range g.goSites {
		host := outermost(gs.fn)
		T := recvType(host)
		if T == nil {
			continue
		}
		for _, t := range gs.targets {
			if t.Parent() == nil {
				// go t.m(): m itself is the spawned function
				if recvType(t) != nil && recvType(t).Obj() == T.Obj() {
					spawnedOf[t] = append(spawnedOf[t], gs.fn)
				}
				continue
			}
			for _, lit := range ir.WithClosures(t) {
				inSpawn[lit] = true
				ir.Instrs(lit, func(in ssa.Instruction) {
					cc := ir.CallOf(in)
					if cc == nil {
						return
					}
					callee := cc.StaticCallee()
					for _, m := range c.srcFunc(callee) {
						if rt := recvType(m); rt != nil && rt.Obj() == T.Obj() {
							spawnedOf[m] = append(spawnedOf[m], lit)
						}
					}
				})
			}
		}
	}
	var methods []*ssa.Function
	for m := range spawnedOf {
		methods = append(methods, m)
	}
	sort.Slice(methods, func(i, j int) bool { return c.nm(methods[i]) < c.nm(methods[j]) })
	checked := 0
	for _, m := range methods {
		// another call site outside spawned literals
		other := ""
		for _, fn := range c.P.Funcs {
			if inSpawn[fn] || other != "" {
				continue
			}
			fn := fn
			ir.Instrs(fn, func(in ssa.Instruction) {
				if _, isGo := in.(*ssa.Go); isGo {
					return
				}
				cc := ir.CallOf(in)
				if cc == nil || other != "" {
					return
				}
				for _, x := range c.srcFunc(cc.StaticCallee()) {
					if x == m {
						other = c.at(in) + " in " + c.nm(fn)
					}
				}
			})
		}
		if other == "" {
			continue
		}
		checked++
		construct := "self-concurrent method writes no plain receiver field | " + c.nm(m)
		var bad []string
		for _, f := range ir.WithClosures(m) {
			lr := res[f]
			ir.Instrs(f, func(in ssa.Instruction) {
				st, ok := in.(*ssa.Store)
				if !ok {
					return
				}
				fa, ok := st.Addr.(*ssa.FieldAddr)
				if !ok {
					return
				}
				if len(m.Params) == 0 || !ir.DerivesFrom(fa.X, func(x ssa.Value) bool {
					if x == ssa.Value(m.Params[0]) {
						return true
					}
					// the receiver captured by a literal of m
					fv, isFV := x.(*ssa.FreeVar)
					return isFV && fv.Name() == m.Params[0].Name()
				}) {
					return
				}
				if lr != nil && len(lr.mustHold[in]) > 0 {
					return
				}
				bad = append(bad, fmt.Sprintf("%s is written at %s with no lock held", c.on(ir.FieldOfAddr(fa)), c.at(in)))
			})
		}
		sort.Strings(bad)
		c.verdict(len(bad) == 0, construct, c.P.Pos(m.Pos()), "runs on a goroutine spawned by "+c.nm(spawnedOf[m][0])+" and is also called at "+other+"; it writes no receiver field outside a lock", join(bad)+" (the method runs on a goroutine spawned by "+c.nm(spawnedOf[m][0])+" and is also called at "+other+")")
	}
	if checked < minMethods {
		c.undecided("self-concurrent methods | floor", "", fmt.Sprintf("found %d method(s) that run both on a goroutine of their own type and from elsewhere, need %d", checked, minMethods))
	}
}

const waitGroupGrowthDoc = "a WaitGroup that a Stop waits on is raised only where a count is already held: sync.WaitGroup requires every Add that may start from zero to happen before the Wait; the Adds of such a group sit in constructors and Start methods (before anything runs), in goroutines the group itself counts, or on an object made in the same function - not in a function an API user can call at any time: there the Add can start from zero while Stop is in Wait (a data race on the group and, depending on the interleaving, the 'WaitGroup misuse' panic)"

// waitGroupGrowth: see waitGroupGrowthDoc.
func (c *Ctx) waitGroupGrowth(minAdds int) {
	g := c.graph()
	_ = g
	waited := map[string]bool{}
	for _, fn := range c.P.Funcs {
		ir.Instrs(fn, func(in ssa.Instruction) {
			if k, name, ok := c.wgKey(in); ok && name == "Wait" && strings.HasPrefix(k, "field:") {
				waited[k] = true
			}
		})
	}
	// functions an API user can reach synchronously at any time
	lifecycle := func(fn *ssa.Function) bool {
		n := fn.Name()
		return strings.HasPrefix(n, "New") || strings.HasPrefix(n, "new") || n == "Start" || n == "start"
	}
	var entries []*ssa.Function
	for _, fn := range c.P.Funcs {
		if fn.Parent() != nil || fn.Object() == nil || !fn.Object().Exported() || lifecycle(fn) {
			continue
		}
		entries = append(entries, fn)
	}
	reach := c.reachable(entries...)
	// ... where every caller of a lifecycle function is itself lifecycle code
	adds := 0
	var bad []string
	var sites []ssa.Instruction
	for _, fn := range c.P.Funcs {
		fn := fn
		ir.Instrs(fn, func(in ssa.Instruction) {
			k, name, ok := c.wgKey(in)
			if !ok || name != "Add" || !waited[k] {
				return
			}
			adds++
			sites = append(sites, in)
			if !reach[fn] || lifecycle(outermost(fn)) {
				return
			}
			// an object made in this very function is not yet shared
			fresh := ir.DerivesFrom(ir.CallOf(in).Args[0], func(x ssa.Value) bool {
				a, isA := x.(*ssa.Alloc)
				return isA && a.Heap
			})
			if fresh {
				return
			}
			// which entry reaches it (for the report)
			via := ""
			for _, e := range entries {
				if c.reachable(e)[fn] {
					via = c.nm(e)
					break
				}
			}
			bad = append(bad, fmt.Sprintf("%s is raised at %s in %s, which an API user reaches through %s at any time", k, c.at(in), c.nm(fn), via))
		})
	}
	sort.Strings(bad)
	c.verdict(len(bad) == 0 && adds >= minAdds, "module | waited-for WaitGroups are raised only in lifecycle code or under a held count", "", fmt.Sprintf("%d Add site(s) on %d waited-for group(s)", adds, len(waited)), join(bad)+fmt.Sprintf(" (%d Add sites found, %d tabled)", adds, minAdds), c.ats(sites)...)
}
