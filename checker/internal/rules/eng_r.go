package rules

import (
	"fmt"
	"go/types"
	"sort"

	"golang.org/x/tools/go/ssa"

	"verif/checker/internal/ir"
)

// ---- engine R: goroutine-root ownership; engine A: atomic-only ----

// threadRoots: every function in which a goroutine of the client can start
// executing module code: `go` targets, exported functions and methods (API
// entry points called on the user's goroutines), and function values handed to
// code outside the module (peer listeners, connmgr callbacks).
func (c *Ctx) threadRoots() map[*ssa.Function]string {
	if c.roots != nil {
		return c.roots
	}
	g := c.graph()
	roots := map[*ssa.Function]string{}
	for _, gs := range g.goSites {
		for _, t := range gs.targets {
			roots[t] = "go"
		}
	}
	for _, fn := range c.P.Funcs {
		if fn.Parent() != nil {
			continue
		}
		obj, _ := fn.Object().(*types.Func)
		if obj == nil || !obj.Exported() {
			continue
		}
		// methods of unexported types are not API entry points
		if sig, ok := obj.Type().(*types.Signature); ok && sig.Recv() != nil {
			rt := sig.Recv().Type()
			if p, ok := rt.(*types.Pointer); ok {
				rt = p.Elem()
			}
			if n, ok := rt.(*types.Named); ok && !n.Obj().Exported() {
				// unless the type implements an exported interface of the module / deps
				// (then it is reached through interface dispatch from its callers)
				continue
			}
		}
		if _, ok := roots[fn]; !ok {
			roots[fn] = "api"
		}
	}
	// callbacks: function values stored into fields of non-module struct types
	// or passed to non-module functions
	for _, fn := range c.P.Funcs {
		ir.Instrs(fn, func(in ssa.Instruction) {
			if st, ok := in.(*ssa.Store); ok {
				if fa, ok := st.Addr.(*ssa.FieldAddr); ok {
					f := ir.FieldOfAddr(fa)
					if f != nil && !c.P.IsModPkg(f.Pkg()) {
						for _, t := range c.valueFuncs(st.Val, 0) {
							if _, ok := roots[t]; !ok {
								roots[t] = "callback"
							}
						}
					}
				}
			}
		})
	}
	c.roots = roots
	return roots
}

// rootsReaching: the thread roots from which fn is reachable.
func (c *Ctx) rootsReaching(fn *ssa.Function) []*ssa.Function {
	if c.reachCache == nil {
		c.reachCache = map[*ssa.Function]map[*ssa.Function]bool{}
	}
	var out []*ssa.Function
	for r := range c.threadRoots() {
		rs, ok := c.reachCache[r]
		if !ok {
			rs = c.reachable(r)
			c.reachCache[r] = rs
		}
		if rs[fn] {
			out = append(out, r)
		}
	}
	sort.Slice(out, func(i, j int) bool { return c.nm(out[i]) < c.nm(out[j]) })
	return out
}

// ownedBy evaluates ownership of a field by one goroutine root: every function
// that touches the field is reachable only from the owner root or from the
// tabled pre-start / post-join functions.
func (c *Ctx) ownedBy(field *types.Var, owner string, allowedRoots map[string]string, minAcc int) {
	n := 0
	for _, fn := range c.P.Funcs {
		acc := accessesOf(fn, field, nil)
		if len(acc) == 0 {
			continue
		}
		n += len(acc)
		construct := fmt.Sprintf("field %s owned by goroutine %s | %s", field.Name(), owner, c.nm(fn))
		var bad []string
		rs := c.rootsReaching(fn)
		for _, r := range rs {
			name := c.nm(r)
			if name == owner {
				continue
			}
			if _, ok := allowedRoots[name]; ok {
				continue
			}
			bad = append(bad, name)
		}
		var sites []string
		for _, a := range acc {
			sites = append(sites, a.kind+"@"+c.at(a.in))
		}
		sort.Strings(sites)
		if len(rs) == 0 {
			if _, ok := allowedRoots[c.nm(outermost(fn))]; !ok && c.nm(outermost(fn)) != owner {
				bad = append(bad, "(unreachable from any root: "+c.nm(fn)+")")
			}
		}
		if len(bad) > 0 {
			p := c.pathTo(c.P.Func(bad[0]), fn)
			c.fail(construct, c.at(acc[0].in), fmt.Sprintf("%s touches %s and is reachable from %s (e.g. %v): the field is no longer confined to the %s goroutine", c.nm(fn), field.Name(), join(bad), p, owner), sites...)
		} else {
			c.pass(construct, c.P.Pos(fn.Pos()), fmt.Sprintf("%d access(es); reachable only from the owner / tabled roots", len(acc)), sites...)
		}
	}
	if n < minAcc {
		c.undecided(fmt.Sprintf("field %s ownership | access floor", c.on(field)), "", fmt.Sprintf("found %d accesses, need %d", n, minAcc))
	}
}

// atomicOnly: every use of the field's address is the operand of a
// sync/atomic call (constructors exempt).
func (c *Ctx) atomicOnly(fields []*types.Var, exempt map[string]string, minAcc int) {
	n := 0
	for _, f := range fields {
		var bad, sites []string
		for _, fn := range c.P.Funcs {
			if _, ok := exempt[c.nm(outermost(fn))]; ok {
				continue
			}
			ir.Instrs(fn, func(in ssa.Instruction) {
				fa, ok := in.(*ssa.FieldAddr)
				if !ok || ir.FieldOfAddr(fa) != f {
					if fv, ok := in.(*ssa.Field); ok && ir.FieldOfValue(fv) == f {
						n++
						bad = append(bad, "plain read at "+c.at(in))
					}
					return
				}
				n++
				sites = append(sites, c.at(in))
				for _, r := range ir.Refs(fa) {
					call, isCall := r.(ssa.CallInstruction)
					okUse := false
					if isCall {
						if cal := call.Common().StaticCallee(); cal != nil && cal.Pkg != nil && cal.Pkg.Pkg.Path() == "sync/atomic" {
							okUse = true
						}
					}
					if !okUse {
						bad = append(bad, fmt.Sprintf("non-atomic use at %s in %s", c.at(r), c.nm(fn)))
					}
				}
			})
		}
		sort.Strings(bad)
		sort.Strings(sites)
		construct := "atomic-only field " + fieldOwnerName(f) + "." + c.on(f)
		if len(bad) > 0 {
			c.fail(construct, "", join(bad), sites...)
		} else {
			c.pass(construct, "", fmt.Sprintf("%d access(es), all through sync/atomic", len(sites)), sites...)
		}
	}
	if n < minAcc {
		c.undecided("atomic fields | access floor", "", fmt.Sprintf("found %d accesses, need %d", n, minAcc))
	}
}

func fieldOwnerName(f *types.Var) string {
	if f.Pkg() != nil {
		return f.Pkg().Name()
	}
	return "?"
}
