package rules

import (
	"fmt"
	"go/token"
	"sort"

	"golang.org/x/tools/go/ssa"

	"verif/checker/internal/ir"
)

// ---- engine E: exhaustive (full-range) loops ----
//
// A validator that walks a slice must look at every element: the loop is a
// unit-step counter that visits exactly the indices first..len(s)-1, and every
// other way out of the loop ends in a failure result (non-nil error / false),
// never in success. The index arithmetic is evaluated symbolically as a
// linear form over L = len(s).

type linL struct {
	l, k int64 // l*len(s) + k
	ok   bool
}

// loopForm describes a counting loop: the header's counter phi, its entry
// value, the step, and the continuation test counter' OP bound where counter'
// is the phi itself or the stepped value (range loops increment first).
type loopForm struct {
	h       *ssa.BasicBlock
	phi     *ssa.Phi
	init    ssa.Value
	step    int64
	pre     bool // the test compares the already stepped value
	op      token.Token
	bound   ssa.Value
	test    *ssa.If
	exit    ir.Edge
	problem string
}

var relMirror = map[token.Token]token.Token{token.LSS: token.GTR, token.GTR: token.LSS, token.LEQ: token.GEQ, token.GEQ: token.LEQ}
var relNeg = map[token.Token]token.Token{token.LSS: token.GEQ, token.GEQ: token.LSS, token.GTR: token.LEQ, token.LEQ: token.GTR}

// loopFormOf recognises the counting test among the exits of loop h.
func loopFormOf(h *ssa.BasicBlock) *loopForm {
	in := ir.LoopBlocks(h)
	lf := &loopForm{h: h}
	for _, e := range ir.LoopExits(h) {
		iff, ok := e.From.Instrs[len(e.From.Instrs)-1].(*ssa.If)
		if !ok {
			continue
		}
		bo, ok := iff.Cond.(*ssa.BinOp)
		if !ok {
			continue
		}
		op := bo.Op
		if _, rel := relMirror[op]; !rel {
			continue
		}
		counterOf := func(v ssa.Value) (*ssa.Phi, bool, bool) {
			v = ir.Strip(v)
			if p, ok := v.(*ssa.Phi); ok && p.Block() == h {
				return p, false, true
			}
			if b, ok := v.(*ssa.BinOp); ok && (b.Op == token.ADD || b.Op == token.SUB) {
				if p, ok := ir.Strip(b.X).(*ssa.Phi); ok && p.Block() == h {
					if k, isC := ir.ConstInt(b.Y); isC && k == 1 {
						return p, true, true
					}
				}
			}
			return nil, false, false
		}
		var phi *ssa.Phi
		var pre bool
		var bound ssa.Value
		if p, pr, ok := counterOf(bo.X); ok {
			phi, pre, bound = p, pr, bo.Y
		} else if p, pr, ok := counterOf(bo.Y); ok {
			phi, pre, bound, op = p, pr, bo.X, relMirror[op]
		} else {
			continue
		}
		if e.Succ == 0 {
			op = relNeg[op]
		}
		step := int64(0)
		okPhi := true
		var init ssa.Value
		for i, ev := range phi.Edges {
			if !in[h.Preds[i]] {
				if init != nil && init != ev {
					okPhi = false
				}
				init = ev
				continue
			}
			sb, ok := ir.Strip(ev).(*ssa.BinOp)
			if !ok || ir.Strip(sb.X) != ssa.Value(phi) || (sb.Op != token.ADD && sb.Op != token.SUB) {
				okPhi = false
				continue
			}
			if k, isC := ir.ConstInt(sb.Y); !isC || k != 1 {
				okPhi = false
				continue
			}
			st := int64(1)
			if sb.Op == token.SUB {
				st = -1
			}
			if step != 0 && step != st {
				okPhi = false
			}
			step = st
		}
		if !okPhi || init == nil || step == 0 {
			continue
		}
		lf.phi, lf.init, lf.step, lf.pre, lf.op, lf.bound, lf.test, lf.exit = phi, init, step, pre, op, bound, iff, e
		return lf
	}
	lf.problem = "no unit-step counter test among the loop's exits"
	return lf
}

// fullRange checks that loop h in fn visits the indices first..len(s)-1 of the
// slice recognised by isSlice (the operand of len()), and that every other
// exit of the loop reaches only failure returns (isSuccess(ret) false).
func (c *Ctx) fullRange(fn *ssa.Function, h *ssa.BasicBlock, what string, isSlice func(ssa.Value) bool, first int64, isSuccess func(*ssa.Return) bool, okExit ...func(ir.Edge) bool) bool {
	return c.fullRangeOff(fn, h, what, isSlice, -first, 0, isSuccess, okExit...)
}

// fullRangeOff: the loop body uses the elements at counter+lo .. counter+hi;
// together the iterations must cover element 0 (first counter value + lo == 0)
// up to element len-1 (last counter value + hi == len-1).
func (c *Ctx) fullRangeOff(fn *ssa.Function, h *ssa.BasicBlock, what string, isSlice func(ssa.Value) bool, lo, hi int64, isSuccess func(*ssa.Return) bool, okExit ...func(ir.Edge) bool) bool {
	construct := fmt.Sprintf("%s | %s covers every element (0..len-1)", c.nm(fn), what)
	pos := c.P.Pos(fn.Pos())
	if h == nil {
		c.undecided(construct, pos, "loop not found")
		return false
	}
	lf := loopFormOf(h)
	if lf.problem != "" {
		c.fail(construct, pos, lf.problem)
		return false
	}
	var linOf func(v ssa.Value, d int) linL
	linOf = func(v ssa.Value, d int) linL {
		if d > 8 {
			return linL{}
		}
		if k, isC := ir.ConstInt(v); isC {
			return linL{0, k, true}
		}
		switch x := v.(type) {
		case *ssa.Convert:
			return linOf(x.X, d+1)
		case *ssa.ChangeType:
			return linOf(x.X, d+1)
		case *ssa.BinOp:
			l, r := linOf(x.X, d+1), linOf(x.Y, d+1)
			if !l.ok || !r.ok {
				return linL{}
			}
			switch x.Op {
			case token.ADD:
				return linL{l.l + r.l, l.k + r.k, true}
			case token.SUB:
				return linL{l.l - r.l, l.k - r.k, true}
			}
		case *ssa.Call:
			if isBuiltin("len")(x) {
				arg := x.Call.Args[0]
				if sl, ok := arg.(*ssa.Slice); ok && (sl.Low != nil || sl.High != nil) {
					// s[k:] has len(s)-k elements; any other sub-slice is not
					// the whole validated slice
					if k, isC := ir.ConstInt(sl.Low); sl.Low != nil && isC && sl.High == nil && sl.Max == nil && isSlice(sl.X) {
						return linL{1, -k, true}
					}
					return linL{}
				}
				if isSlice(arg) {
					return linL{1, 0, true}
				}
			}
		}
		return linL{}
	}
	var bad []string
	ini, bnd := linOf(lf.init, 0), linOf(lf.bound, 0)
	if !ini.ok || !bnd.ok {
		bad = append(bad, "the counter at "+c.at(lf.test)+" does not run between a constant and len of the validated slice")
	} else if lf.step != 1 {
		bad = append(bad, "the counter at "+c.at(lf.test)+" does not count upwards by one")
	} else {
		firstIdx := ini
		if lf.pre {
			firstIdx.k++
		}
		last := bnd
		switch lf.op {
		case token.LSS:
			last.k--
		case token.LEQ:
		default:
			bad = append(bad, "the loop test at "+c.at(lf.test)+" is not counter < / <= bound")
			last.ok = false
		}
		if last.ok {
			if firstIdx.l != 0 || firstIdx.k+lo != 0 {
				bad = append(bad, fmt.Sprintf("the first element looked at by the loop at %s is %d*len%+d instead of 0: leading elements are never looked at", c.at(lf.test), firstIdx.l, firstIdx.k+lo))
			}
			if last.l != 1 || last.k+hi != -1 {
				bad = append(bad, fmt.Sprintf("the last element looked at by the loop at %s is %d*len%+d instead of len-1: trailing elements are never looked at", c.at(lf.test), last.l, last.k+hi))
			}
		}
	}
	// other exits: failure only
	for _, e := range ir.LoopExits(h) {
		if e == lf.exit || ir.NilGuardEdges(fn)[e] {
			continue
		}
		tabled := false
		for _, ok := range okExit {
			if ok(e) {
				tabled = true
			}
		}
		if tabled {
			continue
		}
		ir.WalkEdge(e, nil, func(in ssa.Instruction) bool {
			if r, ok := in.(*ssa.Return); ok {
				if isSuccess(r) {
					bad = append(bad, fmt.Sprintf("the loop can be left early at %s and the function still succeeds (return at %s): the remaining elements are not examined", c.at(e.From.Instrs[len(e.From.Instrs)-1]), c.at(r)))
				}
				return false
			}
			return true
		})
	}
	sort.Strings(bad)
	bad = uniq(bad)
	c.R.CallSites++
	if len(bad) > 0 {
		c.fail(construct, pos, join(bad), c.at(lf.test))
		return false
	}
	c.pass(construct, pos, "unit-step counter over the whole slice; every early exit ends in failure", c.at(lf.test))
	return true
}

// errSuccess: the function's error result (last result) may be nil at r.
func errSuccess(r *ssa.Return) bool {
	if len(r.Results) == 0 {
		return true
	}
	v := ir.RetVal(r, len(r.Results)-1)
	if ir.IsNil(v) {
		return true
	}
	return !(knownNonNilError(v) || nonNilAt(v, r.Block()))
}

// boolSuccess: the function's boolean result may be true at r.
func boolSuccess(r *ssa.Return) bool {
	if len(r.Results) == 0 {
		return true
	}
	k, isC := ir.ConstBool(ir.RetVal(r, 0))
	return !isC || k
}

// counterOffset: v == counter + d for the loop's element counter (the stepped
// value in range loops, the phi otherwise).
func counterOffset(lf *loopForm, v ssa.Value) (int64, bool) {
	if lf == nil || lf.phi == nil {
		return 0, false
	}
	v = ir.Strip(v)
	if cv, ok := v.(*ssa.Convert); ok {
		v = ir.Strip(cv.X)
	}
	base := int64(0)
	if lf.pre {
		base = 1 // element index is phi+1
	}
	if v == ssa.Value(lf.phi) {
		return -base, true
	}
	if b, ok := v.(*ssa.BinOp); ok && (b.Op == token.ADD || b.Op == token.SUB) {
		if k, isC := ir.ConstInt(b.Y); isC {
			if d, ok := counterOffset(lf, b.X); ok {
				if b.Op == token.SUB {
					k = -k
				}
				return d + k, true
			}
		}
	}
	return 0, false
}

// firstConst: the first value of the loop's element counter when it is a
// constant.
func (lf *loopForm) firstConst() (int64, bool) {
	if lf == nil || lf.phi == nil {
		return 0, false
	}
	k, ok := ir.ConstInt(lf.init)
	if !ok {
		return 0, false
	}
	if lf.pre {
		k += lf.step
	}
	return k, true
}

// skippedPrefix: iterations whose element counter is below the returned value
// never reach block at (a `if i < k { continue }` style guard inside the loop:
// at is dominated by the edge on which counter >= k holds).
func skippedPrefix(fn *ssa.Function, lf *loopForm, at *ssa.BasicBlock) (int64, bool) {
	if lf == nil || lf.phi == nil {
		return 0, false
	}
	isCounter := func(v ssa.Value) bool { d, ok := counterOffset(lf, v); return ok && d == 0 }
	best, found := int64(0), false
	in := ir.LoopBlocks(lf.h)
	for k := int64(-2); k <= 8; k++ {
		kk := k
		g, _ := relGuard("counter >= k", fn, isCounter, constIntIs(kk), token.GEQ)
		for _, s := range g.sites {
			if !in[s.br.If.Block()] {
				continue
			}
			e := s.br.Edge()
			if e.From.Succs[e.Succ] == at || ir.EdgeDominates(fn, e, at) {
				if !found || kk > best {
					best, found = kk, true
				}
			}
		}
	}
	return best, found
}

// linTerms decomposes an integer value into a sum of recognised leaves and a
// constant: coef[i] counts leaf i (leaves are tried in order; the loop
// counter of lf, when given, is the implicit leaf "counter" with its constant
// offset folded into k). Conversions are looked through. ok is false when
// some summand is neither a leaf nor a constant.
func linTerms(v ssa.Value, lf *loopForm, leaves ...func(ssa.Value) bool) (coef []int64, counter, k int64, ok bool) {
	coef = make([]int64, len(leaves))
	ok = true
	var walk func(v ssa.Value, sign int64, d int)
	walk = func(v ssa.Value, sign int64, d int) {
		if d > 12 {
			ok = false
			return
		}
		if c, isC := ir.ConstInt(v); isC {
			k += sign * c
			return
		}
		if lf != nil {
			if off, isCtr := counterOffset(lf, v); isCtr {
				counter += sign
				k += sign * off
				return
			}
		}
		for i, l := range leaves {
			if l(v) {
				coef[i] += sign
				return
			}
		}
		switch x := v.(type) {
		case *ssa.Convert:
			walk(x.X, sign, d+1)
			return
		case *ssa.ChangeType:
			walk(x.X, sign, d+1)
			return
		case *ssa.BinOp:
			switch x.Op {
			case token.ADD:
				walk(x.X, sign, d+1)
				walk(x.Y, sign, d+1)
				return
			case token.SUB:
				walk(x.X, sign, d+1)
				walk(x.Y, -sign, d+1)
				return
			}
		}
		ok = false
	}
	walk(v, 1, 0)
	return
}
