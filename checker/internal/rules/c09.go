package rules

import (
	"fmt"
	"go/token"
	"go/types"
	"sort"
	"strings"

	"golang.org/x/tools/go/ssa"

	"verif/checker/internal/ir"
)

func init() {
	register(&Prop{ID: "C09", Run: runC09, NotDecided: []string{
		"the walk property over arbitrary chain histories (only the per-site parent-link guards and orderings are decided)",
		"timing of filter updates / rewinds relative to notifications",
		"completeness of filter matching (gcs semantics)",
	}})
}

const (
	fnHBC    = "(*neutrino.rescanState).handleBlockConnected"
	fnHBD    = "(*neutrino.rescanState).handleBlockDisconnected"
	fnRescan = "(*neutrino.rescanState).rescan"
	fnEBM    = "neutrino.extractBlockMatches"
)

// storesInto matches stores whose address is the given struct field or a
// sub-field of it (rs.curStamp = x; rs.curStamp.Hash = y).
func storesIntoField(f *types.Var, sub ...string) Sel {
	return func(in ssa.Instruction) bool {
		st, ok := in.(*ssa.Store)
		if !ok {
			return false
		}
		fa, ok := st.Addr.(*ssa.FieldAddr)
		if !ok {
			return false
		}
		if ir.FieldOfAddr(fa) == f && len(sub) == 0 {
			return true
		}
		if inner, ok := fa.X.(*ssa.FieldAddr); ok && ir.FieldOfAddr(inner) == f {
			if len(sub) == 0 {
				return true
			}
			for _, s := range sub {
				if ir.FieldOfAddr(fa).Name() == s {
					return true
				}
			}
		}
		return false
	}
}

func runC09(c *Ctx) {
	rsF := func(f string) *types.Var { return c.field("neutrino", "rescanState", f) }
	nh := func(f string) *types.Var {
		return c.field("github.com/btcsuite/btcd/rpcclient", "NotificationHandlers", f)
	}
	prevBlock := func() *types.Var { return c.field(pWire, "BlockHeader", "PrevBlock") }
	stampHash := func() *types.Var { return c.field("headerfs", "BlockStamp", "Hash") }

	// parent-link comparisons: header.PrevBlock vs rs.curStamp.Hash
	parentLink := func(fn *ssa.Function) guard {
		cmps := find(fn, binops(eqOps, loadsField(prevBlock()), func(v ssa.Value) bool {
			return loadsField(stampHash())(v) && loadsField(rsF("curStamp"))(v)
		}))
		return equalIs("header.PrevBlock vs rs.curStamp.Hash", cmps, true)
	}

	c.rule("C09.G1", "handleBlockConnected: connected callbacks and the advance of curStamp/curHeader happen only if the block's PrevBlock is the current block and its filter header exists; the advance never happens on a path that returns an error", func() {
		fn := c.fn(fnHBC)
		// notifyBlockWithFilter, or its body written out in the handler (then the
		// callbacks are the handler's own and extractBlockMatches is what can fail)
		nbf := c.P.Method("neutrino", "rescanState", "notifyBlockWithFilter")
		isNbf := func(ssa.Instruction) bool { return false }
		if nbf != nil {
			isNbf = callTo(nbf)
		}
		cbs := find(fn, anyOf(callVia(nh("OnFilteredBlockConnected"), nh("OnBlockConnected")), isNbf))
		adv := find(fn, anyOf(storesIntoField(rsF("curStamp")), storesIntoField(rsF("curHeader"))))
		eff := append(append([]ssa.Instruction{}, cbs...), adv...)
		const en = "connected callbacks / advance curStamp,curHeader"
		// (every kind present: a callback, the stamp and the header advance)
		c.verdict(len(cbs) >= 1 && len(adv) >= 2, c.nm(fn)+" | connected callbacks and the state advance are present", c.P.Pos(fn.Pos()), fmt.Sprintf("%d callback site(s), %d advance store(s)", len(cbs), len(adv)), fmt.Sprintf("handleBlockConnected has %d connected-callback site(s) and %d stores advancing curStamp/curHeader (at least 1 and 2 expected)", len(cbs), len(adv)))
		c.guarded(fn, parentLink(fn), 1, en, eff, 3, gDominate)
		gfh := c.method("neutrino", "ChainSource", "GetFilterHeaderByHeight")
		c.guarded(fn, errNil("chain.GetFilterHeaderByHeight(next)", find(fn, callTo(gfh)), 1), 1, en, eff, 3, gDominate)
		// advance only after callbacks; not on error paths
		if nbf != nil && len(find(fn, isNbf)) > 0 {
			gN := errNil("notifyBlockWithFilter", find(fn, isNbf), 0)
			c.guarded(fn, gN, 1, "advance curStamp,curHeader", adv, 2, gFailEdge)
		} else {
			ebm := c.funcObj("neutrino", "extractBlockMatches")
			gN := errNil("extractBlockMatches", find(fn, callTo(ebm)), 1)
			c.guarded(fn, gN, 1, "advance curStamp,curHeader", adv, 2, gFailEdge)
		}
		gcf := c.method("neutrino", "ChainSource", "GetCFilter")
		c.guarded(fn, errNil("chain.GetCFilter", find(fn, callTo(gcf)), 1), 1, "advance curStamp,curHeader", adv, 2, gFailEdge)
		var bad []string
		for _, a := range adv {
			ir.WalkAfter(a, nil, func(in ssa.Instruction) bool {
				if r, ok := in.(*ssa.Return); ok && !ir.IsNil(ir.RetVal(r, 0)) {
					bad = append(bad, c.at(in))
				}
				return true
			})
		}
		sort.Strings(bad)
		c.verdict(len(bad) == 0, c.nm(fn)+" | no error return after the state advance", c.P.Pos(fn.Pos()), "every return reachable after the advance returns nil", "an error is returned after curStamp/curHeader were advanced: "+join(bad), c.ats(adv)...)
		// callbacks precede the advance: no callback reachable after an advance
		isCb := anyOf(callVia(nh("OnFilteredBlockConnected"), nh("OnBlockConnected")), isNbf)
		c.neverAfter(fn, anyOf(storesIntoField(rsF("curStamp"))), "advance of curStamp", isCb, "connected callback", 1, nil)
		// the new stamp is built from the notified header
		ntfnHeader := c.method("blockntfns", "Connected", "Header")
		okv := true
		for _, a := range find(fn, storesIntoField(rsF("curHeader"))) {
			if !ir.InfluencedBy(a.(*ssa.Store).Val, valIsCallTo(ntfnHeader)) {
				okv = false
			}
		}
		c.verdict(okv, c.nm(fn)+" | new current header = the notified block's header", c.P.Pos(fn.Pos()), "curHeader derives from ntfn.Header()", "curHeader is advanced to something other than the notified header")
	})

	c.rule("C09.G3", "sibling agreement: every site that moves rs.curStamp forward to a new block is guarded by a parent-link comparison with the previous rs.curStamp.Hash (handleBlockConnected does; the by-height catch-up branch of rescan() must too)", func() {
		for _, name := range []string{fnHBC, fnRescan} {
			fn := c.fn(name)
			sites := find(fn, anyOf(storesIntoField(rsF("curStamp"), "Hash"), func(in ssa.Instruction) bool {
				st, ok := in.(*ssa.Store)
				if !ok {
					return false
				}
				fa, ok := st.Addr.(*ssa.FieldAddr)
				return ok && ir.FieldOfAddr(fa) == rsF("curStamp")
			}))
			if len(sites) == 0 {
				c.pass(name+" | forward moves of curStamp", c.P.Pos(fn.Pos()), "no site moves curStamp forward here")
				continue
			}
			g := parentLink(fn)
			construct := name + " | every forward move of curStamp is behind a parent-link check"
			if len(g.sites) == 0 {
				c.fail(construct, c.at(sites[0]), fmt.Sprintf("curStamp is advanced at %s but %s contains no comparison of the new header's PrevBlock with rs.curStamp.Hash: a reorganisation below the current position while walking forward by height goes unnoticed (block delivered as connected whose parent is not the current block)", join(c.ats(sites)), name), c.ats(sites)...)
				continue
			}
			r := ir.ReachEntry(fn, g.cut())
			var bad []string
			for _, s := range sites {
				if r[s.Block()] {
					bad = append(bad, c.at(s))
				}
			}
			c.verdict(len(bad) == 0, construct, c.P.Pos(fn.Pos()), fmt.Sprintf("%d advance site(s) behind the parent-link check", len(sites)), "curStamp advanced without the parent-link check at "+join(bad), c.ats(sites)...)
		}
		// who may write curStamp at all
		c.whoMay("stores into rescanState.curStamp", storesIntoField(rsF("curStamp")), []string{fnHBC, fnHBD, fnRescan, "neutrino.newRescanState"}, 4)
	})

	c.rule("C09.G2", "handleBlockDisconnected: disconnect callbacks and the step back happen only if the disconnected block is the current block", func() {
		fn := c.fn(fnHBD)
		bh := c.method(pWire, "BlockHeader", "BlockHash")
		cmps := find(fn, binops(eqOps, valIsCallTo(bh), func(v ssa.Value) bool {
			return loadsField(stampHash())(v) && loadsField(rsF("curStamp"))(v)
		}))
		eff := find(fn, anyOf(callVia(nh("OnFilteredBlockDisconnected"), nh("OnBlockDisconnected")), storesIntoField(rsF("curStamp")), storesIntoField(rsF("curHeader"))))
		c.guarded(fn, equalIs("blockDisconnected.BlockHash() vs rs.curStamp.Hash", cmps, true), 1, "disconnect callbacks / step back", eff, 4, gDominate)
		// the hash compared is that of the notified header; the new tip is ntfn.ChainTip()
		hdr := c.method("blockntfns", "Disconnected", "Header")
		tip := c.method("blockntfns", "Disconnected", "ChainTip")
		okv := len(cmps) == 1
		for _, cm := range cmps {
			b := cm.(*ssa.BinOp)
			call, _ := b.X.(*ssa.Call)
			if call == nil {
				call, _ = b.Y.(*ssa.Call)
			}
			if call == nil || !ir.InfluencedBy(call.Call.Args[0], valIsCallTo(hdr)) {
				okv = false
			}
		}
		for _, st := range find(fn, storesIntoField(rsF("curHeader"))) {
			if !ir.DerivesFrom(st.(*ssa.Store).Val, valIsCallTo(tip)) {
				okv = false
			}
		}
		c.verdict(okv, c.nm(fn)+" | compares the notified header; steps back to ntfn.ChainTip()", c.P.Pos(fn.Pos()), "operands as tabled", "the disconnect test does not compare the notified header, or the new current header is not ntfn.ChainTip()")
	})

	c.rule("C09.O1", "extractBlockMatches: the block is used only after VerifyBasicBlockFilter succeeded; inside the per-transaction loop paysWatchedAddr runs on every iteration path (it grows the watch list), also when spendsWatchedInput already matched", func() {
		fn := c.fn(fnEBM)
		pays := c.method("neutrino", "rescanOptions", "paysWatchedAddr")
		spends := c.method("neutrino", "rescanOptions", "spendsWatchedInput")
		vf := c.funcObj("neutrino", "VerifyBasicBlockFilter")
		getBlock := c.method("neutrino", "ChainSource", "GetBlock")
		eff := find(fn, callTo(pays, spends))
		c.guarded(fn, errNil("VerifyBasicBlockFilter(filter, block)", find(fn, callTo(vf)), 1), 1, "match transactions", eff, 2, gDominate)
		c.guarded(fn, errNil("chain.GetBlock", find(fn, callTo(getBlock)), 1), 1, "match transactions", eff, 2, gDominate)
		// per-iteration: from the element load of block.Transactions()
		txs := c.method(pBtcutil, "Block", "Transactions")
		var starts []start
		ir.Instrs(fn, func(in ssa.Instruction) {
			ia, ok := in.(*ssa.IndexAddr)
			if ok && valIsCallTo(txs)(ir.Strip(ia.X)) {
				starts = append(starts, afterInstr(c, in))
			}
		})
		c.mustFollowIter(fn, "each transaction of the block", starts, callTo(pays), "ro.paysWatchedAddr(tx)", nil, 1)
		c.mustFollowIter(fn, "each transaction of the block", starts, callTo(spends), "ro.spendsWatchedInput(tx)", nil, 1)
		// the block verified is the block fetched for curStamp.Hash
		okv := false
		for _, v := range find(fn, callTo(vf)) {
			okv = ir.DerivesFrom(ir.CallOf(v).Args[1], valIsCallTo(getBlock)) && isParam(fn, 3)(ir.CallOf(v).Args[0])
		}
		c.verdict(okv, c.nm(fn)+" | VerifyBasicBlockFilter(filter param, fetched block)", c.P.Pos(fn.Pos()), "verifies the filter that matched against the fetched block", "VerifyBasicBlockFilter is not applied to (filter, fetched block)")
	})

	c.rule("C09.O2", "rescan loop: a Disconnected notification first prunes the retry queue (remove) and then steps back; a Connected notification is handled only when the retry queue is empty (else stashed); becoming current subscribes from curStamp.Height and clears the retry queue", func() {
		fn := c.fn(fnRescan)
		remove := c.method("neutrino", "blockRetryQueue", "remove")
		hbd := c.method("neutrino", "rescanState", "handleBlockDisconnected")
		c.mustPrecede(fn, callTo(remove), "blockRetryQueue.remove(header)", callTo(hbd), "handleBlockDisconnected", 1)
		peek := c.method("neutrino", "blockRetryQueue", "peek")
		push := c.method("neutrino", "blockRetryQueue", "push")
		hbc := c.method("neutrino", "rescanState", "handleBlockConnected")
		// the handleBlockConnected call whose argument is the notification (type switch result), not the queue head
		var direct []ssa.Instruction
		for _, in := range find(fn, callTo(hbc)) {
			if !ir.DerivesFrom(ir.CallOf(in).Args[1], valIsCallTo(peek)) {
				direct = append(direct, in)
			}
		}
		var peekNil []ssa.Instruction
		ir.Instrs(fn, func(in ssa.Instruction) {
			b, ok := in.(*ssa.BinOp)
			if !ok {
				return
			}
			if (valIsCallTo(peek)(b.X) && ir.IsNil(b.Y)) || (valIsCallTo(peek)(b.Y) && ir.IsNil(b.X)) {
				peekNil = append(peekNil, in)
			}
		})
		// guard: peek()==nil on the path to the direct handling
		var gs []ssa.Instruction
		for _, p := range peekNil {
			for _, d := range direct {
				if p.Block().Dominates(d.Block()) {
					gs = append(gs, p)
					break
				}
			}
		}
		g := equalIs("blockRetryQueue.peek() vs nil", gs, true)
		c.guarded(fn, g, 1, "handleBlockConnected(new notification)", direct, 1, gDominate)
		c.mustFollowIter(fn, "retry queue not empty", c.failEdges(g), callTo(push), "blockRetryQueue.push(ntfn)", nil, 1)
		// retried blocks are handled head first and popped only on success
		pop := c.method("neutrino", "blockRetryQueue", "pop")
		var retry []ssa.Instruction
		for _, in := range find(fn, callTo(hbc)) {
			if ir.DerivesFrom(ir.CallOf(in).Args[1], valIsCallTo(peek)) {
				retry = append(retry, in)
			}
		}
		gr := guard{name: "retry handleBlockConnected = nil"}
		for _, in := range retry {
			v := in.(ssa.Value)
			for _, br := range ir.NilBranches(v) {
				gr.sites = append(gr.sites, guardSite{br, in})
			}
		}
		c.guarded(fn, gr, 1, "blockRetryQueue.pop()", find(fn, callTo(pop)), 1, gDominate)
		// becoming current
		sub := c.method("neutrino", "ChainSource", "Subscribe")
		// clear(), or what it does written out: the queue's slice set to nil
		blocksF := c.field("neutrino", "blockRetryQueue", "blocks")
		isClear := func(in ssa.Instruction) bool {
			st, ok := in.(*ssa.Store)
			return ok && storeToField(blocksF)(in) && ir.IsNil(st.Val)
		}
		if clear := c.P.Method("neutrino", "blockRetryQueue", "clear"); clear != nil {
			isClear = anyOf(callTo(clear), isClear)
		}
		subs := find(fn, callTo(sub))
		gsub := errNil("chain.Subscribe", subs, 1)
		// (ending the rescan with an error instead of going on as a
		// subscriber leaves no queue to clear)
		c.refusalOK = true
		c.mustFollowIter(fn, "subscribed (became current)", c.successEdges(gsub), isClear, "blockRetryQueue.clear()", nil, 1)
		c.refusalOK = false
		okArg := len(subs) == 1
		stampHeight := c.field("headerfs", "BlockStamp", "Height")
		for _, s := range subs {
			a := argsOf(s)[0]
			if !isLoadOfPath(a, rsF("curStamp"), stampHeight) {
				okArg = false
			}
		}
		c.verdict(okArg, c.nm(fn)+" | Subscribe(uint32(rs.curStamp.Height))", c.P.Pos(fn.Pos()), "backlog requested from the current position", "the subscription does not start at rs.curStamp.Height: blocks between the current position and the subscription start would be skipped or repeated", c.ats(subs)...)
		// catch-up fetches exactly the next height
		gbh := c.method("neutrino", "ChainSource", "GetBlockHeaderByHeight")
		okNext := false
		for _, in := range find(fn, callTo(gbh)) {
			a := argsOf(in)[0]
			okNext = ir.DerivesFrom(a, func(x ssa.Value) bool {
				b, ok := x.(*ssa.BinOp)
				if !ok {
					return false
				}
				k, isC := ir.ConstInt(b.Y)
				return isC && k == 1 && loadsField(stampHeight)(b.X) && loadsField(rsF("curStamp"))(b.X)
			})
		}
		c.verdict(okNext, c.nm(fn)+" | catch-up fetches height curStamp.Height+1", c.P.Pos(fn.Pos()), "next header requested by height+1", "the catch-up branch does not fetch exactly the next height")
		// ... of the position as it is when the header is fetched: nothing
		// that can move rs.curStamp (a call handed its address: updateFilter
		// rewinds through it; a store into it) lies between reading the height
		// and fetching the next header
		var stale []string
		for _, in := range find(fn, callTo(gbh)) {
			a := argsOf(in)[0]
			var loads []*ssa.UnOp
			ir.DerivesFrom(a, func(x ssa.Value) bool {
				if u, ok := x.(*ssa.UnOp); ok && u.Op == token.MUL && isLoadOfPath(u, rsF("curStamp"), stampHeight) {
					loads = append(loads, u)
				}
				return false
			})
			// one iteration of the outermost loop around the fetch
			var outer *ssa.BasicBlock
			for _, b := range fn.Blocks {
				if len(ir.BackEdgesTo(b)) > 0 && ir.LoopBlocks(b)[in.Block()] {
					if outer == nil || len(ir.LoopBlocks(b)) > len(ir.LoopBlocks(outer)) {
						outer = b
					}
				}
			}
			iterCut := ir.Cut{}
			if outer != nil {
				iterCut = ir.BackEdgesTo(outer)
			}
			for _, ld := range loads {
				ir.WalkAfter(ld, iterCut, func(x ssa.Instruction) bool {
					if x == in {
						return false
					}
					moves := false
					if st, ok := x.(*ssa.Store); ok {
						for a := st.Addr; a != nil; {
							fa, isFA := a.(*ssa.FieldAddr)
							if !isFA {
								break
							}
							if ir.FieldOfAddr(fa) == rsF("curStamp") {
								moves = true
							}
							a = fa.X
						}
					}
					if cc := ir.CallOf(x); cc != nil {
						for _, arg := range cc.Args {
							if fa, ok := arg.(*ssa.FieldAddr); ok && ir.FieldOfAddr(fa) == rsF("curStamp") {
								moves = true
							}
						}
					}
					if moves {
						// only if the fetch is still ahead
						reaches := false
						ir.WalkAfter(x, iterCut, func(y ssa.Instruction) bool {
							if y == in {
								reaches = true
							}
							return !reaches
						})
						if reaches {
							stale = append(stale, "the height read at "+c.at(ld)+" can be moved by "+c.at(x)+" before the header is fetched at "+c.at(in))
						}
					}
					return true
				})
			}
		}
		sort.Strings(stale)
		c.verdict(len(stale) == 0, c.nm(fn)+" | the next height is computed from the position at the time of the fetch", c.P.Pos(fn.Pos()), "nothing moves rs.curStamp between reading its height and fetching the next header", join(uniq(stale)))
	})

	c.rule("C09.V2", "no spend of a watched outpoint is skipped: spendsWatchedInput compares every input of the transaction with every watched input: from each input the loop over the watch list is always entered, and for each (input, watched input) pair the comparison in.PreviousOutPoint == input.OutPoint is reached unless the watched entry is the zero outpoint (script matching); a match returns true", func() {
		fn := c.fn("(*neutrino.rescanOptions).spendsWatchedInput")
		prevOut := c.field(pWire, "TxIn", "PreviousOutPoint")
		wOut := c.field("neutrino", "InputWithScript", "OutPoint")
		fromField := func(f *types.Var) func(ssa.Value) bool {
			return func(v ssa.Value) bool {
				return ir.DerivesFrom(v, func(x ssa.Value) bool {
					fa, ok := x.(*ssa.FieldAddr)
					return ok && ir.FieldOfAddr(fa) == f
				})
			}
		}
		var cmps []ssa.Instruction
		ir.Instrs(fn, func(in ssa.Instruction) {
			b, ok := in.(*ssa.BinOp)
			if !ok || b.Op != token.EQL {
				return
			}
			if (fromField(prevOut)(b.X) && fromField(wOut)(b.Y)) || (fromField(prevOut)(b.Y) && fromField(wOut)(b.X)) {
				cmps = append(cmps, in)
			}
		})
		construct := c.nm(fn) + " | every (input, watched input) pair is compared by outpoint"
		if len(cmps) != 1 {
			c.fail(construct, c.P.Pos(fn.Pos()), fmt.Sprintf("%d comparison(s) in.PreviousOutPoint == input.OutPoint, 1 tabled", len(cmps)))
			return
		}
		cmp := cmps[0]
		// loops around the comparison, innermost first
		var headers []*ssa.BasicBlock
		for _, b := range fn.Blocks {
			if len(ir.BackEdgesTo(b)) > 0 && ir.LoopBlocks(b)[cmp.Block()] {
				headers = append(headers, b)
			}
		}
		sort.Slice(headers, func(i, j int) bool { return len(ir.LoopBlocks(headers[i])) < len(ir.LoopBlocks(headers[j])) })
		if len(headers) != 2 {
			c.fail(construct, c.at(cmp), fmt.Sprintf("the comparison is nested in %d loop(s), 2 tabled (inputs x watch list)", len(headers)))
			return
		}
		inner, outer := headers[0], headers[1]
		bodyEdges := func(h *ssa.BasicBlock, what string) []start {
			in := ir.LoopBlocks(h)
			var out []start
			for i, sc := range h.Succs {
				if in[sc] {
					out = append(out, atEdge(c, ir.Edge{From: h, Succ: i}, what))
				}
			}
			return out
		}
		// the two ranged collections
		okOver := ir.DerivesFrom(cmp.(*ssa.BinOp).X, func(v ssa.Value) bool { return loadsField(c.field(pWire, "MsgTx", "TxIn"))(v) }) || ir.DerivesFrom(cmp.(*ssa.BinOp).Y, func(v ssa.Value) bool { return loadsField(c.field(pWire, "MsgTx", "TxIn"))(v) })
		okOver = okOver && (ir.DerivesFrom(cmp.(*ssa.BinOp).X, func(v ssa.Value) bool { return loadsField(c.field("neutrino", "rescanOptions", "watchInputs"))(v) }) || ir.DerivesFrom(cmp.(*ssa.BinOp).Y, func(v ssa.Value) bool { return loadsField(c.field("neutrino", "rescanOptions", "watchInputs"))(v) }))
		c.verdict(okOver, c.nm(fn)+" | compares elements of tx.TxIn with elements of ro.watchInputs", c.at(cmp), "both operands are loop elements of the two lists", "the outpoint comparison is not between an input of the transaction and an entry of the watch list")
		// both loops run over the whole of their list, and "nothing spent"
		// is only said after them
		saysNoSpend := func(r *ssa.Return) bool {
			k, isC := ir.ConstBool(ir.RetVal(r, 0))
			return !(isC && k)
		}
		c.fullRange(fn, inner, "the loop over ro.watchInputs", loadsField(c.field("neutrino", "rescanOptions", "watchInputs")), 0, saysNoSpend)
		c.fullRange(fn, outer, "the loop over the transaction's inputs", loadsField(c.field(pWire, "MsgTx", "TxIn")), 0, saysNoSpend)
		// (B) every input reaches the loop over the watch list
		innerFirst := inner.Instrs[0]
		c.mustFollowIter(fn, "each input of the transaction", bodyEdges(outer, "next input"), func(in ssa.Instruction) bool { return in == innerFirst }, "the loop over ro.watchInputs", nil, 1)
		// (A) every pair reaches the comparison, except zero-outpoint entries
		zero := find(fn, binops(eqOps, fromField(wOut), func(v ssa.Value) bool {
			return ir.DerivesFrom(v, func(x ssa.Value) bool {
				g, ok := x.(*ssa.Global)
				return ok && c.globalNeverWritten(g) && isWireOutPointPtr(g.Type())
			})
		}))
		cut := equalIs("input.OutPoint == zeroOutPoint", zero, true).cut()
		zcut := ir.Cut{}
		for _, z := range zero {
			for _, br := range ir.EqBranches(z.(*ssa.BinOp)) {
				zcut[br.Edge()] = true
			}
		}
		_ = cut
		c.mustFollowIter(fn, "each (input, watched input) pair", bodyEdges(inner, "next watched input"), func(in ssa.Instruction) bool { return in == cmp }, "in.PreviousOutPoint == input.OutPoint", zcut, 1)
		// a match returns true
		// (every return reachable from the equality edge returns true; the
		// exploration knows the booleans a match sets on the way)
		okTrue := false
		for _, br := range ir.EqBranches(cmp.(*ssa.BinOp)) {
			nTrue, nOther := 0, 0
			ir.WalkEdge(br.Edge(), nil, func(in ssa.Instruction) bool {
				if r, ok := in.(*ssa.Return); ok {
					if k, isC := ir.ConstBool(ir.RetVal(r, 0)); isC && k {
						nTrue++
					} else {
						nOther++
					}
				}
				return true
			})
			if nTrue >= 1 && nOther == 0 {
				okTrue = true
			}
		}
		if bo := cmp.(*ssa.BinOp); len(ir.EqBranches(bo)) == 0 {
			// the comparison is not branched on where it is made but carried
			// to the test by a result variable (a helper `return a == b`,
			// inlined): explore from behind it with its outcome known
			nTrue, nOther := 0, 0
			ir.WalkFacts(cmp.Block(), ir.IndexIn(cmp)+1, nil, nil, map[ssa.Value]bool{bo: bo.Op == token.EQL}, func(in ssa.Instruction) bool {
				if r, ok := in.(*ssa.Return); ok {
					if k, isC := ir.ConstBool(ir.RetVal(r, 0)); isC && k {
						nTrue++
					} else {
						nOther++
					}
				}
				return true
			})
			okTrue = nTrue >= 1 && nOther == 0
		}
		c.verdict(okTrue, c.nm(fn)+" | an outpoint match returns true", c.at(cmp), "return true on equality", "an outpoint match no longer returns true")
	})

	c.rule("C09.G4", "a rewind walks the chain that was delivered: every step back in updateFilter announces the disconnect of the current block (its own hash and height) and then moves to that block's parent, fetched by the current header's PrevBlock hash (never by height: after a reorganisation the block at height-1 of the best chain is not the parent of a block the caller was told about); the new position's height and hash come from that same lookup", func() {
		fn := c.fn("(*neutrino.rescanOptions).updateFilter")
		getHdr := c.method("neutrino", "ChainSource", "GetBlockHeader")
		byHeight := c.method("neutrino", "ChainSource", "GetBlockHeaderByHeight")
		prevBlock := c.field(pWire, "BlockHeader", "PrevBlock")
		curHeader, curStamp := fn.Params[4], fn.Params[3]
		var bad []string
		calls := find(fn, callTo(getHdr))
		if len(calls) != 1 {
			bad = append(bad, fmt.Sprintf("%d GetBlockHeader call(s) in the rewind loop, 1 tabled", len(calls)))
		}
		if n := len(find(fn, callTo(byHeight))); n > 0 {
			bad = append(bad, "the rewind looks blocks up by height")
		}
		for _, x := range calls {
			a := argsOf(x)[0]
			fa, ok := a.(*ssa.FieldAddr)
			if !ok || ir.FieldOfAddr(fa) != prevBlock || fa.X != ssa.Value(curHeader) {
				bad = append(bad, "the parent is not looked up by &curHeader.PrevBlock at "+c.at(x))
			}
			// *curHeader = *header ; curStamp.Height = height ; curStamp.Hash = curHeader.BlockHash()
			okHdr, okHeight, okHash := false, false, false
			ir.Instrs(fn, func(in ssa.Instruction) {
				st, ok := in.(*ssa.Store)
				if !ok {
					return
				}
				if st.Addr == ssa.Value(curHeader) {
					okHdr = ir.DerivesFrom(st.Val, func(v ssa.Value) bool {
						e, ok := v.(*ssa.Extract)
						return ok && e.Index == 0 && e.Tuple == x.(ssa.Value)
					})
				}
				if fa, ok := st.Addr.(*ssa.FieldAddr); ok && fa.X == ssa.Value(curStamp) {
					switch ir.FieldOfAddr(fa).Name() {
					case "Height":
						okHeight = ir.DerivesFrom(st.Val, func(v ssa.Value) bool {
							e, ok := v.(*ssa.Extract)
							return ok && e.Index == 1 && e.Tuple == x.(ssa.Value)
						})
					case "Hash":
						call, ok := st.Val.(*ssa.Call)
						okHash = ok && callTo(c.method(pWire, "BlockHeader", "BlockHash"))(call) && call.Call.Args[0] == ssa.Value(curHeader)
					}
				}
			})
			if !okHdr || !okHeight || !okHash {
				bad = append(bad, fmt.Sprintf("the new position is not taken from the parent lookup (header %v, height %v, hash %v)", okHdr, okHeight, okHash))
			}
		}
		sort.Strings(bad)
		c.verdict(len(bad) == 0, c.nm(fn)+" | each step back goes to the parent of the current header", c.P.Pos(fn.Pos()), "GetBlockHeader(&curHeader.PrevBlock) -> *curHeader, curStamp.Height, curStamp.Hash", join(bad), c.ats(calls)...)
		// the disconnect callbacks run before the step, with the current block
		if len(calls) == 1 {
			disc := callVia(c.field("github.com/btcsuite/btcd/rpcclient", "NotificationHandlers", "OnFilteredBlockDisconnected"), c.field("github.com/btcsuite/btcd/rpcclient", "NotificationHandlers", "OnBlockDisconnected"))
			h := ir.LoopHeaderOf(calls[0].Block())
			okLoop := h != nil
			for _, d := range find(fn, disc) {
				if ir.LoopHeaderOf(d.Block()) != h {
					okLoop = false
				}
			}
			c.verdict(okLoop && len(find(fn, disc)) == 2, c.nm(fn)+" | disconnect callbacks are part of each step", c.P.Pos(fn.Pos()), "both callbacks inside the rewind loop", "the disconnect callbacks are not issued once per step of the rewind")
			c.neverAfter(fn, func(in ssa.Instruction) bool { return in == calls[0] }, "the parent lookup", disc, "a disconnect callback", 1, ir.BackEdgesTo(h))
		}
	})

	c.rule("C09.O3", "a rescan that (re)subscribes misses no reorganisation: "+backlogDoc, func() { c.backlogThenRegister() })

	c.rule("C09.V5", "each disconnect lets the rescan step back by exactly one block: handleBlockDisconnected takes the notification's ChainTip as its new position, so the event for a removed block must carry that block's own parent: "+disconnectPayloadDoc, func() { c.disconnectPayload() })

	c.rule("C09.V6", "the set of watched inputs only grows while a rescan runs: every store to ro.watchInputs appends to the field's own current value (append(ro.watchInputs, ...)); a block can be walked more than once - after a reorganisation, after an Update that rewinds - and what it spends must be matched again: an entry dropped when its spend was first seen makes the second delivery of that block come without the transaction", func() {
		wf := c.field("neutrino", "rescanOptions", "watchInputs")
		var bad, sites []string
		for _, fn := range c.P.Funcs {
			for _, in := range find(fn, storeToField(wf)) {
				sites = append(sites, c.at(in))
				call, ok := ir.Strip(in.(*ssa.Store).Val).(*ssa.Call)
				okShape := false
				if ok && isBuiltin("append")(call) {
					if u, isU := ir.Strip(call.Call.Args[0]).(*ssa.UnOp); isU && u.Op == token.MUL {
						if fa, isFA := u.X.(*ssa.FieldAddr); isFA && ir.FieldOfAddr(fa) == wf {
							okShape = true
						}
					}
				}
				if !okShape {
					bad = append(bad, "ro.watchInputs is assigned at "+c.at(in)+" in "+c.nm(fn)+" something other than append(ro.watchInputs, ...)")
				}
			}
		}
		sort.Strings(bad)
		sort.Strings(sites)
		c.verdict(len(bad) == 0 && len(sites) >= 3, "neutrino.rescanOptions | watchInputs is only appended to", "", fmt.Sprintf("%d store(s), each append(ro.watchInputs, ...)", len(sites)), join(bad)+fmt.Sprintf(" (%d stores found, 3 tabled)", len(sites)), sites...)
	})

	c.rule("C09.O5", "what an update adds is watched: in updateFilter every input of the update ends up in ro.watchInputs (what spends are matched against) and its script in ro.watchList (what block filters are matched against) - the whole slice appended on every path, or a loop over update.inputs in which every pass reaches the append; an input left out because its outpoint 'is already watched' drops every script-only watch after the first (they all carry the zero outpoint), and spends of those scripts are never delivered", func() {
		fn := c.fn("(*neutrino.rescanOptions).updateFilter")
		// an element may be left out only because the very same thing is
		// watched already: the skip lies behind a comparison of the address's
		// full identity (its string form, its encoded form or its output
		// script), never of a part of it (two kinds of address share one
		// key hash)
		sameThing := ir.Cut{}
		fullIdentity := func(v ssa.Value) bool {
			return ir.DerivesFrom(v, func(x ssa.Value) bool {
				call, ok := x.(*ssa.Call)
				if !ok {
					return false
				}
				name := ""
				if call.Call.IsInvoke() {
					name = call.Call.Method.Name()
				} else if f := call.Call.StaticCallee(); f != nil {
					name = f.Name()
				}
				return name == "String" || name == "EncodeAddress" || name == "PayToAddrScript"
			})
		}
		ir.Instrs(fn, func(in ssa.Instruction) {
			switch x := in.(type) {
			case *ssa.BinOp:
				if x.Op == token.EQL && fullIdentity(x.X) && fullIdentity(x.Y) {
					for _, b := range ir.EqBranches(x) {
						sameThing[b.Edge()] = true
					}
				}
			case *ssa.Call:
				if f := x.Call.StaticCallee(); f != nil && f.Pkg != nil && f.Pkg.Pkg.Path() == "bytes" && f.Name() == "Equal" && fullIdentity(x.Call.Args[0]) && fullIdentity(x.Call.Args[1]) {
					for _, b := range ir.TrueBranches(x) {
						if b.Pol >= 0 {
							sameThing[b.Edge()] = true
						}
					}
				}
			}
		})
		inputsF0 := c.field("neutrino", "updateOptions", "inputs")
		addrsF := c.field("neutrino", "updateOptions", "addrs")
		for _, spec := range []struct {
			field string
			what  string
			src   *types.Var
		}{{"watchInputs", "ro.watchInputs = append(ro.watchInputs, input)", inputsF0}, {"watchList", "ro.watchList = append(ro.watchList, input.PkScript)", inputsF0}, {"watchAddrs", "ro.watchAddrs = append(ro.watchAddrs, addr)", addrsF}} {
			inputsF := spec.src
			wf := c.field("neutrino", "rescanOptions", spec.field)
			construct := c.nm(fn) + " | every input of the update reaches " + spec.field
			if spec.src == addrsF {
				construct = c.nm(fn) + " | every address of the update reaches " + spec.field
			}
			isAppendTo := func(in ssa.Instruction) (*ssa.Call, bool) {
				st, ok := in.(*ssa.Store)
				if !ok || !storeToField(wf)(in) {
					return nil, false
				}
				call, ok := ir.Strip(st.Val).(*ssa.Call)
				if !ok || !isBuiltin("append")(call) || !loadsField(wf)(call.Call.Args[0]) {
					return nil, false
				}
				return call, true
			}
			// (a) the whole slice, on every path
			whole := false
			var sites []ssa.Instruction
			for _, in := range find(fn, storeToField(wf)) {
				call, ok := isAppendTo(in)
				if !ok {
					continue
				}
				if loadsField(inputsF)(call.Call.Args[1]) && !ir.DerivesFrom(call.Call.Args[1], func(x ssa.Value) bool { _, isIA := x.(*ssa.IndexAddr); return isIA }) {
					all := true
					live := ir.ReachEntry(fn, nil) // without "update == nil" style guard clauses
					for _, r := range find(fn, isExit) {
						if !live[r.Block()] {
							continue
						}
						if ir.IsNil(ir.RetVal(r.(*ssa.Return), 1)) && !in.Block().Dominates(r.Block()) {
							all = false
						}
					}
					if all {
						whole = true
						sites = append(sites, in)
					}
				}
			}
			if whole {
				c.pass(construct, c.at(sites[0]), "update.inputs is appended as a whole before every successful return", c.ats(sites)...)
				continue
			}
			// (b) a loop over update.inputs, every pass of which appends
			n := 0
			for _, in := range find(fn, storeToField(wf)) {
				call, ok := isAppendTo(in)
				if !ok {
					continue
				}
				// the appended element comes from update.inputs[i]
				if !ir.DerivesFrom(call.Call.Args[1], func(x ssa.Value) bool {
					ia, isIA := x.(*ssa.IndexAddr)
					return isIA && loadsField(inputsF)(ia.X)
				}) {
					continue
				}
				h := ir.LoopHeaderOf(in.Block())
				if h == nil {
					continue
				}
				n++
				blocks := ir.LoopBlocks(h)
				var starts []start
				for i, sc := range h.Succs {
					if blocks[sc] {
						starts = append(starts, atEdge(c, ir.Edge{From: h, Succ: i}, "next input of the update"))
					}
				}
				in := in
				c.mustFollowIter(fn, "each input of the update ("+spec.field+")", starts, func(x ssa.Instruction) bool { return x == in }, spec.what, sameThing, 1)
			}
			// (c) collected by such a loop in a local slice that starts as
			// the field's value and is stored back behind the loop
			if n == 0 {
				for _, in := range find(fn, storeToField(wf)) {
					var app *ssa.Call
					ir.DerivesFrom(in.(*ssa.Store).Val, func(x ssa.Value) bool {
						call, ok := x.(*ssa.Call)
						if ok && app == nil && isBuiltin("append")(call) && len(call.Call.Args) == 2 && ir.LoopHeaderOf(call.Block()) != nil &&
							ir.DerivesFrom(call.Call.Args[1], func(y ssa.Value) bool {
								ia, isIA := y.(*ssa.IndexAddr)
								return isIA && loadsField(inputsF)(ia.X)
							}) && ir.DerivesFrom(call.Call.Args[0], loadsField(wf)) {
							app = call
						}
						return false
					})
					if app == nil {
						continue
					}
					h := ir.LoopHeaderOf(app.Block())
					if ir.LoopBlocks(h)[in.Block()] || !h.Dominates(in.Block()) {
						continue
					}
					n++
					blocks := ir.LoopBlocks(h)
					var starts []start
					for i, sc := range h.Succs {
						if blocks[sc] {
							starts = append(starts, atEdge(c, ir.Edge{From: h, Succ: i}, "next input of the update"))
						}
					}
					c.mustFollowIter(fn, "each input of the update ("+spec.field+")", starts, func(x ssa.Instruction) bool { return x == ssa.Instruction(app) }, spec.what, sameThing, 1)
				}
			}
			if n == 0 {
				c.fail(construct, c.P.Pos(fn.Pos()), "update.inputs is neither appended to "+spec.field+" as a whole nor element by element in a loop over it")
			}
		}
	})
	c.rule("C09.O4", "an update that Update() has handed over takes effect: while a rescan waits to catch up, waitForBlocks takes updates off the update channel itself; from the arm that received one, every path reaches the loop that applies the queued updates (updateFilter) before the next wait - an update that is only queued when the wait ends on the following notification is dropped although Update returned nil, and what it added is never matched", func() {
		fn := c.fn("(*neutrino.rescanState).waitForBlocks")
		upd := c.method("neutrino", "rescanOptions", "updateFilter")
		updF := c.field("neutrino", "rescanOptions", "update")
		calls := find(fn, callTo(upd))
		construct := c.nm(fn) + " | a received update reaches the loop applying queued updates"
		if len(calls) == 0 {
			c.fail(construct, c.P.Pos(fn.Pos()), "waitForBlocks no longer applies updates (no updateFilter call)")
			return
		}
		var targets []ssa.Instruction
		for _, call := range calls {
			if h := ir.LoopHeaderOf(call.Block()); h != nil {
				targets = append(targets, h.Instrs[0])
			} else {
				targets = append(targets, call)
			}
		}
		var starts []start
		ir.Instrs(fn, func(in ssa.Instruction) {
			sel, ok := in.(*ssa.Select)
			if !ok {
				return
			}
			for i, st := range sel.States {
				if st.Dir != types.RecvOnly || !loadsField(updF)(st.Chan) {
					continue
				}
				for _, r := range ir.Refs(sel) {
					ex, isEx := r.(*ssa.Extract)
					if !isEx || ex.Index != 0 {
						continue
					}
					for _, ib := range ir.IntEqBranches(ex) {
						if ib.K == int64(i) {
							starts = append(starts, atEdge(c, ib.Edge(), "an update was received"))
						}
					}
				}
			}
		})
		c.mustFollowIter(fn, "an update was received", starts, func(in ssa.Instruction) bool {
			for _, t := range targets {
				if in == t {
					return true
				}
			}
			return false
		}, "the loop applying the queued updates", nil, 1)
	})

	c.rule("C09.V4", "every block from the start time on is searched: the switch rescanState.scanning is only ever set from startTime.Before(T) with T the timestamp of the block that is about to be delivered: in handleBlockConnected the header of the notification itself (not rs.curHeader, which is still its parent there), in rescan's catch-up loop rs.curHeader after it has been moved to the fetched header in that iteration; whoever writes the switch is tabled", func() {
		scanning := rsF("scanning")
		before := c.method("time", "Time", "Before")
		ts := c.field(pWire, "BlockHeader", "Timestamp")
		startTime := c.field("neutrino", "rescanOptions", "startTime")
		ntfnHeader := c.method("blockntfns", "Connected", "Header")
		// the value stored: startTime.Before(<some header>.Timestamp); returns the argument
		argOf := func(st ssa.Instruction) ssa.Value {
			val := ir.Strip(st.(*ssa.Store).Val)
			call, ok := val.(*ssa.Call)
			if k, isC := ir.ConstBool(val); isC && k {
				// `if startTime.Before(T) { scanning = true }`
				fn := st.Parent()
				for _, bc := range find(fn, callTo(before)) {
					for _, br := range ir.TrueBranches(bc.(ssa.Value)) {
						if br.Pol >= 0 && ir.EdgeDominates(fn, br.Edge(), st.Block()) {
							call, ok = bc.(*ssa.Call)
						}
					}
				}
			}
			if !ok || call == nil || !callTo(before)(call) {
				return nil
			}
			recv, a := recvAndArgs(call)
			if len(a) != 1 || !loadsField(startTime)(recv) || !isLoadOfPathSuffix(a[0], ts) {
				return nil
			}
			return a[0]
		}
		hbc := c.fn(fnHBC)
		var bad []string
		sts := find(hbc, storeToField(scanning))
		for _, st := range sts {
			a := argOf(st)
			switch {
			case a == nil:
				bad = append(bad, "the switch is set at "+c.at(st)+" from something other than startTime.Before(header.Timestamp)")
			case loadsField(rsF("curHeader"))(a) || !ir.DerivesFrom(a, valIsCallTo(ntfnHeader)):
				bad = append(bad, "the switch is set at "+c.at(st)+" from a timestamp that is not the notified block's own (rs.curHeader is still the parent there): the first block past the start time is delivered unsearched")
			}
		}
		if len(sts) == 0 {
			bad = append(bad, "handleBlockConnected never sets the switch: a rescan started before its start time never begins to search")
		}
		sort.Strings(bad)
		c.verdict(len(bad) == 0, c.nm(hbc)+" | scanning = startTime.Before(notified header's Timestamp)", c.P.Pos(hbc.Pos()), fmt.Sprintf("%d store(s), each from the notification's own header", len(sts)), join(bad), c.ats(sts)...)
		// catch-up: from rs.curHeader, after it was moved
		rf := c.fn(fnRescan)
		var bad2 []string
		curStores := storeToField(rsF("curHeader"))
		for _, st := range find(rf, storeToField(scanning)) {
			a := argOf(st)
			if a == nil || !loadsField(rsF("curHeader"))(a) {
				bad2 = append(bad2, "the switch is set at "+c.at(st)+" from something other than startTime.Before(rs.curHeader.Timestamp)")
				continue
			}
			h := ir.LoopHeaderOf(st.Block())
			if h == nil {
				continue // the initial position
			}
			// inside the loop: a store to curHeader lies on every path from
			// the loop head to this store
			cut := ir.Cut{}
			reached := false
			ir.Walk(h, 0, cut, func(in ssa.Instruction) bool {
				if curStores(in) {
					return false
				}
				if in == st {
					reached = true
					return false
				}
				return ir.LoopBlocks(h)[in.Block()]
			})
			if reached {
				bad2 = append(bad2, "in the catch-up loop the switch is set at "+c.at(st)+" before rs.curHeader has been moved to the fetched block")
			}
		}
		sort.Strings(bad2)
		c.verdict(len(bad2) == 0, c.nm(rf)+" | scanning = startTime.Before(rs.curHeader.Timestamp) after curHeader moved", c.P.Pos(rf.Pos()), "the switch is decided on the block about to be announced", join(bad2))
		c.whoMay("stores into rescanState.scanning", storeToField(scanning), []string{fnHBC, fnRescan, "neutrino.newRescanState"}, 2)
	})

	c.rule("C09.V3", "no payment to a watched address is skipped: paysWatchedAddr compares the script of every output of the transaction with the script (txscript.PayToAddrScript) of every address that is on ro.watchAddrs at the time of the call (the list is read in the call itself, so addresses added by an update are seen): from each output the loop over the addresses is always entered, and each (output, address) pair reaches the bytes.Equal comparison unless deriving the script failed", func() {
		fn := c.fn("(*neutrino.rescanOptions).paysWatchedAddr")
		p2a := c.P.FuncObj("github.com/btcsuite/btcd/txscript/v2", "PayToAddrScript")
		beq := c.P.FuncObj("bytes", "Equal")
		if p2a == nil || beq == nil {
			panic(anchorErr{"txscript.PayToAddrScript / bytes.Equal"})
		}
		txOutF := c.field(pWire, "MsgTx", "TxOut")
		pkF := c.field(pWire, "TxOut", "PkScript")
		wa := c.field("neutrino", "rescanOptions", "watchAddrs")
		fromOut := func(v ssa.Value) bool {
			return ir.DerivesFrom(v, func(x ssa.Value) bool {
				fa, ok := x.(*ssa.FieldAddr)
				return ok && ir.FieldOfAddr(fa) == pkF
			}) && ir.DerivesFrom(v, func(x ssa.Value) bool { return loadsField(txOutF)(x) })
		}
		fromAddr := func(v ssa.Value) bool {
			return ir.DerivesFrom(v, func(x ssa.Value) bool {
				call, ok := x.(*ssa.Call)
				if !ok || !callTo(p2a)(call) {
					return false
				}
				return ir.DerivesFrom(call.Call.Args[0], func(y ssa.Value) bool { return loadsField(wa)(y) })
			})
		}
		var cmps []ssa.Instruction
		for _, in := range find(fn, callTo(beq)) {
			a := ir.CallOf(in).Args
			if len(a) == 2 && (fromOut(a[0]) && fromAddr(a[1]) || fromOut(a[1]) && fromAddr(a[0])) {
				cmps = append(cmps, in)
			}
		}
		construct := c.nm(fn) + " | every (output, watched address) pair is compared by script"
		if len(cmps) != 1 {
			c.fail(construct, c.P.Pos(fn.Pos()), fmt.Sprintf("%d comparison(s) bytes.Equal(out.PkScript, PayToAddrScript(<element of ro.watchAddrs read in this call>)), 1 tabled: outputs are not compared with the addresses currently on the watch list (a list derived earlier misses addresses added by an update)", len(cmps)))
			return
		}
		cmp := cmps[0]
		var headers []*ssa.BasicBlock
		for _, b := range fn.Blocks {
			if len(ir.BackEdgesTo(b)) > 0 && ir.LoopBlocks(b)[cmp.Block()] {
				headers = append(headers, b)
			}
		}
		sort.Slice(headers, func(i, j int) bool { return len(ir.LoopBlocks(headers[i])) < len(ir.LoopBlocks(headers[j])) })
		if len(headers) != 2 {
			c.fail(construct, c.at(cmp), fmt.Sprintf("the comparison is nested in %d loop(s), 2 tabled (outputs x watched addresses)", len(headers)))
			return
		}
		inner, outer := headers[0], headers[1]
		bodyEdges := func(h *ssa.BasicBlock, what string) []start {
			in := ir.LoopBlocks(h)
			var out []start
			for i, sc := range h.Succs {
				if in[sc] {
					out = append(out, atEdge(c, ir.Edge{From: h, Succ: i}, what))
				}
			}
			return out
		}
		// both loops walk their whole list
		c.fullRange(fn, outer, "the loop over the transaction's outputs", func(v ssa.Value) bool { return loadsField(txOutF)(v) }, 0, func(r *ssa.Return) bool { return false })
		c.fullRange(fn, inner, "the loop over ro.watchAddrs", func(v ssa.Value) bool { return loadsField(wa)(v) }, 0, func(r *ssa.Return) bool { return false }, func(e ir.Edge) bool { return true })
		innerFirst := inner.Instrs[0]
		c.mustFollowIter(fn, "each output of the transaction", bodyEdges(outer, "next output"), func(in ssa.Instruction) bool { return in == innerFirst }, "the loop over ro.watchAddrs", nil, 1)
		var p2aCalls []ssa.Instruction
		for _, in := range find(fn, callTo(p2a)) {
			p2aCalls = append(p2aCalls, in)
		}
		errCut := ir.Cut{}
		for _, st := range errNil("", p2aCalls, 1).sites {
			errCut[st.br.Other()] = true
		}
		c.mustFollowIter(fn, "each (output, watched address) pair", bodyEdges(inner, "next watched address"), func(in ssa.Instruction) bool { return in == cmp }, "bytes.Equal(pkScript, addrScript)", errCut, 1)
	})

	c.rule("C09.V1", "paysWatchedAddr: an output paying a watched address makes the created outpoint watched from then on (appended to both watchInputs and watchList)", func() {
		fn := c.fn("(*neutrino.rescanOptions).paysWatchedAddr")
		wi := c.field("neutrino", "rescanOptions", "watchInputs")
		wl := c.field("neutrino", "rescanOptions", "watchList")
		isAppendStore := func(f *types.Var) Sel {
			return func(in ssa.Instruction) bool {
				if !storeToField(f)(in) {
					return false
				}
				call, ok := in.(*ssa.Store).Val.(*ssa.Call)
				return ok && isBuiltin("append")(call)
			}
		}
		a, b := find(fn, isAppendStore(wi)), find(fn, isAppendStore(wl))
		okv := len(a) == 1 && len(b) == 1 && a[0].Block() == b[0].Block()
		c.verdict(okv, c.nm(fn)+" | watchInputs and watchList both grow on a match", c.P.Pos(fn.Pos()), "both appends in the same block", "a matching output no longer extends both watchInputs and watchList", c.ats(append(a, b...))...)
		// a match must not end the scan of the transaction's outputs
		txOutF := c.field(pWire, "MsgTx", "TxOut")
		var outHeader *ssa.BasicBlock
		ir.Instrs(fn, func(in ssa.Instruction) {
			if ia, ok := in.(*ssa.IndexAddr); ok && isLoadOfPath(ia.X, txOutF) {
				outHeader = ir.LoopHeaderOf(in.Block())
			}
		})
		okScan := outHeader != nil && len(a) == 1
		if okScan {
			// blocks of the natural loop of outHeader
			inLoop := map[*ssa.BasicBlock]bool{outHeader: true}
			var stack []*ssa.BasicBlock
			for e := range ir.BackEdgesTo(outHeader) {
				if !inLoop[e.From] {
					inLoop[e.From] = true
					stack = append(stack, e.From)
				}
			}
			for len(stack) > 0 {
				x := stack[len(stack)-1]
				stack = stack[:len(stack)-1]
				for _, p := range x.Preds {
					if !inLoop[p] {
						inLoop[p] = true
						stack = append(stack, p)
					}
				}
			}
			// from the match, every path returns to the output loop's header
			// before leaving the loop
			cutHdr := ir.Cut{}
			for _, blk := range fn.Blocks {
				for i, sb := range blk.Succs {
					if sb == outHeader {
						cutHdr[ir.Edge{From: blk, Succ: i}] = true
					}
				}
			}
			ir.WalkAfter(a[0], cutHdr, func(in ssa.Instruction) bool {
				if !inLoop[in.Block()] {
					okScan = false
					return false
				}
				return true
			})
		}
		c.verdict(okScan, c.nm(fn)+" | after a match the scan continues with the next output of the transaction", c.P.Pos(fn.Pos()), "control returns to the loop over tx.TxOut", "after one output matched, the remaining outputs of the transaction are no longer examined for that address: a second output paying a watched address is not added to the watch list and its later spend is missed")
		eq := c.funcObj("bytes", "Equal")
		g := boolIs("bytes.Equal(pkScript, addrScript)", find(fn, callTo(eq)), 0, true)
		c.guarded(fn, g, 1, "extend watch lists", append(a, b...), 2, gDominate)
		// the outpoint watched is (tx.Hash(), outIdx)
		txHash := c.method(pBtcutil, "Tx", "Hash")
		okOp := false
		opHash := c.field(pWire, "OutPoint", "Hash")
		for _, st := range find(fn, storeToField(opHash)) {
			okOp = ir.DerivesFrom(st.(*ssa.Store).Val, valIsCallTo(txHash))
		}
		c.verdict(okOp, c.nm(fn)+" | watched outpoint hash = tx.Hash()", c.P.Pos(fn.Pos()), "outpoint built from the transaction's own hash", "the outpoint added to the watch list is not built from tx.Hash()")
	})
}

// isLoadOfPath: v is (a conversion of) a direct load of x.f1.f2... for the
// given field path, with no arithmetic in between.
func isLoadOfPath(v ssa.Value, path ...*types.Var) bool {
	ld, ok := ir.Strip(v).(*ssa.UnOp)
	if !ok {
		return false
	}
	cur := ld.X
	for i := len(path) - 1; i >= 0; i-- {
		fa, ok := cur.(*ssa.FieldAddr)
		if !ok || ir.FieldOfAddr(fa) != path[i] {
			return false
		}
		cur = fa.X
	}
	return true
}

// isLoadOfPathSuffix: v is a load whose innermost field selections end in path.
func isLoadOfPathSuffix(v ssa.Value, path ...*types.Var) bool {
	return isLoadOfPath(v, path...)
}

// isWireOutPointPtr: *wire.OutPoint (the type of the address of a package
// variable holding an outpoint).
func isWireOutPointPtr(t types.Type) bool {
	p, ok := t.(*types.Pointer)
	if !ok {
		return false
	}
	n, ok := p.Elem().(*types.Named)
	return ok && n.Obj().Name() == "OutPoint" && n.Obj().Pkg() != nil && strings.Contains(n.Obj().Pkg().Path(), "btcd/wire")
}
