package rules

import (
	"fmt"
	"sort"

	"golang.org/x/tools/go/ssa"
)

// ---- engine W: who-may ----

// outermost returns the top-level function enclosing fn.
func outermost(fn *ssa.Function) *ssa.Function {
	for fn.Parent() != nil {
		fn = fn.Parent()
	}
	return fn
}

// whoMay: the set of (outermost) module functions containing an instruction
// matching sink must be a subset of allowed. Functions listed in allowed but
// no longer containing a site are reported in the detail only.
func (c *Ctx) whoMay(sinkName string, sink Sel, allowed []string, minSites int) bool {
	construct := "who-may " + sinkName
	allow := map[string]bool{}
	for _, a := range allowed {
		allow[a] = true
	}
	holders := map[string][]string{}
	n := 0
	for _, fn := range c.P.Funcs {
		for _, in := range find(fn, sink) {
			o := c.nm(outermost(fn))
			holders[o] = append(holders[o], c.at(in))
			n++
		}
	}
	c.R.CallSites += n
	var sites, bad []string
	for h, at := range holders {
		sort.Strings(at)
		sites = append(sites, h+"@"+join(at))
		if !allow[h] {
			bad = append(bad, fmt.Sprintf("%s (at %s)", h, join(at)))
		}
	}
	sort.Strings(sites)
	sort.Strings(bad)
	if n < minSites {
		c.undecided(construct, "", fmt.Sprintf("found %d site(s) of %s in the module, the rule table requires at least %d (sink renamed or matcher stale)", n, sinkName, minSites))
		return false
	}
	if len(bad) > 0 {
		c.fail(construct, "", fmt.Sprintf("%s is used outside its tabled owners {%s}: %s", sinkName, join(allowed), join(bad)), sites...)
		return false
	}
	c.pass(construct, "", fmt.Sprintf("%d site(s) of %s, all inside {%s}", n, sinkName, join(allowed)), sites...)
	return true
}
