package rules

import (
	"go/types"

	"fmt"
	"sort"
	"verif/checker/internal/inl"

	"golang.org/x/tools/go/ssa"
)

// ---- engine W: who-may ----

// outermost returns the top-level function enclosing fn.
func outermost(fn *ssa.Function) *ssa.Function {
	for fn.Parent() != nil {
		fn = fn.Parent()
	}
	return fn
}

// whoMay: the set of (outermost) module functions containing an instruction
// matching sink must be a subset of allowed. Functions listed in allowed but
// no longer containing a site are reported in the detail only.
func (c *Ctx) whoMay(sinkName string, sink Sel, allowed []string, minSites int) bool {
	construct := "who-may " + sinkName
	allow := map[string]bool{}
	for _, a := range c.withHosts(allowed) {
		allow[a] = true
	}
	holders := map[string][]string{}
	n := 0
	for _, fn := range c.P.Funcs {
		for _, in := range find(fn, sink) {
			n++
			// a function that did not exist in the pinned tree (and could not
			// be inlined: a goroutine body, a function value) stands for the
			// tabled functions that call or start it
			for _, o := range c.ownersOf(outermost(fn), 0) {
				holders[o] = append(holders[o], c.at(in))
			}
		}
	}
	c.R.CallSites += n
	var sites, bad []string
	for h, at := range holders {
		sort.Strings(at)
		sites = append(sites, h+"@"+join(at))
		if !allow[h] {
			bad = append(bad, fmt.Sprintf("%s (at %s)", h, join(at)))
		}
	}
	sort.Strings(sites)
	sort.Strings(bad)
	if n < minSites {
		c.undecided(construct, "", fmt.Sprintf("found %d site(s) of %s in the module, the rule table requires at least %d (sink renamed or matcher stale)", n, sinkName, minSites))
		return false
	}
	if len(bad) > 0 {
		c.fail(construct, "", fmt.Sprintf("%s is used outside its tabled owners {%s}: %s", sinkName, join(allowed), join(bad)), sites...)
		return false
	}
	c.pass(construct, "", fmt.Sprintf("%d site(s) of %s, all inside {%s}", n, sinkName, join(allowed)), sites...)
	return true
}

// baselineKey is the name of fn in internal/inl/baseline_funcs.txt.
func baselineKey(fn *ssa.Function) string {
	obj, ok := fn.Object().(*types.Func)
	if !ok || obj.Pkg() == nil {
		return ""
	}
	sig := obj.Type().(*types.Signature)
	if sig.Recv() == nil {
		return obj.Pkg().Path() + "." + obj.Name()
	}
	t := sig.Recv().Type()
	ptr := false
	if p, ok := t.(*types.Pointer); ok {
		ptr = true
		t = p.Elem()
	}
	name := "?"
	if n, ok := t.(*types.Named); ok {
		name = n.Obj().Name()
		if n.TypeParams().Len() > 0 {
			name += "[]"
		}
	}
	if ptr {
		return obj.Pkg().Path() + ".(*" + name + ")." + obj.Name()
	}
	return obj.Pkg().Path() + ".(" + name + ")." + obj.Name()
}

// isNewFunc: the (outermost, declared) function is not part of the pinned tree.
func isNewFunc(fn *ssa.Function) bool {
	k := baselineKey(fn)
	return k != "" && !inl.InBaseline(k)
}

// ownersOf names the baseline functions responsible for fn: fn itself when it
// is part of the pinned tree, otherwise the (baseline) functions that call it
// or start it as a goroutine, transitively through other new functions.
func (c *Ctx) ownersOf(fn *ssa.Function, depth int) []string {
	if !isNewFunc(fn) || depth > 4 {
		return []string{c.nm(fn)}
	}
	g := c.graph()
	seen := map[string]bool{}
	var out []string
	add := func(f *ssa.Function) {
		for _, o := range c.ownersOf(outermost(f), depth+1) {
			if !seen[o] {
				seen[o] = true
				out = append(out, o)
			}
		}
	}
	for caller, callees := range g.out {
		for _, t := range callees {
			if t == fn {
				add(caller)
			}
		}
	}
	for _, gs := range g.goSites {
		for _, t := range gs.targets {
			if t == fn {
				add(gs.fn)
			}
		}
	}
	if len(out) == 0 {
		return []string{c.nm(fn)}
	}
	sort.Strings(out)
	return out
}

// withHosts: a tabled function that no longer exists in the current tree (and
// was not renamed) was folded into its callers; its rights pass to the
// functions that called it in the pinned tree (transitively while those are
// missing too).
func (c *Ctx) withHosts(names []string) []string {
	seen := map[string]bool{}
	var out []string
	var add func(n string, d int)
	add = func(n string, d int) {
		if seen[n] || d > 4 {
			return
		}
		seen[n] = true
		if c.P.Func(n) != nil || c.P.Base == nil {
			out = append(out, n)
			return
		}
		callers := c.P.Base.Callers[n]
		if len(callers) == 0 {
			out = append(out, n)
			return
		}
		for _, h := range callers {
			add(h, d+1)
		}
	}
	for _, n := range names {
		add(n, 0)
	}
	return out
}

// hostsOf: the function itself when it exists, else the current functions it
// was folded into (its callers in the pinned tree).
func (c *Ctx) hostsOf(name string) (fns []*ssa.Function, folded bool) {
	if f := c.P.Func(name); f != nil {
		c.R.Funcs[name] = true
		return []*ssa.Function{f}, false
	}
	for _, n := range c.withHosts([]string{name}) {
		if f := c.P.Func(n); f != nil {
			c.R.Funcs[n] = true
			fns = append(fns, f)
		}
	}
	if len(fns) == 0 {
		panic(anchorErr{"function " + name + " (and the functions that called it in the pinned tree)"})
	}
	return fns, true
}

// methodsOpt: the named methods that exist in the current tree.
func (c *Ctx) methodsOpt(pkg, typ string, names ...string) []*types.Func {
	var out []*types.Func
	for _, n := range names {
		if m := c.P.Method(pkg, typ, n); m != nil {
			out = append(out, m)
		}
	}
	return out
}
