package rules

import (
	"fmt"
	"go/token"
	"go/types"
	"sort"

	"golang.org/x/tools/go/ssa"

	"verif/checker/internal/ir"
)

func init() {
	register(&Prop{ID: "C08", Run: runC08, NotDecided: []string{
		"which bytes of an interrupted write reach the disk (the rules fix what the reopen does with whatever it finds: C08.O4, C08.O7, C08.V1)",
		"fsync ordering across power loss (process death only is considered)",
		"that syncing resumes correctly after recovery",
	}})
}

func runC08(c *Ctx) {
	c.rule("C08.O1", "append order: in both WriteHeaders the file append (appendRaw) precedes the index commit, so at every crash point the file contains at least what the index names (the only shape start-up reconciliation repairs)", func() {
		c.mustPrecede(c.fn(fnBWrite), callTo(c.hfs("headerStore", "appendRaw")), "appendRaw", callTo(c.hfs("headerIndex", "addHeaders")), "addHeaders", 1)
		c.mustPrecede(c.fn(fnFWrite), callTo(c.hfs("headerStore", "appendRaw")), "appendRaw", callTo(c.hfs("headerIndex", "truncateIndices")), "truncateIndices", 1)
		g := errNil("appendRaw", find(c.fn(fnBWrite), callTo(c.hfs("headerStore", "appendRaw"))), 0)
		c.guarded(c.fn(fnBWrite), g, 1, "addHeaders", find(c.fn(fnBWrite), callTo(c.hfs("headerIndex", "addHeaders"))), 1, gDominate)
		g2 := errNil("appendRaw", find(c.fn(fnFWrite), callTo(c.hfs("headerStore", "appendRaw"))), 0)
		c.guarded(c.fn(fnFWrite), g2, 1, "truncateIndices", find(c.fn(fnFWrite), callTo(c.hfs("headerIndex", "truncateIndices"))), 1, gDominate)
	})

	c.rule("C08.O2", "rollback order: the index is moved back (truncateIndices) before the file is cut (truncateHeaders); the reverse order leaves, after a crash between the steps, an index tip beyond the end of the file, which the start-up reconciliation cannot repair (unsigned fileHeight-tipHeight)", func() {
		for _, name := range []string{fnBRoll, fnFRoll} {
			fn := c.fn(name)
			c.mustPrecede(fn, callTo(c.hfs("headerIndex", "truncateIndices")), "truncateIndices", callTo(c.hfs("headerFile", "truncateHeaders")), "truncateHeaders", 1)
			g := errNil("truncateIndices", find(fn, callTo(c.hfs("headerIndex", "truncateIndices"))), 0)
			c.guarded(fn, g, 1, "truncateHeaders", find(fn, callTo(c.hfs("headerFile", "truncateHeaders"))), 1, gDominate)
		}
	})

	c.rule("C08.O5", "index commit is one durable step: each index operation (append: entries + tip; rollback: tip + deletions) is exactly one database transaction, so a crash cannot leave the tip pointer and the hash entries out of step", func() {
		c.indexAtomic()
	})

	c.rule("C08.O3", "cross-store order: rollBackToHeight rolls the filter store back before the block store in each step; the import writes block headers before filter headers and rolls the block store back when the filter write fails; handleHeadersMsg commits its batch with a single WriteHeaders call", func() {
		fhsRoll := c.method("headerfs", "FilterHeaderStore", "RollbackLastBlock")
		bhsRoll := c.method("headerfs", "BlockHeaderStore", "RollbackLastBlock")
		fn := c.fn(fnRollBack)
		// from the block rollback no filter rollback of the same iteration follows
		c.neverAfter(fn, callTo(bhsRoll), "BlockHeaders.RollbackLastBlock", callTo(fhsRoll), "RegFilterHeaders.RollbackLastBlock (same iteration)", 1, ir.BackEdges(fn))
		fi := c.fn(fnImportW)
		bw := c.method("headerfs", "BlockHeaderStore", "WriteHeaders")
		fw := c.method("headerfs", "FilterHeaderStore", "WriteHeaders")
		c.mustPrecede(fi, callTo(bw), "TargetBlockHeaderStore.WriteHeaders", callTo(fw), "TargetFilterHeaderStore.WriteHeaders", 1)
		c.guarded(fi, errNil("block WriteHeaders", find(fi, callTo(bw)), 0), 1, "filter WriteHeaders", find(fi, callTo(fw)), 1, gDominate)
		gf := errNil("filter WriteHeaders", find(fi, callTo(fw)), 0)
		rb := c.method("headerfs", "BlockHeaderStore", "RollbackBlockHeaders")
		c.mustFollow(fi, "filter WriteHeaders failed", c.failEdges(gf), callTo(rb), "TargetBlockHeaderStore.RollbackBlockHeaders(len(blockHeaders))", nil, 1)
		okN := false
		for _, r := range find(fi, callTo(rb)) {
			okN = ir.DerivesFrom(argsOf(r)[0], func(x ssa.Value) bool {
				call, ok := x.(*ssa.Call)
				return ok && isBuiltin("len")(call) && call.Call.Args[0] == ssa.Value(fi.Params[1])
			})
		}
		c.verdict(okN, c.nm(fi)+" | block store rolled back by len(blockHeaders)", c.P.Pos(fi.Pos()), "RollbackBlockHeaders(uint32(len(blockHeaders)))", "the compensating rollback does not remove exactly the block headers just written")
		// single batch write in handleHeadersMsg, outside the per-header loop
		hh := c.fn(fnHandleHeaders)
		hdr := c.P.Named("headerfs", "BlockHeader")
		var batch []ssa.Instruction
		for _, w := range find(hh, callTo(bw)) {
			a := argsOf(w)
			if len(a) == 1 && ir.DerivesFrom(a[0], func(v ssa.Value) bool {
				in, ok := v.(ssa.Instruction)
				return ok && appendsOf(hdr)(in)
			}) {
				batch = append(batch, w)
			}
		}
		okOnce := len(batch) == 1 && ir.LoopHeaderOf(batch[0].Block()) == nil
		c.verdict(okOnce, c.nm(hh)+" | validated batch committed by one WriteHeaders outside any loop", c.P.Pos(hh.Pos()), "one batch write, not inside a loop", "the validated batch is not committed by exactly one WriteHeaders call outside the per-header loop", c.ats(batch)...)
	})

	c.rule("C08.O6", "every batch the importer makes durable leaves both stores openable (a filter batch written without its tip block hash leaves a zero tip pointer that the next start-up cannot resolve): "+consistentBatchesDoc, func() { c.consistentBatches() })

	c.rule("C08.O4", "start-up reconciliation: on every non-empty open both constructors read the index tip (chainTip), compare it with the last record in the file and cut the file back (truncateHeaders) when they differ, before returning the store", func() {
		c.startupReconciliation(reconSpec{fnNewB, "IsEqual"}, reconSpec{fnNewF, "IsEqual"})
	})

	c.rule("C08.O8", "a reorganisation interrupted by a crash can be resumed: the crash may leave the filter header store one block behind the block header store (its rollback step runs first); the resumed rollback then skips the filter step for exactly the blocks the filter store no longer has and performs it for the others - a test of the filter tip against the rollback target instead of against the block being removed cuts the filter store once too often, its tip names a block that is gone and the store cannot be opened again; "+filterRollbackFirstDoc, func() { c.filterRollbackFirst() })
	c.rule("C08.V1", truncatesWholeRecordsDoc, func() { c.truncatesWholeRecords() })

	c.rule("C08.O7", "a write torn by a crash is cut off before the file is used again: newHeaderStore calls trimPartialHeader on the file it just opened and hands the store out only if that succeeded; trimPartialHeader leaves the file alone only when its size is a whole number of records (size % record size == 0) and otherwise truncates it to size - size % record size, both taken from the file's Stat and the header type's Size (the file is append-only: a fragment left behind shifts every later record, and the start-up reconciliation only removes whole records)", func() {
		nh := c.fn("headerfs.newHeaderStore")
		var okRets []ssa.Instruction
		for _, in := range find(nh, isExit) {
			r := in.(*ssa.Return)
			if len(r.Results) == 2 && !ir.IsNil(ir.RetVal(r, 0)) {
				okRets = append(okRets, in)
			}
		}
		// the trimming lives in trimPartialHeader or, folded, in newHeaderStore itself
		tf := c.P.Func("(*headerfs.headerFile).trimPartialHeader")
		folded := tf == nil
		if folded {
			tf = nh
		} else {
			c.R.Funcs[c.nm(tf)] = true
			calls := find(nh, callTo(c.hfs("headerFile", "trimPartialHeader")))
			c.guarded(nh, errNil("trimPartialHeader(hType)", calls, 0), 1, "return the opened store", okRets, 1, gDominate)
		}
		truncFile := c.hfs("headerFile", "truncateFile")
		sizeOfType := c.method("headerfs", "HeaderType", "Size")
		isFileSize := func(v ssa.Value) bool {
			call, ok := ir.Strip(v).(*ssa.Call)
			if !ok || !call.Call.IsInvoke() || call.Call.Method.Name() != "Size" {
				return false
			}
			return ir.DerivesFrom(call.Call.Value, func(x ssa.Value) bool {
				cc, ok := x.(*ssa.Call)
				return ok && cc.Call.IsInvoke() && cc.Call.Method.Name() == "Stat"
			})
		}
		isRecSize := func(v ssa.Value) bool {
			return ir.DerivesFrom(v, valIsCallTo(sizeOfType)) && !isFileSize(v)
		}
		isRem := func(v ssa.Value) bool {
			b, ok := ir.Strip(v).(*ssa.BinOp)
			return ok && b.Op == token.REM && isFileSize(liveValue(b.X, b)) && isRecSize(liveValue(b.Y, b))
		}
		var tr []ssa.Instruction
		for _, in := range find(tf, callTo(truncFile)) {
			a := argsOf(in)
			if b, isB := ir.Strip(a[0]).(*ssa.BinOp); len(a) == 1 && isB && b.Op == token.SUB && isFileSize(liveValue(b.X, b)) && isRem(b.Y) {
				tr = append(tr, in)
			}
		}
		c.verdict(len(tr) >= 1, c.nm(tf)+" | truncates to size - size % record size", c.P.Pos(tf.Pos()), "truncateFile(fileSize - fileSize % recordSize)", "the file is not cut back to the last whole record on open (size - size % record size, with size from Stat and the record size from HeaderType.Size)", c.ats(tr)...)
		// success without truncation only for a whole number of records
		whole := equalIs("size % record size vs 0", find(tf, binops(eqOps, isRem, constIntIs(0))), true)
		if folded {
			g := unionGuard("size % record size == 0, or truncateFile(size - size % record size) = nil", whole, errNil("truncateFile(size - size % record size)", tr, 0))
			c.guarded(nh, g, 1, "return the opened store", okRets, 1, gDominate)
		} else {
			var nilRets []ssa.Instruction
			for _, in := range find(tf, isExit) {
				r := in.(*ssa.Return)
				if len(r.Results) == 1 && ir.IsNil(r.Results[0]) {
					nilRets = append(nilRets, in)
				}
			}
			c.guarded(tf, whole, 1, "return nil without truncating", nilRets, 1, gDominate)
		}
	})
}

type reconSpec struct{ name, eq string }

// startupReconciliation: the constructors named in specs bring the flat file
// back to the index tip before handing the store out (see C08.O4).
func (c *Ctx) startupReconciliation(specs ...reconSpec) {
	for _, spec := range specs {
		fn := c.fn(spec.name)
		// success returns outside the "file empty" branch
		var okRets []ssa.Instruction
		for _, in := range find(fn, isExit) {
			r := in.(*ssa.Return)
			if ir.IsNil(ir.RetVal(r, 1)) {
				okRets = append(okRets, in)
			}
		}
		// the Size()==0 comparison
		var emptyCmp []ssa.Instruction
		ir.Instrs(fn, func(in ssa.Instruction) {
			b, ok := in.(*ssa.BinOp)
			if !ok {
				return
			}
			k, isC := ir.ConstInt(b.Y)
			if !isC || k != 0 {
				return
			}
			// (the size itself, also when a result variable of a helper
			// carried it here)
			var isSize func(v ssa.Value, d int) bool
			isSize = func(v ssa.Value, d int) bool {
				v = ir.Strip(v)
				if call, ok := v.(*ssa.Call); ok && call.Call.IsInvoke() && call.Call.Method.Name() == "Size" {
					return true
				}
				if ph, ok := v.(*ssa.Phi); ok && d < 3 {
					found := false
					for _, e := range ph.Edges {
						if _, isC := e.(*ssa.Const); isC {
							continue
						}
						if !isSize(e, d+1) {
							return false
						}
						found = true
					}
					return found
				}
				return false
			}
			if isSize(b.X, 0) {
				emptyCmp = append(emptyCmp, in)
			}
		})
		ge := equalIs("fileInfo.Size() vs 0", emptyCmp, false) // success = non-empty
		cut := ir.Cut{}
		for _, s := range ge.sites {
			cut[s.br.Other()] = true
		}
		tip := c.hfs("headerIndex", "chainTip")
		isEq := c.method(pChainhash, "Hash", "IsEqual")
		trunc := c.hfs("headerFile", "truncateHeaders")
		construct := c.nm(fn) + " | non-empty open: chainTip precedes every successful return"
		if len(ge.sites) < 1 {
			c.fail(construct, c.P.Pos(fn.Pos()), "no `fileInfo.Size() == 0` test found")
			continue
		}
		var bad []string
		isTip := callTo(tip)
		// recursive re-open (after a reset) is itself a constructor call
		self := func(in ssa.Instruction) bool {
			cc := ir.CallOf(in)
			return cc != nil && cc.StaticCallee() == fn
		}
		ir.Walk(fn.Blocks[0], 0, cut, func(in ssa.Instruction) bool {
			if isTip(in) || self(in) {
				return false
			}
			if r, ok := in.(*ssa.Return); ok && ir.IsNil(ir.RetVal(r, 1)) {
				bad = append(bad, c.at(in))
			}
			return true
		})
		// (not vacuous: behind the tip read a successful return can be reached;
		// the empty and the non-empty open may share one return statement)
		behindTip := false
		for _, t := range find(fn, isTip) {
			ir.WalkAfter(t, nil, func(in ssa.Instruction) bool {
				if r, ok := in.(*ssa.Return); ok && ir.IsNil(ir.RetVal(r, 1)) {
					behindTip = true
				}
				return !behindTip
			})
		}
		c.verdict(len(bad) == 0 && len(okRets) >= 1 && behindTip, construct, c.P.Pos(fn.Pos()), "every successful return of a non-empty open is preceded by chainTip()", "successful return at "+join(bad)+" reachable on a non-empty open without reading the index tip", c.ats(okRets)...)
		// the record the tip is compared with is the LAST one of the file:
		// read at a height computed from the file's size, not at the
		// index tip's height (that record matches whenever the file is
		// merely ahead, and the surplus records would be kept)
		isSize := func(x ssa.Value) bool {
			call, ok := x.(*ssa.Call)
			return ok && call.Call.IsInvoke() && call.Call.Method.Name() == "Size"
		}
		var reads []ssa.Instruction
		okLast := true
		for _, in := range find(fn, func(in ssa.Instruction) bool {
			cc := ir.CallOf(in)
			if cc == nil || cc.StaticCallee() == nil {
				return false
			}
			return c.on(cc.StaticCallee().Object()) == "readHeader"
		}) {
			v, isV := in.(ssa.Value)
			if !isV {
				continue
			}
			feeds := false
			for _, e := range find(fn, callTo(isEq)) {
				for _, a := range ir.CallOf(e).Args {
					if ir.InfluencedBy(a, func(x ssa.Value) bool { return x == v }) {
						feeds = true
					}
				}
			}
			if !feeds {
				continue
			}
			reads = append(reads, in)
			_, a := recvAndArgs(in)
			if len(a) != 1 || !ir.InfluencedBy(a[0], isSize) || ir.InfluencedBy(a[0], valIsCallTo(tip)) {
				okLast = false
			}
		}
		c.verdict(okLast && len(reads) >= 1, c.nm(fn)+" | the index tip is compared with the file's last record", c.P.Pos(fn.Pos()), "readHeader(height computed from the file size) feeds the comparison", "the record compared with the index tip is not read at the height computed from the file's size: when the file is ahead of the index the surplus records are not noticed", c.ats(reads)...)
		geq := boolIs("tipHash.IsEqual(latest file record)", find(fn, callTo(isEq)), 0, true)
		// the one state truncation cannot repair is an index tip beyond the
		// end of the file (the subtraction below wraps and the truncation
		// fails): refusing to open on the edge where the tip height read
		// from the index is greater than the height computed from the file
		// size changes nothing; every other refusal leaves a store that a
		// crash produced unopened
		isTipH := func(v ssa.Value) bool {
			e, ok := ir.Strip(v).(*ssa.Extract)
			return ok && e.Index == 1 && valIsCallTo(tip)(e.Tuple)
		}
		isFileH := func(v ssa.Value) bool {
			return ir.InfluencedBy(v, isSize) && !ir.InfluencedBy(v, valIsCallTo(tip))
		}
		ahead, _ := relGuard("index tip height > file height", fn, isTipH, isFileH, token.GTR)
		c.mustFollow(fn, "index tip != last file record", c.failEdges(geq), callTo(trunc), "truncateHeaders(fileHeight-tipHeight)", ahead.cut(), 1)
		c.guarded(fn, errNil("truncateHeaders", find(fn, callTo(trunc)), 0), 1, "return store after reconciliation", nil, 0, gDominate)
	}
}

const truncatesWholeRecordsDoc = "whole records are cut off the real end of the file: truncateHeaders computes the new length as (current length) - numHeaders * (record size), where the current length is asked of the file in that call (Stat().Size() or Seek(0, io.SeekEnd)); a remembered length is accepted only if every function of the package that changes the file's length (Write / Truncate on it, os.Truncate) - or each of its callers - writes the remembered length again after doing so: a length recorded before the start-up trim of a torn tail stays too large by the fragment, every later rollback leaves that fragment of a removed header behind, and the append-only file then holds every later record at a shifted offset"

// truncatesWholeRecords: see truncatesWholeRecordsDoc.
func (c *Ctx) truncatesWholeRecords() {
	fn := c.fn("(*headerfs.headerFile).truncateHeaders")
	truncFile := c.hfs("headerFile", "truncateFile")
	sizeOfType := c.method("headerfs", "HeaderType", "Size")
	lenChange := func(in ssa.Instruction) bool {
		cc := ir.CallOf(in)
		if cc == nil {
			return false
		}
		if cc.IsInvoke() {
			n := cc.Method.Name()
			if n != "Truncate" && n != "Write" && n != "WriteString" && n != "WriteAt" {
				return false
			}
			// on the header file: an interface with Stat and Truncate
			it, ok := cc.Value.Type().Underlying().(*types.Interface)
			if !ok {
				return false
			}
			has := false
			for i := 0; i < it.NumMethods(); i++ {
				if it.Method(i).Name() == "Truncate" {
					has = true
				}
			}
			return has
		}
		if f := cc.StaticCallee(); f != nil && f.Pkg != nil && f.Pkg.Pkg.Path() == "os" {
			if f.Name() == "Truncate" && f.Signature.Recv() == nil {
				return true
			}
			if r := f.Signature.Recv(); r != nil && (f.Name() == "Truncate" || f.Name() == "Write" || f.Name() == "WriteString" || f.Name() == "WriteAt") {
				return true
			}
		}
		return false
	}
	isTrunc := func(in ssa.Instruction) bool {
		if callTo(truncFile)(in) {
			return true
		}
		cc := ir.CallOf(in)
		if cc == nil {
			return false
		}
		if cc.IsInvoke() {
			return cc.Method.Name() == "Truncate"
		}
		f := cc.StaticCallee()
		return f != nil && f.Name() == "Truncate" && f.Pkg != nil && f.Pkg.Pkg.Path() == "os"
	}
	asked := func(v ssa.Value) bool {
		return ir.InfluencedBy(v, func(x ssa.Value) bool {
			cc, ok := x.(*ssa.Call)
			if !ok {
				return false
			}
			name := ""
			if cc.Call.IsInvoke() {
				name = cc.Call.Method.Name()
			} else if f := cc.Call.StaticCallee(); f != nil {
				name = f.Name()
			}
			switch name {
			case "Stat":
				return true
			case "Seek":
				a := argsOf(cc)
				if len(a) == 2 {
					k, isC := ir.ConstInt(a[1])
					return isC && k == 2
				}
			}
			return false
		})
	}
	var remembered *types.Var
	fieldOf := func(v ssa.Value) bool {
		return ir.DerivesFrom(v, func(x ssa.Value) bool {
			if fa, ok := x.(*ssa.FieldAddr); ok {
				if bt, isB := ir.FieldOfAddr(fa).Type().Underlying().(*types.Basic); isB && bt.Info()&types.IsInteger != 0 {
					remembered = ir.FieldOfAddr(fa)
					return true
				}
			}
			return false
		})
	}
	cuts := find(fn, isTrunc)
	construct := c.nm(fn) + " | new length = current length - numHeaders * record size"
	if len(cuts) == 0 {
		c.fail(construct, c.P.Pos(fn.Pos()), "no truncation (truncateFile / Truncate) found in truncateHeaders")
		return
	}
	for _, in := range cuts {
		a := argsOf(in)
		b, isB := ir.Strip(a[len(a)-1]).(*ssa.BinOp)
		if !isB || b.Op != token.SUB {
			c.fail(construct, c.at(in), "the new length is not a difference (current length - bytes to remove)", c.at(in))
			continue
		}
		okSub := ir.InfluencedBy(b.Y, func(x ssa.Value) bool { return x == ssa.Value(fn.Params[1]) }) && ir.InfluencedBy(b.Y, valIsCallTo(sizeOfType))
		if m, isM := ir.Strip(b.Y).(*ssa.BinOp); !isM || m.Op != token.MUL {
			okSub = false
		}
		c.verdict(okSub, c.nm(fn)+" | bytes to remove = numHeaders * record size", c.at(in), "numHeaders * headerType.Size()", "the number of bytes cut off is not the product of numHeaders and the record size of the header type", c.at(in))
		// every new length from zero up is cut to: the file's very first
		// record is appended and, when its index update fails, taken off
		// again like any other (a floor of one record would leave it behind
		// and the store could never be opened again)
		neg, _ := relGuard("new length < 0", fn, func(v ssa.Value) bool { return ir.Strip(v) == ssa.Value(b) }, constIntIs(0), token.LSS)
		c.mustFollow(fn, "the new length is computed", []start{afterInstr(c, b)}, isTrunc, "the truncation", neg.cut(), 1)
		switch {
		case asked(b.X):
			c.pass(construct, c.at(in), "the current length is read from the file (Stat / Seek to the end) in this call", c.at(in))
		case fieldOf(b.X):
			// every length change is followed by a refresh of the field
			refresh := storeToField(remembered)
			var bad []string
			var sites []string
			var follows func(f *ssa.Function, at ssa.Instruction, depth int, trail string)
			follows = func(f *ssa.Function, at ssa.Instruction, depth int, trail string) {
				// found: the field is written behind the change; moot: every
				// way on from here ends in an error return (the change was
				// being undone, or is reported as failed)
				found, moot := false, true
				nres := f.Signature.Results().Len()
				ir.WalkAfter(at, nil, func(x ssa.Instruction) bool {
					if refresh(x) {
						found = true
					}
					if ret, isRet := x.(*ssa.Return); isRet {
						if nres == 0 {
							moot = false
						} else if rv := ir.RetVal(ret, nres-1); ir.IsNil(rv) || !(nonNilAt(rv, ret.Block()) || knownNonNilError(rv)) {
							moot = false
						}
					}
					return !found
				})
				if found || moot {
					return
				}
				var callers []ssa.Instruction
				var cfns []*ssa.Function
				for _, g := range c.P.Funcs {
					g := g
					ir.Instrs(g, func(x ssa.Instruction) {
						if cc := ir.CallOf(x); cc != nil && cc.StaticCallee() == f {
							callers = append(callers, x)
							cfns = append(cfns, g)
						}
					})
				}
				if len(callers) == 0 || depth >= 3 {
					bad = append(bad, trail+" is not followed by a write of "+c.on(remembered))
					return
				}
				for i, x := range callers {
					follows(cfns[i], x, depth+1, c.nm(cfns[i])+" at "+c.at(x)+" -> "+trail)
				}
			}
			for _, g := range c.P.Funcs {
				if g.Pkg == nil || g.Pkg != fn.Pkg {
					continue
				}
				g := g
				for _, x := range find(g, lenChange) {
					sites = append(sites, c.at(x))
					follows(g, x, 0, c.nm(g)+" at "+c.at(x))
				}
			}
			sort.Strings(bad)
			c.verdict(len(bad) == 0 && len(sites) >= 2, construct, c.at(in), fmt.Sprintf("the remembered length %s is written again after each of the %d length changes of the file", c.on(remembered), len(sites)), "the current length is the remembered "+c.on(remembered)+", which goes stale: "+join(uniq(bad)), sites...)
		default:
			c.fail(construct, c.at(in), "the current length is neither read from the file in this call nor a remembered field", c.at(in))
		}
	}
}
