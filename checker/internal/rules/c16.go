package rules

import (
	"fmt"
	"go/token"
	"sort"
	"strings"

	"golang.org/x/tools/go/ssa"

	"verif/checker/internal/ir"
)

func init() {
	register(&Prop{ID: "C16", Run: runC16, NotDecided: []string{
		"LRU eviction order and equivalence with a reference map over operation histories",
		"linearizability of concurrent operations (only lock pairing, guarded-by and index co-guarding are decided)",
	}})
}

// lruMethods returns every method of lru.Cache (generic origin bodies).
func (c *Ctx) lruMethods() []*ssa.Function {
	var out []*ssa.Function
	for _, fn := range c.P.Funcs {
		n := c.nm(fn)
		if strings.HasPrefix(n, "(*cache/lru.Cache[") && fn.Parent() == nil {
			out = append(out, fn)
			c.R.Funcs[n] = true
		}
	}
	if len(out) < 8 {
		panic(anchorErr{"methods of cache/lru.Cache (found fewer than 8)"})
	}
	return out
}

var listMutators = map[string]bool{"Remove": true, "PushFront": true, "PushBack": true, "MoveToFront": true, "MoveToBack": true,
	"MoveBefore": true, "MoveAfter": true, "InsertBefore": true, "InsertAfter": true, "Init": true, "PushBackList": true, "PushFrontList": true}

func runC16(c0 *Ctx) {
	c0.rule("C16.P1", "cache/lru.Cache: in every method each exit is reached with the mutex released (no lock leak on error paths), no double acquire, no release of an unheld lock", func() {
		c := c0.onCache()
		res := c.lockResults()
		var fns []*ssa.Function
		for _, fn := range c.lruMethods() {
			// function literals run inside the method (callbacks handed to
			// Option.WhenSome etc.) are analysed with the lockset of their
			// creation site
			fns = append(fns, ir.WithClosures(fn)...)
			_ = res
		}
		entry := map[string]map[lockKey]string{}
		for fn, e := range c.lentry {
			entry[c.nm(fn)] = e
		}
		c.pairing(fns, entry, 5)
	})

	c0.rule("C16.P2", "cache/lru.Cache: no method takes mtx again, itself or through a method it calls on the same cache, while it already holds it (sync.RWMutex is not reentrant: Lock inside Lock blocks for good, RLock inside Lock likewise - a size or length accessor called for a log line from inside Put or evict stops every user of the cache); "+lockOrderDoc, func() {
		c := c0.onCache()
		c.lruMethods()
		c.lockOrderMin(0)
	})

	c0.rule("C16.W1", "the unordered walk is a walk of the key index: RangeFILO and RangeFIFO walk the recency list without the mutex (the open finding F12: they are safe only while nothing else touches the cache); Range promises one visit per resident key whatever the visitor or other goroutines do to the cache meanwhile, and gets that from the index's own Range; so no function of the cache module calls the two list walkers, and nothing reachable from Range touches the recency list - a Range that is just RangeFILO stops at the first entry its visitor deletes and presents an entry twice when a Get moves it to the front", func() {
		c := c0.onCache()
		c.lruMethods()
		g := c.graph()
		ll := c.field("cache/lru", "Cache", "ll")
		isWalker := func(fn *ssa.Function) bool {
			n := c.nm(fn)
			return strings.HasSuffix(n, ").RangeFILO") || strings.HasSuffix(n, ").RangeFIFO")
		}
		var bad, sites []string
		walkers := 0
		for _, fn := range c.P.Funcs {
			if isWalker(outermost(fn)) {
				if fn.Parent() == nil {
					walkers++
				}
				continue
			}
			for _, callee := range g.out[fn] {
				if isWalker(callee) {
					bad = append(bad, c.nm(fn)+" calls the unlocked list walker "+c.nm(callee))
				}
			}
		}
		var rng *ssa.Function
		for _, fn := range c.lruMethods() {
			if strings.HasSuffix(c.nm(fn), ").Range") {
				rng = fn
			}
		}
		if rng == nil {
			c.undecided("cache/lru.Cache | Range", "", "method Range not found")
			return
		}
		for fn := range c.reachable(rng) {
			for _, a := range accessesOf(fn, ll, nil) {
				bad = append(bad, "the recency list is touched at "+c.at(a.in)+" in "+c.nm(fn)+", reachable from Range")
			}
			sites = append(sites, c.nm(fn))
		}
		sort.Strings(bad)
		sort.Strings(sites)
		c.verdict(len(bad) == 0 && walkers == 2, "cache/lru.Cache | Range walks the index; the list walkers have no caller in the module", c.P.Pos(rng.Pos()), fmt.Sprintf("%d function(s) reachable from Range, none touches ll; RangeFILO / RangeFIFO are not called", len(sites)), join(uniq(bad))+fmt.Sprintf(" (%d list walkers found, 2 tabled)", walkers), sites...)
	})

	c0.rule("C16.L1", "cache/lru.Cache: the recency list ll and the running total size are accessed only under mtx (exclusive for mutation); helpers running under the caller's lock inherit it from all their call sites", func() {
		c := c0.onCache()
		c.lruMethods()
		mtx := c.field("cache/lru", "Cache", "mtx")
		c.guardedBy([]gField{
			{field: c.field("cache/lru", "Cache", "ll"), mutex: mtx, mutators: listMutators,
				exempt: map[string]string{"cache/lru.NewCache": "constructor: the cache is not yet published"}},
			{field: c.field("cache/lru", "Cache", "size"), mutex: mtx,
				exempt: map[string]string{"cache/lru.NewCache": "constructor: the cache is not yet published"}},
		}, 12)
	})

	c0.rule("C16.L2", "cache/lru.Cache index co-guarding: in every method that takes mtx, every access to the key->element index (field cache) lies inside the critical section, so the element looked up is the element mutated", func() {
		c := c0.onCache()
		res := c.lockResults()
		idx := c.field("cache/lru", "Cache", "cache")
		key := lockKey{c.field("cache/lru", "Cache", "mtx")}
		n := 0
		for _, fn := range c.lruMethods() {
			r := res[fn]
			if r.ops == 0 && len(c.lentry[fn]) == 0 {
				continue
			}
			acc := accessesOf(fn, idx, nil)
			if len(acc) == 0 {
				continue
			}
			n += len(acc)
			var bad, sites []string
			for _, a := range acc {
				sites = append(sites, c.at(a.in))
				if _, held := r.mustHold[a.in][key]; !held {
					bad = append(bad, "index access at "+c.at(a.in)+" outside the critical section")
				}
			}
			sort.Strings(bad)
			construct := "index cache co-guarded by mtx | " + c.nm(fn)
			if len(bad) > 0 {
				c.fail(construct, c.at(acc[0].in), join(bad), sites...)
			} else {
				c.pass(construct, c.P.Pos(fn.Pos()), fmt.Sprintf("%d index access(es) inside the critical section", len(acc)), sites...)
			}
		}
		if n < 4 {
			c.undecided("index accesses | floor", "", fmt.Sprintf("found %d index accesses in locking methods, need 4", n))
		}
	})

	c0.rule("C16.O1", "least recently used goes first: every successful Put (nil error) and every successful Get has put the key's element at the front of the recency list on its way (List.PushFront / List.MoveToFront), also when Put replaces a resident value; evict only ever removes the element it got from List.Back()", func() {
		c := c0.onCache()
		pushFront := c.method("cache/lru", "List", "PushFront")
		toFront := c.method("cache/lru", "List", "MoveToFront")
		back := c.method("cache/lru", "List", "Back")
		remove := c.method("cache/lru", "List", "Remove")
		isFront := callTo(pushFront, toFront)
		for _, name := range []string{"(*cache/lru.Cache[K, V]).Put", "(*cache/lru.Cache[K, V]).Get"} {
			fn := c.fn(name)
			isOK := func(in ssa.Instruction) bool {
				r, ok := in.(*ssa.Return)
				return ok && errSuccess(r)
			}
			c.mustPrecede(fn, isFront, "ll.PushFront / ll.MoveToFront", isOK, "a successful return", 1)
		}
		evs, evFolded := c.hostsOf("(*cache/lru.Cache[K, V]).evict")
		ev := evs[0]
		rm := find(ev, func(in ssa.Instruction) bool {
			return callTo(remove)(in) && (!evFolded || ir.LoopHeaderOf(in.Block()) != nil)
		})
		okv := len(rm) >= 1
		for _, in := range rm {
			a := argsOf(in)
			if len(a) != 1 || !ir.DerivesFrom(a[0], valIsCallTo(back)) {
				okv = false
			}
		}
		c.verdict(okv, c.nm(ev)+" | evicts from the back of the recency list", c.P.Pos(ev.Pos()), fmt.Sprintf("%d Remove(ll.Back()) site(s)", len(rm)), "evict removes an element that is not the one returned by ll.Back() (or removes nothing)", c.ats(rm)...)
	})

	c0.rule("C16.O2", "one element per key: when Put finds the key resident (the index lookup says so) the resident element is taken off the recency list before the new one is linked (List.Remove precedes List.PushFront on every path on which the lookup found the key; an error return on the way is the only other way out): an element left linked is counted, walked and later evicted under a key that was replaced, and its eviction removes the live entry from the index", func() {
		c := c0.onCache()
		pushFront := c.method("cache/lru", "List", "PushFront")
		remove := c.method("cache/lru", "List", "Remove")
		put := c.fn("(*cache/lru.Cache[K, V]).Put")
		idx := c.field("cache/lru", "Cache", "cache")
		loadM := c.method("cache/lru", "syncMap", "Load")
		var loads []ssa.Instruction
		ir.Instrs(put, func(in ssa.Instruction) {
			cc := ir.CallOf(in)
			if cc == nil || cc.IsInvoke() || !callTo(loadM)(in) || len(cc.Args) == 0 {
				return
			}
			if fa, ok := ir.Strip(cc.Args[0]).(*ssa.FieldAddr); ok && ir.FieldOfAddr(fa) == idx {
				loads = append(loads, in)
			}
		})
		construct := c.nm(put) + " | a resident element is unlinked before the new one is linked"
		if len(loads) != 1 {
			c.undecided(construct, c.P.Pos(put.Pos()), fmt.Sprintf("%d lookups of the key index in Put, 1 tabled", len(loads)))
			return
		}
		ld := loads[0].(ssa.Value)
		oks := ir.Result(ld, 1)
		if len(oks) == 0 {
			c.fail(construct, c.at(loads[0]), "the index lookup's found-flag is not used: a resident element is never recognised")
			return
		}
		facts := map[ssa.Value]bool{}
		for _, o := range oks {
			facts[o] = true
		}
		var bad []string
		ir.WalkFacts(loads[0].Block(), ir.IndexIn(loads[0])+1, nil, nil, facts, func(in ssa.Instruction) bool {
			if callTo(remove)(in) {
				return false
			}
			if callTo(pushFront)(in) {
				bad = append(bad, c.at(in))
			}
			return true
		})
		c.verdict(len(bad) == 0 && len(find(put, callTo(remove))) >= 1, construct, c.at(loads[0]), "with the key found, every path to List.PushFront passes List.Remove", "with the key found resident, List.PushFront at "+join(bad)+" is reachable without List.Remove of the resident element", c.at(loads[0]))
	})

	c0.rule("C16.G1", "capacity: Put adds the new entry's size and links it only after evict(vs)=nil and with vs <= capacity; evict returns success only once capacity-size >= needed and subtracts each evicted element's own Size()", func() {
		c := c0.onCache()
		put := c.fn("(*cache/lru.Cache[K, V]).Put")
		// evict, or the eviction loop written out in Put
		evict := c.P.Method("cache/lru", "Cache", "evict")
		ef := c.P.Func("(*cache/lru.Cache[K, V]).evict")
		folded := evict == nil || ef == nil
		sizeF := c.field("cache/lru", "Cache", "size")
		capF := c.field("cache/lru", "Cache", "capacity")
		pushFront := c.method("cache/lru", "List", "PushFront")
		adds := find(put, func(in ssa.Instruction) bool {
			if !storeToField(sizeF)(in) {
				return false
			}
			b, ok := in.(*ssa.Store).Val.(*ssa.BinOp)
			return ok && b.Op == token.ADD
		})
		eff := append(find(put, callTo(pushFront)), adds...)
		var ev []ssa.Instruction
		if !folded {
			ev = find(put, callTo(evict))
			c.guarded(put, errNil("c.evict(vs)", ev, 1), 1, "size += vs / ll.PushFront", eff, 2, gDominate)
		}
		sizeM := func(v ssa.Value) bool {
			return ir.DerivesFrom(v, func(x ssa.Value) bool {
				call, ok := x.(*ssa.Call)
				return ok && call.Call.IsInvoke() && call.Call.Method.Name() == "Size"
			})
		}
		g, odd := lessFalse("capacity < vs", put, loadsField(capF), func(v ssa.Value) bool { return sizeM(v) && !loadsField(capF)(v) })
		if len(odd) > 0 {
			c.fail(c.nm(put)+" | capacity comparison shape", c.P.Pos(put.Pos()), "new value size compared with capacity by an unexpected operator: "+join(odd))
		}
		c.guarded(put, g, 1, "size += vs / ll.PushFront", eff, 2, gDominate)
		// the size added and the size evicted-for are the new value's size
		isRoom := func(v ssa.Value) bool {
			b, ok := v.(*ssa.BinOp)
			return ok && b.Op == token.SUB && loadsField(capF)(b.X) && loadsField(sizeF)(b.Y)
		}
		okArg := len(adds) == 1
		var needed func(ssa.Value) bool
		inEvict := func(in ssa.Instruction) bool { return true }
		if folded {
			ef = put
			// needed = the very value that is added afterwards
			var added ssa.Value
			if okArg {
				b := adds[0].(*ssa.Store).Val.(*ssa.BinOp)
				added = b.Y
				if loadsField(sizeF)(b.Y) {
					added = b.X
				}
				okArg = sizeM(added)
			}
			needed = func(v ssa.Value) bool { return added != nil && ir.Strip(v) == ir.Strip(added) }
			inEvict = func(in ssa.Instruction) bool { return ir.LoopHeaderOf(in.Block()) != nil }
		} else {
			c.R.Funcs[c.nm(ef)] = true
			okArg = okArg && len(ev) == 1
			if okArg {
				// (each operand as the value it holds where it is used: a
				// field of a small struct this function builds itself is what
				// was stored there)
				a := ir.ValueAt(argsOf(ev[0])[0], ev[0].Block())
				b := adds[0].(*ssa.Store).Val.(*ssa.BinOp)
				bx, by := ir.ValueAt(b.X, b.Block()), ir.ValueAt(b.Y, b.Block())
				okArg = (bx == a || by == a) && sizeM(a)
			}
			needed = isParam(ef, 1)
		}
		c.verdict(okArg, c.nm(put)+" | evict(vs) and size += vs use the same vs = value.Size()", c.P.Pos(put.Pos()), "same SSA value", "the size made room for is not the size added")

		// success only when room is available
		g2, odd2 := lessFalse("capacity-size < needed", ef, isRoom, needed)
		if len(odd2) > 0 {
			c.fail(c.nm(ef)+" | room comparison shape", c.P.Pos(ef.Pos()), "free room compared with the needed size by an unexpected operator: "+join(odd2))
		}
		if folded {
			c.guarded(put, g2, 1, "size += vs / ll.PushFront", eff, 2, gDominate)
		} else {
			var okRets []ssa.Instruction
			for _, in := range find(ef, isExit) {
				if ir.IsNil(ir.RetVal(in.(*ssa.Return), 1)) {
					okRets = append(okRets, in)
				}
			}
			c.guarded(ef, g2, 1, "return (evicted, nil)", okRets, 1, gDominate)
		}
		// size decremented by the evicted element's own size
		subs := find(ef, func(in ssa.Instruction) bool {
			if !storeToField(sizeF)(in) || !inEvict(in) {
				return false
			}
			b, ok := in.(*ssa.Store).Val.(*ssa.BinOp)
			return ok && b.Op == token.SUB
		})
		back := c.method("cache/lru", "List", "Back")
		remove := c.method("cache/lru", "List", "Remove")
		okSub := len(subs) >= 1
		for _, s := range subs {
			b := s.(*ssa.Store).Val.(*ssa.BinOp)
			if !sizeM(b.Y) || !ir.InfluencedBy(b.Y, valIsCallTo(back)) {
				okSub = false
			}
		}
		c.verdict(okSub, c.nm(ef)+" | size -= Size() of the element taken from ll.Back()", c.P.Pos(ef.Pos()), "decrement is the evicted element's own size", "size is not decremented by the evicted element's own Size()", c.ats(subs)...)
		// the element whose size was subtracted is the one removed
		rm := find(ef, func(in ssa.Instruction) bool { return callTo(remove)(in) && inEvict(in) })
		okRm := len(rm) >= 1
		for _, r := range rm {
			if a := argsOf(r); len(a) < 1 || !ir.DerivesFrom(a[0], valIsCallTo(back)) {
				okRm = false
			}
		}
		c.verdict(okRm, c.nm(ef)+" | removed element = ll.Back()", c.P.Pos(ef.Pos()), "evicts the least recently used element", "evict removes an element other than ll.Back()", c.ats(rm)...)
		g3 := errNil("evicted value.Size()", find(ef, func(in ssa.Instruction) bool {
			call, ok := in.(*ssa.Call)
			return ok && call.Call.IsInvoke() && call.Call.Method.Name() == "Size" && inEvict(in)
		}), 1)
		c.guarded(ef, g3, 1, "size -= es / ll.Remove", append(subs, rm...), 2, gDominate)
	})
}
