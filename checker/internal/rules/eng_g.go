package rules

import (
	"fmt"
	"go/constant"
	"go/token"
	"go/types"
	"sort"

	"golang.org/x/tools/go/ssa"

	"verif/checker/internal/ir"
)

// ---- engine G: guarded effect ----

// guardSite is one evaluation of a guard: the If that tests it and the
// successor taken when the guard succeeded.
type guardSite struct {
	br   ir.Branch
	site ssa.Instruction // the call / comparison that produced the tested value
}

// guard is a named set of sites plus the sites whose result never reaches a
// branch ("result unchecked").
type guard struct {
	name      string
	weak      []guardSite // or-like merges: usable as failure edges, and as success edges only inside a union (see unionGuard)
	sites     []guardSite
	unchecked []ssa.Instruction
	found     int // number of producing instructions found
}

// errNil: guard "result #idx of each call == nil".
func errNil(name string, calls []ssa.Instruction, idx int) guard {
	g := guard{name: name + " = nil", found: len(calls)}
	for _, in := range calls {
		v, ok := in.(ssa.Value)
		if !ok {
			g.unchecked = append(g.unchecked, in)
			continue
		}
		n := 0
		for _, r := range ir.Result(v, idx) {
			for _, b := range ir.NilBranches(r) {
				if b.Pol < 0 {
					if b.Via != nil {
						g.weak = append(g.weak, guardSite{b, in})
						n++ // tested, through a merged value
					}
					continue
				}
				g.sites = append(g.sites, guardSite{b, in})
				n++
			}
		}
		if n == 0 {
			g.unchecked = append(g.unchecked, in)
		}
	}
	return g
}

// boolIs: guard "boolean result #idx of each call == want".
func boolIs(name string, calls []ssa.Instruction, idx int, want bool) guard {
	g := guard{name: fmt.Sprintf("%s = %v", name, want), found: len(calls)}
	for _, in := range calls {
		v, ok := in.(ssa.Value)
		if !ok {
			g.unchecked = append(g.unchecked, in)
			continue
		}
		n := 0
		for _, r := range ir.Result(v, idx) {
			for _, b := range ir.TrueBranches(r) {
				if !want {
					b = b.Flip()
				}
				if b.Pol < 0 {
					if b.Via != nil {
						g.weak = append(g.weak, guardSite{b, in})
					}
					continue
				}
				g.sites = append(g.sites, guardSite{b, in})
				n++
			}
		}
		if n == 0 {
			g.unchecked = append(g.unchecked, in)
		}
	}
	return g
}

// cmpIs: guard over comparison instructions (BinOp ==, !=, <, ...): the
// comparison evaluates to want. For ==/!= the polarity is normalised so that
// `a != b` = false and `a == b` = true are the same guard "equal".
func cmpIs(name string, cmps []ssa.Instruction, want bool) guard {
	g := guard{name: fmt.Sprintf("%s = %v", name, want), found: len(cmps)}
	for _, in := range cmps {
		v, ok := in.(ssa.Value)
		if !ok {
			continue
		}
		n := 0
		for _, b := range ir.TrueBranches(v) {
			if !want {
				b = b.Flip()
			}
			if b.Pol < 0 {
				if b.Via != nil {
					g.weak = append(g.weak, guardSite{b, in})
				}
				continue
			}
			g.sites = append(g.sites, guardSite{b, in})
			n++
		}
		if n == 0 {
			g.unchecked = append(g.unchecked, in)
		}
	}
	return g
}

// equalIs: guard "operands equal" (wantEqual) over ==/!= comparisons.
func equalIs(name string, cmps []ssa.Instruction, wantEqual bool) guard {
	g := guard{name: fmt.Sprintf("%s equal=%v", name, wantEqual), found: len(cmps)}
	for _, in := range cmps {
		bo, ok := in.(*ssa.BinOp)
		if !ok {
			continue
		}
		n := 0
		for _, b := range ir.EqBranches(bo) {
			if !wantEqual {
				b = b.Flip()
			}
			if b.Pol < 0 {
				if b.Via != nil {
					g.weak = append(g.weak, guardSite{b, in})
				}
				continue
			}
			g.sites = append(g.sites, guardSite{b, in})
			n++
		}
		if n == 0 {
			g.unchecked = append(g.unchecked, in)
		}
	}
	return g
}

// okIs: guard "the ok component of a comma-ok TypeAssert / Lookup is true".
func okIs(name string, ins []ssa.Instruction) guard {
	g := guard{name: name + " ok", found: len(ins)}
	for _, in := range ins {
		v, ok := in.(ssa.Value)
		if !ok {
			continue
		}
		n := 0
		for _, r := range ir.Result(v, 1) {
			for _, b := range ir.TrueBranches(r) {
				if b.Pol < 0 {
					if b.Via != nil {
						g.weak = append(g.weak, guardSite{b, in})
					}
					continue
				}
				g.sites = append(g.sites, guardSite{b, in})
				n++
			}
		}
		if n == 0 {
			g.unchecked = append(g.unchecked, in)
		}
	}
	return g
}

func (g guard) cut() ir.Cut {
	c := ir.Cut{}
	for _, s := range g.sites {
		c[s.br.Edge()] = true
	}
	return c
}

type gMode int

const (
	// every path from the function entry to the effect takes a success edge of
	// the guard (dominance + polarity, also right for effects inside loops).
	gDominate gMode = iota
	// from every failure edge of the guard no effect is reachable (for effects
	// after a loop that holds the guard; loop may run zero times).
	gFailEdge
)

// guarded evaluates one G obligation: all effect sites are protected by guard
// g in function fn. minSites is the floor for guard sites, minEffects for
// effect sites (a rule matching nothing never passes).
func (c *Ctx) guarded(fn *ssa.Function, g guard, minSites int, ename string, effects []ssa.Instruction, minEffects int, mode gMode) bool {
	if c.silent {
		return c.guardedQuiet(fn, g, minSites, effects, minEffects, mode)
	}
	construct := fmt.Sprintf("%s | guard %s | effect %s", c.nm(fn), g.name, ename)
	pos := c.P.Pos(fn.Pos())
	var sites []string
	for _, s := range g.sites {
		sites = append(sites, "guard@"+c.at(s.site))
	}
	for _, e := range effects {
		sites = append(sites, "effect@"+c.at(e))
	}
	sort.Strings(sites)
	c.R.CallSites += len(g.sites) + len(effects)
	if len(g.unchecked) > 0 {
		c.fail(construct, c.at(g.unchecked[0]), fmt.Sprintf("result of guard %q is never tested by a branch at %s (check dropped or result ignored)", g.name, join(c.ats(g.unchecked))), sites...)
		return false
	}
	if mode == gDominate && len(effects) > 0 && len(g.weak) > 0 {
		// a test of a merged value counts as a test of the guarded value when
		// the paths that bring a plain nil to the merge (a helper's "nothing
		// received" result: `return zero, false`) cannot reach an effect (the
		// accompanying flag sends them elsewhere)
		isEff := map[ssa.Instruction]bool{}
		for _, e := range effects {
			isEff[e] = true
		}
		var still []guardSite
		for _, s := range g.weak {
			ph := s.br.Via
			okPromote := ph != nil
			other := 0
			if ph != nil {
				for i, e := range ph.Edges {
					switch {
					case ir.IsNil(e):
						ir.WalkCtx(ph.Block(), 0, ph.Block().Preds[i], nil, func(in ssa.Instruction) bool {
							if isEff[in] {
								okPromote = false
							}
							return okPromote
						})
					case ir.KnownNonNil(e):
					default:
						other++
					}
				}
			}
			if okPromote && other == 1 {
				s.br.Pol, s.br.Via = 0, nil
				g.sites = append(g.sites, s)
			} else {
				still = append(still, s)
			}
		}
		g.weak = still
	}
	// a test of a merged value (weak site) establishes the failure side of the
	// guard, not its success side: it counts where only the failure side is
	// used (failure-edge mode, or a pure "the result is tested" obligation)
	nSites := len(g.sites)
	failSites := g.sites
	if mode == gFailEdge || len(effects) == 0 {
		nSites += len(g.weak)
		failSites = append(append([]guardSite{}, g.sites...), g.weak...)
	}
	if nSites < minSites {
		c.fail(construct, pos, fmt.Sprintf("guard %q: found %d tested site(s), the rule table requires at least %d (check deleted or no longer matching the required argument shape)", g.name, nSites, minSites), sites...)
		return false
	}
	if len(effects) < minEffects {
		c.ob(construct, pos, "undecided", fmt.Sprintf("effect %q: found %d site(s), the rule table requires at least %d", ename, len(effects), minEffects), false, sites)
		return false
	}
	if mode == gDominate && len(effects) > 0 && len(g.sites) == 0 {
		c.fail(construct, pos, fmt.Sprintf("guard %q is only tested through a value that other paths set without making the check (%d such test(s)): passing that test does not mean the check was made and succeeded", g.name, len(g.weak)), sites...)
		return false
	}
	var bad []string
	var badPos string
	switch mode {
	case gDominate:
		r := ir.ReachEntry(fn, g.cut())
		for _, e := range effects {
			if r[e.Block()] {
				bad = append(bad, c.at(e))
				if badPos == "" {
					badPos = c.at(e)
				}
			}
		}
	case gFailEdge:
		isEff := map[ssa.Instruction]bool{}
		for _, e := range effects {
			isEff[e] = true
		}
		for _, s := range failSites {
			ir.WalkEdge(s.br.Other(), nil, func(in ssa.Instruction) bool {
				if isEff[in] {
					bad = append(bad, fmt.Sprintf("%s (from the failure edge of the check at %s)", c.at(in), c.at(s.site)))
					if badPos == "" {
						badPos = c.at(in)
					}
				}
				return true
			})
		}
	}
	if len(bad) > 0 {
		sort.Strings(bad)
		c.fail(construct, badPos, fmt.Sprintf("effect %q is reachable without the success edge of guard %q: %s", ename, g.name, join(bad)), sites...)
		return false
	}
	c.pass(construct, pos, fmt.Sprintf("%d effect site(s) unreachable unless guard succeeded (%d guard site(s))", len(effects), len(g.sites)), sites...)
	return true
}

// ---- validator summaries ----

// nilReturnsGuarded checks that fn (with a trailing error result) returns nil
// only if guard g succeeded: every Return whose error component may be nil is
// protected. A return of the guard call's own result counts as protected by
// that call; a return of v on the non-nil edge of `v != nil` is an error return.
func (c *Ctx) nilReturnsGuarded(fn *ssa.Function, g guard, minSites int) bool {
	var effects []ssa.Instruction
	isGuardVal := map[ssa.Value]bool{}
	for _, s := range g.sites {
		if v, ok := s.site.(ssa.Value); ok {
			isGuardVal[v] = true
		}
	}
	// a guard call whose result is returned directly (`return f(x)`) is a site
	// too: it shows up as unchecked, which is fine when it is returned.
	var stillUnchecked []ssa.Instruction
	for _, u := range g.unchecked {
		v, ok := u.(ssa.Value)
		returned := false
		if ok {
			// the call's (error) result is returned as it is, possibly through
			// a result variable merged at the return
			var flows func(x ssa.Value, depth int) bool
			flows = func(x ssa.Value, depth int) bool {
				for _, r := range ir.Refs(x) {
					switch y := r.(type) {
					case *ssa.Return:
						isGuardVal[x] = true
						return true
					case *ssa.Extract:
						if depth < 2 && flows(y, depth+1) {
							return true
						}
					case *ssa.Phi:
						if depth < 2 && flows(y, depth+1) {
							isGuardVal[x] = true
							return true
						}
					}
				}
				return false
			}
			returned = flows(v, 0)
		}
		if returned {
			isGuardVal[v] = true
			g.sites = append(g.sites, guardSite{site: u}) // counts toward the floor
		} else {
			stillUnchecked = append(stillUnchecked, u)
		}
	}
	g.unchecked = stillUnchecked
	nres := fn.Signature.Results().Len()
	for _, b := range fn.Blocks {
		ret, ok := b.Instrs[len(b.Instrs)-1].(*ssa.Return)
		if !ok || nres == 0 {
			continue
		}
		rv := ir.RetVal(ret, nres-1)
		if isGuardVal[rv] {
			continue // nil iff the guard succeeded
		}
		if !ir.IsNil(rv) && (nonNilAt(rv, b) || knownNonNilError(rv)) {
			continue
		}
		// the result travels through a variable (`if err == nil { err = g() };
		// return err`): judge each incoming edge of the merged value on its own
		if ph, ok := rv.(*ssa.Phi); ok && ph.Block() == b {
			split := true
			var edgeEffects []ssa.Instruction
			for i, e := range ph.Edges {
				pred := b.Preds[i]
				if isGuardVal[e] {
					continue
				}
				if !ir.IsNil(e) && (knownNonNilError(e) || nonNilAt(e, pred) || nonNilEdge(e, pred, b)) {
					continue
				}
				if len(pred.Succs) != 1 {
					split = false
					break
				}
				edgeEffects = append(edgeEffects, pred.Instrs[len(pred.Instrs)-1])
			}
			if split {
				effects = append(effects, edgeEffects...)
				continue
			}
		}
		effects = append(effects, ret)
	}
	// sites without an If (directly returned) must not enter the cut.
	var real []guardSite
	for _, s := range g.sites {
		if s.br.If != nil {
			real = append(real, s)
		}
	}
	floorSites := len(g.sites)
	g2 := g
	g2.sites = real
	if floorSites < minSites {
		if c.silent {
			return false
		}
		construct := fmt.Sprintf("%s | guard %s | effect return nil", c.nm(fn), g.name)
		c.fail(construct, c.P.Pos(fn.Pos()), fmt.Sprintf("validator %q is no longer consulted (%d site(s), need %d)", g.name, floorSites, minSites))
		return false
	}
	return c.guarded(fn, g2, 0, "return nil", effects, 0, gDominate)
}

// nonNilEdge: the edge pred -> b is itself the non-nil edge of a test of v.
func nonNilEdge(v ssa.Value, pred, b *ssa.BasicBlock) bool {
	for _, br := range ir.NilBranches(v) {
		o := br.Other()
		if o.From == pred && pred.Succs[o.Succ] == b {
			return true
		}
	}
	return false
}

// nonNilAt: block b is only reachable through the non-nil edge of a test of v.
func nonNilAt(v ssa.Value, b *ssa.BasicBlock) bool {
	for _, br := range ir.NilBranches(v) {
		// br.Idx is the edge taken when v == nil; delete the other (non-nil)
		// edge: if b becomes unreachable, b lies behind the non-nil edge.
		if ir.EdgeDominates(b.Parent(), br.Other(), b) {
			return true
		}
	}
	return false
}

// ---- small selectors used by G rules ----

// binops selects comparison instructions by operator and operand predicates
// (order-insensitive for == and !=).
func binops(ops []token.Token, x, y func(ssa.Value) bool) Sel {
	return func(in ssa.Instruction) bool {
		b, ok := in.(*ssa.BinOp)
		if !ok {
			return false
		}
		okOp := false
		for _, o := range ops {
			if b.Op == o {
				okOp = true
			}
		}
		if !okOp {
			return false
		}
		if x(b.X) && y(b.Y) {
			return true
		}
		if (b.Op == token.EQL || b.Op == token.NEQ) && x(b.Y) && y(b.X) {
			return true
		}
		return false
	}
}

var eqOps = []token.Token{token.EQL, token.NEQ}

func anyVal(ssa.Value) bool { return true }

// typeAsserts selects comma-ok type assertions to the named type.
func typeAsserts(t types.Type) Sel {
	return func(in ssa.Instruction) bool {
		ta, ok := in.(*ssa.TypeAssert)
		return ok && ta.CommaOk && types.Identical(ta.AssertedType, t)
	}
}

// guardedQuiet evaluates a G obligation without recording it (used for
// wrapper summaries).
func (c *Ctx) guardedQuiet(fn *ssa.Function, g guard, minSites int, effects []ssa.Instruction, minEffects int, mode gMode) bool {
	if len(g.unchecked) > 0 || len(g.sites) < minSites || len(effects) < minEffects {
		return false
	}
	switch mode {
	case gDominate:
		r := ir.ReachEntry(fn, g.cut())
		for _, e := range effects {
			if r[e.Block()] {
				return false
			}
		}
	case gFailEdge:
		isEff := map[ssa.Instruction]bool{}
		for _, e := range effects {
			isEff[e] = true
		}
		bad := false
		for _, s := range g.sites {
			ir.WalkEdge(s.br.Other(), nil, func(in ssa.Instruction) bool {
				if isEff[in] {
					bad = true
				}
				return !bad
			})
		}
		return !bad
	}
	return true
}

// wrapper is a module function that is itself a validator with respect to a
// target validator: it has a trailing error result, calls the target (or
// another wrapper) on one of its own parameters, and every return that may be
// nil is protected by that call having succeeded.
type wrapper struct {
	fn   *ssa.Function
	obj  *types.Func
	subj int // index, in the wrapper call's Args, of the validated subject
}

// wrappersOf computes wrapper summaries of target up to depth 3. subjArg is
// the index (in CallCommon.Args) of the validated subject in a call of target;
// resIdx the index of its error result.
func (c *Ctx) wrappersOf(target *types.Func, subjArg int) []wrapper {
	key := fmt.Sprintf("%p/%d", target, subjArg)
	if c.wrapCache == nil {
		c.wrapCache = map[string][]wrapper{}
	}
	if w, ok := c.wrapCache[key]; ok {
		return w
	}
	type vt struct {
		obj  *types.Func
		subj int
	}
	known := []vt{{target, subjArg}}
	var out []wrapper
	seen := map[*ssa.Function]bool{}
	for depth := 0; depth < 3; depth++ {
		added := false
		for _, fn := range c.P.Funcs {
			if seen[fn] || fn.Parent() != nil || fn.Signature.Results().Len() == 0 {
				continue
			}
			obj, _ := fn.Object().(*types.Func)
			if obj == nil || obj == target {
				continue
			}
			res := fn.Signature.Results()
			if !isErrorType(res.At(res.Len() - 1).Type()) {
				continue
			}
			for _, k := range known {
				var calls []ssa.Instruction
				subjParam := -1
				for _, in := range find(fn, onlyCalls(callTo(k.obj))) {
					a := ir.CallOf(in).Args
					if k.subj >= len(a) {
						continue
					}
					for pi, p := range fn.Params {
						if a[k.subj] == ssa.Value(p) {
							subjParam = pi
							calls = append(calls, in)
						}
					}
				}
				if len(calls) == 0 {
					continue
				}
				prev := c.silent
				c.silent = true
				okv := c.nilReturnsGuarded(fn, errNil("", calls, -1), 1)
				c.silent = prev
				if okv {
					seen[fn] = true
					out = append(out, wrapper{fn, obj, subjParam})
					known = append(known, vt{obj, subjParam})
					added = true
					break
				}
			}
		}
		if !added {
			break
		}
	}
	c.wrapCache[key] = out
	return out
}

func isErrorType(t types.Type) bool {
	n, ok := t.(*types.Named)
	return ok && n.Obj().Pkg() == nil && n.Obj().Name() == "error"
}

// validatorCalls returns the calls in fn of target or of one of its wrapper
// summaries, each with the SSA value of the validated subject.
type vcall struct {
	in   ssa.Instruction
	subj ssa.Value
	via  string
}

func (c *Ctx) validatorCalls(fn *ssa.Function, target *types.Func, subjArg int) []vcall {
	var out []vcall
	for _, in := range find(fn, onlyCalls(callTo(target))) {
		a := ir.CallOf(in).Args
		if subjArg < len(a) {
			out = append(out, vcall{in, a[subjArg], ""})
		}
	}
	for _, w := range c.wrappersOf(target, subjArg) {
		for _, in := range find(fn, onlyCalls(callTo(w.obj))) {
			a := ir.CallOf(in).Args
			if w.subj < len(a) {
				out = append(out, vcall{in, a[w.subj], c.nm(w.fn)})
			}
		}
	}
	return out
}

func vcallInstrs(v []vcall) []ssa.Instruction {
	var out []ssa.Instruction
	for _, x := range v {
		out = append(out, x.in)
	}
	return out
}

// knownNonNilError: v is an error value that cannot be nil: the result of
// fmt.Errorf / errors.New, an interface made from a non-pointer value or from
// the address of a composite literal, or a load of a package-level sentinel
// error variable (ErrXxx).
func knownNonNilError(v ssa.Value) bool {
	switch x := v.(type) {
	case *ssa.Call:
		if f := x.Call.StaticCallee(); f != nil && f.Pkg != nil {
			full := f.Pkg.Pkg.Path() + "." + f.Name()
			return full == "fmt.Errorf" || full == "errors.New"
		}
	case *ssa.MakeInterface:
		if _, isPtr := x.X.Type().Underlying().(*types.Pointer); !isPtr {
			return true
		}
		_, isAlloc := x.X.(*ssa.Alloc)
		return isAlloc
	case *ssa.UnOp:
		if g, ok := x.X.(*ssa.Global); ok && x.Op == token.MUL {
			return globalIsErrSentinel(g)
		}
	}
	return false
}

// globalIsErrSentinel: a package-level error variable that the package
// initialiser sets to a freshly constructed (non-nil) error and that nothing
// else in its package assigns.
func globalIsErrSentinel(g *ssa.Global) bool {
	if g.Pkg == nil {
		return false
	}
	init := g.Pkg.Func("init")
	if init == nil {
		return false
	}
	set := false
	ir.Instrs(init, func(in ssa.Instruction) {
		st, ok := in.(*ssa.Store)
		if !ok || st.Addr != ssa.Value(g) {
			return
		}
		if knownNonNilError(st.Val) {
			set = true
		}
	})
	if !set {
		return false
	}
	for _, m := range g.Pkg.Members {
		fn, ok := m.(*ssa.Function)
		if !ok || fn == init {
			continue
		}
		reassigned := false
		ir.Instrs(fn, func(in ssa.Instruction) {
			if st, ok := in.(*ssa.Store); ok && st.Addr == ssa.Value(g) {
				reassigned = true
			}
		})
		if reassigned {
			return false
		}
	}
	return true
}

// ---- helper-extraction tolerance for boolean / error helpers ----

// actual maps a parameter of a module function that has exactly one call site
// in the module to the argument passed there (repeatedly); other values are
// returned unchanged. It lets provenance rules look through an extracted
// helper.
func (c *Ctx) actual(v ssa.Value) ssa.Value {
	for depth := 0; depth < 3; depth++ {
		p, ok := ir.Strip(v).(*ssa.Parameter)
		if !ok {
			return v
		}
		fn := p.Parent()
		idx := -1
		for i, q := range fn.Params {
			if q == p {
				idx = i
			}
		}
		var args []ssa.Value
		for _, caller := range c.P.Funcs {
			ir.Instrs(caller, func(in ssa.Instruction) {
				cc := ir.CallOf(in)
				if cc == nil || cc.IsInvoke() {
					return
				}
				for _, t := range c.calleeFuncs(in) {
					if t == fn && idx < len(cc.Args) {
						args = append(args, cc.Args[idx])
					}
				}
			})
		}
		if len(args) != 1 {
			return v
		}
		v = args[0]
	}
	return v
}

// helperCallsOf: the plain calls in fn of module functions (not fn itself),
// with the callee.
type helperCall struct {
	in     *ssa.Call
	callee *ssa.Function
}

func (c *Ctx) helperCallsOf(fn *ssa.Function) []helperCall {
	c.graph()
	var out []helperCall
	ir.Instrs(fn, func(in ssa.Instruction) {
		call, ok := in.(*ssa.Call)
		if !ok || call.Call.IsInvoke() {
			return
		}
		for _, t := range c.calleeFuncs(in) {
			if t != fn && t.Parent() == nil {
				out = append(out, helperCall{call, t})
			}
		}
	})
	return out
}

// impliesTrue: value v being true implies that cond is true (v is cond, or a
// short-circuit conjunction that contains it).
func impliesTrue(v ssa.Value, cond ssa.Value, depth int) bool {
	if v == cond {
		return true
	}
	if depth > 4 {
		return false
	}
	if phi, ok := v.(*ssa.Phi); ok && phi.Comment == "&&" {
		for _, e := range phi.Edges {
			if cb, isC := ir.ConstBool(e); isC && !cb {
				continue
			}
			if impliesTrue(e, cond, depth+1) {
				return true
			}
		}
		// p && q: the phi is [false (from !p), q]; p itself guards the block of q
		for i, e := range phi.Edges {
			if cb, isC := ir.ConstBool(e); isC && !cb {
				// edge taken when an earlier conjunct was false: that conjunct is the If of the pred
				pred := phi.Block().Preds[i]
				if iff, ok := pred.Instrs[len(pred.Instrs)-1].(*ssa.If); ok {
					if impliesTrue(iff.Cond, cond, depth+1) {
						// only when the false edge leads here (the true edge evaluates the rest)
						if pred.Succs[1] == phi.Block() {
							return true
						}
					}
				}
			}
		}
	}
	return false
}

// liftGuard evaluates a guard inside fn or, when fn itself contains no site of
// it, inside a helper called from fn whose positive result (true / nil) is
// protected by the guard there; the helper call's tested result then is the
// guard site in fn. mk builds the guard for a given function.
func (c *Ctx) liftGuard(fn *ssa.Function, mk func(f *ssa.Function) guard, depth int) guard {
	g := mk(fn)
	if len(g.sites) > 0 || len(g.unchecked) > 0 && depth == 0 {
		return g
	}
	if depth == 0 {
		return g
	}
	out := guard{name: g.name}
	for _, hc := range c.helperCallsOf(fn) {
		h := hc.callee
		gh := c.liftGuard(h, mk, depth-1)
		if len(gh.sites) == 0 && len(gh.unchecked) == 0 {
			continue
		}
		res := h.Signature.Results()
		if res.Len() == 0 {
			continue
		}
		last := res.At(res.Len() - 1).Type()
		isBool := types.Identical(last.Underlying(), types.Typ[types.Bool])
		if !isBool && !isErrorType(last) {
			continue
		}
		// positive returns of the helper: program points from which a true / nil
		// result can originate, each of which must lie behind the guard
		cut := gh.cut()
		reach := ir.ReachEntry(h, cut)
		condVals := map[ssa.Value]bool{}
		for _, u := range gh.unchecked {
			if uv, ok := u.(ssa.Value); ok {
				condVals[uv] = true
			}
		}
		for _, st := range gh.sites {
			if sv, ok := st.site.(ssa.Value); ok {
				condVals[sv] = true
			}
		}
		okHelper := true
		nPos := 0
		var visit func(v ssa.Value, blk *ssa.BasicBlock, viaCut bool, depth int)
		visit = func(v ssa.Value, blk *ssa.BasicBlock, viaCut bool, depth int) {
			if depth > 6 {
				okHelper = false
				return
			}
			if isBool {
				if cb, isC := ir.ConstBool(v); isC && !cb {
					return
				}
				if condVals[v] {
					nPos++
					return // the result IS the guard's own condition
				}
			} else if !ir.IsNil(v) && (nonNilAt(v, blk) || knownNonNilError(v)) {
				return
			}
			if phi, ok := v.(*ssa.Phi); ok {
				for k, e := range phi.Edges {
					pred := phi.Block().Preds[k]
					edgeCut := false
					for si, sb := range pred.Succs {
						if sb == phi.Block() && cut[ir.Edge{From: pred, Succ: si}] {
							edgeCut = true
						}
					}
					visit(e, pred, edgeCut, depth+1)
				}
				return
			}
			nPos++
			if reach[blk] && !viaCut {
				okHelper = false
			}
		}
		for _, in := range find(h, isExit) {
			r := in.(*ssa.Return)
			visit(ir.RetVal(r, res.Len()-1), in.Block(), false, 0)
		}
		if nPos == 0 || len(gh.sites) == 0 && len(condVals) == 0 {
			okHelper = false
		}
		if !okHelper {
			continue
		}
		out.found++
		var sub guard
		if isBool {
			sub = boolIs(g.name, []ssa.Instruction{hc.in}, res.Len()-1, true)
		} else {
			sub = errNil(g.name, []ssa.Instruction{hc.in}, res.Len()-1)
		}
		for i := range sub.sites {
			sub.sites[i].site = hc.in
		}
		out.sites = append(out.sites, sub.sites...)
		out.unchecked = append(out.unchecked, sub.unchecked...)
	}
	if len(out.sites) == 0 && len(out.unchecked) == 0 {
		return g
	}
	return out
}

// relGuard builds the guard "left REL right" (REL one of < <= > >=) from any
// integer comparison between a left-like and a right-like operand, normalising
// operand order and branch polarity: the success edge is the edge on which REL
// is known to hold exactly. Comparisons from which REL does not follow exactly
// on either edge (e.g. `<` where `<=` is required) are returned as odd.
func relGuard(name string, fn *ssa.Function, left, right func(ssa.Value) bool, rel token.Token) (guard, []string) {
	g := guard{name: name}
	var odd []string
	mirror := map[token.Token]token.Token{token.LSS: token.GTR, token.GTR: token.LSS, token.LEQ: token.GEQ, token.GEQ: token.LEQ}
	neg := map[token.Token]token.Token{token.LSS: token.GEQ, token.GEQ: token.LSS, token.GTR: token.LEQ, token.LEQ: token.GTR}
	ir.Instrs(fn, func(in ssa.Instruction) {
		b, ok := in.(*ssa.BinOp)
		if !ok {
			return
		}
		bop := b.Op
		// x == 0 / x != 0 for a quantity that cannot be negative (len, cap,
		// unsigned) is x <= 0 / x > 0
		if bop == token.EQL || bop == token.NEQ {
			nonNeg := func(v ssa.Value) bool {
				if call, ok := ir.Strip(v).(*ssa.Call); ok && (isBuiltin("len")(call) || isBuiltin("cap")(call)) {
					return true
				}
				bt, ok := v.Type().Underlying().(*types.Basic)
				return ok && bt.Info()&types.IsUnsigned != 0
			}
			isZero := func(v ssa.Value) bool { k, isC := ir.ConstInt(v); return isC && k == 0 }
			switch {
			case nonNeg(b.X) && isZero(b.Y):
				if bop == token.EQL {
					bop = token.LEQ
				} else {
					bop = token.GTR
				}
			case nonNeg(b.Y) && isZero(b.X):
				if bop == token.EQL {
					bop = token.GEQ
				} else {
					bop = token.LSS
				}
			}
		}
		if _, isCmp := neg[bop]; !isCmp {
			return
		}
		// integer comparisons with a constant: x < k+1 is x <= k, x >= k+1 is
		// x > k; the constant side is matched against the rule's operand
		// predicate after shifting it by one where that helps
		shift := func(v ssa.Value, d int64) (ssa.Value, bool) {
			k, ok := v.(*ssa.Const)
			if !ok || k.Value == nil || k.Value.Kind() != constant.Int {
				return nil, false
			}
			bt, ok := k.Type().Underlying().(*types.Basic)
			if !ok || bt.Info()&types.IsInteger == 0 {
				return nil, false
			}
			n, exact := constant.Int64Val(k.Value)
			if !exact {
				return nil, false
			}
			return ssa.NewConst(constant.MakeInt64(n+d), k.Type()), true
		}
		// candidate rewritings of (X op Y): the original plus the shifted ones
		type cand struct {
			x, y ssa.Value
			op   token.Token
		}
		cands := []cand{{b.X, b.Y, bop}}
		adj := func(x, y ssa.Value, op token.Token, constIsY bool) {
			// with the constant on the right: x < k => x <= k-1 ; x >= k => x > k-1 ;
			// x <= k => x < k+1 ; x > k => x >= k+1
			kv := y
			if !constIsY {
				kv = x
				op = mirror[op]
			}
			var d int64
			var nop token.Token
			switch op {
			case token.LSS:
				d, nop = -1, token.LEQ
			case token.GEQ:
				d, nop = -1, token.GTR
			case token.LEQ:
				d, nop = 1, token.LSS
			case token.GTR:
				d, nop = 1, token.GEQ
			}
			nk, ok := shift(kv, d)
			if !ok {
				return
			}
			if constIsY {
				cands = append(cands, cand{x, nk, nop})
			} else {
				cands = append(cands, cand{nk, y, mirror[nop]})
			}
		}
		if _, isC := b.Y.(*ssa.Const); isC {
			adj(b.X, b.Y, bop, true)
		} else if _, isC := b.X.(*ssa.Const); isC {
			adj(b.X, b.Y, bop, false)
		}
		var op token.Token
		matched := false
		for _, cd := range cands {
			switch {
			case left(cd.x) && right(cd.y):
				op, matched = cd.op, true
			case left(cd.y) && right(cd.x):
				op, matched = mirror[cd.op], true
			}
			if matched {
				break
			}
		}
		if !matched {
			return
		}
		var wantTrue bool
		switch {
		case op == rel:
			wantTrue = true
		case neg[op] == rel:
			wantTrue = false
		default:
			odd = append(odd, fmt.Sprintf("`left %s right` (neither it nor its negation is `left %s right`)", op, rel))
			return
		}
		g.found++
		n := 0
		for _, tb := range ir.TrueBranches(b) {
			if !wantTrue {
				tb = tb.Flip()
			}
			if tb.Pol < 0 {
				continue
			}
			g.sites = append(g.sites, guardSite{tb, in})
			n++
		}
		if n == 0 {
			g.unchecked = append(g.unchecked, in)
		}
	})
	return g, odd
}

// unionGuard builds the guard "g1 || g2 || ...": an effect is protected when
// it is reachable only through a success edge of one of them. A disjunct whose
// value is merged with the others before it is tested (`ok := a; if !ok { ok =
// b }; if ok {..}` or `a || b` held in a variable) has no test of its own: the
// test of the merged value is its success edge provided every other way the
// merged value becomes true is a success edge of another disjunct.
func unionGuard(name string, gs ...guard) guard {
	u := guard{name: name}
	for _, g := range gs {
		u.sites = append(u.sites, g.sites...)
		u.weak = append(u.weak, g.weak...)
		u.unchecked = append(u.unchecked, g.unchecked...)
		u.found += g.found
	}
	strong := map[ir.Edge]bool{}
	for _, s := range u.sites {
		strong[s.br.Edge()] = true
	}
	promoted := map[ssa.Instruction]bool{}
	for _, w := range u.weak {
		p := w.br.Via
		if p == nil {
			continue
		}
		ok := true
		for i, e := range p.Edges {
			pred := p.Block().Preds[i]
			if k, isC := ir.ConstBool(e); isC && !k {
				continue // false on that edge: contributes nothing
			}
			// the disjunct's own value
			own := false
			if v, isV := w.site.(ssa.Value); isV {
				for _, r := range append(ir.Result(v, 0), v) {
					if r == e {
						own = true
					}
				}
				if ir.DerivesFrom(e, func(x ssa.Value) bool { return x == v }) {
					own = true
				}
			}
			if own {
				continue
			}
			// must arrive over a success edge of a strong site
			found := false
			for si, sc := range pred.Succs {
				if sc == p.Block() && strong[ir.Edge{From: pred, Succ: si}] {
					found = true
				}
			}
			// ... or, for a value carried into a loop (nil so far, the check
			// not yet made): no way from that edge to the merged test that
			// avoids both the check itself and every strong success edge of
			// the other disjuncts
			if !found {
				cut := ir.Cut{}
				for e2 := range strong {
					cut[e2] = true
				}
				reached := false
				ir.WalkCtx(p.Block(), 0, pred, cut, func(in ssa.Instruction) bool {
					if in == w.site {
						return false
					}
					if in == ssa.Instruction(w.br.If) {
						reached = true
						return false
					}
					return !reached
				})
				found = !reached
			}
			if !found {
				ok = false
			}
		}
		if ok {
			u.sites = append(u.sites, guardSite{ir.Branch{If: w.br.If, Idx: w.br.Idx, Pol: 0}, w.site})
			promoted[w.site] = true
		}
	}
	var un []ssa.Instruction
	for _, x := range u.unchecked {
		if !promoted[x] {
			un = append(un, x)
		}
	}
	u.unchecked = un
	return u
}
