package rules

import (
	"go/types"

	"golang.org/x/tools/go/ssa"

	"verif/checker/internal/ir"
)

// Import paths of the external packages whose functions the rule tables name.
const (
	pWire       = "github.com/btcsuite/btcd/wire/v2"
	pChainhash  = "github.com/btcsuite/btcd/chainhash/v2"
	pBlockchain = "github.com/btcsuite/btcd/blockchain"
	pChaincfg   = "github.com/btcsuite/btcd/chaincfg/v2"
	pBuilder    = "github.com/btcsuite/btcd/btcutil/v2/gcs/builder"
	pGcs        = "github.com/btcsuite/btcd/btcutil/v2/gcs"
	pBtcutil    = "github.com/btcsuite/btcd/btcutil/v2"
	pWtxmgr     = "github.com/btcsuite/btcwallet/wtxmgr"
	pPeer       = "github.com/btcsuite/btcd/peer"
	pConnmgr    = "github.com/btcsuite/btcd/connmgr"
)

// Assumptions is the trusted base repeated in every evidence file.
var Assumptions = []string{
	"go/packages, go/types and go/ssa of golang.org/x/tools v0.29.0 represent the program faithfully",
	"the semantics of the btcd/btcwallet/lnd functions used as primitives (CheckBlockHeaderContext, CheckBlockHeaderSanity, CheckBlockSanity, ValidateWitnessCommitment, MakeHeaderForFilter, ValidateCFHeader, DependencySort, bbolt transactions, lnd queue) are as documented",
	"rule tables (which guard protects which effect, which mutex protects which field) were confirmed by reading the pinned tree; they state necessary conditions of the property, not the behaviour",
	"no unsafe / reflection-based calls / go:linkname in the module packages (rule T0, evaluated on every run)",
}

// Run evaluates a property's table, preceded by the T0 trust rule.
func (c *Ctx) Run(pr *Prop) {
	c.ruleT0()
	pr.Run(c)
}

// ruleT0: the module's own packages use no unsafe, no reflect calls and no
// go:linkname; otherwise who-may-call and guarded-by claims are void.
func (c *Ctx) ruleT0() {
	c.rule(c.R.Property+".T0", "trust rule: no import of unsafe or reflect in the module's non-test packages (who-may-call and value-flow claims rely on it)", func() {
		var bad []string
		for _, pk := range c.P.Mod {
			for _, imp := range pk.Types.Imports() {
				if imp.Path() == "unsafe" || imp.Path() == "reflect" {
					bad = append(bad, pk.PkgPath+" imports "+imp.Path())
				}
			}
		}
		c.verdict(len(bad) == 0, "module packages | imports", "", "no unsafe/reflect import in module packages", join(bad), "packages")
	})
}

// isBuiltin reports whether in is a call of the named builtin.
func isBuiltin(name string) Sel {
	return func(in ssa.Instruction) bool {
		cc := ir.CallOf(in)
		if cc == nil {
			return false
		}
		b, ok := cc.Value.(*ssa.Builtin)
		return ok && b.Name() == name
	}
}

// elemNamed reports whether t is a slice/array/pointer whose element is the
// named type.
func elemIs(t types.Type, named *types.Named) bool {
	switch u := t.Underlying().(type) {
	case *types.Slice:
		return types.Identical(u.Elem(), named)
	case *types.Pointer:
		return types.Identical(u.Elem(), named)
	}
	return false
}

// and combines selectors.
func and(a, b Sel) Sel { return func(in ssa.Instruction) bool { return a(in) && b(in) } }

// resultType narrows value-producing instructions by result type.
func resultType(pred func(types.Type) bool) Sel {
	return func(in ssa.Instruction) bool {
		v, ok := in.(ssa.Value)
		return ok && pred(v.Type())
	}
}

// whole holds lazily computed whole-program facts.
type whole struct{}
