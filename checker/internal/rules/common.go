package rules

import (
	"go/token"
	"go/types"
	"strings"

	"golang.org/x/tools/go/ssa"

	"verif/checker/internal/ir"
)

// Import paths of the external packages whose functions the rule tables name.
const (
	pWire       = "github.com/btcsuite/btcd/wire/v2"
	pChainhash  = "github.com/btcsuite/btcd/chainhash/v2"
	pBlockchain = "github.com/btcsuite/btcd/blockchain"
	pChaincfg   = "github.com/btcsuite/btcd/chaincfg/v2"
	pBuilder    = "github.com/btcsuite/btcd/btcutil/v2/gcs/builder"
	pGcs        = "github.com/btcsuite/btcd/btcutil/v2/gcs"
	pBtcutil    = "github.com/btcsuite/btcd/btcutil/v2"
	pWtxmgr     = "github.com/btcsuite/btcwallet/wtxmgr"
	pPeer       = "github.com/btcsuite/btcd/peer"
	pConnmgr    = "github.com/btcsuite/btcd/connmgr"
)

// Assumptions is the trusted base repeated in every evidence file.
var Assumptions = []string{
	"go/packages, go/types and go/ssa of golang.org/x/tools v0.29.0 represent the program faithfully",
	"the semantics of the btcd/btcwallet/lnd functions used as primitives (CheckBlockHeaderContext, CheckBlockHeaderSanity, CheckBlockSanity, ValidateWitnessCommitment, MakeHeaderForFilter, ValidateCFHeader, DependencySort, bbolt transactions, lnd queue) are as documented",
	"rule tables (which guard protects which effect, which mutex protects which field) were confirmed by reading the pinned tree; they state necessary conditions of the property, not the behaviour",
	"no unsafe / reflection-based calls / go:linkname in the module packages (rule T0, evaluated on every run)",
	"inputs exist: a parameter, range element, received value, call / assertion / lookup result (or a field reached from one, not from the method's receiver; never an error) that a guard clause finds nil or missing is taken to be present - the paths behind such guard clauses (logging, an error value, a refusal sent back, then return or next round) are not explored; the pinned tree dereferences these values unconditionally",
}

// Run evaluates a property's table, preceded by the T0 trust rule.
func (c *Ctx) Run(pr *Prop) {
	progs := []*ir.Program{c.P}
	if c.P.Cache != nil {
		progs = append(progs, c.P.Cache)
	}
	ir.NeverNilField = func(f *types.Var) bool { return neverNilField(progs, f) }
	c.ruleT0()
	pr.Run(c)
}

var neverNilCache = map[*types.Var]bool{}

// neverNilField: the field (a channel, map, slice, pointer or function) is
// given a freshly made value wherever a value of its struct type is built in
// the module - every composite literal / new of the struct in non-test code is
// followed, in the same function, by a store of make(..) / &T{..} / a function
// literal into the field - and nothing else ever stores into it. Asking
// whether it is nil then has one answer.
func neverNilField(progs []*ir.Program, f *types.Var) bool {
	if v, ok := neverNilCache[f]; ok {
		return v
	}
	neverNilCache[f] = false
	fresh := func(v ssa.Value) bool {
		switch ir.Strip(v).(type) {
		case *ssa.MakeChan, *ssa.MakeMap, *ssa.MakeSlice, *ssa.Alloc, *ssa.MakeClosure:
			return true
		}
		return false
	}
	var owner *types.Named
	nStores := 0
	okAll := true
	for _, p := range progs {
		for _, fn := range p.Funcs {
			ir.Instrs(fn, func(in ssa.Instruction) {
				st, ok := in.(*ssa.Store)
				if !ok {
					return
				}
				fa, ok := st.Addr.(*ssa.FieldAddr)
				if !ok || ir.FieldOfAddr(fa) != f {
					return
				}
				nStores++
				if !fresh(st.Val) {
					okAll = false
				}
				if pt, ok := fa.X.Type().Underlying().(*types.Pointer); ok {
					if n, ok := pt.Elem().(*types.Named); ok {
						owner = n
					}
				}
			})
		}
	}
	if !okAll || nStores == 0 || owner == nil {
		return false
	}
	// every construction site sets it
	for _, p := range progs {
		for _, fn := range p.Funcs {
			bad := false
			ir.Instrs(fn, func(in ssa.Instruction) {
				al, ok := in.(*ssa.Alloc)
				if !ok {
					return
				}
				pt, ok := al.Type().(*types.Pointer)
				if !ok || !types.Identical(pt.Elem(), owner) {
					return
				}
				set := false
				for _, r := range ir.Refs(al) {
					if fa, ok := r.(*ssa.FieldAddr); ok && ir.FieldOfAddr(fa) == f {
						for _, rr := range ir.Refs(fa) {
							if st, ok := rr.(*ssa.Store); ok && st.Addr == ssa.Value(fa) {
								set = true
							}
						}
					}
				}
				if !set {
					bad = true
				}
			})
			if bad {
				return false
			}
		}
	}
	neverNilCache[f] = true
	return true
}

// ruleT0: the module's own packages use no unsafe, no reflect calls and no
// go:linkname; otherwise who-may-call and guarded-by claims are void.
func (c *Ctx) ruleT0() {
	c.rule(c.R.Property+".T0", "trust rule: no import of unsafe or reflect in the module's non-test packages (who-may-call and value-flow claims rely on it)", func() {
		var bad []string
		for _, pk := range c.P.Mod {
			for _, imp := range pk.Types.Imports() {
				if imp.Path() == "unsafe" || imp.Path() == "reflect" {
					bad = append(bad, pk.PkgPath+" imports "+imp.Path())
				}
			}
		}
		c.verdict(len(bad) == 0, "module packages | imports", "", "no unsafe/reflect import in module packages", join(bad), "packages")
	})
}

// isBuiltin reports whether in is a call of the named builtin.
func isBuiltin(name string) Sel {
	return func(in ssa.Instruction) bool {
		cc := ir.CallOf(in)
		if cc == nil {
			return false
		}
		b, ok := cc.Value.(*ssa.Builtin)
		return ok && b.Name() == name
	}
}

// elemNamed reports whether t is a slice/array/pointer whose element is the
// named type.
func elemIs(t types.Type, named *types.Named) bool {
	switch u := t.Underlying().(type) {
	case *types.Slice:
		return types.Identical(u.Elem(), named)
	case *types.Pointer:
		return types.Identical(u.Elem(), named)
	}
	return false
}

// and combines selectors.
func and(a, b Sel) Sel { return func(in ssa.Instruction) bool { return a(in) && b(in) } }

// resultType narrows value-producing instructions by result type.
func resultType(pred func(types.Type) bool) Sel {
	return func(in ssa.Instruction) bool {
		v, ok := in.(ssa.Value)
		return ok && pred(v.Type())
	}
}

// whole holds lazily computed whole-program facts.
type whole struct{}

// sendOn selects channel sends (bare Send instructions and Select
// instructions with a send arm) whose channel satisfies pred.
func sendOn(pred func(ssa.Value) bool) Sel {
	return func(in ssa.Instruction) bool {
		switch x := in.(type) {
		case *ssa.Send:
			return pred(x.Chan)
		case *ssa.Select:
			for _, st := range x.States {
				if st.Dir == types.SendOnly && pred(st.Chan) {
					return true
				}
			}
		}
		return false
	}
}

// mapDelete selects builtin delete calls on a map satisfying pred.
func mapDelete(pred func(ssa.Value) bool) Sel {
	return func(in ssa.Instruction) bool {
		if !isBuiltin("delete")(in) {
			return false
		}
		return pred(ir.CallOf(in).Args[0])
	}
}

// mapUpdate selects map inserts on a map satisfying pred.
func mapUpdate(pred func(ssa.Value) bool) Sel {
	return func(in ssa.Instruction) bool {
		mu, ok := in.(*ssa.MapUpdate)
		return ok && pred(mu.Map)
	}
}

// isParam builds a predicate "value is (derived from) parameter #i of fn".
func isParam(fn *ssa.Function, i int) func(ssa.Value) bool {
	return func(v ssa.Value) bool {
		return ir.DerivesFrom(v, func(x ssa.Value) bool { return i < len(fn.Params) && x == ssa.Value(fn.Params[i]) })
	}
}

// constIntIs builds a predicate "integer constant k".
func constIntIs(k int64) func(ssa.Value) bool {
	return func(v ssa.Value) bool {
		x, ok := ir.ConstInt(v)
		return ok && x == k
	}
}

// lookupsOn selects comma-ok map lookups on maps satisfying pred.
func lookupsOn(pred func(ssa.Value) bool) Sel {
	return func(in ssa.Instruction) bool {
		l, ok := in.(*ssa.Lookup)
		return ok && l.CommaOk && pred(l.X)
	}
}

// progressReturns classifies the returns of a response handler returning
// query.Progress: a return is "positive" unless both Finished and Progressed
// are provably the constant false.
func progressReturns(fn *ssa.Function, positiveOnly bool) []ssa.Instruction {
	var out []ssa.Instruction
	for _, in := range find(fn, isExit) {
		r := in.(*ssa.Return)
		if len(r.Results) != 1 {
			continue
		}
		if progressIsNegative(ir.RetVal(r, 0)) != positiveOnly {
			out = append(out, in)
		}
	}
	return out
}

func progressIsNegative(v ssa.Value) bool {
	ld, ok := v.(*ssa.UnOp)
	if !ok {
		return false
	}
	switch a := ld.X.(type) {
	case *ssa.Alloc:
		// composite literal: every stored field must be constant false
		for _, r := range ir.Refs(a) {
			switch x := r.(type) {
			case *ssa.FieldAddr:
				for _, rr := range ir.Refs(x) {
					if st, ok := rr.(*ssa.Store); ok {
						if b, isC := ir.ConstBool(st.Val); !isC || b {
							return false
						}
					}
				}
			case *ssa.Store:
				return false
			}
		}
		return true
	case *ssa.Global:
		return globalIsZeroProgress(a)
	}
	return false
}

// globalIsZeroProgress: the package initializer stores nothing but constant
// false into the global (or nothing at all).
func globalIsZeroProgress(g *ssa.Global) bool {
	init := g.Pkg.Func("init")
	if init == nil {
		return false
	}
	okv := true
	ir.Instrs(init, func(in ssa.Instruction) {
		st, isSt := in.(*ssa.Store)
		if !isSt {
			return
		}
		root := st.Addr
		if fa, isFa := root.(*ssa.FieldAddr); isFa {
			root = fa.X
		}
		if root != ssa.Value(g) {
			return
		}
		if b, isC := ir.ConstBool(st.Val); !isC || b {
			okv = false
		}
	})
	return okv
}

// refersTo selects instructions that use one of the given functions/methods
// as a value (method value, function value passed or stored), not as the
// callee of a direct call. Bound-method wrappers resolve to their method.
func refersTo(objs ...*types.Func) Sel {
	match := func(v ssa.Value) bool {
		var fn *ssa.Function
		switch x := v.(type) {
		case *ssa.Function:
			fn = x
		case *ssa.MakeClosure:
			fn, _ = x.Fn.(*ssa.Function)
		}
		if fn == nil {
			return false
		}
		if o := fn.Origin(); o != nil {
			fn = o
		}
		f, ok := fn.Object().(*types.Func)
		if !ok {
			return false
		}
		for _, o := range objs {
			if ir.SameFunc(f, o) || ir.Implements(f, o) {
				return true
			}
		}
		return false
	}
	return func(in ssa.Instruction) bool {
		if mc, ok := in.(*ssa.MakeClosure); ok {
			return match(mc)
		}
		var ops []*ssa.Value
		ops = in.Operands(ops)
		cc := ir.CallOf(in)
		for _, op := range ops {
			if *op == nil {
				continue
			}
			if cc != nil && *op == cc.Value {
				continue
			}
			if _, isMC := (*op).(*ssa.MakeClosure); isMC {
				continue // counted at the MakeClosure itself
			}
			if match(*op) {
				return true
			}
		}
		return false
	}
}

// returnsDerive checks that result #idx of every return of fn is nil or
// satisfies one of the source predicates; it returns the offending returns.
func returnsDerive(fn *ssa.Function, idx int, src func(ssa.Value) bool) (bad, good []ssa.Instruction) {
	for _, in := range find(fn, isExit) {
		r := in.(*ssa.Return)
		if idx >= len(r.Results) {
			continue
		}
		v := ir.RetVal(r, idx)
		if ir.IsNil(v) {
			continue
		}
		if ir.DerivesFrom(v, src) {
			good = append(good, in)
		} else {
			bad = append(bad, in)
		}
	}
	return
}

// selectArms: start points at the entry of every select arm whose state
// satisfies pred (the edge where the select's chosen index equals the arm).
func (c *Ctx) selectArms(fn *ssa.Function, pred func(sel *ssa.Select, st *ssa.SelectState) bool, what string) []start {
	var out []start
	ir.Instrs(fn, func(in ssa.Instruction) {
		sel, ok := in.(*ssa.Select)
		if !ok {
			return
		}
		for i, st := range sel.States {
			if !pred(sel, st) {
				continue
			}
			for _, r := range ir.Refs(sel) {
				e, ok := r.(*ssa.Extract)
				if !ok || e.Index != 0 {
					continue
				}
				for _, ib := range ir.IntEqBranches(e) {
					if ib.K == int64(i) {
						out = append(out, atEdge(c, ib.Edge(), what+" at "+c.at(in)))
					}
				}
			}
		}
	})
	return out
}

// paramOrSpill: the value is parameter p itself, the cell p was spilled to
// (its address), or a load of that cell; the cell is written only with p.
func paramOrSpill(p *ssa.Parameter) func(ssa.Value) bool {
	// a cell that only ever holds p: written with p itself, or with a copy of
	// another such cell (argument temporaries of an inlined helper)
	var cellOfP func(v ssa.Value, depth int) bool
	var holdsP func(v ssa.Value, depth int) bool
	holdsP = func(v ssa.Value, depth int) bool {
		if v == ssa.Value(p) {
			return true
		}
		if depth > 6 {
			return false
		}
		if ld, ok := v.(*ssa.UnOp); ok && ld.Op == token.MUL {
			return cellOfP(ld.X, depth+1)
		}
		return false
	}
	cellOfP = func(v ssa.Value, depth int) bool {
		al, ok := v.(*ssa.Alloc)
		if !ok {
			return false
		}
		sts := ir.StoresTo(al)
		if len(sts) == 0 {
			return false
		}
		for _, st := range sts {
			if !holdsP(st.Val, depth) {
				return false
			}
		}
		return true
	}
	return func(v ssa.Value) bool {
		return holdsP(v, 0) || cellOfP(v, 0)
	}
}

// globalNeverWritten: no instruction of the module (package initialisers
// included) stores into the global or takes its address for anything but a
// load: it keeps its zero value for ever.
func (c *Ctx) globalNeverWritten(g *ssa.Global) bool {
	ok := true
	check := func(fn *ssa.Function) {
		if fn == nil {
			return
		}
		ir.Instrs(fn, func(in ssa.Instruction) {
			for _, op := range in.Operands(nil) {
				if op == nil || *op != ssa.Value(g) {
					continue
				}
				if u, isLoad := in.(*ssa.UnOp); isLoad && u.Op == token.MUL {
					continue
				}
				ok = false
			}
		})
	}
	for _, fn := range c.P.Funcs {
		check(fn)
	}
	check(g.Pkg.Func("init"))
	return ok
}

// atomicOp selects calls of the sync/atomic operation op ("Add", "Load",
// "Store", "CompareAndSwap", "Swap") in either spelling: the package function
// on a plain integer (atomic.AddInt32(&x.f, 1)) or the method of a typed
// atomic (x.f.Add(1)). In both the first operand is the address of the variable.
func atomicOp(op string) Sel {
	return func(in ssa.Instruction) bool {
		cc := ir.CallOf(in)
		if cc == nil || cc.IsInvoke() {
			return false
		}
		f := cc.StaticCallee()
		if f == nil || f.Pkg == nil || f.Pkg.Pkg.Path() != "sync/atomic" {
			return false
		}
		if f.Signature.Recv() != nil {
			return f.Name() == op
		}
		return strings.HasPrefix(f.Name(), op) && len(f.Name()) > len(op)
	}
}

func valIsAtomicOp(op string) func(ssa.Value) bool {
	sel := atomicOp(op)
	return func(v ssa.Value) bool {
		in, ok := v.(ssa.Instruction)
		return ok && sel(in)
	}
}

// stdCall returns the call instruction when v is a direct call of the
// standard-library function pkg.name (generic functions by their origin), and
// nil otherwise.
func stdCall(v ssa.Value, pkg, name string) *ssa.Call {
	call, ok := v.(*ssa.Call)
	if !ok {
		return nil
	}
	fn := call.Call.StaticCallee()
	if fn == nil {
		return nil
	}
	if o := fn.Origin(); o != nil {
		fn = o
	}
	if fn.Name() != name || fn.Pkg == nil || fn.Pkg.Pkg.Path() != pkg || fn.Signature.Recv() != nil {
		return nil
	}
	return call
}

// allValuesOf reports whether v is the slice of every value of a map m with
// isMap(m), built by the standard library: slices.Collect(maps.Values(m)),
// slices.AppendSeq(s, maps.Values(m)) (s's own elements stay in front) or
// slices.Sorted... of the same sequence.
func allValuesOf(v ssa.Value, isMap func(ssa.Value) bool) bool {
	v = ir.Strip(v)
	var seq ssa.Value
	if c := stdCall(v, "slices", "Collect"); c != nil && len(c.Call.Args) == 1 {
		seq = c.Call.Args[0]
	} else if c := stdCall(v, "slices", "AppendSeq"); c != nil && len(c.Call.Args) == 2 {
		seq = c.Call.Args[1]
	} else if c := stdCall(v, "slices", "Sorted"); c != nil && len(c.Call.Args) == 1 {
		seq = c.Call.Args[0]
	}
	if seq == nil {
		return false
	}
	mv := stdCall(ir.Strip(seq), "maps", "Values")
	return mv != nil && len(mv.Call.Args) == 1 && isMap(mv.Call.Args[0])
}

// recvAndArgs splits a call into its receiver and remaining arguments
// (interface and static method calls alike).
func recvAndArgs(call ssa.Instruction) (ssa.Value, []ssa.Value) {
	cc := ir.CallOf(call)
	if cc.IsInvoke() {
		return cc.Value, cc.Args
	}
	if len(cc.Args) == 0 {
		return nil, nil
	}
	return cc.Args[0], cc.Args[1:]
}

// bytesFrom: the byte slice v is built from a value satisfying pred: directly
// (append, slicing, conversions), or v is a window of a local buffer that a
// copy() fills from such a value in the same function.
func bytesFrom(v ssa.Value, pred func(ssa.Value) bool) bool {
	if pred(v) {
		return true
	}
	var buf ssa.Value
	ir.DerivesFrom(v, func(x ssa.Value) bool {
		if a, ok := x.(*ssa.Alloc); ok {
			if _, isArr := a.Type().Underlying().(*types.Pointer).Elem().Underlying().(*types.Array); isArr {
				buf = a
				return true
			}
		}
		// a private copy: make([]byte, len(src)) filled by copy
		if mk, ok := x.(*ssa.MakeSlice); ok {
			buf = mk
			return true
		}
		return false
	})
	if buf == nil {
		return false
	}
	in, ok := v.(ssa.Instruction)
	if !ok || in.Parent() == nil {
		return false
	}
	found := false
	ir.Instrs(in.Parent(), func(x ssa.Instruction) {
		call, isCall := x.(*ssa.Call)
		if !isCall || !isBuiltin("copy")(call) {
			return
		}
		dst, src := call.Call.Args[0], call.Call.Args[1]
		if ir.DerivesFrom(dst, func(y ssa.Value) bool { return y == buf }) && pred(src) {
			found = true
		}
	})
	return found
}

// liveValue looks through result variables: while v is a phi of which exactly
// one incoming edge can still be followed by the instruction `at` (the others
// carry the placeholder values of the ways out that never get there: a helper
// that returns `0, err` on failure, inlined, with the caller returning on err),
// v is the value on that edge.
func liveValue(v ssa.Value, at ssa.Instruction) ssa.Value {
	for i := 0; i < 4; i++ {
		v = ir.Strip(v)
		ph, ok := v.(*ssa.Phi)
		if !ok {
			return v
		}
		var live []ssa.Value
		for j, e := range ph.Edges {
			reach := false
			ir.WalkCtx(ph.Block(), 0, ph.Block().Preds[j], nil, func(in ssa.Instruction) bool {
				if in == at {
					reach = true
				}
				return !reach
			})
			if reach {
				live = append(live, e)
			}
		}
		if len(live) != 1 {
			return v
		}
		v = live[0]
	}
	return v
}

// mapUpdateOneOf selects the updates of a map that is held in one of the given
// fields: the map operand is a load of one of them, or a variable that holds a
// load of one of them on every incoming edge (`m := a; if p { m = b }; m[k] =
// v`, or a helper returning the one or the other). covered reports, for an
// instruction selected, how many of the fields it may write.
func mapUpdateOneOf(fields ...*types.Var) (sel Sel, covered func(ssa.Instruction) int) {
	which := func(v ssa.Value) map[*types.Var]bool {
		out := map[*types.Var]bool{}
		for _, f := range fields {
			if loadsField(f)(v) { // follows result variables (phis)
				out[f] = true
			}
		}
		return out
	}
	sel = func(in ssa.Instruction) bool {
		mu, ok := in.(*ssa.MapUpdate)
		return ok && len(which(mu.Map)) > 0
	}
	covered = func(in ssa.Instruction) int {
		mu, ok := in.(*ssa.MapUpdate)
		if !ok {
			return 0
		}
		return len(which(mu.Map))
	}
	return
}

// isLogCall: a call of a method of the btclog.Logger interface (writing a log
// line is not an effect any rule is about).
func isLogCall(in ssa.Instruction) bool {
	cc := ir.CallOf(in)
	if cc == nil || !cc.IsInvoke() {
		return false
	}
	n, ok := cc.Value.Type().(*types.Named)
	return ok && n.Obj().Name() == "Logger" && n.Obj().Pkg() != nil && n.Obj().Pkg().Name() == "btclog"
}

// mapLookupOf: v is the value of a map lookup m[k], in the plain or the
// comma-ok form (`x, ok := m[k]`).
func mapLookupOf(v ssa.Value) *ssa.Lookup {
	v = ir.Strip(v)
	if e, ok := v.(*ssa.Extract); ok && e.Index == 0 {
		v = e.Tuple
	}
	lk, _ := v.(*ssa.Lookup)
	return lk
}
