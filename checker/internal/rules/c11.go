package rules

import (
	"fmt"
	"go/token"
	"go/types"
	"sort"

	"golang.org/x/tools/go/ssa"

	"verif/checker/internal/ir"
)

func init() {
	register(&Prop{ID: "C11", Run: runC11, NotDecided: []string{
		"unbounded-queue behaviour and ordering guarantees of lnd/queue.ConcurrentQueue (trusted)",
		"fairness between subscribers; delivery over schedules (only single-owner access, ordering of registration vs backlog, close discipline and quit escapes are decided)",
	}})
}

const (
	fnSubHandler = "(*blockntfns.SubscriptionManager).subscriptionHandler"
	fnHandleNew  = "(*blockntfns.SubscriptionManager).handleNewSubscription"
	fnHandleCan  = "(*blockntfns.SubscriptionManager).handleCancelSubscription"
	fnNotifyAll  = "(*blockntfns.SubscriptionManager).notifySubscribers"
	fnNotifyOne  = "(*blockntfns.SubscriptionManager).notifySubscriber"
	fnNewSub     = "(*blockntfns.SubscriptionManager).NewSubscription"
	fnSubCancel  = "(*blockntfns.newSubscription).cancel"
	fnSMStop     = "(*blockntfns.SubscriptionManager).Stop"
)

// fieldAccess selects any access (address or value) of the field.
func accessOf(f *types.Var) Sel {
	return func(in ssa.Instruction) bool {
		switch x := in.(type) {
		case *ssa.FieldAddr:
			return ir.FieldOfAddr(x) == f
		case *ssa.Field:
			return ir.FieldOfValue(x) == f
		}
		return false
	}
}

// closes selects close(ch) calls on channels satisfying pred.
func closes(pred func(ssa.Value) bool) Sel {
	return func(in ssa.Instruction) bool {
		return isBuiltin("close")(in) && pred(ir.CallOf(in).Args[0])
	}
}

// selectHasRecv reports whether a Select has a receive arm on a channel
// satisfying pred.
func selectHasRecv(sel *ssa.Select, pred func(ssa.Value) bool) bool {
	for _, st := range sel.States {
		if st.Dir == types.RecvOnly && pred(st.Chan) {
			return true
		}
	}
	return false
}

func runC11(c *Ctx) {
	sm := func(f string) *types.Var { return c.field("blockntfns", "SubscriptionManager", f) }
	ns := func(f string) *types.Var { return c.field("blockntfns", "newSubscription", f) }
	smM := func(m string) *types.Func { return c.method("blockntfns", "SubscriptionManager", m) }

	c.rule("C11.O3", tipBeforeEventsDoc, func() { c.tipBeforeEvents() })

	c.rule("C11.V2", "the backlog handed to a new subscriber ends where the live events begin: "+backlogBoundDoc, func() { c.backlogBound() })

	c.rule("C11.P1", eventsUnlockedDoc, func() { c.eventsUnlocked() })
	c.rule("C11.V3", "the handler never waits for a caller that has gone: NewSubscription stops listening for the registration's answer once the manager's quit channel is closed, and the handler answers with a plain send; the answer channel of every registration is therefore made with room for that one answer (capacity 1) - an unbuffered one parks the handler for ever, Stop never returns and no subscriber's channel is closed", func() {
		fn := c.fn("(*blockntfns.SubscriptionManager).NewSubscription")
		ec := c.field("blockntfns", "newSubscription", "errChan")
		sts := find(fn, storeToField(ec))
		okCap := len(sts) >= 1
		for _, st := range sts {
			mk, isMk := ir.Strip(st.(*ssa.Store).Val).(*ssa.MakeChan)
			if !isMk {
				okCap = false
				continue
			}
			if k, isC := ir.ConstInt(mk.Size); !isC || k < 1 {
				okCap = false
			}
		}
		c.verdict(okCap, c.nm(fn)+" | errChan is made with capacity >= 1", c.P.Pos(fn.Pos()), "make(chan error, 1)", "the registration's answer channel has no room for the answer: the handler blocks on it when the caller has already left", c.ats(sts)...)
	})

	c.rule("C11.O4", "the backlog of a new subscriber ends where the announced chain ends: its bound is the in-memory filter tip, which must not run ahead of what was announced (blocks above the committed filter headers were never announced; offered as backlog they are delivered again when their filter headers arrive): "+filterTipMirrorDoc, func() { c.filterTipMirror() })
	c.rule("C11.R1", registryOwnerDoc, func() { c.registryOwner() })

	c.rule("C11.O1", backlogDoc, func() { c.backlogThenRegister() })

	c.rule("C11.O2", "newSubscription.cancel: close(quit), then wait for the forwarder (wg.Wait), then close(ntfnChan), all inside sync.Once: no send after close, no double close", func() {
		top := c.fn(fnSubCancel)
		once := c.method("sync", "Once", "Do")
		cls := closuresPassedTo(top, once)
		if len(cls) != 1 {
			c.fail(c.nm(top)+" | body runs under sync.Once", c.P.Pos(top.Pos()), "cancel no longer runs its body through s.canceled.Do(...)")
			return
		}
		cl := cls[0]
		c.R.Funcs[c.nm(cl)] = true
		wait := withArg(callTo(c.method("sync", "WaitGroup", "Wait")), 0, fieldAddrOf(ns("wg")))
		cq := closes(loadsField(ns("quit")))
		cn := closes(loadsField(ns("ntfnChan")))
		c.mustPrecede(cl, cq, "close(s.quit)", wait, "s.wg.Wait()", 1)
		c.mustPrecede(cl, wait, "s.wg.Wait()", cn, "close(s.ntfnChan)", 1)
		c.whoMay("close(newSubscription.ntfnChan)", cn, []string{fnSubCancel}, 1)
		c.whoMay("close(newSubscription.quit)", cq, []string{fnSubCancel}, 1)
		// nothing but the Once call in cancel itself
		others := find(top, anyOf(cq, cn))
		c.verdict(len(others) == 0, c.nm(top)+" | no close outside the Once body", c.P.Pos(top.Pos()), "closes only inside Do", "a channel is closed outside the sync.Once body (double close possible)", c.ats(others)...)
	})

	c.rule("C11.V1", monotonicSubscriberIDsDoc, func() { c.monotonicSubscriberIDs() })

	c.rule("C11.W1", "single sender and quit escapes: only the per-subscription forwarder goroutine sends on ntfnChan (wg-tracked, started in NewSubscription); only notifySubscriber enqueues; both block only in selects that also wait on the subscriber's and the manager's quit; the forwarder forwards exactly what it dequeued", func() {
		c.whoMay("send on newSubscription.ntfnChan", sendOn(loadsField(ns("ntfnChan"))), []string{fnNewSub}, 1)
		chanIn := c.method("github.com/lightningnetwork/lnd/queue", "ConcurrentQueue", "ChanIn")
		chanOut := c.method("github.com/lightningnetwork/lnd/queue", "ConcurrentQueue", "ChanOut")
		c.whoMay("send into ntfnQueue.ChanIn()", sendOn(valIsCallTo(chanIn)), []string{fnNotifyOne}, 1)
		c.whoMay("calls of notifySubscriber", callTo(smM("notifySubscriber")), []string{fnHandleNew, fnNotifyAll}, 2)
		// quit arms
		check := func(fn *ssa.Function, chanPred func(ssa.Value) bool, what string) {
			okv, n := true, 0
			ir.Instrs(fn, func(in ssa.Instruction) {
				sel, ok := in.(*ssa.Select)
				if !ok {
					return
				}
				relevant := false
				for _, st := range sel.States {
					if chanPred(st.Chan) {
						relevant = true
					}
				}
				if !relevant {
					return
				}
				n++
				if !sel.Blocking {
					return
				}
				if !selectHasRecv(sel, loadsField(ns("quit"))) || !selectHasRecv(sel, loadsField(sm("quit"))) {
					okv = false
				}
			})
			c.verdict(okv && n >= 1, c.nm(fn)+" | "+what+" can be abandoned on sub.quit and m.quit", c.P.Pos(fn.Pos()), "select carries both quit arms", what+" can block without a quit alternative (a slow or cancelled subscriber would stall the handler / leak the forwarder)")
		}
		one := c.fn(fnNotifyOne)
		check(one, valIsCallTo(chanIn), "enqueue for a subscriber")
		// bare sends there?
		bare := find(one, func(in ssa.Instruction) bool { _, ok := in.(*ssa.Send); return ok })
		c.verdict(len(bare) == 0, c.nm(one)+" | no bare send", c.P.Pos(one.Pos()), "only select sends", "notifySubscriber performs a bare (unconditional) send", c.ats(bare)...)
		// forwarder closure: the go func in NewSubscription
		nsub := c.fn(fnNewSub)
		var fwd *ssa.Function
		ir.Instrs(nsub, func(in ssa.Instruction) {
			if g, ok := in.(*ssa.Go); ok {
				// a function literal, or a named function / method started
				// with `go`
				if mc, ok := g.Call.Value.(*ssa.MakeClosure); ok {
					if f, ok := mc.Fn.(*ssa.Function); ok {
						fwd = f
					}
				} else if f := g.Call.StaticCallee(); f != nil && f.Blocks != nil {
					fwd = f
				}
			}
		})
		if fwd == nil {
			panic(anchorErr{"forwarder goroutine literal in NewSubscription"})
		}
		c.R.Funcs[c.nm(fwd)] = true
		check(fwd, func(v ssa.Value) bool { return valIsCallTo(chanOut)(v) || loadsField(ns("ntfnChan"))(v) }, "dequeue / forward to ntfnChan")
		// forwards what it dequeued
		okFwd := false
		ir.Instrs(fwd, func(in ssa.Instruction) {
			sel, ok := in.(*ssa.Select)
			if !ok {
				return
			}
			for _, st := range sel.States {
				if st.Dir == types.SendOnly && loadsField(ns("ntfnChan"))(st.Chan) {
					okFwd = ir.DerivesFrom(st.Send, func(x ssa.Value) bool {
						e, ok := x.(*ssa.Extract)
						if !ok {
							return false
						}
						s2, ok := e.Tuple.(*ssa.Select)
						return ok && selectHasRecv(s2, valIsCallTo(chanOut))
					})
				}
			}
		})
		c.verdict(okFwd, c.nm(fwd)+" | value sent on ntfnChan is the value dequeued from ntfnQueue", c.P.Pos(fwd.Pos()), "forwarded unchanged", "the forwarder does not send the dequeued notification")
		// wg-tracked
		add := withArg(callTo(c.method("sync", "WaitGroup", "Add")), 0, fieldAddrOf(ns("wg")))
		isGo := func(in ssa.Instruction) bool { _, ok := in.(*ssa.Go); return ok }
		c.mustPrecede(nsub, add, "sub.wg.Add(1)", isGo, "go forwarder", 1)
		done := c.method("sync", "WaitGroup", "Done")
		c.verdict(c.deferredBefore(fwd, atEntry(fwd), callTo(done)) || len(find(fwd, func(in ssa.Instruction) bool {
			_, isD := in.(*ssa.Defer)
			return isD && callTo(done)(in)
		})) == 1 || c.mustFollowOptQuietAll(fwd, callTo(done)), c.nm(fwd)+" | defer sub.wg.Done()", c.P.Pos(fwd.Pos()), "Done deferred", "the forwarder no longer signals its WaitGroup on exit (cancel would hang)")
		c.fanOutAll()
	})
}

// fanOutAll: notifySubscribers delivers every event to every registered
// subscriber; no per-subscriber filter state exists.
func (c *Ctx) fanOutAll() {
	sm := func(f string) *types.Var { return c.field("blockntfns", "SubscriptionManager", f) }
	smM := func(m string) *types.Func { return c.method("blockntfns", "SubscriptionManager", m) }
	ns := func(f string) *types.Var { return c.field("blockntfns", "newSubscription", f) }
	// fan-out covers every registered subscriber: from each element of the
	// range over m.subscribers the notifySubscriber call is reached within
	// the iteration (no subscriber is skipped), with that subscriber and the
	// event that was received
	// notifySubscribers, or the handler it was folded into
	alls, folded := c.hostsOf(fnNotifyAll)
	all := alls[0]
	var starts []start
	ir.Instrs(all, func(in ssa.Instruction) {
		n, ok := in.(*ssa.Next)
		if !ok {
			return
		}
		r, ok := n.Iter.(*ssa.Range)
		if !ok || !loadsField(sm("subscribers"))(r.X) {
			return
		}
		for _, ex := range ir.Result(n, 0) {
			for _, br := range ir.TrueBranches(ex) {
				starts = append(starts, atEdge(c, br.Edge(), "next subscriber at "+c.at(in)))
			}
		}
	})
	c.mustFollowIter(all, "each registered subscriber", starts, callTo(smM("notifySubscriber")), "m.notifySubscriber(subscriber, ntfn)", nil, 1)
	// ... and the loop goes on to the last subscriber: it is left only when the
	// range is exhausted (or, written out in the loop itself, on the arm that
	// saw the manager's own quit channel closed); one subscriber that has
	// gone away must not end the fan-out for those behind it in the map
	ir.Instrs(all, func(in ssa.Instruction) {
		n, ok := in.(*ssa.Next)
		if !ok {
			return
		}
		r, ok := n.Iter.(*ssa.Range)
		if !ok || !loadsField(sm("subscribers"))(r.X) {
			return
		}
		h := ir.LoopHeaderOf(in.Block())
		if h == nil {
			h = in.Block()
		}
		exhausted := map[ir.Edge]bool{}
		for _, ex := range ir.Result(n, 0) {
			for _, br := range ir.TrueBranches(ex) {
				exhausted[br.Other()] = true
			}
		}
		quitArm := map[ir.Edge]bool{}
		ir.Instrs(all, func(x ssa.Instruction) {
			sel, ok := x.(*ssa.Select)
			if !ok {
				return
			}
			for i, st := range sel.States {
				if st.Dir != types.RecvOnly || !loadsField(sm("quit"))(st.Chan) {
					continue
				}
				for _, rr := range ir.Refs(sel) {
					if e, isEx := rr.(*ssa.Extract); isEx && e.Index == 0 {
						for _, ib := range ir.IntEqBranches(e) {
							if ib.K == int64(i) {
								quitArm[ib.Edge()] = true
							}
						}
					}
				}
			}
		})
		var early []string
		for _, e := range ir.LoopExits(h) {
			if exhausted[e] {
				continue
			}
			okQuit := false
			for q := range quitArm {
				if ir.EdgeDominates(all, q, e.From) {
					okQuit = true
				}
			}
			// ... or on the answer of a helper that gives that answer only
			// behind its own wait on the manager's quit channel
			if !okQuit {
				okQuit = c.leftOnlyAtManagerQuit(e, sm("quit"))
			}
			if !okQuit {
				early = append(early, c.at(e.From.Instrs[len(e.From.Instrs)-1]))
			}
		}
		sort.Strings(early)
		c.verdict(len(early) == 0, c.nm(all)+" | the fan-out loop ends only when every subscriber was served", c.at(in), "the only way out of the loop over m.subscribers is the end of the range", "the loop over m.subscribers can be left early at "+join(uniq(early))+": the subscribers behind that point in the map miss the event")
	})
	okArgs := false
	for _, call := range find(all, callTo(smM("notifySubscriber"))) {
		a := ir.CallOf(call).Args
		fromRange := ir.DerivesFrom(a[1], func(x ssa.Value) bool { _, ok := x.(*ssa.Next); return ok })
		if !fromRange {
			continue // (the backlog delivery to one subscriber)
		}
		if folded {
			// the event is the one just received from the notification source
			okArgs = ir.DerivesFrom(a[2], func(x ssa.Value) bool {
				if sel, ok := x.(*ssa.Select); ok {
					return selectHasRecv(sel, valIsCallTo(c.method("blockntfns", "NotificationSource", "Notifications")))
				}
				u, ok := x.(*ssa.UnOp)
				return ok && u.Op == token.ARROW
			})
		} else {
			okArgs = a[2] == ssa.Value(all.Params[1])
		}
	}
	c.verdict(okArgs, c.nm(all)+" | each subscriber gets the event that was received", c.P.Pos(all.Pos()), "notifySubscriber(range element, ntfn)", "the fan-out does not pass the ranged subscriber and the received event")
	c.whoMay("store to newSubscription.bestHeight", storeToField(ns("bestHeight")), []string{fnNewSub}, 1)
}

func nameOf(v *types.Var) string {
	if v == nil {
		return "?"
	}
	return v.Name()
}

const backlogDoc = "handleNewSubscription: the backlog since the requested height is delivered to the new subscriber before it is registered for live events, both in the handler goroutine; registration happens only if the backlog could be computed"

// backlogThenRegister: see backlogDoc.
func (c *Ctx) backlogThenRegister() {
	sm := func(f string) *types.Var { return c.field("blockntfns", "SubscriptionManager", f) }
	smM := func(m string) *types.Func { return c.method("blockntfns", "SubscriptionManager", m) }
	ns := func(f string) *types.Var { return c.field("blockntfns", "newSubscription", f) }
	_, _, _ = sm, smM, ns
	fn := c.fn(fnHandleNew)
	reg := mapUpdate(loadsField(sm("subscribers")))
	one := callTo(smM("notifySubscriber"))
	c.neverAfter(fn, reg, "m.subscribers[id] = sub", one, "backlog delivery (notifySubscriber)", 1, nil)
	since := c.method("blockntfns", "NotificationSource", "NotificationsSinceHeight")
	sc := find(fn, callTo(since))
	eff := append(find(fn, reg), find(fn, one)...)
	c.guarded(fn, errNil("ntfnSource.NotificationsSinceHeight(sub.bestHeight)", sc, 2), 1, "backlog delivery / registration", eff, 2, gDominate)
	okArg := len(sc) == 1
	for _, s := range sc {
		if !isLoadOfPath(argsOf(s)[0], ns("bestHeight")) {
			okArg = false
		}
	}
	c.verdict(okArg, c.nm(fn)+" | backlog requested from sub.bestHeight", c.P.Pos(fn.Pos()), "argument is the subscriber's start height", "the backlog is not requested from the subscriber's own start height", c.ats(sc)...)
	// every backlog element is delivered to THIS subscriber, in slice order
	var starts []start
	ir.Instrs(fn, func(in ssa.Instruction) {
		ia, ok := in.(*ssa.IndexAddr)
		if !ok {
			return
		}
		// (also when the backlog travels in a small struct this function builds itself)
		e, ok := ir.Strip(ir.ValueAt(ia.X, in.Block())).(*ssa.Extract)
		if ok && e.Index == 0 && valIsCallTo(since)(e.Tuple) {
			// the loop that delivers (a loop that only inspects the backlog
			// beforehand delivers nothing, and need not)
			h := ir.LoopHeaderOf(in.Block())
			delivers := h == nil
			if h != nil {
				blocks := ir.LoopBlocks(h)
				for _, d := range find(fn, one) {
					if blocks[d.Block()] {
						delivers = true
					}
				}
			}
			if delivers {
				starts = append(starts, afterInstr(c, in))
			}
		}
	})
	c.mustFollowIter(fn, "each backlog notification", starts, one, "m.notifySubscriber(sub, block)", nil, 1)
	okSub := true
	for _, o := range find(fn, one) {
		if ir.CallOf(o).Args[1] != ssa.Value(fn.Params[1]) {
			okSub = false
		}
	}
	c.verdict(okSub, c.nm(fn)+" | backlog goes to the subscriber being registered", c.P.Pos(fn.Pos()), "notifySubscriber(sub, ..)", "the backlog is delivered to a different subscriber")
	// the registration reply: exactly one per request
	h := c.fn(fnSubHandler)
	rep := sendOn(loadsField(ns("errChan")))
	reps := find(h, rep)
	okRep := len(reps) == 1
	for _, r := range reps {
		s, isSend := r.(*ssa.Send)
		if !isSend || !valIsCallTo(smM("handleNewSubscription"))(s.X) {
			okRep = false
		}
	}
	c.verdict(okRep, c.nm(h)+" | one reply per registration, carrying handleNewSubscription's result", c.P.Pos(h.Pos()), "msg.errChan <- m.handleNewSubscription(msg)", "the registration reply is missing, duplicated or not the handler's result", c.ats(reps)...)
}

const registryOwnerDoc = "SubscriptionManager.subscribers is owned by the handler goroutine: it is touched only by the three handler helpers (called only from subscriptionHandler), by the constructor, and by Stop after it joined the handler"

// registryOwner: see registryOwnerDoc.
func (c *Ctx) registryOwner() {
	sm := func(f string) *types.Var { return c.field("blockntfns", "SubscriptionManager", f) }
	smM := func(m string) *types.Func { return c.method("blockntfns", "SubscriptionManager", m) }
	c.whoMay("access to SubscriptionManager.subscribers", accessOf(sm("subscribers")), []string{fnSubHandler, fnHandleNew, fnHandleCan, fnNotifyAll, "blockntfns.NewSubscriptionManager", fnSMStop}, 5)
	// (helpers folded into the handler no longer have calls to restrict)
	helpers := c.methodsOpt("blockntfns", "SubscriptionManager", "handleNewSubscription", "handleCancelSubscription", "notifySubscribers")
	if len(helpers) > 0 {
		c.whoMay("calls of handleNewSubscription/handleCancelSubscription/notifySubscribers", callTo(helpers...), []string{fnSubHandler}, len(helpers))
	}
	c.whoMay("go subscriptionHandler", func(in ssa.Instruction) bool {
		_, isGo := in.(*ssa.Go)
		return isGo && callTo(smM("subscriptionHandler"))(in)
	}, []string{"(*blockntfns.SubscriptionManager).Start"}, 1)
	c.whoMay("calls of subscriptionHandler", callTo(smM("subscriptionHandler")), []string{"(*blockntfns.SubscriptionManager).Start"}, 1)
	stop := c.fn(fnSMStop)
	wait := c.method("sync", "WaitGroup", "Wait")
	mwait := withArg(callTo(wait), 0, fieldAddrOf(sm("wg")))
	c.mustPrecede(stop, mwait, "m.wg.Wait()", accessOf(sm("subscribers")), "access to m.subscribers", 1)
	c.mustPrecede(stop, closes(loadsField(sm("quit"))), "close(m.quit)", mwait, "m.wg.Wait()", 1)
	// Start is once-only
	st := c.fn("(*blockntfns.SubscriptionManager).Start")
	g := equalIs("atomic.AddInt32(&m.started,1) vs 1", find(st, binops(eqOps, valIsAtomicOp("Add"), constIntIs(1))), true)
	c.guarded(st, g, 1, "go subscriptionHandler", find(st, func(in ssa.Instruction) bool { _, ok := in.(*ssa.Go); return ok }), 1, gDominate)
}

const eventsUnlockedDoc = "one subscriber never stalls the others: block events are handed to the subscription manager (a rendezvous with its single handler goroutine) with no mutex of the block manager held; that handler also serves new subscriptions by calling NotificationsSinceHeight, which takes the tip mutexes, so an event sent under one of them deadlocks the handler against the block manager as soon as a subscription is requested during a batch"

// eventsUnlocked: see eventsUnlockedDoc (C11.P1, also C17.P2).
func (c *Ctx) eventsUnlocked() {
	res := c.lockResults()
	n := 0
	var bad []string
	var sites []ssa.Instruction
	for _, fn := range c.P.Funcs {
		if fn.Pkg == nil || fn.Pkg.Pkg.Path() != ir.ModPath {
			continue
		}
		var es []emitSite
		es = append(es, c.emitSites(fn, "onBlockConnected", "NewBlockConnected")...)
		es = append(es, c.emitSites(fn, "onBlockDisconnected", "NewBlockDisconnected")...)
		if len(es) == 0 {
			continue
		}
		lr := res[fn]
		for _, e := range es {
			n++
			sites = append(sites, e.in)
			if lr == nil {
				continue
			}
			var held []string
			for k, mode := range lr.mustHold[e.in] {
				held = append(held, k.String()+"("+mode+")")
			}
			sort.Strings(held)
			if len(held) > 0 {
				bad = append(bad, "the event at "+c.at(e.in)+" in "+c.nm(fn)+" is handed over with "+join(held)+" held")
			}
		}
	}
	sort.Strings(bad)
	c.verdict(n >= 2 && len(bad) == 0, "neutrino.blockManager | block events are sent with no mutex held", "", fmt.Sprintf("%d emit site(s), none inside a critical section", n), join(bad)+fmt.Sprintf(" (%d emit sites)", n), c.ats(sites)...)
}

const monotonicSubscriberIDsDoc = "registry keys never collide: the id under which a subscriber is registered (and later cancelled) is assigned only from a monotonically increasing counter (atomic.AddUint64(&m.<counter>, 1)) that nothing else writes, so a new registration cannot replace a live subscriber and a cancellation cannot hit another one"

// monotonicSubscriberIDs: see monotonicSubscriberIDsDoc.
func (c *Ctx) monotonicSubscriberIDs() {
	idF := c.field("blockntfns", "newSubscription", "id")
	add := atomicOp("Add")
	var bad, sites []string
	var counter *types.Var
	n := 0
	for _, f := range c.P.Funcs {
		for _, st := range find(f, storeToField(idF)) {
			n++
			sites = append(sites, c.nm(f)+"@"+c.at(st))
			call, ok := st.(*ssa.Store).Val.(*ssa.Call)
			if !ok || !add(call) {
				bad = append(bad, "id assigned at "+c.at(st)+" from something other than an atomic counter increment")
				continue
			}
			fa, ok := call.Call.Args[0].(*ssa.FieldAddr)
			if k, isC := ir.ConstInt(call.Call.Args[1]); !ok || !isC || k != 1 {
				bad = append(bad, "id assigned at "+c.at(st)+" not from counter+1")
				continue
			}
			counter = ir.FieldOfAddr(fa)
		}
	}
	if counter != nil {
		// the counter is touched by nothing but that increment
		for _, f := range c.P.Funcs {
			ir.Instrs(f, func(in ssa.Instruction) {
				fa, ok := in.(*ssa.FieldAddr)
				if !ok || ir.FieldOfAddr(fa) != counter {
					return
				}
				for _, r := range ir.Refs(fa) {
					if call, ok := r.(*ssa.Call); ok && add(call) {
						continue
					}
					bad = append(bad, "counter "+counter.Name()+" accessed at "+c.at(r)+" other than by the increment")
				}
			})
		}
	}
	sort.Strings(bad)
	c.verdict(len(bad) == 0 && n == 1 && counter != nil, "blockntfns | subscriber ids come from a monotonic counter", "-", "id = atomic.AddUint64(&m."+nameOf(counter)+", 1), single assignment site", join(bad)+fmt.Sprintf(" (%d assignment site(s))", n), sites...)
	// the registry is keyed by that id on insert and delete
	subs := c.field("blockntfns", "SubscriptionManager", "subscribers")
	okKey := 0
	cidF := c.field("blockntfns", "cancelSubscription", "id")
	var regFns []*ssa.Function
	seenFn := map[*ssa.Function]bool{}
	for _, name := range []string{fnHandleNew, fnHandleCan} {
		hs, _ := c.hostsOf(name)
		for _, h := range hs {
			if !seenFn[h] {
				seenFn[h] = true
				regFns = append(regFns, h)
			}
		}
	}
	for _, f := range regFns {
		for _, x := range find(f, anyOf(mapUpdate(loadsField(subs)), mapDelete(loadsField(subs)))) {
			var key ssa.Value
			switch y := x.(type) {
			case *ssa.MapUpdate:
				key = y.Key
			default:
				key = ir.CallOf(x).Args[1]
			}
			if ir.DerivesFrom(key, func(v ssa.Value) bool {
				fa, ok := v.(*ssa.FieldAddr)
				return ok && (ir.FieldOfAddr(fa) == idF || ir.FieldOfAddr(fa) == cidF)
			}) {
				okKey++
			}
		}
	}
	// the cancel message carries the id of the subscription it was created for
	okCancel := false
	for _, f := range c.P.Funcs {
		for _, st := range find(f, storeToField(cidF)) {
			okCancel = ir.DerivesFrom(st.(*ssa.Store).Val, func(v ssa.Value) bool {
				fa, ok := v.(*ssa.FieldAddr)
				return ok && ir.FieldOfAddr(fa) == idF
			})
		}
	}
	c.verdict(okKey >= 2 && okCancel, "blockntfns | registry insert and delete are keyed by the subscriber's id", "-", "m.subscribers[sub.id] = sub; delete(m.subscribers, msg.id) with msg.id = sub.id", fmt.Sprintf("the registry is no longer keyed by the subscriber id on both insert and delete (%d keyed accesses, cancel carries sub.id: %v)", okKey, okCancel))
}

// leftOnlyAtManagerQuit: edge e is one arm of a test of the boolean result of
// a module function, and that function returns the value e stands for only
// behind the arm of a select that received from the manager's quit channel
// (field quit), nowhere else.
func (c *Ctx) leftOnlyAtManagerQuit(e ir.Edge, quit *types.Var) bool {
	iff, ok := e.From.Instrs[len(e.From.Instrs)-1].(*ssa.If)
	if !ok {
		return false
	}
	c.graph() // srcFunc needs the module function table
	for _, in := range e.From.Parent().Blocks {
		for _, x := range in.Instrs {
			call, isCall := x.(*ssa.Call)
			if !isCall {
				continue
			}
			bt, isB := call.Type().Underlying().(*types.Basic)
			if !isB || bt.Kind() != types.Bool {
				continue
			}
			for _, br := range ir.TrueBranches(call) {
				if br.If != iff || br.Pol != 0 {
					continue
				}
				want := br.Idx == e.Succ // the value of the call on edge e
				callee := call.Call.StaticCallee()
				if callee == nil {
					return false
				}
				fns := c.srcFunc(callee)
				if len(fns) != 1 {
					return false
				}
				f := fns[0]
				arm := map[ir.Edge]bool{}
				ir.Instrs(f, func(y ssa.Instruction) {
					sel, isSel := y.(*ssa.Select)
					if !isSel {
						return
					}
					for i, st := range sel.States {
						if st.Dir != types.RecvOnly || !loadsField(quit)(st.Chan) {
							continue
						}
						for _, rr := range ir.Refs(sel) {
							if ex, isEx := rr.(*ssa.Extract); isEx && ex.Index == 0 {
								for _, ib := range ir.IntEqBranches(ex) {
									if ib.K == int64(i) {
										arm[ib.Edge()] = true
									}
								}
							}
						}
					}
				})
				if len(arm) == 0 {
					return false
				}
				n := 0
				for _, b := range f.Blocks {
					ret, isRet := b.Instrs[len(b.Instrs)-1].(*ssa.Return)
					if !isRet || len(ret.Results) != 1 {
						continue
					}
					k, isC := ir.ConstBool(ret.Results[0])
					if !isC {
						return false
					}
					if k != want {
						continue
					}
					n++
					dominated := false
					for q := range arm {
						if ir.EdgeDominates(f, q, b) {
							dominated = true
						}
					}
					if !dominated {
						return false
					}
				}
				return n > 0
			}
		}
	}
	return false
}
