package rules

import (
	"fmt"
	"go/token"
	"go/types"
	"regexp"
	"sort"

	"golang.org/x/tools/go/ssa"

	"verif/checker/internal/ir"
)

// ---- engine K: kind flow (target height vs source index) ----

type kind int

const (
	kBot   kind = iota // no information yet
	kNum               // count / constant: compatible with everything
	kH                 // target chain height
	kI                 // index into the import source
	kMixed             // joined H and I
	kTop               // unknown (never a violation)
)

func (k kind) String() string {
	return [...]string{"⊥", "count", "height", "index", "height|index", "?"}[k]
}

func joinKind(a, b kind) kind {
	switch {
	case a == b:
		return a
	case a == kBot:
		return b
	case b == kBot:
		return a
	case a == kTop || b == kTop:
		if a == kH || a == kI || a == kMixed {
			return a
		}
		if b == kH || b == kI || b == kMixed {
			return b
		}
		return kTop
	case a == kNum:
		return b
	case b == kNum:
		return a
	}
	return kMixed
}

var (
	reIdx    = regexp.MustCompile(`(?i)(idx|index)`)
	reHeight = regexp.MustCompile(`(?i)height|[a-z]H$`)
)

// declKind: the kind a name declares.
func declKind(name string) kind {
	switch {
	case reIdx.MatchString(name):
		return kI
	case reHeight.MatchString(name):
		return kH
	}
	return kBot
}

// kindCfg tables what names cannot say.
type kindCfg struct {
	fields  map[*types.Var]kind    // struct fields with a known kind
	results map[*types.Func][]kind // results of functions/methods (by index)
	conv    map[*types.Func]bool   // converters: (height, height) -> index
}

type kflow struct {
	c      *Ctx
	cfg    kindCfg
	fns    []*ssa.Function
	inPkg  map[*ssa.Function]bool
	param  map[*ssa.Parameter]kind
	ret    map[*ssa.Function][]kind
	memo   map[ssa.Value]kind
	active map[ssa.Value]bool
}

func isIntegral(t types.Type) bool {
	b, ok := t.Underlying().(*types.Basic)
	return ok && b.Info()&types.IsInteger != 0
}

func (k *kflow) fieldKind(f *types.Var) kind {
	if f == nil {
		return kTop
	}
	if v, ok := k.cfg.fields[f]; ok {
		return v
	}
	if !k.c.P.IsModPkg(f.Pkg()) {
		return kTop
	}
	if d := declKind(k.c.on(f)); d != kBot {
		return d
	}
	return kTop
}

func (k *kflow) of(v ssa.Value) kind {
	if !isIntegral(v.Type()) {
		if _, isTuple := v.Type().(*types.Tuple); !isTuple {
			return kTop
		}
	}
	if r, ok := k.memo[v]; ok {
		return r
	}
	if k.active[v] {
		return kBot
	}
	k.active[v] = true
	r := k.compute(v)
	delete(k.active, v)
	k.memo[v] = r
	return r
}

func (k *kflow) compute(v ssa.Value) kind {
	switch x := v.(type) {
	case *ssa.Const:
		return kNum
	case *ssa.Parameter:
		if d := declKind(x.Name()); d != kBot {
			return d
		}
		if p, ok := k.param[x]; ok {
			return p
		}
		return kBot
	case *ssa.Phi:
		r := kBot
		for _, e := range x.Edges {
			r = joinKind(r, k.of(e))
		}
		return r
	case *ssa.Convert:
		return k.of(x.X)
	case *ssa.ChangeType:
		return k.of(x.X)
	case *ssa.BinOp:
		a, b := k.of(x.X), k.of(x.Y)
		switch x.Op {
		case token.ADD:
			// base height + offset (an index is a difference of heights)
			if (a == kH && b == kI) || (a == kI && b == kH) {
				return kH
			}
			return joinKind(a, b)
		case token.SUB:
			if (a == kH && b == kH) || (a == kI && b == kI) {
				return kNum
			}
			if a == kH && b == kI {
				return kH
			}
			return joinKind(a, b)
		}
		return kTop
	case *ssa.UnOp:
		if x.Op != token.MUL {
			return kTop
		}
		switch a := x.X.(type) {
		case *ssa.FieldAddr:
			return k.fieldKind(ir.FieldOfAddr(a))
		case *ssa.Alloc:
			r := kBot
			for _, st := range ir.StoresTo(a) {
				r = joinKind(r, k.of(st.Val))
			}
			return r
		case *ssa.IndexAddr:
			return kTop
		}
		return kTop
	case *ssa.Field:
		return k.fieldKind(ir.FieldOfValue(x))
	case *ssa.Extract:
		return k.resultKind(x.Tuple, x.Index)
	case *ssa.Call:
		if _, isTuple := x.Type().(*types.Tuple); isTuple {
			return kTop
		}
		return k.resultKind(x, 0)
	}
	return kTop
}

func (k *kflow) resultKind(call ssa.Value, idx int) kind {
	c, ok := call.(*ssa.Call)
	if !ok {
		return kTop
	}
	if b, ok := c.Call.Value.(*ssa.Builtin); ok {
		switch b.Name() {
		case "len", "cap":
			return kNum
		case "min", "max":
			r := kBot
			for _, a := range c.Call.Args {
				r = joinKind(r, k.of(a))
			}
			return r
		}
		return kTop
	}
	cal := ir.Resolve(&c.Call)
	if cal.Func == nil {
		return kTop
	}
	if k.cfg.conv[cal.Func] {
		return kI
	}
	if rs, ok := k.cfg.results[cal.Func]; ok && idx < len(rs) {
		return rs[idx]
	}
	if cal.Fn != nil && k.inPkg[cal.Fn] {
		if rs := k.ret[cal.Fn]; idx < len(rs) {
			return rs[idx]
		}
		return kBot
	}
	// interface methods of the package: result kind by method name
	if k.c.P.IsModPkg(cal.Func.Pkg()) {
		if d := declKind(k.c.on(cal.Func)); d != kBot && idx == 0 {
			return d
		}
	}
	return kTop
}

// kindFlow runs the analysis over the given functions (one package) and
// records one obligation per sink / comparison / merge site.
func (c *Ctx) kindFlow(fns []*ssa.Function, cfg kindCfg, minSites int) {
	k := &kflow{c: c, cfg: cfg, fns: fns, inPkg: map[*ssa.Function]bool{}, param: map[*ssa.Parameter]kind{}, ret: map[*ssa.Function][]kind{}}
	for _, fn := range fns {
		k.inPkg[fn] = true
	}
	// fixpoint over parameter and result kinds
	for round := 0; round < 8; round++ {
		k.memo = map[ssa.Value]kind{}
		k.active = map[ssa.Value]bool{}
		changed := false
		for _, fn := range fns {
			// results
			n := fn.Signature.Results().Len()
			rs := make([]kind, n)
			for _, in := range find(fn, isExit) {
				r := in.(*ssa.Return)
				for i := 0; i < n; i++ {
					rs[i] = joinKind(rs[i], k.of(ir.RetVal(r, i)))
				}
			}
			old := k.ret[fn]
			for i := range rs {
				if i >= len(old) || old[i] != rs[i] {
					changed = true
				}
			}
			k.ret[fn] = rs
			// parameters of callees
			ir.Instrs(fn, func(in ssa.Instruction) {
				cc := ir.CallOf(in)
				if cc == nil {
					return
				}
				cal := ir.Resolve(cc)
				if cal.Fn == nil || !k.inPkg[cal.Fn] {
					return
				}
				for i, a := range cc.Args {
					if i >= len(cal.Fn.Params) {
						break
					}
					p := cal.Fn.Params[i]
					nk := joinKind(k.param[p], k.of(a))
					if nk != k.param[p] {
						k.param[p] = nk
						changed = true
					}
				}
			})
		}
		if !changed {
			break
		}
	}
	k.memo = map[ssa.Value]kind{}
	k.active = map[ssa.Value]bool{}

	sites := 0
	type finding struct {
		fn   *ssa.Function
		key  string
		pos  string
		text string
	}
	var bad []finding
	okSites := map[*ssa.Function][]string{}
	conflict := func(a, b kind) bool {
		return (a == kH && b == kI) || (a == kI && b == kH) || a == kMixed || b == kMixed
	}
	for _, fn := range fns {
		ir.Instrs(fn, func(in ssa.Instruction) {
			switch x := in.(type) {
			case *ssa.BinOp:
				switch x.Op {
				case token.LSS, token.LEQ, token.GTR, token.GEQ, token.EQL, token.NEQ:
					if !isIntegral(x.X.Type()) {
						return
					}
					a, b := k.of(x.X), k.of(x.Y)
					if (a == kH || a == kI || a == kMixed) && (b == kH || b == kI || b == kMixed) {
						sites++
						if conflict(a, b) {
							bad = append(bad, finding{fn, "compare " + a.String() + " with " + b.String(), c.at(in),
								fmt.Sprintf("comparison `%s` at %s relates a %s to a %s", x.Op, c.at(in), a, b)})
						} else {
							okSites[fn] = append(okSites[fn], "cmp@"+c.at(in))
						}
					}
				}
			case *ssa.Phi:
				if isIntegral(x.Type()) && k.of(x) == kMixed {
					sites++
					bad = append(bad, finding{fn, "variable " + x.Comment + " holds both kinds", c.at(in),
						fmt.Sprintf("variable %q merges a height and an index at %s", x.Comment, c.at(in))})
				}
			case ssa.CallInstruction:
				cc := x.Common()
				if b, ok := cc.Value.(*ssa.Builtin); ok && (b.Name() == "min" || b.Name() == "max") {
					r := kBot
					for _, a := range cc.Args {
						r = joinKind(r, k.of(a))
					}
					if r == kMixed {
						sites++
						bad = append(bad, finding{fn, b.Name() + " of height and index", c.at(in), fmt.Sprintf("%s at %s mixes a height and an index", b.Name(), c.at(in))})
					}
					return
				}
				cal := ir.Resolve(cc)
				if cal.Func == nil || !c.P.IsModPkg(cal.Func.Pkg()) {
					return
				}
				sig := cal.Func.Type().(*types.Signature)
				off := 0
				if !cc.IsInvoke() && sig.Recv() != nil {
					off = 1
				}
				for i := 0; i < sig.Params().Len(); i++ {
					if i+off >= len(cc.Args) {
						break
					}
					p := sig.Params().At(i)
					if !isIntegral(p.Type()) {
						continue
					}
					want := declKind(p.Name())
					if want == kBot && cc.IsInvoke() {
						want = k.implParamKind(cal.Func, i)
					}
					if k.cfg.conv[cal.Func] {
						want = kH
					}
					if want == kBot {
						continue
					}
					got := k.of(cc.Args[i+off])
					if got != kH && got != kI && got != kMixed {
						continue
					}
					sites++
					if got != want {
						bad = append(bad, finding{fn, fmt.Sprintf("%s argument %s of %s", got, p.Name(), cal.Func.Name()), c.at(in),
							fmt.Sprintf("call of %s at %s passes a %s as parameter %q (a %s)", cal.Func.Name(), c.at(in), got, p.Name(), want)})
					} else {
						okSites[fn] = append(okSites[fn], fmt.Sprintf("%s(%s:%s)@%s", cal.Func.Name(), p.Name(), want, c.at(in)))
					}
				}
			}
		})
	}
	c.R.CallSites += sites
	// one obligation per function with sites, one per distinct finding
	seen := map[string]bool{}
	sort.Slice(bad, func(i, j int) bool { return bad[i].pos+bad[i].key < bad[j].pos+bad[j].key })
	for _, f := range bad {
		construct := c.nm(f.fn) + " | " + f.key
		if seen[construct] {
			construct += " (again)"
		}
		seen[construct] = true
		c.fail(construct, f.pos, f.text, f.pos)
	}
	for _, fn := range fns {
		if s := okSites[fn]; len(s) > 0 {
			hasBad := false
			for _, f := range bad {
				if f.fn == fn {
					hasBad = true
				}
			}
			if !hasBad {
				sort.Strings(s)
				c.pass(c.nm(fn)+" | height/index kinds consistent", c.P.Pos(fn.Pos()), fmt.Sprintf("%d kind-relevant site(s) consistent", len(s)), s...)
			}
		}
	}
	if sites < minSites {
		c.undecided("kind flow | site floor", "", fmt.Sprintf("found %d kind-relevant sites, the rule table requires at least %d", sites, minSites))
	}
}

// implParamKind: for an interface method whose own parameter names say nothing,
// the kind declared by the parameter names of its implementations in the
// analysed package (they must agree).
func (k *kflow) implParamKind(im *types.Func, i int) kind {
	r := kBot
	for _, fn := range k.fns {
		obj, _ := fn.Object().(*types.Func)
		if obj == nil || !ir.Implements(obj, im) {
			continue
		}
		sig := obj.Type().(*types.Signature)
		if i >= sig.Params().Len() {
			continue
		}
		r = joinKind(r, declKind(sig.Params().At(i).Name()))
	}
	if r == kMixed {
		return kBot
	}
	return r
}
