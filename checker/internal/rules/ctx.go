// Package rules holds the engines and the frozen per-property rule tables.
package rules

import (
	"fmt"
	"go/types"
	"runtime/debug"
	"sort"
	"strings"

	"golang.org/x/tools/go/ssa"

	"verif/checker/internal/ir"
	"verif/checker/internal/report"
)

// Ctx is what a property's rule table works with.
type Ctx struct {
	P    *ir.Program
	R    *report.Run
	Tier string
	// ids of the rules already run for this property (an id is used once)
	seenRules map[string]bool
	// edges mustPrecede does not follow (set around a call by the rule that knows why)
	precedeCut ir.Cut
	cur       string // current rule id
	wp        *whole // lazily built whole-program facts (call graph etc.)

	lf         *lockFacts
	cg         *callGraph
	cgGo       []goSite
	isModFn    map[*ssa.Function]bool
	byObj      map[*types.Func]*ssa.Function
	implCache  map[*types.Func][]*ssa.Function
	roots      map[*ssa.Function]string
	reachCache map[*ssa.Function]map[*ssa.Function]bool
	lres       map[*ssa.Function]*lockResult
	lentry     map[*ssa.Function]map[lockKey]string
	silent     bool // engines evaluate without recording (wrapper summaries)
	// refusalOK: for the must-follow obligation being evaluated, a way out of
	// the function that hands back a non-nil error (and nothing else of
	// value) needs no further step: the rule is about what happens when the
	// function goes on, and refusing to go on is always allowed there (set by
	// the rule around the call; never for rules about what an error path
	// itself must do)
	refusalOK bool
	setOnce   map[*types.Var]bool
	wrapCache map[string][]wrapper
}

// Prop is one property's rule table.
type Prop struct {
	ID         string
	Run        func(c *Ctx)
	NotDecided []string
}

// Registry of property rule tables, filled by init() of each cNN.go.
var Registry = map[string]*Prop{}

func register(p *Prop) { Registry[p.ID] = p }

type anchorErr struct{ what string }

// rule runs one rule; a missing anchor symbol or an engine panic makes the
// rule's obligation undecided (which fails), never silently discharged.
func (c *Ctx) rule(id, decides string, body func()) {
	if c.seenRules == nil {
		c.seenRules = map[string]bool{}
	}
	if c.seenRules[id] {
		c.R.Add(report.Ob{Rule: id, Construct: "rule table", Status: report.Undecided, Detail: "two rules are registered under the id " + id + " (defect of the checker)"})
	}
	c.seenRules[id] = true
	c.R.Describe(id, decides)
	prev := c.cur
	c.cur = id
	defer func() {
		c.cur = prev
		if r := recover(); r != nil {
			if a, ok := r.(anchorErr); ok {
				c.R.Add(report.Ob{Rule: id, Construct: "anchor " + a.what, Status: report.Undecided,
					Detail: "anchor symbol not found in the current source: " + a.what + " (renamed or removed; the rule cannot be evaluated)"})
				return
			}
			c.R.Add(report.Ob{Rule: id, Construct: "engine", Status: report.Undecided,
				Detail: fmt.Sprintf("engine panic: %v\n%s", r, debug.Stack())})
		}
	}()
	body()
}

func (c *Ctx) ob(construct, pos, status, detail string, nontrivial bool, sites []string) {
	c.R.Add(report.Ob{Rule: c.cur, Construct: construct, Pos: pos, Status: status, Detail: detail, Nontrivial: nontrivial, Sites: sites})
}

func (c *Ctx) pass(construct, pos, detail string, sites ...string) {
	c.ob(construct, pos, report.OK, detail, len(sites) > 0, sites)
}

func (c *Ctx) fail(construct, pos, detail string, sites ...string) {
	c.ob(construct, pos, report.Violation, detail, true, sites)
}

func (c *Ctx) undecided(construct, pos, detail string) {
	c.ob(construct, pos, report.Undecided, detail, false, nil)
}

// verdict records pass/fail.
func (c *Ctx) verdict(okv bool, construct, pos, okDetail, failDetail string, sites ...string) {
	if okv {
		c.pass(construct, pos, okDetail, sites...)
	} else {
		c.fail(construct, pos, failDetail, sites...)
	}
}

// ---- anchors ----

// fn resolves a repo-relative function name or fails the rule.
func (c *Ctx) fn(name string) *ssa.Function {
	f := c.P.Func(name)
	if f == nil {
		panic(anchorErr{"function " + name})
	}
	c.R.Funcs[name] = true
	return f
}

// fns resolves several.
func (c *Ctx) fns(names ...string) []*ssa.Function {
	var out []*ssa.Function
	for _, n := range names {
		out = append(out, c.fn(n))
	}
	return out
}

func (c *Ctx) method(pkg, typ, name string) *types.Func {
	m := c.P.Method(pkg, typ, name)
	if m == nil {
		panic(anchorErr{fmt.Sprintf("method %s.%s.%s", pkg, typ, name)})
	}
	return m
}

func (c *Ctx) funcObj(pkg, name string) *types.Func {
	f := c.P.FuncObj(pkg, name)
	if f == nil {
		panic(anchorErr{fmt.Sprintf("func %s.%s", pkg, name)})
	}
	return f
}

func (c *Ctx) field(pkg, typ, name string) *types.Var {
	f := c.P.Field(pkg, typ, name)
	if f == nil {
		panic(anchorErr{fmt.Sprintf("field %s.%s.%s", pkg, typ, name)})
	}
	return f
}

// name of a function.
func (c *Ctx) nm(fn *ssa.Function) string { return c.P.Name(fn) }

// on: the name an object had in the pinned tree (see ir.Program.ObjName).
func (c *Ctx) on(o types.Object) string { return c.P.ObjName(o) }

// typeStr prints a type with package names, module types in baseline spelling.
func (c *Ctx) typeStr(t types.Type) string {
	s := types.TypeString(t, func(p *types.Package) string { return p.Name() })
	if c.P.Ren != nil {
		for k, old := range c.P.Ren.TypeRev {
			i := strings.LastIndex(k, ".")
			j := strings.LastIndex(k[:i], "/")
			cur := k[j+1:]
			s = replaceWordStr(s, cur, cur[:strings.LastIndex(cur, ".")+1]+old)
		}
	}
	return s
}

func replaceWordStr(s, old, new string) string {
	out := ""
	for {
		i := strings.Index(s, old)
		if i < 0 {
			return out + s
		}
		end := i + len(old)
		isId := func(b byte) bool {
			return b == '_' || b >= '0' && b <= '9' || b >= 'a' && b <= 'z' || b >= 'A' && b <= 'Z'
		}
		if end < len(s) && isId(s[end]) || i > 0 && (isId(s[i-1]) || s[i-1] == '/') {
			out += s[:end]
			s = s[end:]
			continue
		}
		out += s[:i] + new
		s = s[end:]
	}
}

// at renders instruction positions.
func (c *Ctx) at(in ssa.Instruction) string { return c.P.At(in) }

func (c *Ctx) ats(ins []ssa.Instruction) []string {
	var out []string
	for _, in := range ins {
		out = append(out, c.at(in))
	}
	sort.Strings(out)
	return out
}

// ---- instruction / call matchers ----

// Sel selects instructions of a function.
type Sel func(in ssa.Instruction) bool

// find returns the instructions of fn (closures NOT included) matching sel.
func find(fn *ssa.Function, sel Sel) []ssa.Instruction {
	var out []ssa.Instruction
	ir.Instrs(fn, func(in ssa.Instruction) {
		if sel(in) {
			out = append(out, in)
		}
	})
	return out
}

// anyOf is the union of selectors.
func anyOf(sels ...Sel) Sel {
	return func(in ssa.Instruction) bool {
		for _, s := range sels {
			if s(in) {
				return true
			}
		}
		return false
	}
}

// allOf is the intersection of selectors.
func allOf(sels ...Sel) Sel {
	return func(in ssa.Instruction) bool {
		for _, s := range sels {
			if !s(in) {
				return false
			}
		}
		return true
	}
}

// callTo matches call instructions (Call/Defer/Go) whose resolved callee is
// one of objs: statically, by interface-method identity, or because the
// static callee implements a listed interface method.
func callTo(objs ...*types.Func) Sel {
	return func(in ssa.Instruction) bool {
		cc := ir.CallOf(in)
		if cc == nil {
			return false
		}
		cal := ir.Resolve(cc)
		if cal.Func == nil {
			return false
		}
		for _, o := range objs {
			if ir.SameFunc(cal.Func, o) {
				return true
			}
			if !cal.Invoke && ir.Implements(cal.Func, o) {
				return true
			}
			// a narrowed dependency: the invoke goes through a small interface
			// the module declares for the methods one function uses
			if cal.Invoke && narrowSeam(cal.Func) && ir.NarrowedInvoke(cal.Func, o) {
				return true
			}
		}
		return false
	}
}

// callVia matches dynamic calls of a func-typed struct field.
func callVia(fields ...*types.Var) Sel {
	return func(in ssa.Instruction) bool {
		cc := ir.CallOf(in)
		if cc == nil {
			return false
		}
		cal := ir.Resolve(cc)
		if cal.Field == nil {
			return false
		}
		for _, f := range fields {
			if cal.Field == f {
				return true
			}
		}
		return false
	}
}

// onlyCalls restricts to plain Call instructions (not go/defer).
func onlyCalls(s Sel) Sel {
	return func(in ssa.Instruction) bool {
		_, ok := in.(*ssa.Call)
		return ok && s(in)
	}
}

// withArg narrows a call selector by a predicate on argument #i (receiver of
// a static method call counts as argument 0; invoke-mode receivers do not).
func withArg(s Sel, i int, pred func(ssa.Value) bool) Sel {
	return func(in ssa.Instruction) bool {
		if !s(in) {
			return false
		}
		cc := ir.CallOf(in)
		if i >= len(cc.Args) {
			return false
		}
		return pred(cc.Args[i])
	}
}

// argsOf returns the arguments of a call without the receiver.
func argsOf(in ssa.Instruction) []ssa.Value {
	cc := ir.CallOf(in)
	if cc == nil {
		return nil
	}
	if cc.IsInvoke() {
		return cc.Args
	}
	if sig, ok := cc.Value.Type().Underlying().(*types.Signature); ok && sig.Recv() != nil && len(cc.Args) > 0 {
		return cc.Args[1:]
	}
	return cc.Args
}

// storeToField matches stores into the given struct field.
func storeToField(fields ...*types.Var) Sel {
	return func(in ssa.Instruction) bool {
		st, ok := in.(*ssa.Store)
		if !ok {
			return false
		}
		fa, ok := st.Addr.(*ssa.FieldAddr)
		if !ok {
			return false
		}
		f := ir.FieldOfAddr(fa)
		for _, x := range fields {
			if f == x {
				return true
			}
		}
		return false
	}
}

// isConstBool builds an argument predicate.
func isConstBool(want bool) func(ssa.Value) bool {
	return func(v ssa.Value) bool {
		b, ok := ir.ConstBool(v)
		return ok && b == want
	}
}

// loadsField reports whether v is (derived from) a load of the field.
func loadsField(f *types.Var) func(ssa.Value) bool {
	return func(v ssa.Value) bool {
		return ir.DerivesFrom(v, func(x ssa.Value) bool {
			if fa, ok := x.(*ssa.FieldAddr); ok {
				return ir.FieldOfAddr(fa) == f
			}
			if fv, ok := x.(*ssa.Field); ok {
				return ir.FieldOfValue(fv) == f
			}
			return false
		})
	}
}

// closureOf returns the function literals of fn that are stored into the
// given struct field (e.g. query.Request.HandleResp) or passed as the arg of
// a call matched by sel.
func closuresStoredIn(fn *ssa.Function, field *types.Var) []*ssa.Function {
	var out []*ssa.Function
	ir.Instrs(fn, func(in ssa.Instruction) {
		st, ok := in.(*ssa.Store)
		if !ok {
			return
		}
		fa, ok := st.Addr.(*ssa.FieldAddr)
		if !ok || ir.FieldOfAddr(fa) != field {
			return
		}
		if mc, ok := st.Val.(*ssa.MakeClosure); ok {
			if f, ok := mc.Fn.(*ssa.Function); ok {
				out = append(out, f)
			}
		} else if f, ok := st.Val.(*ssa.Function); ok {
			out = append(out, f)
		}
	})
	return out
}

func short(s string) string {
	if len(s) > 300 {
		return s[:300] + "…"
	}
	return s
}

func join(ss []string) string { return strings.Join(ss, ", ") }

// onCache returns a context working on the separately loaded cache module;
// obligations are recorded in the same run.
func (c *Ctx) onCache() *Ctx {
	if c.P.Cache == nil {
		panic(anchorErr{"cache module program"})
	}
	return &Ctx{P: c.P.Cache, R: c.R, Tier: c.Tier, cur: c.cur}
}

// narrowSeam: im is a method of an unexported interface declared in one of
// the neutrino modules (the only place a narrowed dependency is introduced).
func narrowSeam(im *types.Func) bool {
	if im == nil || im.Pkg() == nil || !strings.HasPrefix(im.Pkg().Path(), ir.ModPath) {
		return false
	}
	sig, ok := im.Type().(*types.Signature)
	if !ok || sig.Recv() == nil {
		return false
	}
	t := sig.Recv().Type()
	n, ok := t.(*types.Named)
	return ok && !n.Obj().Exported()
}
