package rules

import (
	"fmt"
	"go/constant"
	"go/token"
	"go/types"
	"sort"
	"strings"

	"golang.org/x/tools/go/ssa"

	"verif/checker/internal/ir"
)

func init() {
	register(&Prop{ID: "C14", Run: runC14, NotDecided: []string{
		"that every header of the file is validated: the first header of a file is only ever the `prev` of a validated pair (F11, by reading; not a robust rule)",
		"idempotence of a repeated import; equality of store contents with the file (run-time)",
		"Validate returns nil on context cancellation without finishing (harmless because appendNewHeaders re-checks the context before any write; that re-check IS decided, C14.G2)",
	}})
}

const (
	fnImport   = "(*chainimport.headersImport).Import"
	fnAppendNH = "(*chainimport.headersImport).appendNewHeaders"
	fnProcB    = "(*chainimport.headersImport).processBatch"
)

func (c *Ctx) importFuncs() []*ssa.Function {
	var out []*ssa.Function
	for _, fn := range c.P.Funcs {
		n := c.nm(fn)
		if strings.Contains(n, "chainimport.") {
			out = append(out, fn)
			c.R.Funcs[n] = true
		}
	}
	if len(out) < 60 {
		panic(anchorErr{"functions of package chainimport (found fewer than 60)"})
	}
	return out
}

func runC14(c *Ctx) {
	hi := func(m string) *types.Func { return c.method("chainimport", "headersImport", m) }

	c.rule("C14.G4", "the end of the import range is the io.EOF sentinel itself: where appendNewHeaders and processBatch turn an iterator error into \"no more batches\" they compare it with io.EOF by identity, and package chainimport never asks errors.Is(err, io.EOF) (the file source wraps genuine read faults with %w, and a short read surfaces as io.EOF: matched loosely, a fault after the first batches would end the loop and Import would report success with the stores short of the file)", func() {
		eof := c.P.Pkg("io").Scope().Lookup("EOF")
		is := c.P.FuncObj("errors", "Is")
		if eof == nil || is == nil {
			panic(anchorErr{"io.EOF / errors.Is"})
		}
		isEOF := func(v ssa.Value) bool {
			u, ok := ir.Strip(v).(*ssa.UnOp)
			if !ok || u.Op != token.MUL {
				return false
			}
			g, ok := u.X.(*ssa.Global)
			return ok && g.Object() == eof
		}
		var loose []string
		for _, fn := range c.P.Funcs {
			if fn.Pkg == nil || fn.Pkg.Pkg.Path() != ir.ModPath+"/chainimport" {
				continue
			}
			for _, in := range find(fn, callTo(is)) {
				a := ir.CallOf(in).Args
				if len(a) == 2 && isEOF(a[1]) {
					loose = append(loose, c.at(in))
				}
			}
		}
		sort.Strings(loose)
		c.verdict(len(loose) == 0, "chainimport | io.EOF is matched by identity only", "", "no errors.Is(.., io.EOF) in the package", "errors.Is(err, io.EOF) at "+join(loose)+": a wrapped read fault (the file source wraps with %w; short reads are io.EOF) is taken for the end of the range", loose...)
		total := 0
		var sites []string
		for _, name := range []string{"(*chainimport.headersImport).appendNewHeaders", "(*chainimport.headersImport).processBatch"} {
			fn := c.fn(name)
			cmps := find(fn, binops(eqOps, isEOF, func(ssa.Value) bool { return true }))
			total += len(cmps)
			sites = append(sites, c.ats(cmps)...)
		}
		c.verdict(total >= 1, "chainimport append loop | end of range recognised by err == io.EOF", "", fmt.Sprintf("%d identity comparison(s)", total), "no comparison with io.EOF found in appendNewHeaders / processBatch: the end of the import range is no longer recognised by the sentinel", sites...)
	})

	c.rule("C14.G1", "Import touches the target stores (divergence and new-header regions) only after source compatibility, chain continuity, block-header validation, filter-header validation and region determination all succeeded; ValidatePair / ValidateSingle / ValidateBatch are validators over btcd's CheckBlockHeaderContext / CheckBlockHeaderSanity and the height+1 / PrevBlock link", func() {
		fn := c.fn(fnImport)
		eff := find(fn, callTo(hi("processDivergenceHeadersRegion"), hi("processNewHeadersRegion")))
		const en = "process regions (writes to the target stores)"
		c.guarded(fn, errNil("openSources", find(fn, callTo(hi("openSources"))), 0), 1, en, eff, 2, gDominate)
		c.guarded(fn, errNil("validateSourcesCompatibility", find(fn, callTo(hi("validateSourcesCompatibility"))), 0), 1, en, eff, 2, gDominate)
		c.guarded(fn, errNil("validateChainContinuity", find(fn, callTo(hi("validateChainContinuity"))), 0), 1, en, eff, 2, gDominate)
		val := c.method("chainimport", "HeadersValidator", "Validate")
		bv := c.field("chainimport", "headersImport", "blockHeadersValidator")
		fv := c.field("chainimport", "headersImport", "filterHeadersValidator")
		onField := func(f *types.Var) Sel {
			return func(in ssa.Instruction) bool {
				cc := ir.CallOf(in)
				return cc != nil && callTo(val)(in) && cc.IsInvoke() && loadsField(f)(cc.Value)
			}
		}
		c.guarded(fn, errNil("blockHeadersValidator.Validate", find(fn, onField(bv)), 0), 1, en, eff, 2, gDominate)
		c.guarded(fn, errNil("filterHeadersValidator.Validate", find(fn, onField(fv)), 0), 1, en, eff, 2, gDominate)
		c.guarded(fn, errNil("determineProcessingRegions", find(fn, callTo(hi("determineProcessingRegions"))), 1), 1, en, eff, 2, gDominate)
		// the validators cover the whole file: Iterator(0, headersCount-1, ..)
		iter := c.method("chainimport", "HeaderImportSource", "Iterator")
		hc := c.field("chainimport", "headerMetadata", "headersCount")
		okRange := true
		its := find(fn, callTo(iter))
		for _, it := range its {
			a := argsOf(it)
			k, isC := ir.ConstInt(a[0])
			if !isC || k != 0 || !loadsField(hc)(a[1]) {
				okRange = false
			}
		}
		c.verdict(okRange && len(its) == 2, c.nm(fn)+" | both validations iterate the whole file (0 .. headersCount-1)", c.P.Pos(fn.Pos()), "Iterator(0, metadata.headersCount-1, batch)", "a validation pass does not cover the whole import file", c.ats(its)...)
		// divergence before new headers
		c.mustPrecede(fn, callTo(hi("processDivergenceHeadersRegion")), "processDivergenceHeadersRegion", callTo(hi("processNewHeadersRegion")), "processNewHeadersRegion", 1)
		c.guarded(fn, errNil("processDivergenceHeadersRegion", find(fn, callTo(hi("processDivergenceHeadersRegion"))), 0), 1, "processNewHeadersRegion", find(fn, callTo(hi("processNewHeadersRegion"))), 1, gDominate)

		// validators
		bvT := func(m string) *types.Func { return c.method("chainimport", "blockHeadersImportSourceValidator", m) }
		vp := c.fn("(*chainimport.blockHeadersImportSourceValidator).ValidatePair")
		ctxF := c.funcObj(pBlockchain, "CheckBlockHeaderContext")
		sanF := c.funcObj(pBlockchain, "CheckBlockHeaderSanity")
		c.nilReturnsGuarded(vp, errNil("blockchain.CheckBlockHeaderContext", find(vp, callTo(ctxF)), 0), 1)
		c.nilReturnsGuarded(vp, errNil("ValidateSingle(current)", find(vp, callTo(bvT("ValidateSingle"))), 0), 1)
		isEq := c.method(pChainhash, "Hash", "IsEqual")
		prevBlock := c.field(pWire, "BlockHeader", "PrevBlock")
		c.nilReturnsGuarded(vp, boolIs("currBlockHeader.PrevBlock.IsEqual(&prevHash)", find(vp, anyArg(callTo(isEq), fieldAddrOf(prevBlock))), 0, true), 1)
		hF := c.field("headerfs", "BlockHeader", "Height")
		c.nilReturnsGuarded(vp, equalIs("currHeight vs prevHeight+1", find(vp, binops(eqOps, loadsField(hF), func(v ssa.Value) bool {
			b, ok := v.(*ssa.BinOp)
			return ok && loadsField(hF)(b.X)
		})), true), 1)
		// the contextual check runs on the CURRENT header with the validator's flags
		okSubj := false
		for _, in := range find(vp, callTo(ctxF)) {
			a := ir.CallOf(in).Args
			// ... the flags as configured, nothing or-ed in on some paths (a
			// BFFastAdd added for headers that "cannot fail" skips the
			// difficulty and median-time rules for them)
			flagsF := c.field("chainimport", "blockHeadersImportSourceValidator", "flags")
			exact := false
			if u, isU := ir.Strip(a[2]).(*ssa.UnOp); isU && u.Op == token.MUL {
				if fa, isFA := u.X.(*ssa.FieldAddr); isFA && ir.FieldOfAddr(fa) == flagsF {
					exact = true
				}
			}
			okSubj = ir.InfluencedBy(a[0], func(x ssa.Value) bool { return x == ssa.Value(vp.Params[2]) }) && exact
		}
		c.verdict(okSubj, c.nm(vp)+" | CheckBlockHeaderContext(current header, parent ctx, v.flags, ..)", c.P.Pos(vp.Pos()), "subject is the current header, flags are v.flags as configured", "the contextual check is not applied to the current header with exactly the validator's configured flags (v.flags itself, not a value derived from it)")
		vs := c.fn("(*chainimport.blockHeadersImportSourceValidator).ValidateSingle")
		c.nilReturnsGuarded(vs, errNil("blockchain.CheckBlockHeaderSanity", find(vs, callTo(sanF)), 0), 1)
		vb := c.fn("(*chainimport.blockHeadersImportSourceValidator).ValidateBatch")
		gvp := errNil("ValidatePair(headers[i-1], headers[i])", find(vb, callTo(bvT("ValidatePair"))), 0)
		var nilRets []ssa.Instruction
		for _, in := range find(vb, isExit) {
			if ir.IsNil(ir.RetVal(in.(*ssa.Return), 0)) {
				nilRets = append(nilRets, in)
			}
		}
		c.guarded(vb, gvp, 1, "return nil", nilRets, 1, gFailEdge)
		// production flags: the validator is created with BFNone unless configured
		v := c.fn("(*chainimport.blockHeadersImportSourceValidator).Validate")
		n := 0
		for _, f := range ir.WithClosures(v) {
			n += len(find(f, callTo(bvT("ValidateBatch")))) + len(find(f, callTo(bvT("ValidatePair"))))
		}
		c.verdict(n >= 2, c.nm(v)+" | every batch goes through ValidateBatch and the cross-batch ValidatePair", c.P.Pos(v.Pos()), "both calls present", "Validate no longer calls ValidateBatch and the cross-batch ValidatePair")
	})

	c.rule("C14.O3", "a header's context is the chain it will sit on: the ancestor walk of the import validator (lightHeaderCtx.RelativeAncestorCtx: median time past, difficulty) asks the target block header store for every ancestor height first and turns to the import file only when the store does not have it; a walk that leaves the store out for heights it 'cannot have' (a tip height read earlier, compared with < instead of <=) stops at the first header of the file and computes the median time from too few, too recent timestamps: a header at or below the true median is imported", func() {
		fn := c.fn("(*chainimport.lightHeaderCtx).RelativeAncestorCtx")
		fetch := c.method("headerfs", "BlockHeaderStore", "FetchHeaderByHeight")
		getH := c.method("chainimport", "HeaderImportSource", "GetHeader")
		meta := c.method("chainimport", "HeaderImportSource", "GetHeaderMetadata")
		c.mustPrecede(fn, callTo(fetch), "targetStore.FetchHeaderByHeight(ancestorHeight)", callTo(getH, meta), "the import source lookup", 1)
		// ... and a walk that finds nothing gives up only after the store was asked
		var nilRets []ssa.Instruction
		for _, r := range find(fn, isExit) {
			if ir.IsNil(ir.RetVal(r.(*ssa.Return), 0)) {
				nilRets = append(nilRets, r)
			}
		}
		isNilRet := func(in ssa.Instruction) bool {
			for _, r := range nilRets {
				if r == in {
					return true
				}
			}
			return false
		}
		if len(nilRets) > 0 {
			c.mustPrecede(fn, callTo(fetch), "targetStore.FetchHeaderByHeight(ancestorHeight)", isNilRet, "return nil (no such ancestor)", 1)
		}
	})

	c.rule("C14.G5", "no header of the file escapes validation as the subject: pairs only ever validate their second header, so Validate validates the first header of the range before the first ValidateBatch (through validateFirst, or written out): every ValidateBatch call cannot be reached past a failed first-header validation, the first header (element 0 of the batch) is the subject of ValidatePair(<parent from the target store>, first) or of ValidateSingle(first), and the parent is fetched at the first header's height - 1", func() {
		bvT := func(m string) *types.Func { return c.method("chainimport", "blockHeadersImportSourceValidator", m) }
		v := c.fn("(*chainimport.blockHeadersImportSourceValidator).Validate")
		fetch := c.method("headerfs", "BlockHeaderStore", "FetchHeaderByHeight")
		hF := c.field("headerfs", "BlockHeader", "Height")
		isElem0 := func(x ssa.Value) bool {
			return ir.DerivesFrom(x, func(y ssa.Value) bool {
				ia, ok := y.(*ssa.IndexAddr)
				if !ok {
					return false
				}
				k, isC := ir.ConstInt(ia.Index)
				return isC && k == 0
			})
		}
		var host *ssa.Function
		for _, f := range ir.WithClosures(v) {
			if len(find(f, callTo(bvT("ValidateBatch")))) > 0 {
				host = f
			}
		}
		if host == nil {
			c.fail(c.nm(v)+" | Validate validates the first header of the range", c.P.Pos(v.Pos()), "no function of Validate calls ValidateBatch")
			return
		}
		batches := find(host, callTo(bvT("ValidateBatch")))
		vfObj := c.P.Method("chainimport", "blockHeadersImportSourceValidator", "validateFirst")
		vf := c.P.Func("(*chainimport.blockHeadersImportSourceValidator).validateFirst")
		// where the pair / single validation of the first header is written
		body := host
		isFirst := isElem0
		if vf != nil && vfObj != nil {
			firsts := find(host, callTo(vfObj))
			if len(firsts) == 0 {
				c.fail(c.nm(v)+" | Validate validates the first header of the range", c.P.Pos(v.Pos()), "Validate never calls validateFirst: the first header of the file is only ever the previous header of a pair")
				return
			}
			c.R.Funcs[c.nm(vf)] = true
			c.guarded(host, errNil("validateFirst(batch[0])", firsts, 0), 1, "ValidateBatch(batch) right after the first-header check", batches, 1, gFailEdge)
			for _, in := range firsts {
				a := argsOf(in)
				c.verdict(len(a) == 1 && isElem0(a[0]), c.nm(host)+" | validateFirst is given element 0 of the batch", c.at(in), "batch[0]", "validateFirst is not applied to the first element of the batch", c.at(in))
			}
			body = vf
			isFirst = func(x ssa.Value) bool {
				return ir.DerivesFrom(x, func(y ssa.Value) bool { return y == ssa.Value(vf.Params[1]) })
			}
		}
		c.verdict(true, c.nm(v)+" | Validate validates the first header of the range", c.P.Pos(v.Pos()), "first-header validation found in "+c.nm(body), "")
		fromStore := func(v ssa.Value) bool {
			return ir.DerivesFrom(v, func(x ssa.Value) bool {
				if valIsCallTo(fetch)(x) {
					return true
				}
				al, ok := x.(*ssa.Alloc)
				if !ok {
					return false
				}
				ok = false
				ir.Instrs(body, func(y ssa.Instruction) {
					if st, isSt := y.(*ssa.Store); isSt && ir.DerivesFrom(st.Addr, func(z ssa.Value) bool { return z == ssa.Value(al) }) && ir.DerivesFrom(st.Val, valIsCallTo(fetch)) {
						ok = true
					}
				})
				return ok
			})
		}
		var pairs, singles []ssa.Instruction
		for _, in := range find(body, callTo(bvT("ValidatePair"))) {
			// (the cross-batch pair has the previous batch's last header as its first element)
			if a := argsOf(in); len(a) == 2 && isFirst(a[1]) && !isFirst(a[0]) && fromStore(a[0]) {
				pairs = append(pairs, in)
			}
		}
		for _, in := range find(body, callTo(bvT("ValidateSingle"))) {
			if a := argsOf(in); len(a) == 1 && isFirst(a[0]) {
				singles = append(singles, in)
			}
		}
		if len(pairs) == 0 {
			c.fail(c.nm(body)+" | the pair is (parent fetched from the target store, first header)", c.P.Pos(body.Pos()), "no ValidatePair call validates the first header of the range against its parent fetched from the target store: the first header is only ever the previous header of a pair")
			return
		}
		c.pass(c.nm(body)+" | the pair is (parent fetched from the target store, first header)", c.P.Pos(body.Pos()), "ValidatePair(&blockHeader{parent}, first)", c.ats(pairs)...)
		g := unionGuard("ValidatePair(parent, first) = nil or ValidateSingle(first) = nil", errNil("ValidatePair(parent, first)", pairs, 0), errNil("ValidateSingle(first)", singles, 0))
		if body == vf {
			c.nilReturnsGuarded(vf, g, 2)
		} else {
			// written out in the loop body: a failed validation of the first
			// header never reaches the batch validation
			c.guarded(host, errNil("ValidatePair(parent, first)", pairs, 0), 1, "ValidateBatch(batch) after the first-header check", batches, 1, gFailEdge)
			if len(singles) > 0 {
				c.guarded(host, errNil("ValidateSingle(first)", singles, 0), 1, "ValidateBatch(batch) after the first-header check", batches, 1, gFailEdge)
			}
		}
		nFetch := 0
		for _, in := range find(body, callTo(fetch)) {
			a := argsOf(in)
			b, isB := ir.Strip(a[0]).(*ssa.BinOp)
			if len(a) != 1 || !isB || b.Op != token.SUB || !loadsField(hF)(b.X) {
				continue
			}
			k, isC := ir.ConstInt(b.Y)
			if isC && k == 1 {
				nFetch++
			}
		}
		c.verdict(nFetch >= 1, c.nm(body)+" | the parent is fetched at the first header's height - 1", c.P.Pos(body.Pos()), "FetchHeaderByHeight(first.Height - 1)", "the parent of the first header is not fetched at its height minus one")
	})

	c.rule("C14.K1", "height/index kinds in package chainimport: a target-chain height is never passed where an import-source index is expected (or compared / merged with one); kinds are seeded from field and parameter names (…Height / …Idx, …Index), ChainTip heights and the converter targetHeightToImportSourceIndex, and propagated through arithmetic, phis, parameters and results", func() {
		fns := c.importFuncs()
		cfg := kindCfg{fields: map[*types.Var]kind{}, results: map[*types.Func][]kind{}, conv: map[*types.Func]bool{}}
		for _, f := range []string{"start", "end"} {
			cfg.fields[c.field("chainimport", "headerRegion", f)] = kH
		}
		cfg.fields[c.field("chainimport", "processingRegions", "effectiveTip")] = kH
		cfg.fields[c.field("chainimport", "headerMetadata", "headersCount")] = kNum
		cfg.fields[c.field("headerfs", "BlockHeader", "Height")] = kH
		cfg.fields[c.field("headerfs", "FilterHeader", "Height")] = kH
		cfg.fields[c.field("headerfs", "BlockStamp", "Height")] = kH
		cfg.results[c.method("headerfs", "BlockHeaderStore", "ChainTip")] = []kind{kTop, kH, kTop}
		cfg.results[c.method("headerfs", "FilterHeaderStore", "ChainTip")] = []kind{kTop, kH, kTop}
		cfg.results[c.method("chainimport", "HeaderIterator", "GetBatchSize")] = []kind{kNum}
		cfg.results[c.method("chainimport", "importSourceHeaderIterator", "GetBatchSize")] = []kind{kNum}
		cfg.conv[c.funcObj("chainimport", "targetHeightToImportSourceIndex")] = true
		c.kindFlow(fns, cfg, 25)
	})

	c.rule("C14.O1", "writeHeadersToTargetStores: block headers are written before filter headers; when the filter write fails the block store is rolled back by exactly len(blockHeaders)", func() {
		fi := c.fn(fnImportW)
		bw := c.method("headerfs", "BlockHeaderStore", "WriteHeaders")
		fw := c.method("headerfs", "FilterHeaderStore", "WriteHeaders")
		c.mustPrecede(fi, callTo(bw), "TargetBlockHeaderStore.WriteHeaders", callTo(fw), "TargetFilterHeaderStore.WriteHeaders", 1)
		c.guarded(fi, errNil("block WriteHeaders", find(fi, callTo(bw)), 0), 1, "filter WriteHeaders", find(fi, callTo(fw)), 1, gDominate)
		gf := errNil("filter WriteHeaders", find(fi, callTo(fw)), 0)
		rb := c.method("headerfs", "BlockHeaderStore", "RollbackBlockHeaders")
		c.mustFollow(fi, "filter WriteHeaders failed", c.failEdges(gf), callTo(rb), "RollbackBlockHeaders(len(blockHeaders))", nil, 1)
		c.nilReturnsGuarded(fi, gf, 1)
		// what is written is what was passed in
		okArgs := true
		for _, w := range find(fi, callTo(bw)) {
			if argsOf(w)[0] != ssa.Value(fi.Params[1]) {
				okArgs = false
			}
		}
		for _, w := range find(fi, callTo(fw)) {
			if argsOf(w)[0] != ssa.Value(fi.Params[2]) {
				okArgs = false
			}
		}
		c.verdict(okArgs, c.nm(fi)+" | the batches written are the function's own arguments", c.P.Pos(fi.Pos()), "blockHeaders / filterHeaders passed through", "a store is written with something other than the batch handed in")
	})

	c.rule("C14.G2", consistentBatchesDoc, func() { c.consistentBatches() })
	c.rule("C14.G3", "an overlapping file is compared with the stores at both ends of the overlap: in validateChainContinuity, once the header pair at the start of the overlap was verified, success is reachable only through a verified pair at the end of the overlap (block and filter header, verifyBlockAndFilter) or through the edge where the overlap is a single height; the end of the overlap is min(effective tip, import end)", func() {
		fn := c.fn("(*chainimport.headersImport).validateChainContinuity")
		ver := hi("verifyHeadersAtTargetHeight")
		anyMin := func(v ssa.Value) bool {
			return ir.DerivesFrom(v, func(x ssa.Value) bool {
				call, ok := x.(*ssa.Call)
				return ok && isBuiltin("min")(call)
			})
		}
		// overlapEnd: the min() one of whose operands is itself the effective
		// tip (a min of the two store tips)
		isMin := func(v ssa.Value) bool {
			call, ok := ir.Strip(v).(*ssa.Call)
			if !ok || !isBuiltin("min")(call) {
				return false
			}
			for _, a := range call.Call.Args {
				if anyMin(a) {
					return true
				}
			}
			return false
		}
		var startV, endV []ssa.Instruction
		okMode := true
		modeK := c.importConst("verifyBlockAndFilter")
		for _, x := range find(fn, callTo(ver)) {
			a := argsOf(x)
			if k, isC := ir.ConstInt(a[1]); !isC || k != modeK {
				okMode = false
			}
			if isMin(a[0]) {
				endV = append(endV, x)
			} else {
				startV = append(startV, x)
			}
		}
		construct := c.nm(fn) + " | overlap verified at start and end"
		if len(startV) != 1 || len(endV) != 1 || !okMode {
			c.fail(construct, c.P.Pos(fn.Pos()), fmt.Sprintf("%d start / %d end comparison(s) of the overlap (1 each tabled); all in block+filter mode: %v", len(startV), len(endV), okMode))
			return
		}
		gEnd := errNil("verifyHeadersAtTargetHeight(overlapEnd)", endV, 0)
		// single-height overlap: overlapEnd > overlapStart is false
		startArg := argsOf(startV[0])[0]
		single, odd := relGuard("overlapEnd <= overlapStart", fn, isMin, func(v ssa.Value) bool { return v == startArg }, token.LEQ)
		cut := ir.Union(gEnd.cut(), single.cut())
		var bad []string
		for _, s0 := range c.successEdges(errNil("verifyHeadersAtTargetHeight(overlapStart)", startV, 0)) {
			ir.WalkCtx(s0.b, s0.idx, s0.pred, cut, func(in ssa.Instruction) bool {
				if r, ok := in.(*ssa.Return); ok && ir.IsNil(ir.RetVal(r, 0)) {
					bad = append(bad, "return nil at "+c.at(in)+" reachable with a multi-height overlap whose end was never compared with the stores")
				}
				return true
			})
		}
		sort.Strings(bad)
		c.verdict(len(bad) == 0 && len(odd) == 0 && len(single.sites) >= 1 && len(gEnd.sites) >= 1, construct, c.P.Pos(fn.Pos()), "success only through verify(overlapEnd)=nil or overlapEnd <= overlapStart", join(uniq(bad))+join(odd), c.ats(append(startV, endV...))...)
	})

	c.rule("C14.V3", "each region is written as far as it was asked for and no further: appendNewHeaders reads the import source between the indices of its own startHeight and endHeight parameters - both iterators get (index of startHeight, index of endHeight), each converted with targetHeightToImportSourceIndex against the file's start height; an end taken from the file's metadata makes the block-only catch-up of the divergence region run on to the end of the file, and the region after it appends the same headers again", func() {
		fn := c.fn("(*chainimport.headersImport).appendNewHeaders")
		conv := c.funcObj("chainimport", "targetHeightToImportSourceIndex")
		metaStart := c.field("chainimport", "importMetadata", "startHeight")
		idxOf := func(v ssa.Value, param *ssa.Parameter) bool {
			call, ok := ir.Strip(v).(*ssa.Call)
			if !ok || !callTo(conv)(call) || len(call.Call.Args) != 2 {
				return false
			}
			return ir.Strip(call.Call.Args[0]) == ssa.Value(param) && loadsField(metaStart)(call.Call.Args[1])
		}
		iters := find(fn, func(in ssa.Instruction) bool {
			cc := ir.CallOf(in)
			return cc != nil && cc.IsInvoke() && cc.Method.Name() == "Iterator"
		})
		var bad []string
		for _, it := range iters {
			a := ir.CallOf(it).Args
			if len(a) < 2 || !idxOf(a[0], fn.Params[2]) {
				bad = append(bad, "the iterator made at "+c.at(it)+" does not start at the index of the startHeight parameter")
			}
			if len(a) < 2 || !idxOf(a[1], fn.Params[3]) {
				bad = append(bad, "the iterator made at "+c.at(it)+" does not end at the index of the endHeight parameter")
			}
		}
		sort.Strings(bad)
		c.verdict(len(iters) == 2 && len(bad) == 0, c.nm(fn)+" | both source iterators cover [index(startHeight), index(endHeight)]", c.P.Pos(fn.Pos()), "2 iterators bounded by the region's own heights", join(bad)+fmt.Sprintf(" (%d iterators)", len(iters)), c.ats(iters)...)
	})

	c.rule("C14.V5", "a region is not reported done before the source is exhausted: appendNewHeaders returns success only after the import source itself said that there is no further batch (processBatch = io.EOF), or on an edge where a running height / index is known to be strictly greater than the region's inclusive end (endHeight, or its source index); after a batch was written every other way to the success return leads through another processBatch call (an exit on 'position >= end' leaves the header at the end of the range out whenever the last batch holds exactly one header, and Import reports the whole range as added)", func() {
		fn := c.fn(fnAppendNH)
		eof := c.P.Pkg("io").Scope().Lookup("EOF")
		conv := c.funcObj("chainimport", "targetHeightToImportSourceIndex")
		if eof == nil {
			panic(anchorErr{"io.EOF"})
		}
		isEOF := func(v ssa.Value) bool {
			u, ok := ir.Strip(v).(*ssa.UnOp)
			if !ok || u.Op != token.MUL {
				return false
			}
			g, ok := u.X.(*ssa.Global)
			return ok && g.Object() == eof
		}
		pb := find(fn, callTo(hi("processBatch")))
		construct := c.nm(fn) + " | success only after the source is exhausted"
		if len(pb) == 0 {
			c.undecided(construct, c.P.Pos(fn.Pos()), "no processBatch call in appendNewHeaders")
			return
		}
		// the inclusive end of the region: the endHeight parameter or its source index
		isEnd := func(v ssa.Value) bool {
			v = ir.Strip(v)
			if paramOrSpill(fn.Params[3])(v) {
				return true
			}
			call, ok := v.(*ssa.Call)
			return ok && callTo(conv)(call) && len(call.Call.Args) == 2 && paramOrSpill(fn.Params[3])(ir.Strip(call.Call.Args[0]))
		}
		notEnd := func(v ssa.Value) bool { return !isEnd(v) }
		past, odd := relGuard("position > inclusive end", fn, notEnd, isEnd, token.GTR)
		if len(odd) > 0 {
			c.fail(construct, c.P.Pos(fn.Pos()), "a running position is compared with the region's inclusive end by "+join(odd)+": the batch loop can be left with the header at the end of the range unwritten")
			return
		}
		cut := past.cut()
		// err == io.EOF edges
		for _, cmp := range find(fn, binops(eqOps, isEOF, func(ssa.Value) bool { return true })) {
			for _, b := range ir.EqBranches(cmp.(*ssa.BinOp)) {
				if b.Pol >= 0 {
					cut[b.Edge()] = true
				}
			}
		}
		isPB := func(in ssa.Instruction) bool {
			for _, x := range pb {
				if x == in {
					return true
				}
			}
			return false
		}
		var bad, sites []string
		for _, call := range pb {
			s := afterInstr(c, call)
			sites = append(sites, "from:"+s.desc)
			ir.WalkCtx(s.b, s.idx, s.pred, cut, func(in ssa.Instruction) bool {
				if isPB(in) {
					return false
				}
				if r, ok := in.(*ssa.Return); ok {
					if len(r.Results) == 1 && ir.IsNil(r.Results[0]) {
						bad = append(bad, fmt.Sprintf("success return at %s reachable after the batch of %s without io.EOF from the source and without position > end", c.at(in), c.at(call)))
					}
					return false
				}
				return true
			})
		}
		sort.Strings(bad)
		c.verdict(len(bad) == 0, construct, c.P.Pos(fn.Pos()), fmt.Sprintf("%d processBatch call(s); success is returned only behind io.EOF or position > end", len(pb)), join(bad), sites...)
		// ... and the importer itself says "no further batch" (returns io.EOF
		// of its own, not the source's) only for a position past the
		// inclusive end of what the iterator covers
		for _, name := range []string{"(*chainimport.headersImport).processBatch", fnAppendNH} {
			g := c.P.Func(name)
			if g == nil {
				continue
			}
			var own []ssa.Instruction
			for _, in := range find(g, isExit) {
				r := in.(*ssa.Return)
				if len(r.Results) > 0 && isEOF(r.Results[len(r.Results)-1]) {
					own = append(own, in)
				}
			}
			if len(own) == 0 {
				continue
			}
			isItEnd := func(v ssa.Value) bool {
				call, ok := ir.Strip(v).(*ssa.Call)
				if !ok {
					return false
				}
				if call.Call.IsInvoke() {
					return call.Call.Method.Name() == "GetEndIndex"
				}
				f := call.Call.StaticCallee()
				return f != nil && f.Name() == "GetEndIndex"
			}
			end2 := func(v ssa.Value) bool { return isItEnd(v) || (g == fn && isEnd(v)) }
			past2, odd2 := relGuard("position > the iterator's inclusive end", g, func(v ssa.Value) bool { return !end2(v) }, end2, token.GTR)
			construct2 := c.nm(g) + " | io.EOF of its own only past the inclusive end"
			if len(odd2) > 0 {
				c.fail(construct2, c.at(own[0]), "a position is compared with the iterator's inclusive end index by "+join(odd2)+": the batch that starts at the last index is reported as the end of the source and its header is never written")
				continue
			}
			// (handing on the source's own io.EOF, tested for just before, is
			// the other way)
			fromSrc := equalIs("the source's error == io.EOF", find(g, binops(eqOps, isEOF, func(ssa.Value) bool { return true })), true)
			c.guarded(g, unionGuard("position > the iterator's inclusive end, or io.EOF from the source", past2, fromSrc), 1, "return io.EOF", own, 1, gDominate)
		}
	})

	c.rule("C14.V4", "repeating an import changes nothing: the regions of an Import call are worked out from the target stores as they are in that call - in determineProcessingRegions the two tip heights (the ones handed to determineDivergenceSyncModes and used for the region bounds) are the height results of TargetBlockHeaderStore.ChainTip() and TargetFilterHeaderStore.ChainTip() called there, on every path; tips remembered from an earlier call make a second Import on the same importer append the same headers again", func() {
		fn := c.fn("(*chainimport.headersImport).determineProcessingRegions")
		optB := c.field("chainimport", "ImportOptions", "TargetBlockHeaderStore")
		optF := c.field("chainimport", "ImportOptions", "TargetFilterHeaderStore")
		tipOf := func(v ssa.Value, store *types.Var) bool {
			ex, ok := ir.Strip(v).(*ssa.Extract)
			if !ok || ex.Index != 1 {
				return false
			}
			call, ok := ex.Tuple.(*ssa.Call)
			if !ok || !call.Call.IsInvoke() || call.Call.Method.Name() != "ChainTip" {
				return false
			}
			return loadsField(store)(call.Call.Value)
		}
		// the two tip heights: results of ChainTip calls on the target stores
		// made here, never merged with a value from elsewhere
		var tips []ssa.Value
		nB, nF := 0, 0
		ir.Instrs(fn, func(in ssa.Instruction) {
			ex, ok := in.(*ssa.Extract)
			if !ok {
				return
			}
			switch {
			case tipOf(ex, optB):
				nB++
				tips = append(tips, ex)
			case tipOf(ex, optF):
				nF++
				tips = append(tips, ex)
			}
		})
		okv := nB >= 1 && nF >= 1
		var calls []ssa.Instruction
		for _, tv := range tips {
			calls = append(calls, tv.(ssa.Instruction))
			if len(ir.Refs(tv)) == 0 {
				okv = false // fetched and thrown away
			}
			for _, r := range ir.Refs(tv) {
				if ph, isPhi := r.(*ssa.Phi); isPhi {
					for _, e := range ph.Edges {
						if e != tv {
							okv = false // merged with a remembered value
						}
					}
				}
			}
		}
		c.verdict(okv, c.nm(fn)+" | the tip heights are read from the target stores in this call", c.P.Pos(fn.Pos()), "both heights are results of ChainTip calls on the target stores made in this call, used unmerged", "the tip heights the regions are computed from are not (on every path) the results of ChainTip calls made in this call: a remembered value makes a repeated import write the same headers again", c.ats(calls)...)
	})

	c.rule("C14.G6", "a failed import leaves the filter store readable also when the block store is ahead: the filter-only catch-up of processBatch names the tip block only with the last batch of the region, so a region of several batches that fails or is cancelled in between leaves a filter store whose tip pointer does not resolve; today that path cannot be reached, because validateChainContinuity hands validateHeaderConnection the block store's own tip height as the height of the previous header, and with the two stores at different heights the file's next header never links to it. Either of the two must hold: the continuity check still refuses stores at different heights in that way, or every filter-only batch carries its tip block (setLastFilterHeaderHash precedes every write in that mode)", func() {
		// (a) the guard
		vc := c.fn("(*chainimport.headersImport).validateChainContinuity")
		optB := c.field("chainimport", "ImportOptions", "TargetBlockHeaderStore")
		isBlockTip := func(v ssa.Value) bool {
			ex, ok := ir.Strip(v).(*ssa.Extract)
			if !ok || ex.Index != 1 {
				return false
			}
			call, ok := ex.Tuple.(*ssa.Call)
			return ok && call.Call.IsInvoke() && call.Call.Method.Name() == "ChainTip" && loadsField(optB)(call.Call.Value)
		}
		conn := find(vc, callTo(c.method("chainimport", "headersImport", "validateHeaderConnection")))
		guardHolds := len(conn) >= 1
		for _, in := range conn {
			_, a := recvAndArgs(in)
			// (looking through the result variables of a tip-reading helper
			// written out here: the placeholder heights of its error exits
			// never get to the call)
			if len(a) < 2 || !isBlockTip(liveValue(a[1], in)) {
				guardHolds = false
			}
		}
		// ... and the callee reads the previous header at exactly that height
		if vh := c.P.Func("(*chainimport.headersImport).validateHeaderConnection"); vh != nil && guardHolds {
			reads := 0
			ir.Instrs(vh, func(in ssa.Instruction) {
				cc := ir.CallOf(in)
				if cc == nil || !cc.IsInvoke() || cc.Method.Name() != "FetchHeaderByHeight" || !loadsField(optB)(cc.Value) {
					return
				}
				reads++
				if len(vh.Params) < 3 || ir.Strip(cc.Args[0]) != ssa.Value(vh.Params[2]) {
					guardHolds = false
				}
			})
			if reads == 0 {
				guardHolds = false
			}
		}
		// (b) the path itself
		pb := c.fn(fnProcB)
		w := find(pb, callTo(c.method("chainimport", "headersImport", "writeHeadersToTargetStores")))
		setLast := c.funcObj("chainimport", "setLastFilterHeaderHash")
		var modeCmps []ssa.Instruction
		ir.Instrs(pb, func(in ssa.Instruction) {
			b, ok := in.(*ssa.BinOp)
			if !ok || (b.Op != token.EQL && b.Op != token.NEQ) || !isParam(pb, len(pb.Params)-1)(b.X) {
				return
			}
			if k, isC := ir.ConstInt(b.Y); isC && k == c.importConst("appendFilterOnly") {
				modeCmps = append(modeCmps, in)
			}
		})
		gm := equalIs("appendMode vs appendFilterOnly", modeCmps, true)
		pathSafe := len(gm.sites) >= 1
		// from the function entry, with the "not filter-only" edges removed: a
		// write reachable without setLastFilterHeaderHash is an unnamed batch
		cut := ir.Cut{}
		for _, st := range gm.sites {
			cut[st.br.Other()] = true
		}
		ir.Walk(pb.Blocks[0], 0, cut, func(in ssa.Instruction) bool {
			if callTo(setLast)(in) {
				return false
			}
			for _, x := range w {
				if x == in {
					pathSafe = false
				}
			}
			return true
		})
		why := "the continuity check refuses stores at different heights (previous height = block store tip)"
		if !guardHolds {
			why = "every filter-only batch carries its tip block"
		}
		c.verdict(guardHolds || pathSafe, "chainimport | the multi-batch filter-only catch-up is unreachable or names its tip with every batch", c.P.Pos(vc.Pos()), why, "validateChainContinuity no longer refuses a block store that is ahead of the filter store, and the filter-only catch-up still names the tip block only with its last batch: an import that fails between batches leaves the filter store with a tip that does not resolve", c.ats(append(conn, w...))...)
	})

	c.rule("C14.V2", "the batch validators look at every header of the batch: blockHeadersImportSourceValidator.ValidateBatch visits indices 1..len-1 and validates each adjacent pair (headers[i-1], headers[i]); filterHeadersImportSourceValidator.ValidateBatch visits 0..len-1 with ValidateSingle; any early way out of either loop returns an error", func() {
		for _, spec := range []struct {
			fn, callee string
			first      int64
			pair       bool
		}{
			{"(*chainimport.blockHeadersImportSourceValidator).ValidateBatch", "ValidatePair", 1, true},
			{"(*chainimport.filterHeadersImportSourceValidator).ValidateBatch", "ValidateSingle", 0, false},
		} {
			fn := c.fn(spec.fn)
			recvT := "blockHeadersImportSourceValidator"
			if !spec.pair {
				recvT = "filterHeadersImportSourceValidator"
			}
			callee := c.method("chainimport", recvT, spec.callee)
			var h *ssa.BasicBlock
			var inLoop []ssa.Instruction
			for _, x := range find(fn, callTo(callee)) {
				if lh := ir.LoopHeaderOf(x.Block()); lh != nil {
					h = lh
					inLoop = append(inLoop, x)
				}
			}
			isHeaders := func(v ssa.Value) bool { return v == ssa.Value(fn.Params[1]) }
			if h == nil || len(inLoop) != 1 {
				c.fail(c.nm(fn)+" | one "+spec.callee+" call per element", c.P.Pos(fn.Pos()), fmt.Sprintf("%d call(s) inside a loop", len(inLoop)))
				continue
			}
			lf := loopFormOf(h)
			call := inLoop[0]
			// element offsets of the arguments relative to the loop counter
			offOf := func(v ssa.Value) (int64, bool) {
				ld, ok := v.(*ssa.UnOp)
				if !ok {
					return 0, false
				}
				ia, ok := ld.X.(*ssa.IndexAddr)
				if !ok || !isHeaders(ia.X) {
					return 0, false
				}
				return counterOffset(lf, ia.Index)
			}
			a := argsOf(call)
			okArgs := false
			lo, hi := int64(0), int64(0)
			if spec.pair {
				d0, ok0 := offOf(a[0])
				d1, ok1 := offOf(a[1])
				okArgs = ok0 && ok1 && d1 == d0+1
				lo, hi = d0, d1
			} else {
				d0, ok0 := offOf(a[0])
				okArgs = ok0
				lo, hi = d0, d0
			}
			if okArgs {
				c.fullRangeOff(fn, h, "the loop calling "+spec.callee, isHeaders, lo, hi, errSuccess)
			}
			var starts []start
			for i, sc := range h.Succs {
				if ir.LoopBlocks(h)[sc] {
					starts = append(starts, atEdge(c, ir.Edge{From: h, Succ: i}, "next element"))
				}
			}
			c.mustFollowIter(fn, "each element of the batch", starts, func(in ssa.Instruction) bool { return in == call }, spec.callee, nil, 1)
			c.verdict(okArgs, c.nm(fn)+" | "+spec.callee+" is applied to the element(s) at the loop index", c.at(call), "arguments are adjacent elements (headers[i+d], headers[i+d+1]) / the element headers[i+d] of the batch", "the validated element(s) are not (adjacent) elements of the batch at the loop index")
		}
	})

	c.rule("C14.V1", "the validators see every header that gets written: the import source iterators cover the inclusive index range [start, end]: after a successfully delivered element the sequence ends (returns without a further delivery) only on the edge where the running index is known to be greater than the end index", func() {
		for _, spec := range []struct{ parent string }{
			{"(*chainimport.importSourceHeaderIterator).Iterator"},
			{"(*chainimport.importSourceHeaderIterator).BatchIterator"},
		} {
			parent := c.fn(spec.parent)
			if parent == nil || len(parent.AnonFuncs) != 1 {
				c.undecided(spec.parent+" | iterator body", "-", "expected exactly one function literal (the iter.Seq2 body)")
				continue
			}
			f := parent.AnonFuncs[0]
			// the captured end index: free variable bound to the cell of parameter #2
			var endFV *ssa.FreeVar
			ir.Instrs(parent, func(in ssa.Instruction) {
				mc, ok := in.(*ssa.MakeClosure)
				if !ok || mc.Fn != ssa.Value(f) {
					return
				}
				for i, b := range mc.Bindings {
					if al, ok := b.(*ssa.Alloc); ok {
						for _, st := range ir.StoresTo(al) {
							if st.Val == ssa.Value(parent.Params[2]) {
								endFV = f.FreeVars[i]
							}
						}
					}
				}
			})
			if endFV == nil {
				c.undecided(c.nm(f)+" | end index capture", c.P.Pos(f.Pos()), "the end-index parameter is not captured by the iterator body")
				continue
			}
			isEnd := func(v ssa.Value) bool {
				u, ok := v.(*ssa.UnOp)
				return ok && u.X == ssa.Value(endFV)
			}
			notEnd := func(v ssa.Value) bool { return !isEnd(v) }
			g, odd := relGuard("index > endIdx", f, notEnd, isEnd, token.GTR)
			construct := c.nm(f) + " | the sequence ends only past the inclusive end index"
			if len(odd) > 0 {
				c.fail(construct, c.P.Pos(f.Pos()), "the running index is compared with the inclusive end index by "+join(odd)+": the element at the end index can be skipped")
				continue
			}
			// successful deliveries: yield(x, nil) returned true
			var starts []start
			isYield := func(in ssa.Instruction) bool {
				cc := ir.CallOf(in)
				return cc != nil && !cc.IsInvoke() && cc.Value == ssa.Value(f.Params[0])
			}
			for _, y := range find(f, isYield) {
				a := argsOf(y)
				if !ir.IsNil(a[1]) {
					continue
				}
				for _, br := range ir.TrueBranches(y.(ssa.Value)) {
					starts = append(starts, atEdge(c, br.Edge(), "delivered at "+c.at(y)))
				}
			}
			var bad, sites []string
			cut := g.cut()
			for _, s := range starts {
				sites = append(sites, s.desc)
				ir.WalkCtx(s.b, s.idx, s.pred, cut, func(in ssa.Instruction) bool {
					if isYield(in) {
						return false
					}
					if isExit(in) {
						bad = append(bad, fmt.Sprintf("return at %s reachable from %s without index > endIdx", c.at(in), s.desc))
						return false
					}
					return true
				})
			}
			sort.Strings(bad)
			c.verdict(len(bad) == 0 && len(starts) >= 1 && len(g.sites) >= 2, construct, c.P.Pos(f.Pos()), fmt.Sprintf("%d delivery point(s); the sequence completes only when index > endIdx", len(starts)), "the iterator can stop before the end index was delivered: "+join(bad)+fmt.Sprintf(" (%d deliveries, %d guard edges)", len(starts), len(g.sites)), sites...)
		}
	})
}

func (c *Ctx) importConst(name string) int64 {
	k, ok := c.P.Pkg("chainimport").Scope().Lookup(name).(*types.Const)
	if !ok {
		panic(anchorErr{"const chainimport." + name})
	}
	v, _ := constant.Int64Val(k.Val())
	return v
}

// importConstIn: integer value of a package-level constant.
func (c *Ctx) importConstIn(pkg, name string) int64 {
	k, ok := c.P.Pkg(pkg).Scope().Lookup(name).(*types.Const)
	if !ok {
		panic(anchorErr{"const " + pkg + "." + name})
	}
	v, _ := constant.Int64Val(k.Val())
	return v
}

const consistentBatchesDoc = "processBatch writes only consistent batches: equal batch lengths in block+filter mode, tip-height agreement when only filter headers are appended; appendNewHeaders re-checks the context before every batch and stops at the first error"

// consistentBatches: see consistentBatchesDoc.
func (c *Ctx) consistentBatches() {
	hi := func(m string) *types.Func { return c.method("chainimport", "headersImport", m) }
	_ = hi
	fn := c.fn(fnProcB)
	w := find(fn, callTo(hi("writeHeadersToTargetStores")))
	// len(blockHeaders) != len(filterHeaders) comparison
	var lenCmp []ssa.Instruction
	ir.Instrs(fn, func(in ssa.Instruction) {
		b, ok := in.(*ssa.BinOp)
		if !ok {
			return
		}
		cx, okx := b.X.(*ssa.Call)
		cy, oky := b.Y.(*ssa.Call)
		if okx && oky && isBuiltin("len")(cx) && isBuiltin("len")(cy) {
			lenCmp = append(lenCmp, in)
		}
	})
	g := equalIs("len(blockHeaders) vs len(filterHeaders)", lenCmp, true)
	// applies only in appendBlockAndFilter mode: effect = the write reached through that mode's branch;
	// evaluate on the failure edge instead: from the mismatch edge no write is reachable
	c.guarded(fn, g, 1, "writeHeadersToTargetStores", w, 1, gFailEdge)
	// block+filter mode: every filter batch written carries the block hash of
	// its last entry (it becomes the filter store's tip pointer), not only the
	// final batch of the region
	setLast := c.funcObj("chainimport", "setLastFilterHeaderHash")
	var modeCmps []ssa.Instruction
	ir.Instrs(fn, func(in ssa.Instruction) {
		b, ok := in.(*ssa.BinOp)
		if !ok || b.Op != token.EQL || !isParam(fn, len(fn.Params)-1)(b.X) {
			return
		}
		if k, isC := ir.ConstInt(b.Y); isC && k == c.importConst("appendBlockAndFilter") {
			modeCmps = append(modeCmps, in)
		}
	})
	gm := equalIs("appendMode vs appendBlockAndFilter", modeCmps, true)
	var badW []string
	// (the mode does not change on the way: every test of it has the same
	// outcome as the one the path started from)
	modeFacts := map[ssa.Value]bool{}
	for _, mc := range modeCmps {
		modeFacts[mc.(ssa.Value)] = true
	}
	for _, st := range c.successEdges(gm) {
		ir.WalkFacts(st.b, st.idx, st.pred, nil, modeFacts, func(in ssa.Instruction) bool {
			if callTo(setLast)(in) {
				return false
			}
			for _, x := range w {
				if x == in {
					badW = append(badW, c.at(in))
				}
			}
			return true
		})
	}
	c.verdict(len(gm.sites) >= 1 && len(badW) == 0, c.nm(fn)+" | block+filter mode: setLastFilterHeaderHash precedes every write", c.P.Pos(fn.Pos()), "each written filter batch names the block of its last entry", "in block+filter mode a batch can be written without setLastFilterHeaderHash (write at "+join(badW)+"): the filter store's tip pointer is then a zero hash until a later batch repairs it, so an import that stops in between leaves the filter store unreadable")
	tip := c.method("headerfs", "BlockHeaderStore", "ChainTip")
	fh := c.field("headerfs", "FilterHeader", "Height")
	hc := find(fn, binops(eqOps, func(v ssa.Value) bool { return ir.DerivesFrom(v, valIsCallTo(tip)) }, loadsField(fh)))
	c.guarded(fn, equalIs("block tip height vs last filter header height", hc, true), 1, "writeHeadersToTargetStores", w, 1, gFailEdge)
	c.guarded(fn, errNil("TargetBlockHeaderStore.ChainTip", find(fn, callTo(tip)), 2), 1, "writeHeadersToTargetStores", w, 1, gFailEdge)
	c.nilReturnsGuarded(fn, errNil("writeHeadersToTargetStores", w, 0), 1)
	// appendNewHeaders
	fa := c.fn(fnAppendNH)
	pb := find(fa, callTo(hi("processBatch")))
	if cancelledFn := c.P.Func("chainimport.ctxCancelled"); cancelledFn != nil {
		cancelled := c.funcObj("chainimport", "ctxCancelled")
		c.guarded(fa, errNil("ctxCancelled(ctx)", find(fa, callTo(cancelled)), 0), 1, "processBatch", pb, 1, gDominate)
	} else {
		// the poll written out (or a helper of another name, seen inlined):
		// from the arm that found ctx.Done() closed no further batch starts
		arms := c.selectArms(fa, func(sel *ssa.Select, st *ssa.SelectState) bool {
			dc, ok := st.Chan.(*ssa.Call)
			return st.Dir == types.RecvOnly && ok && dc.Call.IsInvoke() && dc.Call.Method.Name() == "Done" && !sel.Blocking
		}, "ctx.Done() found closed")
		isPB := func(in ssa.Instruction) bool {
			for _, x := range pb {
				if x == in {
					return true
				}
			}
			return false
		}
		construct := c.nm(fa) + " | a cancelled import starts no further batch"
		var bad []string
		for _, s := range arms {
			ir.WalkCtx(s.b, s.idx, s.pred, nil, func(in ssa.Instruction) bool {
				if isPB(in) {
					bad = append(bad, "processBatch at "+c.at(in)+" reachable from "+s.desc)
				}
				return true
			})
		}
		// the poll lies in front of every batch
		polled := len(arms) >= 1
		if polled {
			sel := arms[0].pred
			for _, x := range pb {
				if sel == nil || !sel.Dominates(x.Block()) {
					polled = false
				}
			}
		}
		c.verdict(polled && len(bad) == 0, construct, c.P.Pos(fa.Pos()), "a non-blocking poll of ctx.Done() dominates processBatch and its closed arm reaches none", "no poll of ctx.Done() in front of every batch, or: "+join(bad))
	}
	// both iterators span the same source range
	iter := c.method("chainimport", "HeaderImportSource", "Iterator")
	its := find(fa, callTo(iter))
	okSame := len(its) == 2
	if okSame {
		a, b := argsOf(its[0]), argsOf(its[1])
		okSame = a[0] == b[0] && a[1] == b[1]
		conv := c.funcObj("chainimport", "targetHeightToImportSourceIndex")
		okSame = okSame && valIsCallTo(conv)(a[0]) && valIsCallTo(conv)(a[1])
	}
	c.verdict(okSame, c.nm(fa)+" | block and filter iterators cover the same converted index range", c.P.Pos(fa.Pos()), "same (sourceStartIdx, sourceEndIdx) from targetHeightToImportSourceIndex", "the two import iterators do not cover the same index range derived from the region's heights", c.ats(its)...)
}
