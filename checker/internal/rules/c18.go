package rules

import (
	"go/types"
)

func init() {
	register(&Prop{ID: "C18", Run: runC18, NotDecided: []string{
		"a sound whole-program race analysis is out of reach (no pointer analysis in the installed x/tools): races on data not in the table are not decided",
		"anything the dynamic race detector would find on executions (this is the repo's own locking / ownership / atomic discipline, exhaustively over the tabled fields)",
	}})
}

func runC18(c *Ctx) {
	bm := func(f string) *types.Var { return c.field("neutrino", "blockManager", f) }
	csf := func(f string) *types.Var { return c.field("neutrino", "ChainService", f) }
	preStart := map[string]string{
		"neutrino.newBlockManager":                    "constructor: the block manager is not yet published",
		"(*neutrino.blockManager).ResetHeaderState":   "pre-start: called from ChainService.Start before blockManager.Start",
	}

	c.rule("C18.L1", "guarded-by table of the root module: each tabled field is accessed only with its mutex held (exclusively for writes); constructors and tabled pre-start functions are exempt; lock-free reads are allowed only in the field's single writer goroutine", func() {
		c.guardedBy([]gField{
			{field: bm("headerTip"), mutex: bm("newHeadersMtx"), exempt: preStart},
			{field: bm("headerTipHash"), mutex: bm("newHeadersMtx"), exempt: preStart},
			{field: bm("filterHeaderTip"), mutex: bm("newFilterHeadersMtx"), exempt: preStart},
			{field: bm("filterHeaderTipHash"), mutex: bm("newFilterHeadersMtx"), exempt: preStart},
			{field: bm("syncPeer"), mutex: bm("syncPeerMutex"), exempt: preStart,
				readersNoLock: map[string]string{"(*neutrino.blockManager).startSync": "runs in blockHandler, the only writer of syncPeer"}},
			{field: c.field("neutrino", "ServerPeer", "recvSubscribers"), mutex: c.field("neutrino", "ServerPeer", "mtxSubscribers"),
				exempt: map[string]string{"neutrino.NewServerPeer": "constructor"}},
			{field: c.field("neutrino", "ServerPeer", "recvSubscribers2"), mutex: c.field("neutrino", "ServerPeer", "mtxSubscribers"),
				exempt: map[string]string{"neutrino.NewServerPeer": "constructor",
					"(*neutrino.ServerPeer).OnRead": "deletes cancelled subscribers under the read lock: OnRead is the only read-lock holder and btcd's reader goroutine serialises it per peer (supporting obligation below)"}},
			{field: c.field("neutrino", "UtxoScanner", "pq"), mutex: c.field("neutrino", "UtxoScanner", "mu"), exempt: map[string]string{"neutrino.NewUtxoScanner": "constructor"}},
			{field: c.field("neutrino", "UtxoScanner", "nextBatch"), mutex: c.field("neutrino", "UtxoScanner", "mu"), exempt: map[string]string{"neutrino.NewUtxoScanner": "constructor"}},
			{field: c.field("neutrino", "GetUtxoRequest", "result"), mutex: c.field("neutrino", "GetUtxoRequest", "mu")},
			{field: c.field("neutrino", "Rescan", "err"), mutex: c.field("neutrino", "Rescan", "errMtx")},
		}, 40)
		// supporting obligation of the OnRead exemption: no other RLock of mtxSubscribers
		mtx := c.field("neutrino", "ServerPeer", "mtxSubscribers")
		rl := c.method("sync", "RWMutex", "RLock")
		c.whoMay("ServerPeer.mtxSubscribers.RLock", withArg(callTo(rl), 0, fieldAddrOf(mtx)), []string{"(*neutrino.ServerPeer).OnRead"}, 1)
		// lock pairing over the whole root module
		entry := map[string]map[lockKey]string{}
		c.lockResults()
		for fn, e := range c.lentry {
			entry[c.nm(fn)] = e
		}
		c.pairing(c.P.Funcs, entry, 40)
	})

	c.rule("C18.A1", "atomic-only fields: every access goes through sync/atomic", func() {
		c.atomicOnly([]*types.Var{
			bm("started"), bm("shutdown"),
			csf("started"), csf("shutdown"), csf("bytesReceived"), csf("bytesSent"),
			c.field("neutrino", "ServerPeer", "feeFilter"),
			c.field("neutrino", "Rescan", "started"),
			c.field("neutrino", "UtxoScanner", "started"), c.field("neutrino", "UtxoScanner", "stopped"),
			c.field("blockntfns", "SubscriptionManager", "subscriberCounter"),
			c.field("blockntfns", "SubscriptionManager", "started"),
			c.field("blockntfns", "SubscriptionManager", "stopped"),
		}, nil, 20)
	})

	c.rule("C18.R1", "goroutine ownership: the block manager's header-sync state is touched only from the blockHandler goroutine (and pre-start functions); the peer state and subscriber lists only from peerHandler; the subscription registry only from subscriptionHandler", func() {
		const bh = "(*neutrino.blockManager).blockHandler"
		allowedBM := map[string]string{
			"neutrino.NewChainService":        "constructs the block manager before anything runs",
			"(*neutrino.ChainService).Start":  "calls ResetHeaderState before blockManager.Start",
			"neutrino.newBlockManager":        "constructor",
			"(*neutrino.blockManager).ResetHeaderState": "pre-start (exported for the import path)",
		}
		for _, f := range []string{"headerList", "reorgList", "nextCheckpoint", "startHeader"} {
			c.ownedBy(bm(f), bh, allowedBM, 1)
		}
		const ph = "(*neutrino.ChainService).peerHandler"
		allowedCS := map[string]string{"neutrino.NewChainService": "constructor"}
		c.ownedBy(csf("peerSubscribers"), ph, allowedCS, 2)
		c.ownedBy(csf("firstPeerConnect"), ph, allowedCS, 2)
		for _, f := range []string{"persistentPeers", "outboundPeers", "outboundGroups"} {
			c.ownedBy(c.field("neutrino", "peerState", f), ph, allowedCS, 2)
		}
		c.ownedBy(c.field("blockntfns", "SubscriptionManager", "subscribers"), "(*blockntfns.SubscriptionManager).subscriptionHandler", map[string]string{
			"blockntfns.NewSubscriptionManager":         "constructor",
			"(*blockntfns.SubscriptionManager).Stop":    "after joining the handler (C11.R1)",
			"(*neutrino.ChainService).Stop":             "calls SubscriptionManager.Stop",
			"neutrino.NewChainService":                  "constructs the manager",
		}, 4)
	})
}
