package rules

import (
	"fmt"
	"go/token"
	"go/types"
	"sort"
	"strings"

	"golang.org/x/tools/go/ssa"

	"verif/checker/internal/ir"
)

func init() {
	register(&Prop{ID: "C18", Run: runC18, NotDecided: []string{
		"a sound whole-program race analysis is out of reach (no pointer analysis in the installed x/tools): races on data not in the table are not decided",
		"anything the dynamic race detector would find on executions (this is the repo's own locking / ownership / atomic discipline, exhaustively over the tabled fields)",
	}})
}

func runC18(c *Ctx) {
	bm := func(f string) *types.Var { return c.field("neutrino", "blockManager", f) }
	csf := func(f string) *types.Var { return c.field("neutrino", "ChainService", f) }
	preStart := map[string]string{
		"neutrino.newBlockManager":                  "constructor: the block manager is not yet published",
		"(*neutrino.blockManager).ResetHeaderState": "pre-start: called from ChainService.Start before blockManager.Start",
	}

	c.rule("C18.L1", "guarded-by table of the root module: each tabled field is accessed only with its mutex held (exclusively for writes); constructors and tabled pre-start functions are exempt; lock-free reads are allowed only in the field's single writer goroutine", func() {
		c.guardedBy([]gField{
			{field: bm("headerTip"), mutex: bm("newHeadersMtx"), exempt: preStart},
			{field: bm("headerTipHash"), mutex: bm("newHeadersMtx"), exempt: preStart},
			{field: bm("filterHeaderTip"), mutex: bm("newFilterHeadersMtx"), exempt: preStart},
			{field: bm("filterHeaderTipHash"), mutex: bm("newFilterHeadersMtx"), exempt: preStart},
			{field: bm("syncPeer"), mutex: bm("syncPeerMutex"), exempt: preStart,
				readersNoLock: map[string]string{"(*neutrino.blockManager).startSync": "runs in blockHandler, the only writer of syncPeer"}},
			{field: c.field("neutrino", "ServerPeer", "recvSubscribers"), mutex: c.field("neutrino", "ServerPeer", "mtxSubscribers"),
				exempt: map[string]string{"neutrino.NewServerPeer": "constructor"}},
			{field: c.field("neutrino", "ServerPeer", "recvSubscribers2"), mutex: c.field("neutrino", "ServerPeer", "mtxSubscribers"),
				exempt: map[string]string{"neutrino.NewServerPeer": "constructor",
					"(*neutrino.ServerPeer).OnRead": "deletes cancelled subscribers under the read lock: OnRead is the only read-lock holder and btcd's reader goroutine serialises it per peer (supporting obligation below)"}},
			{field: c.field("neutrino", "UtxoScanner", "pq"), mutex: c.field("neutrino", "UtxoScanner", "mu"), exempt: map[string]string{"neutrino.NewUtxoScanner": "constructor"}},
			{field: c.field("neutrino", "UtxoScanner", "nextBatch"), mutex: c.field("neutrino", "UtxoScanner", "mu"), exempt: map[string]string{"neutrino.NewUtxoScanner": "constructor"}},
			{field: c.field("neutrino", "GetUtxoRequest", "result"), mutex: c.field("neutrino", "GetUtxoRequest", "mu")},
			{field: c.field("neutrino", "Rescan", "err"), mutex: c.field("neutrino", "Rescan", "errMtx")},
		}, 40)
		// supporting obligation of the OnRead exemption: no other RLock of mtxSubscribers
		mtx := c.field("neutrino", "ServerPeer", "mtxSubscribers")
		rl := c.method("sync", "RWMutex", "RLock")
		c.whoMay("ServerPeer.mtxSubscribers.RLock", withArg(callTo(rl), 0, fieldAddrOf(mtx)), []string{"(*neutrino.ServerPeer).OnRead"}, 1)
		// lock pairing over the whole root module
		c.rootPairing()
	})

	c.rule("C18.A1", "atomic-only fields: every access goes through sync/atomic", func() {
		c.atomicOnly([]*types.Var{
			bm("started"), bm("shutdown"),
			csf("started"), csf("shutdown"), csf("bytesReceived"), csf("bytesSent"),
			c.field("neutrino", "ServerPeer", "feeFilter"),
			c.field("neutrino", "Rescan", "started"),
			c.field("neutrino", "UtxoScanner", "started"), c.field("neutrino", "UtxoScanner", "stopped"),
			c.field("blockntfns", "SubscriptionManager", "subscriberCounter"),
			c.field("blockntfns", "SubscriptionManager", "started"),
			c.field("blockntfns", "SubscriptionManager", "stopped"),
		}, nil, 20)
	})

	c.rule("C18.R10", "the peer ranking is the dispatcher's own: the stock peerRanking is a plain map without a lock, and every method of it is called from the workDispatcher goroutine only (the worker goroutines report through the results channel); a reset of a disconnected peer's rank made from the goroutine that ran the worker writes that map while the dispatcher sorts by it", func() {
		c.ownedBy(c.field("query", "peerRanking", "rank"), "(*query.peerWorkManager).workDispatcher", map[string]string{
			"query.NewPeerRanking":     "constructor",
			"neutrino.NewChainService": "makes the ranking before the work manager is started",
		}, 8)
	})
	c.rule("C18.R9", waitGroupGrowthDoc, func() { c.waitGroupGrowth(4) })
	c.rule("C18.R8", selfConcurrentDoc, func() { c.selfConcurrent(1) })

	c.rule("C18.R1", "goroutine ownership: the block manager's header-sync state is touched only from the blockHandler goroutine (and pre-start functions); the peer state and subscriber lists only from peerHandler; the subscription registry only from subscriptionHandler", func() {
		const bh = "(*neutrino.blockManager).blockHandler"
		allowedBM := map[string]string{
			"neutrino.NewChainService":                  "constructs the block manager before anything runs",
			"(*neutrino.ChainService).Start":            "calls ResetHeaderState before blockManager.Start",
			"neutrino.newBlockManager":                  "constructor",
			"(*neutrino.blockManager).ResetHeaderState": "pre-start (exported for the import path)",
		}
		for _, f := range []string{"headerList", "reorgList", "nextCheckpoint", "startHeader"} {
			c.ownedBy(bm(f), bh, allowedBM, 1)
		}
		const ph = "(*neutrino.ChainService).peerHandler"
		allowedCS := map[string]string{"neutrino.NewChainService": "constructor"}
		c.ownedBy(csf("peerSubscribers"), ph, allowedCS, 2)
		c.ownedBy(csf("firstPeerConnect"), ph, allowedCS, 2)
		for _, f := range []string{"persistentPeers", "outboundPeers", "outboundGroups"} {
			c.ownedBy(c.field("neutrino", "peerState", f), ph, allowedCS, 2)
		}
		c.ownedBy(c.field("blockntfns", "SubscriptionManager", "subscribers"), "(*blockntfns.SubscriptionManager).subscriptionHandler", map[string]string{
			"blockntfns.NewSubscriptionManager":      "constructor",
			"(*blockntfns.SubscriptionManager).Stop": "after joining the handler (C11.R1)",
			"(*neutrino.ChainService).Stop":          "calls SubscriptionManager.Stop",
			"neutrino.NewChainService":               "constructs the manager",
		}, 4)
	})

	c.rule("C18.R6", "results written by a response handler are read only after a nil verdict: in GetCFilter and GetBlock every read of the state the handler writes on a worker goroutine (the query object's targetFilter / headerIndex; the captured result variable of GetBlock), made after the request was handed to the work manager, lies behind `verdict == nil` of the receive from the channel Query returned (a nil verdict is sent after the worker's last result; an error verdict, e.g. at shutdown, is not ordered after the worker's writes)", func() {
		for _, name := range []string{"(*neutrino.ChainService).GetCFilter", "(*neutrino.ChainService).GetBlock"} {
			fn := c.fn(name)
			isQuery := func(in ssa.Instruction) bool {
				cc := ir.CallOf(in)
				return cc != nil && cc.IsInvoke() && cc.Method.Name() == "Query" && cc.Method.Pkg() != nil && cc.Method.Pkg().Path() == ir.ModPath+"/query"
			}
			qs := find(fn, isQuery)
			construct := c.nm(fn) + " | shared result state is read behind a nil verdict"
			if len(qs) != 1 {
				c.fail(construct, c.P.Pos(fn.Pos()), fmt.Sprintf("%d calls of the work manager's Query, 1 tabled", len(qs)))
				continue
			}
			q := qs[0]
			// the select that receives the verdict
			var sel *ssa.Select
			idx := -1
			ir.Instrs(fn, func(in ssa.Instruction) {
				s, ok := in.(*ssa.Select)
				if !ok {
					return
				}
				k := 2
				for _, st := range s.States {
					if st.Dir != types.RecvOnly {
						continue
					}
					if ir.DerivesFrom(st.Chan, func(x ssa.Value) bool { return x == q.(ssa.Value) }) {
						sel, idx = s, k
					}
					k++
				}
			})
			var g guard
			if sel != nil {
				g = errNil("verdict received from Query's channel", []ssa.Instruction{sel}, idx)
			} else {
				// plain receive
				var recvs []ssa.Instruction
				ir.Instrs(fn, func(in ssa.Instruction) {
					u, ok := in.(*ssa.UnOp)
					if ok && u.Op == token.ARROW && ir.DerivesFrom(u.X, func(x ssa.Value) bool { return x == q.(ssa.Value) }) {
						recvs = append(recvs, in)
					}
				})
				g = errNil("verdict received from Query's channel", recvs, 0)
			}
			// shared cells
			sharedField := map[*types.Var]bool{}
			if strings.HasSuffix(name, "GetCFilter") {
				hr := c.fn(fnCFResp)
				ir.Instrs(hr, func(in ssa.Instruction) {
					switch x := in.(type) {
					case *ssa.Store:
						if fa, ok := x.Addr.(*ssa.FieldAddr); ok && fa.X == ssa.Value(hr.Params[0]) {
							sharedField[ir.FieldOfAddr(fa)] = true
						}
					case *ssa.Call:
						if isBuiltin("delete")(x) {
							ir.DerivesFrom(x.Call.Args[0], func(v ssa.Value) bool {
								if fa, ok := v.(*ssa.FieldAddr); ok && fa.X == ssa.Value(hr.Params[0]) {
									sharedField[ir.FieldOfAddr(fa)] = true
								}
								return false
							})
						}
					case *ssa.MapUpdate:
						ir.DerivesFrom(x.Map, func(v ssa.Value) bool {
							if fa, ok := v.(*ssa.FieldAddr); ok && fa.X == ssa.Value(hr.Params[0]) {
								sharedField[ir.FieldOfAddr(fa)] = true
							}
							return false
						})
					}
				})
			}
			sharedCell := map[*ssa.Alloc]bool{}
			for _, cl := range fn.AnonFuncs {
				for i, fv := range cl.FreeVars {
					written := false
					ir.Instrs(cl, func(in ssa.Instruction) {
						if st, ok := in.(*ssa.Store); ok && st.Addr == ssa.Value(fv) {
							written = true
						}
					})
					if !written {
						continue
					}
					ir.Instrs(fn, func(in ssa.Instruction) {
						if mc, ok := in.(*ssa.MakeClosure); ok && mc.Fn == ssa.Value(cl) && i < len(mc.Bindings) {
							if al, ok := mc.Bindings[i].(*ssa.Alloc); ok {
								sharedCell[al] = true
							}
						}
					})
				}
			}
			after := map[ssa.Instruction]bool{}
			ir.WalkCtx(q.Block(), ir.IndexIn(q)+1, nil, nil, func(in ssa.Instruction) bool { after[in] = true; return true })
			var reads []ssa.Instruction
			ir.Instrs(fn, func(in ssa.Instruction) {
				u, ok := in.(*ssa.UnOp)
				if !ok || u.Op != token.MUL || !after[in] {
					return
				}
				switch a := u.X.(type) {
				case *ssa.FieldAddr:
					if sharedField[ir.FieldOfAddr(a)] {
						reads = append(reads, in)
					}
				case *ssa.Alloc:
					if sharedCell[a] {
						reads = append(reads, in)
					}
				}
			})
			if len(reads) == 0 {
				c.fail(construct, c.P.Pos(fn.Pos()), "no read of the handler-written result state found after the Query call (the pinned tree reads targetFilter / foundBlock there)")
				continue
			}
			c.guarded(fn, g, 1, "read of state the response handler writes", reads, 1, gDominate)
		}
	})

	c.rule("C18.R5", "the subscription registry is not shared between goroutines: "+registryOwnerDoc, func() { c.registryOwner() })

	c.rule("C18.R2", "goroutine-local bookkeeping stays local: closures that run on another goroutine (go statements, time.AfterFunc callbacks) created inside the single-owner loops workDispatcher and broadcastHandler capture only channels, scalars copied by value and the owning manager, never the loop's maps, work queue or per-batch records (which the loop mutates without synchronisation)", func() {
		afterFunc := c.funcObj("time", "AfterFunc")
		for _, name := range []string{fnDispatch, fnBHandler} {
			top := c.fn(name)
			n := 0
			var bad, sites []string
			for _, f := range ir.WithClosures(top) {
				ir.Instrs(f, func(in ssa.Instruction) {
					var cl *ssa.MakeClosure
					switch x := in.(type) {
					case *ssa.Go:
						cl, _ = x.Call.Value.(*ssa.MakeClosure)
					case *ssa.Call:
						if callTo(afterFunc)(x) {
							cl, _ = x.Call.Args[1].(*ssa.MakeClosure)
						}
					}
					if cl == nil {
						return
					}
					n++
					sites = append(sites, c.at(in))
					target := cl.Fn.(*ssa.Function)
					for i, b := range cl.Bindings {
						if c.ownedBinding(b, f, top) && !freshPerUse(in, b) {
							bad = append(bad, "closure at "+c.at(in)+" captures "+target.FreeVars[i].Name()+" ("+types.TypeString(b.Type(), func(p *types.Package) string { return p.Name() })+")")
						}
					}
				})
			}
			sort.Strings(bad)
			c.verdict(len(bad) == 0 && n >= 1, name+" | foreign-goroutine closures capture no loop-owned state", c.P.Pos(top.Pos()), "captures are channels, scalars, the manager", join(bad)+": that state is mutated by the owning loop without synchronisation, so the other goroutine races with it", sites...)
		}
	})
	c.rule("C18.R3", "no unsynchronised container shared with a spawned goroutine: wherever a module function starts a goroutine from a function literal that captures one of its local map or slice variables and uses it, the spawning function does not write that container (map assignment, delete, element store, re-assignment) at any point reachable after the go statement (later loop iterations included) unless both sides hold a common mutex", func() {
		n := 0
		var bad, sites []string
		for _, f := range c.P.Funcs {
			f := f
			ir.Instrs(f, func(in ssa.Instruction) {
				g, ok := in.(*ssa.Go)
				if !ok {
					return
				}
				cl, ok := g.Call.Value.(*ssa.MakeClosure)
				if !ok {
					return
				}
				target := cl.Fn.(*ssa.Function)
				for i, b := range cl.Bindings {
					pt, ok := b.Type().Underlying().(*types.Pointer)
					if !ok {
						continue
					}
					switch pt.Elem().Underlying().(type) {
					case *types.Map, *types.Slice:
					default:
						continue
					}
					if _, isAlloc := b.(*ssa.Alloc); !isAlloc {
						if _, isFV := b.(*ssa.FreeVar); !isFV {
							continue
						}
					}
					// used by the goroutine (or a closure nested in it)?
					used := cellUsedIn(target, target.FreeVars[i])
					if len(used) == 0 {
						continue
					}
					n++
					sites = append(sites, c.at(in)+" captures "+target.FreeVars[i].Name())
					// writes by the spawner reachable after the go statement
					ir.WalkAfter(in, nil, func(x ssa.Instruction) bool {
						// the variable is re-made: a later iteration's container
						// is not the one the goroutine got
						if al, isAl := b.(*ssa.Alloc); isAl && x == ssa.Instruction(al) {
							return false
						}
						if w := containerWrite(x, b); w != "" {
							if len(c.commonLock(f, x, target, used[0])) == 0 {
								bad = append(bad, fmt.Sprintf("%s: goroutine started at %s uses %s (%s) while the spawning function %s it at %s", c.nm(f), c.at(in), target.FreeVars[i].Name(), c.at(used[0]), w, c.at(x)))
							}
						}
						return true
					})
				}
			})
		}
		sort.Strings(bad)
		bad = uniq(bad)
		c.verdict(len(bad) == 0, "module | local containers shared with spawned goroutines are not written afterwards", "-", fmt.Sprintf("%d goroutine closure(s) use a captured local map/slice; none is written by its spawner after the go statement", n), join(bad), sites...)
	})
	c.rule("C18.R7", "a pooled buffer has one user at a time: the write buffers come from a sync.Pool shared by both header stores, whose mutexes do not exclude each other; from Get to Put the buffer belongs to the function that took it, so in a function that puts a pooled buffer back nothing derived from it (the buffer itself, the slice Bytes() returns) is returned to the caller, and nothing uses it after a Put that is not deferred - the other store's writer may already be filling the same memory", func() {
		get := c.method("sync", "Pool", "Get")
		put := c.method("sync", "Pool", "Put")
		n := 0
		var bad []string
		var sites []ssa.Instruction
		for _, fn := range c.P.Funcs {
			gets := find(fn, callTo(get))
			if len(gets) == 0 {
				continue
			}
			isGet := func(x ssa.Value) bool {
				in, ok := x.(ssa.Instruction)
				return ok && callTo(get)(in)
			}
			fromPool := func(v ssa.Value) bool { return ir.InfluencedBy(v, isGet) }
			var puts []ssa.Instruction
			for _, in := range find(fn, callTo(put)) {
				cc := ir.CallOf(in)
				if len(cc.Args) >= 2 && fromPool(cc.Args[1]) {
					puts = append(puts, in)
				}
			}
			// ... or put back by a closure made here ("release" functions):
			// a call of that closure is the Put
			ir.Instrs(fn, func(in ssa.Instruction) {
				mc, ok := in.(*ssa.MakeClosure)
				if !ok {
					return
				}
				anon, _ := mc.Fn.(*ssa.Function)
				if anon == nil {
					return
				}
				gives := false
				for _, pin := range find(anon, callTo(put)) {
					cc := ir.CallOf(pin)
					if len(cc.Args) < 2 {
						continue
					}
					ir.InfluencedBy(cc.Args[1], func(x ssa.Value) bool {
						fv, isFV := x.(*ssa.FreeVar)
						if !isFV {
							return false
						}
						for i, f := range anon.FreeVars {
							if f != fv || i >= len(mc.Bindings) {
								continue
							}
							b := mc.Bindings[i]
							if fromPool(b) {
								gives = true
							}
							if al, isAl := b.(*ssa.Alloc); isAl {
								for _, r := range ir.Refs(al) {
									if st, isSt := r.(*ssa.Store); isSt && st.Addr == ssa.Value(al) && fromPool(st.Val) {
										gives = true
									}
								}
							}
						}
						return false
					})
				}
				if !gives {
					return
				}
				ir.Instrs(fn, func(x ssa.Instruction) {
					cc := ir.CallOf(x)
					if cc == nil || cc.IsInvoke() {
						return
					}
					if ir.DerivesFrom(cc.Value, func(v ssa.Value) bool { return v == ssa.Value(mc) }) {
						puts = append(puts, x)
					}
				})
			})
			if len(puts) == 0 {
				continue
			}
			n++
			sites = append(sites, gets...)
			for _, r := range find(fn, isExit) {
				ret, ok := r.(*ssa.Return)
				if !ok {
					continue
				}
				for i := range ret.Results {
					v := ir.RetVal(ret, i)
					if _, isErr := v.Type().Underlying().(*types.Interface); isErr {
						continue
					}
					if fromPool(v) {
						bad = append(bad, c.nm(fn)+" returns memory of the pooled buffer at "+c.at(r)+" although it puts the buffer back")
					}
				}
			}
			for _, p := range puts {
				if _, isDefer := p.(*ssa.Defer); isDefer {
					continue
				}
				ir.WalkAfter(p, ir.BackEdges(fn), func(in ssa.Instruction) bool {
					var ops []*ssa.Value
					for _, op := range in.Operands(ops) {
						if *op == nil {
							continue
						}
						if _, isCallInstr := (*op).(*ssa.Call); isCallInstr && isGet(*op) {
							continue
						}
						if cc := ir.CallOf(in); cc != nil && callTo(get, put)(in) {
							continue
						}
						// an error (the verdict of a write into the buffer) is
						// not the buffer's memory: as for the results above
						if types.Identical((*op).Type(), types.Universe.Lookup("error").Type()) {
							continue
						}
						if fromPool(*op) {
							bad = append(bad, c.nm(fn)+" uses the pooled buffer at "+c.at(in)+" after putting it back at "+c.at(p))
						}
					}
					return true
				})
			}
		}
		sort.Strings(bad)
		c.verdict(n >= 2 && len(bad) == 0, "module | pooled buffers are not used after, or handed out beyond, their Put", "", fmt.Sprintf("%d function(s) take and put back a pooled buffer; none returns its memory or uses it after the Put", n), join(uniq(bad))+fmt.Sprintf(" (%d functions)", n), c.ats(sites)...)
	})

	c.rule("C18.R4", "concurrent readers do not share scratch memory: the header stores' read paths run under the shared (read) lock, so several may execute at once; every buffer they let the file fill (File.ReadAt / io.ReaderAt destinations in package headerfs) is a slice made in the reading function itself, never memory reachable from the store (a per-store scratch buffer would be written by all concurrent readers)", func() {
		var bad, sites []string
		n := 0
		for _, f := range c.P.Funcs {
			if pkgOf(f) == nil || !strings.HasSuffix(pkgOf(f).Path(), "/headerfs") {
				continue
			}
			ir.Instrs(f, func(in ssa.Instruction) {
				cc := ir.CallOf(in)
				if cc == nil {
					return
				}
				cal := ir.Resolve(cc)
				if cal.Func == nil || cal.Func.Name() != "ReadAt" {
					return
				}
				a := argsOf(in)
				if len(a) != 2 {
					return
				}
				n++
				sites = append(sites, c.nm(f)+"@"+c.at(in))
				local := ir.DerivesFrom(a[0], func(v ssa.Value) bool {
					ms, ok := v.(*ssa.MakeSlice)
					return ok && ms.Parent() == f
				})
				shared := ir.DerivesFrom(a[0], func(v ssa.Value) bool {
					_, isFA := v.(*ssa.FieldAddr)
					_, isG := v.(*ssa.Global)
					_, isP := v.(*ssa.Parameter)
					_, isFV := v.(*ssa.FreeVar)
					return isFA || isG || isP || isFV
				})
				if !local || shared {
					bad = append(bad, c.nm(f)+" at "+c.at(in)+" reads into memory that is not local to the call")
				}
			})
		}
		sort.Strings(bad)
		c.verdict(len(bad) == 0 && n >= 2, "package headerfs | file reads fill buffers local to the reading call", "-", fmt.Sprintf("%d ReadAt site(s), all into make([]byte, ..) of the same function", n), join(bad)+fmt.Sprintf(" (%d ReadAt sites)", n), sites...)
	})
}

// ownedBinding: the captured value is bookkeeping of the owning loop: a
// per-batch record (a struct type declared inside the owner function, by value
// or pointer), or a variable cell of the owner function itself holding a map, a
// slice or the work queue (a fresh copy made by the spawning closure is not).
func (c *Ctx) ownedBinding(b ssa.Value, in *ssa.Function, top *ssa.Function) bool {
	t := b.Type()
	for {
		p, ok := t.Underlying().(*types.Pointer)
		if !ok {
			break
		}
		t = p.Elem()
	}
	if n, ok := t.(*types.Named); ok {
		if n.Obj().Pkg() != nil && n.Obj().Parent() != nil && n.Obj().Parent() != n.Obj().Pkg().Scope() {
			return true
		}
	}
	// resolve the cell through free variables to where it was allocated
	cell := b
	fn := in
	for depth := 0; depth < 4; depth++ {
		fv, ok := cell.(*ssa.FreeVar)
		if !ok {
			break
		}
		parent := fn.Parent()
		if parent == nil {
			break
		}
		var next ssa.Value
		ir.Instrs(parent, func(x ssa.Instruction) {
			mc, ok := x.(*ssa.MakeClosure)
			if !ok || mc.Fn != ssa.Value(fn) {
				return
			}
			for i, bb := range mc.Bindings {
				if fn.FreeVars[i] == fv {
					next = bb
				}
			}
		})
		if next == nil {
			break
		}
		cell, fn = next, parent
	}
	al, ok := cell.(*ssa.Alloc)
	if !ok || al.Parent() != top {
		return false
	}
	switch e := al.Type().Underlying().(*types.Pointer).Elem().Underlying().(type) {
	case *types.Map, *types.Slice:
		return true
	case *types.Pointer:
		if n, ok := e.Elem().(*types.Named); ok && c.on(n.Obj()) == "workQueue" {
			return true
		}
	}
	return false
}

// cellUsedIn: instructions in fn (or closures nested in it) that load the
// captured cell fv.
func cellUsedIn(fn *ssa.Function, fv *ssa.FreeVar) []ssa.Instruction {
	var out []ssa.Instruction
	for _, r := range ir.Refs(fv) {
		switch x := r.(type) {
		case *ssa.UnOp:
			out = append(out, x)
		case *ssa.Store:
			out = append(out, x)
		case *ssa.MakeClosure:
			inner := x.Fn.(*ssa.Function)
			for i, b := range x.Bindings {
				if b == ssa.Value(fv) {
					out = append(out, cellUsedIn(inner, inner.FreeVars[i])...)
				}
			}
		}
	}
	return out
}

// containerWrite: x mutates the map/slice held in cell (returns a verb).
func containerWrite(x ssa.Instruction, cell ssa.Value) string {
	loadsCell := func(v ssa.Value) bool {
		u, ok := v.(*ssa.UnOp)
		return ok && u.Op == token.MUL && u.X == cell
	}
	switch y := x.(type) {
	case *ssa.MapUpdate:
		if loadsCell(y.Map) {
			return "assigns into"
		}
	case *ssa.Call:
		if b, ok := y.Call.Value.(*ssa.Builtin); ok && (b.Name() == "delete" || b.Name() == "clear") && loadsCell(y.Call.Args[0]) {
			return "deletes from"
		}
	case *ssa.Store:
		if y.Addr == cell {
			return "re-assigns"
		}
		if ia, ok := y.Addr.(*ssa.IndexAddr); ok && loadsCell(ia.X) {
			return "stores an element of"
		}
	}
	return ""
}

// commonLock: mutexes held both at instruction a in fa and at b in fb.
func (c *Ctx) commonLock(fa *ssa.Function, a ssa.Instruction, fb *ssa.Function, b ssa.Instruction) []string {
	ha := c.locksetOf(fa, nil).mustHold[a]
	hb := c.locksetOf(fb, nil).mustHold[b]
	var out []string
	for k := range ha {
		if _, ok := hb[k]; ok {
			out = append(out, k.String())
		}
	}
	return out
}

func uniq(ss []string) []string {
	var out []string
	for i, x := range ss {
		if i == 0 || x != ss[i-1] {
			out = append(out, x)
		}
	}
	return out
}

const rootPairingDoc = "lock pairing over the whole root module: every function reaches each of its exits with the lockset it was entered with (no mutex is still held when a goroutine's function returns), no double acquire, no release of an unheld lock"

// rootPairing: see rootPairingDoc (part of C18.L1, and C17.P1).
func (c *Ctx) rootPairing() {
	entry := map[string]map[lockKey]string{}
	c.lockResults()
	for fn, e := range c.lentry {
		entry[c.nm(fn)] = e
	}
	c.pairing(c.P.Funcs, entry, 40)
}

// freshPerUse: the captured variable is a map/slice variable of the spawning
// function that is made anew each time control reaches its declaration (an
// Alloc), and no write to it is reachable from the closure's creation without
// passing that declaration again: each closure gets a container of its own
// that the spawner is done with (a per-iteration copy handed to a goroutine).
func freshPerUse(at ssa.Instruction, b ssa.Value) bool {
	al, ok := b.(*ssa.Alloc)
	if !ok || al.Parent() != at.Parent() {
		return false
	}
	switch al.Type().Underlying().(*types.Pointer).Elem().Underlying().(type) {
	case *types.Map, *types.Slice:
	default:
		return false
	}
	written := false
	ir.WalkAfter(at, nil, func(x ssa.Instruction) bool {
		if x == ssa.Instruction(al) {
			return false
		}
		if containerWrite(x, b) != "" {
			written = true
		}
		return true
	})
	// and the declaration does lie on the way back to the creation point
	return !written && ir.LoopHeaderOf(al.Block()) != nil
}
