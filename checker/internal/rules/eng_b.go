package rules

import (
	"fmt"
	"go/token"
	"go/types"
	"sort"
	"strings"

	"golang.org/x/tools/go/ssa"

	"verif/checker/internal/ir"
)

// ---- engine B: blocking discipline ----

// chanKey gives a symbolic identity to a channel value: the struct field it is
// loaded from, the parameter / local / captured variable holding it, or the
// function producing it.
func (c *Ctx) chanKey(v ssa.Value) string {
	v = ir.Strip(v)
	switch x := v.(type) {
	case *ssa.UnOp:
		if x.Op == token.MUL {
			switch a := x.X.(type) {
			case *ssa.FieldAddr:
				f := ir.FieldOfAddr(a)
				// a field that only this function ever stores, once, where
				// it builds the struct (the struct itself may travel on):
				// the channel made for it
				if mk := c.builtHereOnce(a, f); mk != nil {
					return "local:" + c.typeStr(mk.Type())
				}
				return c.fieldKey(a.X.Type(), f)
			case *ssa.FreeVar:
				return c.cellKey(a)
			case *ssa.Alloc:
				return c.cellKey(a)
			case *ssa.Global:
				return "global:" + a.Name()
			}
		}
	case *ssa.Field:
		return c.fieldKey(x.X.Type(), ir.FieldOfValue(x))
	case *ssa.Parameter:
		return "param:" + x.Name()
	case *ssa.FreeVar:
		return c.cellKey(x)
	case *ssa.MakeChan:
		return "local:" + c.typeStr(x.Type())
	case *ssa.Call:
		cal := ir.Resolve(&x.Call)
		if cal.Func != nil {
			// module method returning a channel held in a field: look through
			if cal.Fn != nil && len(cal.Fn.Blocks) == 1 {
				for _, in := range cal.Fn.Blocks[0].Instrs {
					if r, ok := in.(*ssa.Return); ok && len(r.Results) == 1 {
						if k := c.chanKey(r.Results[0]); !strings.HasPrefix(k, "?") {
							return k
						}
					}
				}
			}
			recv := ""
			if sig, ok := cal.Func.Type().(*types.Signature); ok && sig.Recv() != nil {
				recv = c.typeStr(sig.Recv().Type()) + "."
			} else if cal.Func.Pkg() != nil {
				recv = cal.Func.Pkg().Name() + "."
			}
			return "call:" + recv + c.on(cal.Func)
		}
		if cal.Field != nil {
			return "callfield:" + c.on(cal.Field)
		}
	case *ssa.Phi:
		return "phi:" + x.Comment
	case *ssa.Extract:
		return "extract:" + c.chanKey(x.Tuple)
	case *ssa.Lookup:
		return "elem:" + c.chanKey(x.X)
	}
	return "?" + fmt.Sprintf("%T", v)
}

func (c *Ctx) fieldKey(t types.Type, f *types.Var) string {
	if p, ok := t.Underlying().(*types.Pointer); ok {
		t = p.Elem()
	}
	name := "?"
	if n, ok := t.(*types.Named); ok {
		name = c.on(n.Obj())
	}
	if f == nil {
		return "field:" + name + ".?"
	}
	return "field:" + name + "." + c.on(f)
}

// blockingSite is one potentially blocking channel operation.
type blockingSite struct {
	fn   *ssa.Function
	in   ssa.Instruction
	kind string // "select" | "send" | "recv" | "range"
	key  string // channel key for send/recv
}

// sentKeys: channel keys on which the program performs a send anywhere.
func (c *Ctx) sentKeys() map[string]bool {
	out := map[string]bool{}
	for _, fn := range c.P.Funcs {
		ir.Instrs(fn, func(in ssa.Instruction) {
			switch x := in.(type) {
			case *ssa.Send:
				out[c.chanKey(x.Chan)] = true
			case *ssa.Select:
				for _, st := range x.States {
					if st.Dir == types.SendOnly {
						out[c.chanKey(st.Chan)] = true
					}
				}
			}
		})
	}
	return out
}

func isStructChan(t types.Type) bool {
	ch, ok := t.Underlying().(*types.Chan)
	if !ok {
		return false
	}
	st, ok := ch.Elem().Underlying().(*types.Struct)
	return ok && st.NumFields() == 0
}

func isTimeChan(t types.Type) bool {
	ch, ok := t.Underlying().(*types.Chan)
	if !ok {
		return false
	}
	n, ok := ch.Elem().(*types.Named)
	return ok && n.Obj().Pkg() != nil && n.Obj().Pkg().Path() == "time" && n.Obj().Name() == "Time"
}

// escapeArm: a receive arm that is guaranteed to become ready at shutdown or
// after a bounded time: a close-only signal channel (chan struct{} on whose
// key the program never sends), context.Done(), or a timer channel.
func (c *Ctx) escapeArm(st *ssa.SelectState, sent map[string]bool) (bool, string) {
	if st.Dir != types.RecvOnly {
		return false, ""
	}
	k := c.chanKey(st.Chan)
	if isTimeChan(st.Chan.Type()) {
		return true, "timer:" + k
	}
	if isStructChan(st.Chan.Type()) && !sent[k] {
		return true, "signal:" + k
	}
	return false, ""
}

// blockingSites enumerates blocking selects, bare sends and bare receives of
// the current program.
func (c *Ctx) blockingSites() []blockingSite {
	var out []blockingSite
	for _, fn := range c.P.Funcs {
		ir.Instrs(fn, func(in ssa.Instruction) {
			switch x := in.(type) {
			case *ssa.Select:
				if x.Blocking {
					out = append(out, blockingSite{fn, in, "select", ""})
				}
			case *ssa.Send:
				if ir.InGuardClause(in) && ir.KnownNonNil(x.X) {
					// the "no" of a guard clause on an input that must be
					// present: on the same channel, instead of the answer
					return
				}
				out = append(out, blockingSite{fn, in, "send", c.chanKey(x.Chan)})
			case *ssa.UnOp:
				if x.Op == token.ARROW {
					out = append(out, blockingSite{fn, in, "recv", c.chanKey(x.X)})
				}
			}
		})
	}
	return out
}

// bareOp is a row of the table of tabled bare sends / receives.
type bareOp struct {
	fn    string // outermost function
	kind  string // send | recv
	key   string // channel key
	n     int    // number of sites with this (fn, kind, key)
	class string
	why   string
}

// blockingDiscipline evaluates rule B: every blocking select has an escape
// arm; every bare send / receive is a tabled site.
func (c *Ctx) blockingDiscipline(table []bareOp, minSelects int) {
	sent := c.sentKeys()
	sites := c.blockingSites()
	nSel := 0
	var badSel []string
	selByFn := map[string][]string{}
	for _, s := range sites {
		if s.kind != "select" {
			continue
		}
		nSel++
		sel := s.in.(*ssa.Select)
		okv := false
		var arms []string
		for _, st := range sel.States {
			if e, why := c.escapeArm(st, sent); e {
				okv = true
				arms = append(arms, why)
			}
		}
		name := c.nm(s.fn)
		if !okv {
			var ks []string
			for _, st := range sel.States {
				d := "<-"
				if st.Dir == types.SendOnly {
					d = "->"
				}
				ks = append(ks, d+c.chanKey(st.Chan))
			}
			badSel = append(badSel, fmt.Sprintf("%s at %s has no escape arm (arms: %s)", name, c.at(s.in), join(ks)))
			c.fail("select without escape | "+name+" | "+join(ks), c.at(s.in), "blocking select without a quit / timer / context arm: it can block forever at shutdown", c.at(s.in))
			continue
		}
		selByFn[c.nm(outermost(s.fn))] = append(selByFn[c.nm(outermost(s.fn))], c.at(s.in)+"{"+join(arms)+"}")
	}
	var fns []string
	for f := range selByFn {
		fns = append(fns, f)
	}
	sort.Strings(fns)
	for _, f := range fns {
		sort.Strings(selByFn[f])
		c.pass("blocking selects have an escape arm | "+f, "", fmt.Sprintf("%d select(s)", len(selByFn[f])), selByFn[f]...)
	}
	if nSel < minSelects {
		c.undecided("blocking selects | floor", "", fmt.Sprintf("found %d blocking selects, the rule table requires at least %d", nSel, minSelects))
	}
	// bare operations
	type k3 struct{ fn, kind, key string }
	found := map[k3][]string{}
	foundFn := map[k3][]string{} // the function (literal) each site sits in
	tabledKeys := map[k3]bool{}
	for _, t := range table {
		tabledKeys[k3{t.fn, t.kind, t.key}] = true
	}
	for _, s := range sites {
		if s.kind == "select" {
			continue
		}
		k := k3{c.nm(outermost(s.fn)), s.kind, s.key}
		// a send outside the table that provably cannot block
		if !tabledKeys[k] && s.kind == "send" {
			if class, why, ok := c.autoBareSend(s); ok {
				c.pass(fmt.Sprintf("bare %s on %s | %s", k.kind, k.key, k.fn), c.at(s.in), fmt.Sprintf("not tabled; derived class %s: %s", class, why), c.at(s.in))
				continue
			}
		}
		found[k] = append(found[k], c.at(s.in))
		foundFn[k] = append(foundFn[k], c.nm(s.fn))
	}
	tabled := map[k3]bareOp{}
	for _, t := range table {
		tabled[k3{t.fn, t.kind, t.key}] = t
	}
	var keys []k3
	for k := range found {
		keys = append(keys, k)
	}
	sort.Slice(keys, func(i, j int) bool {
		return keys[i].fn+keys[i].kind+keys[i].key < keys[j].fn+keys[j].kind+keys[j].key
	})
	for _, k := range keys {
		at := found[k]
		sort.Strings(at)
		construct := fmt.Sprintf("bare %s on %s | %s", k.kind, k.key, k.fn)
		t, ok := tabled[k]
		if !ok {
			c.fail(construct, at[0], fmt.Sprintf("bare channel %s on %s in %s (at %s) is not a tabled site: an unconditional %s with no quit alternative can block forever (at shutdown nobody may be on the other side)", k.kind, k.key, k.fn, join(at), k.kind), at...)
			continue
		}
		if t.class == "semaphore" {
			// the token discipline is the supporting obligation (every
			// spawner / worker pair is examined there); here: the function
			// that makes the semaphore puts the first token in, and every
			// other function (a worker literal) gives a token back at one
			// place only. A spawner that is written out at each of its call
			// sites has one worker literal per site.
			per := map[string]int{}
			for _, f := range foundFn[k] {
				per[f]++
			}
			okSem := true
			for _, n := range per {
				if n > 1 {
					okSem = false
				}
			}
			if okSem && len(at) >= 2 {
				c.pass(construct, at[0], fmt.Sprintf("%d site(s) in %d function(s), at most one each, class %s: %s", len(at), len(per), t.class, t.why), at...)
				continue
			}
		}
		if t.class == "buffered-once" && countedElsewhere[t.fn+"|"+t.key] != "" && len(at) >= t.n {
			// how many sends there may be per request is counted path by
			// path by the supporting rule; a further site (a refusal sent
			// back instead of the answer) is that rule's business
			c.pass(construct, at[0], fmt.Sprintf("%d site(s), class %s: %s; at most one per request: %s", len(at), t.class, t.why, countedElsewhere[t.fn+"|"+t.key]), at...)
			continue
		}
		if len(at) > t.n {
			c.fail(construct, at[0], fmt.Sprintf("%d bare %s site(s) on %s in %s, the table knows %d (%s): a new unconditional %s was added", len(at), k.kind, k.key, k.fn, t.n, t.class, k.kind), at...)
			continue
		}
		c.pass(construct, at[0], fmt.Sprintf("%d site(s), class %s: %s", len(at), t.class, t.why), at...)
	}
}

// cellKey names a channel held in a local variable cell or captured variable
// independently of the variable's name: by the type of the channel made into
// it ("local:chan T") or, when it is fed from elsewhere, by its type alone.
func (c *Ctx) cellKey(v ssa.Value) string {
	short := func(t types.Type) string {
		if p, ok := t.Underlying().(*types.Pointer); ok {
			if _, isChan := p.Elem().Underlying().(*types.Chan); isChan {
				t = p.Elem()
			}
		}
		return c.typeStr(t)
	}
	var cell ssa.Value = v
	if fv, ok := v.(*ssa.FreeVar); ok {
		// binding at the closure creation
		fn := fv.Parent()
		if p := fn.Parent(); p != nil {
			ir.Instrs(p, func(in ssa.Instruction) {
				mc, ok := in.(*ssa.MakeClosure)
				if !ok || mc.Fn != ssa.Value(fn) {
					return
				}
				for i, b := range mc.Bindings {
					if fn.FreeVars[i] == fv {
						cell = b
					}
				}
			})
		}
		if inner, ok := cell.(*ssa.FreeVar); ok && inner != fv {
			return c.cellKey(inner)
		}
	}
	if al, ok := cell.(*ssa.Alloc); ok {
		for _, st := range ir.StoresTo(al) {
			if mk, ok := st.Val.(*ssa.MakeChan); ok {
				return "local:" + short(mk.Type())
			}
		}
	}
	if mk, ok := cell.(*ssa.MakeChan); ok {
		return "local:" + short(mk.Type())
	}
	return "var:" + short(v.Type())
}

// ---- derived classes for bare sends that are not tabled ----

// autoBareSend tries to prove that an untabled bare send cannot block, by one
// of two arguments the tabled rows already use, derived here from the code:
//
//   - fresh buffer: the channel is made in the same function with a constant
//     capacity >= 1, and no path reaches the send from another send on it,
//     from a point where the channel (or a struct it was put into) was handed
//     to other code, or from the send itself (a loop): the buffer is empty
//     and nobody else can have filled it;
//   - one reply per request: the channel is a field of a message the function
//     has just received; every value ever stored into that field is a channel
//     made with a constant capacity >= 1; this send is the only send on that
//     field in the module and it is made at most once per received message
//     (same loop nesting as the receive).
func (c *Ctx) autoBareSend(s blockingSite) (string, string, bool) {
	snd, ok := s.in.(*ssa.Send)
	if !ok {
		return "", "", false
	}
	fn := s.fn
	ch := ir.Strip(snd.Chan)
	if mk, ok := ch.(*ssa.MakeChan); ok {
		if k, isC := ir.ConstInt(mk.Size); !isC || k < 1 || mk.Parent() != fn {
			return "", "", false
		}
		// values the channel was put into (struct cells), transitively
		holders := map[ssa.Value]bool{mk: true}
		for changed := true; changed; {
			changed = false
			ir.Instrs(fn, func(in ssa.Instruction) {
				st, ok := in.(*ssa.Store)
				if !ok || !holders[ir.Strip(st.Val)] {
					return
				}
				base := st.Addr
				for {
					switch a := base.(type) {
					case *ssa.FieldAddr:
						base = a.X
						continue
					case *ssa.IndexAddr:
						base = a.X
						continue
					}
					break
				}
				if al, ok := base.(*ssa.Alloc); ok && !holders[al] {
					holders[al] = true
					changed = true
				}
			})
		}
		held := func(v ssa.Value) bool {
			return ir.DerivesFrom(v, func(x ssa.Value) bool { return holders[x] })
		}
		type danger struct {
			in   ssa.Instruction
			edge *ir.Edge // only behind this edge (select arm); nil: right after in
		}
		var dangers []danger
		bad := false
		ir.Instrs(fn, func(in ssa.Instruction) {
			switch x := in.(type) {
			case *ssa.Send:
				if ir.Strip(x.Chan) == ssa.Value(mk) || held(x.X) {
					dangers = append(dangers, danger{in, nil})
				}
			case *ssa.Select:
				for i, st := range x.States {
					if st.Dir != types.SendOnly {
						continue
					}
					if ir.Strip(st.Chan) != ssa.Value(mk) && !held(st.Send) {
						continue
					}
					found := false
					for _, r := range ir.Refs(x) {
						ex, isEx := r.(*ssa.Extract)
						if !isEx || ex.Index != 0 {
							continue
						}
						for _, ib := range ir.IntEqBranches(ex) {
							if ib.K == int64(i) {
								e := ib.Edge()
								dangers = append(dangers, danger{in, &e})
								found = true
							}
						}
					}
					if !found {
						bad = true // the arm cannot be told apart: assume the worst
					}
				}
			case *ssa.Store:
				// stored somewhere that is not a local cell
				if held(x.Val) {
					base := x.Addr
					for {
						switch a := base.(type) {
						case *ssa.FieldAddr:
							base = a.X
							continue
						case *ssa.IndexAddr:
							base = a.X
							continue
						}
						break
					}
					if al, ok := base.(*ssa.Alloc); !ok || !holders[al] {
						dangers = append(dangers, danger{in, nil})
					}
				}
			case *ssa.MakeClosure:
				for _, b := range x.Bindings {
					if held(b) {
						bad = true
					}
				}
			default:
				if cc := ir.CallOf(in); cc != nil {
					if b, isB := cc.Value.(*ssa.Builtin); isB && (b.Name() == "len" || b.Name() == "cap") {
						return
					}
					for _, a := range cc.Args {
						if held(a) {
							dangers = append(dangers, danger{in, nil})
						}
					}
				}
			}
		})
		if bad {
			return "", "", false
		}
		for _, d := range dangers {
			reached := false
			visit := func(in ssa.Instruction) bool {
				if in == s.in {
					reached = true
					return false
				}
				return true
			}
			if d.edge != nil {
				ir.WalkEdge(*d.edge, nil, visit)
			} else {
				ir.WalkAfter(d.in, nil, visit)
			}
			if reached {
				return "", "", false
			}
		}
		return "fresh-buffer", "made here with constant capacity >= 1; nothing else can have sent on it before this send", true
	}
	// one reply per request
	if !strings.HasPrefix(s.key, "field:") {
		return "", "", false
	}
	// (1) every channel stored into the field has constant capacity >= 1
	okCap, nMk := true, 0
	for _, f := range c.P.Funcs {
		ir.Instrs(f, func(in ssa.Instruction) {
			st, ok := in.(*ssa.Store)
			if !ok {
				return
			}
			fa, ok := st.Addr.(*ssa.FieldAddr)
			if !ok || c.fieldKey(fa.X.Type(), ir.FieldOfAddr(fa)) != s.key {
				return
			}
			mk, isMk := ir.Strip(st.Val).(*ssa.MakeChan)
			if !isMk {
				okCap = false
				return
			}
			nMk++
			if k, isC := ir.ConstInt(mk.Size); !isC || k < 1 {
				okCap = false
			}
		})
	}
	if !okCap || nMk == 0 {
		return "", "", false
	}
	// (2) the only send on that field in the module
	nSend := 0
	for _, f := range c.P.Funcs {
		ir.Instrs(f, func(in ssa.Instruction) {
			switch x := in.(type) {
			case *ssa.Send:
				if c.chanKey(x.Chan) == s.key {
					nSend++
				}
			case *ssa.Select:
				for _, st := range x.States {
					if st.Dir == types.SendOnly && c.chanKey(st.Chan) == s.key {
						nSend++
					}
				}
			}
		})
	}
	if nSend != 1 {
		return "", "", false
	}
	// (3) the message was received here, at the same loop nesting
	recvd := false
	ir.DerivesFrom(snd.Chan, func(x ssa.Value) bool {
		in, isIn := x.(ssa.Instruction)
		if !isIn {
			return false
		}
		isRecv := false
		switch y := x.(type) {
		case *ssa.Select:
			isRecv = true
		case *ssa.UnOp:
			isRecv = y.Op == token.ARROW
		}
		if isRecv && ir.LoopHeaderOf(in.Block()) == ir.LoopHeaderOf(s.in.Block()) {
			recvd = true
		}
		return false
	})
	if !recvd {
		return "", "", false
	}
	return "one-reply-per-request", fmt.Sprintf("every channel stored into %s is made with constant capacity >= 1 (%d allocation(s)); this is the only send on it in the module and it is made once per received message", s.key, nMk), true
}

// countedElsewhere: bare-send rows whose "one send per request" is decided,
// on every path through one round of the owner's loop, by another rule.
var countedElsewhere = map[string]string{
	"(*pushtx.Broadcaster).broadcastHandler|field:broadcastReq.errChan": "C15.G1 (per iteration: one reply iff one Broadcast call)",
	"(*query.peerWorkManager).workDispatcher|field:batchProgress.errChan": "C12.X1 (a verdict exactly when the batch is deleted)",
}

// fieldStoresCache: per program, every store instruction by the field it writes.
var fieldStoresCache = map[*ir.Program]map[*types.Var][]*ssa.Store{}

// builtHereOnce: fa addresses field f of a struct that fa's function allocates
// itself (possibly behind result variables whose other values are nil), f is
// stored exactly once in the whole module - there - and with a channel made
// in that function: that MakeChan.
func (c *Ctx) builtHereOnce(fa *ssa.FieldAddr, f *types.Var) *ssa.MakeChan {
	if f == nil {
		return nil
	}
	var alloc *ssa.Alloc
	seen := map[ssa.Value]bool{}
	var find func(v ssa.Value) bool
	find = func(v ssa.Value) bool {
		if seen[v] {
			return true
		}
		seen[v] = true
		switch x := v.(type) {
		case *ssa.Alloc:
			if alloc != nil && alloc != x {
				return false
			}
			alloc = x
			return true
		case *ssa.Phi:
			for _, e := range x.Edges {
				if ir.IsNil(e) {
					continue
				}
				if !find(e) {
					return false
				}
			}
			return true
		}
		return false
	}
	if !find(fa.X) || alloc == nil || alloc.Parent() != fa.Parent() {
		return nil
	}
	// module-wide stores of the field (one scan of the module, kept)
	if fieldStoresCache[c.P] == nil {
		m := map[*types.Var][]*ssa.Store{}
		for _, fn := range c.P.Funcs {
			ir.Instrs(fn, func(in ssa.Instruction) {
				st, ok := in.(*ssa.Store)
				if !ok {
					return
				}
				if a, ok := st.Addr.(*ssa.FieldAddr); ok {
					if fv := ir.FieldOfAddr(a); fv != nil {
						m[fv] = append(m[fv], st)
					}
				}
			})
		}
		fieldStoresCache[c.P] = m
	}
	sts := fieldStoresCache[c.P][f]
	if len(sts) != 1 {
		return nil
	}
	var val ssa.Value
	if a := sts[0].Addr.(*ssa.FieldAddr); a.X == ssa.Value(alloc) {
		val = sts[0].Val
	}
	if val == nil {
		return nil
	}
	mk, _ := ir.Strip(val).(*ssa.MakeChan)
	return mk
}
