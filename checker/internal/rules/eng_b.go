package rules

import (
	"fmt"
	"go/token"
	"go/types"
	"sort"
	"strings"

	"golang.org/x/tools/go/ssa"

	"verif/checker/internal/ir"
)

// ---- engine B: blocking discipline ----

// chanKey gives a symbolic identity to a channel value: the struct field it is
// loaded from, the parameter / local / captured variable holding it, or the
// function producing it.
func (c *Ctx) chanKey(v ssa.Value) string {
	v = ir.Strip(v)
	switch x := v.(type) {
	case *ssa.UnOp:
		if x.Op == token.MUL {
			switch a := x.X.(type) {
			case *ssa.FieldAddr:
				f := ir.FieldOfAddr(a)
				return c.fieldKey(a.X.Type(), f)
			case *ssa.FreeVar:
				return c.cellKey(a)
			case *ssa.Alloc:
				return c.cellKey(a)
			case *ssa.Global:
				return "global:" + a.Name()
			}
		}
	case *ssa.Field:
		return c.fieldKey(x.X.Type(), ir.FieldOfValue(x))
	case *ssa.Parameter:
		return "param:" + x.Name()
	case *ssa.FreeVar:
		return c.cellKey(x)
	case *ssa.MakeChan:
		return "local:" + c.typeStr(x.Type())
	case *ssa.Call:
		cal := ir.Resolve(&x.Call)
		if cal.Func != nil {
			// module method returning a channel held in a field: look through
			if cal.Fn != nil && len(cal.Fn.Blocks) == 1 {
				for _, in := range cal.Fn.Blocks[0].Instrs {
					if r, ok := in.(*ssa.Return); ok && len(r.Results) == 1 {
						if k := c.chanKey(r.Results[0]); !strings.HasPrefix(k, "?") {
							return k
						}
					}
				}
			}
			recv := ""
			if sig, ok := cal.Func.Type().(*types.Signature); ok && sig.Recv() != nil {
				recv = c.typeStr(sig.Recv().Type()) + "."
			} else if cal.Func.Pkg() != nil {
				recv = cal.Func.Pkg().Name() + "."
			}
			return "call:" + recv + c.on(cal.Func)
		}
		if cal.Field != nil {
			return "callfield:" + c.on(cal.Field)
		}
	case *ssa.Phi:
		return "phi:" + x.Comment
	case *ssa.Extract:
		return "extract:" + c.chanKey(x.Tuple)
	case *ssa.Lookup:
		return "elem:" + c.chanKey(x.X)
	}
	return "?" + fmt.Sprintf("%T", v)
}

func (c *Ctx) fieldKey(t types.Type, f *types.Var) string {
	if p, ok := t.Underlying().(*types.Pointer); ok {
		t = p.Elem()
	}
	name := "?"
	if n, ok := t.(*types.Named); ok {
		name = c.on(n.Obj())
	}
	if f == nil {
		return "field:" + name + ".?"
	}
	return "field:" + name + "." + c.on(f)
}

// blockingSite is one potentially blocking channel operation.
type blockingSite struct {
	fn   *ssa.Function
	in   ssa.Instruction
	kind string // "select" | "send" | "recv" | "range"
	key  string // channel key for send/recv
}

// sentKeys: channel keys on which the program performs a send anywhere.
func (c *Ctx) sentKeys() map[string]bool {
	out := map[string]bool{}
	for _, fn := range c.P.Funcs {
		ir.Instrs(fn, func(in ssa.Instruction) {
			switch x := in.(type) {
			case *ssa.Send:
				out[c.chanKey(x.Chan)] = true
			case *ssa.Select:
				for _, st := range x.States {
					if st.Dir == types.SendOnly {
						out[c.chanKey(st.Chan)] = true
					}
				}
			}
		})
	}
	return out
}

func isStructChan(t types.Type) bool {
	ch, ok := t.Underlying().(*types.Chan)
	if !ok {
		return false
	}
	st, ok := ch.Elem().Underlying().(*types.Struct)
	return ok && st.NumFields() == 0
}

func isTimeChan(t types.Type) bool {
	ch, ok := t.Underlying().(*types.Chan)
	if !ok {
		return false
	}
	n, ok := ch.Elem().(*types.Named)
	return ok && n.Obj().Pkg() != nil && n.Obj().Pkg().Path() == "time" && n.Obj().Name() == "Time"
}

// escapeArm: a receive arm that is guaranteed to become ready at shutdown or
// after a bounded time: a close-only signal channel (chan struct{} on whose
// key the program never sends), context.Done(), or a timer channel.
func (c *Ctx) escapeArm(st *ssa.SelectState, sent map[string]bool) (bool, string) {
	if st.Dir != types.RecvOnly {
		return false, ""
	}
	k := c.chanKey(st.Chan)
	if isTimeChan(st.Chan.Type()) {
		return true, "timer:" + k
	}
	if isStructChan(st.Chan.Type()) && !sent[k] {
		return true, "signal:" + k
	}
	return false, ""
}

// blockingSites enumerates blocking selects, bare sends and bare receives of
// the current program.
func (c *Ctx) blockingSites() []blockingSite {
	var out []blockingSite
	for _, fn := range c.P.Funcs {
		ir.Instrs(fn, func(in ssa.Instruction) {
			switch x := in.(type) {
			case *ssa.Select:
				if x.Blocking {
					out = append(out, blockingSite{fn, in, "select", ""})
				}
			case *ssa.Send:
				out = append(out, blockingSite{fn, in, "send", c.chanKey(x.Chan)})
			case *ssa.UnOp:
				if x.Op == token.ARROW {
					out = append(out, blockingSite{fn, in, "recv", c.chanKey(x.X)})
				}
			}
		})
	}
	return out
}

// bareOp is a row of the table of tabled bare sends / receives.
type bareOp struct {
	fn    string // outermost function
	kind  string // send | recv
	key   string // channel key
	n     int    // number of sites with this (fn, kind, key)
	class string
	why   string
}

// blockingDiscipline evaluates rule B: every blocking select has an escape
// arm; every bare send / receive is a tabled site.
func (c *Ctx) blockingDiscipline(table []bareOp, minSelects int) {
	sent := c.sentKeys()
	sites := c.blockingSites()
	nSel := 0
	var badSel []string
	selByFn := map[string][]string{}
	for _, s := range sites {
		if s.kind != "select" {
			continue
		}
		nSel++
		sel := s.in.(*ssa.Select)
		okv := false
		var arms []string
		for _, st := range sel.States {
			if e, why := c.escapeArm(st, sent); e {
				okv = true
				arms = append(arms, why)
			}
		}
		name := c.nm(s.fn)
		if !okv {
			var ks []string
			for _, st := range sel.States {
				d := "<-"
				if st.Dir == types.SendOnly {
					d = "->"
				}
				ks = append(ks, d+c.chanKey(st.Chan))
			}
			badSel = append(badSel, fmt.Sprintf("%s at %s has no escape arm (arms: %s)", name, c.at(s.in), join(ks)))
			c.fail("select without escape | "+name+" | "+join(ks), c.at(s.in), "blocking select without a quit / timer / context arm: it can block forever at shutdown", c.at(s.in))
			continue
		}
		selByFn[c.nm(outermost(s.fn))] = append(selByFn[c.nm(outermost(s.fn))], c.at(s.in)+"{"+join(arms)+"}")
	}
	var fns []string
	for f := range selByFn {
		fns = append(fns, f)
	}
	sort.Strings(fns)
	for _, f := range fns {
		sort.Strings(selByFn[f])
		c.pass("blocking selects have an escape arm | "+f, "", fmt.Sprintf("%d select(s)", len(selByFn[f])), selByFn[f]...)
	}
	if nSel < minSelects {
		c.undecided("blocking selects | floor", "", fmt.Sprintf("found %d blocking selects, the rule table requires at least %d", nSel, minSelects))
	}
	// bare operations
	type k3 struct{ fn, kind, key string }
	found := map[k3][]string{}
	for _, s := range sites {
		if s.kind == "select" {
			continue
		}
		k := k3{c.nm(outermost(s.fn)), s.kind, s.key}
		found[k] = append(found[k], c.at(s.in))
	}
	tabled := map[k3]bareOp{}
	for _, t := range table {
		tabled[k3{t.fn, t.kind, t.key}] = t
	}
	var keys []k3
	for k := range found {
		keys = append(keys, k)
	}
	sort.Slice(keys, func(i, j int) bool {
		return keys[i].fn+keys[i].kind+keys[i].key < keys[j].fn+keys[j].kind+keys[j].key
	})
	for _, k := range keys {
		at := found[k]
		sort.Strings(at)
		construct := fmt.Sprintf("bare %s on %s | %s", k.kind, k.key, k.fn)
		t, ok := tabled[k]
		if !ok {
			c.fail(construct, at[0], fmt.Sprintf("bare channel %s on %s in %s (at %s) is not a tabled site: an unconditional %s with no quit alternative can block forever (at shutdown nobody may be on the other side)", k.kind, k.key, k.fn, join(at), k.kind), at...)
			continue
		}
		if len(at) > t.n {
			c.fail(construct, at[0], fmt.Sprintf("%d bare %s site(s) on %s in %s, the table knows %d (%s): a new unconditional %s was added", len(at), k.kind, k.key, k.fn, t.n, t.class, k.kind), at...)
			continue
		}
		c.pass(construct, at[0], fmt.Sprintf("%d site(s), class %s: %s", len(at), t.class, t.why), at...)
	}
}

// cellKey names a channel held in a local variable cell or captured variable
// independently of the variable's name: by the type of the channel made into
// it ("local:chan T") or, when it is fed from elsewhere, by its type alone.
func (c *Ctx) cellKey(v ssa.Value) string {
	short := func(t types.Type) string {
		if p, ok := t.Underlying().(*types.Pointer); ok {
			if _, isChan := p.Elem().Underlying().(*types.Chan); isChan {
				t = p.Elem()
			}
		}
		return c.typeStr(t)
	}
	var cell ssa.Value = v
	if fv, ok := v.(*ssa.FreeVar); ok {
		// binding at the closure creation
		fn := fv.Parent()
		if p := fn.Parent(); p != nil {
			ir.Instrs(p, func(in ssa.Instruction) {
				mc, ok := in.(*ssa.MakeClosure)
				if !ok || mc.Fn != ssa.Value(fn) {
					return
				}
				for i, b := range mc.Bindings {
					if fn.FreeVars[i] == fv {
						cell = b
					}
				}
			})
		}
		if inner, ok := cell.(*ssa.FreeVar); ok && inner != fv {
			return c.cellKey(inner)
		}
	}
	if al, ok := cell.(*ssa.Alloc); ok {
		for _, st := range ir.StoresTo(al) {
			if mk, ok := st.Val.(*ssa.MakeChan); ok {
				return "local:" + short(mk.Type())
			}
		}
	}
	if mk, ok := cell.(*ssa.MakeChan); ok {
		return "local:" + short(mk.Type())
	}
	return "var:" + short(v.Type())
}
