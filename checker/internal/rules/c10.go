package rules

import (
	"fmt"
	"go/token"
	"go/types"
	"sort"
	"strings"

	"golang.org/x/tools/go/ssa"

	"verif/checker/internal/ir"
)

func init() {
	register(&Prop{ID: "C10", Run: runC10, NotDecided: []string{
		"that the reported spend is the earliest one over arbitrary chains (scan order and matching are run-time)",
		"batching / deferral timing of requests relative to the running scan",
	}})
}

const (
	fnScan    = "(*neutrino.UtxoScanner).scanFromHeight"
	fnDequeue = "(*neutrino.UtxoScanner).dequeueAtHeight"
	fnUStop   = "(*neutrino.UtxoScanner).Stop"
)

func runC10(c *Ctx) {
	us := func(m string) *types.Func { return c.method("neutrino", "UtxoScanner", m) }
	rep := func(m string) *types.Func { return c.method("neutrino", "batchSpendReporter", m) }
	deliver := func() *types.Func { return c.method("neutrino", "GetUtxoRequest", "deliver") }

	c.rule("C10.O1", "request ownership in scanFromHeight: requests taken out of the queue by dequeueAtHeight are, on every path to a return or to the next height, handed to reporter.ProcessBlock, passed on to a helper, or failed one by one; the only tabled exits without a hand-over are the shutdown polls (callers are released by the request's own quit channel, which is checked)", func() {
		fn := c.fn(fnScan)
		dq := find(fn, callTo(us("dequeueAtHeight")))
		if len(dq) != 1 {
			c.fail(c.nm(fn)+" | single dequeueAtHeight", c.P.Pos(fn.Pos()), fmt.Sprintf("expected one dequeueAtHeight call, found %d", len(dq)))
			return
		}
		reqs := dq[0].(ssa.Value)
		isReqs := func(v ssa.Value) bool { return ir.Strip(v) == reqs }
		// hand-over events
		elemDeliver := false
		for _, d := range find(fn, callTo(deliver())) {
			if ir.DerivesFrom(ir.CallOf(d).Args[0], func(x ssa.Value) bool {
				ia, ok := x.(*ssa.IndexAddr)
				return ok && isReqs(ia.X)
			}) {
				elemDeliver = true
			}
		}
		handover := func(in ssa.Instruction) bool {
			cc := ir.CallOf(in)
			if cc == nil {
				return false
			}
			if b, ok := cc.Value.(*ssa.Builtin); ok {
				// `for _, r := range newReqs { r.deliver(..) }` starts with len(newReqs)
				return b.Name() == "len" && elemDeliver && isReqs(cc.Args[0]) && rangeLenOf(in)
			}
			for _, a := range cc.Args {
				if isReqs(a) {
					return true
				}
			}
			return false
		}
		// start: the edge on which the dequeued slice is known non-empty
		isLenReqs := func(v ssa.Value) bool {
			call, ok := ir.Strip(v).(*ssa.Call)
			return ok && isBuiltin("len")(call) && isReqs(call.Call.Args[0])
		}
		g, _ := relGuard("len(newReqs) > 0", fn, isLenReqs, constIntIs(0), token.GTR)
		// tabled exits: returns inside a select arm on the scanner's quit
		quitF := c.field("neutrino", "UtxoScanner", "quit")
		quitCut := ir.Cut{}
		ir.Instrs(fn, func(in ssa.Instruction) {
			sel, ok := in.(*ssa.Select)
			if !ok {
				return
			}
			for i, st := range sel.States {
				if st.Dir == types.RecvOnly && loadsField(quitF)(st.Chan) {
					// the arm taken when index == i
					for _, r := range ir.Refs(sel) {
						e, ok := r.(*ssa.Extract)
						if !ok || e.Index != 0 {
							continue
						}
						for _, ib := range ir.IntEqBranches(e) {
							if ib.K == int64(i) {
								quitCut[ib.Edge()] = true
							}
						}
					}
				}
			}
		})
		// (the slice is one value: where one test found it non-empty, the
		// "empty" edge of every other test of it cannot be taken)
		emptyCut := ir.Cut{}
		for _, s := range g.sites {
			emptyCut[s.br.Other()] = true
		}
		c.mustFollowIter(fn, "requests dequeued for this height (len(newReqs) > 0)", c.successEdges(g), handover, "reporter.ProcessBlock(.., newReqs, ..) / per-request deliver", ir.Union(quitCut, emptyCut), 1)
		// ... and from the dequeue itself: between taking the requests out of
		// the queue and the emptiness test nothing may fail or leave the
		// iteration (a return there drops requests that are in no queue and not
		// yet known to the reporter)
		c.mustFollowIter(fn, "the dequeue of this height's requests", []start{afterInstr(c, dq[0])}, handover, "reporter.ProcessBlock(.., newReqs, ..) / per-request deliver (or the slice is empty)", ir.Union(quitCut, emptyCut), 1)
		c.verdict(len(quitCut) >= 2, c.nm(fn)+" | tabled shutdown exits are select arms on UtxoScanner.quit", c.P.Pos(fn.Pos()), fmt.Sprintf("%d quit arms pruned", len(quitCut)), "no shutdown polls found")
		// supporting obligation of the exception: Result has a quit arm and the request's quit is the scanner's
		res := c.fn("(*neutrino.GetUtxoRequest).Result")
		rq := c.field("neutrino", "GetUtxoRequest", "quit")
		has := len(find(res, func(in ssa.Instruction) bool {
			sel, ok := in.(*ssa.Select)
			if !ok {
				return false
			}
			for _, st := range sel.States {
				if st.Dir == types.RecvOnly && loadsField(rq)(st.Chan) {
					return true
				}
			}
			return false
		})) > 0
		enq := c.fn("(*neutrino.UtxoScanner).Enqueue")
		wired := false
		for _, st := range find(enq, storeToField(rq)) {
			wired = loadsField(quitF)(st.(*ssa.Store).Val)
		}
		c.verdict(has && wired, "(*neutrino.GetUtxoRequest).Result | waits on the scanner's quit as well", c.P.Pos(res.Pos()), "Result selects on r.quit, which Enqueue sets to the scanner's quit", "a request dropped at shutdown would block its caller: Result has no quit arm or the request's quit is not the scanner's")
		// dequeued requests are only those at this height; older ones go to nextBatch
		dqf := c.fn(fnDequeue)
		nb := c.field("neutrino", "UtxoScanner", "nextBatch")
		pop := c.funcObj("container/heap", "Pop")
		pops := find(dqf, callTo(pop))
		okKeep := len(pops) == 2
		for _, p := range pops {
			v := p.(ssa.Value)
			// each popped item flows into an append (nextBatch or the result)
			used := false
			for _, in := range find(dqf, isBuiltin("append")) {
				for _, a := range ir.CallOf(in).Args[1:] {
					if ir.DerivesFrom(a, func(x ssa.Value) bool { return x == v }) {
						used = true
					}
				}
			}
			if !used {
				okKeep = false
			}
		}
		c.verdict(okKeep && len(find(dqf, storeToField(nb))) >= 1, c.nm(dqf)+" | every popped request is kept (result slice or nextBatch)", c.P.Pos(dqf.Pos()), "both pops feed an append", "a request popped from the queue is neither returned nor deferred to nextBatch", c.ats(pops)...)
	})

	c.rule("C10.X1", "at most one answer per request: notifyRequests removes the outpoint from requests/initialTxns/outpoints before delivering; deliver is a non-blocking send on a channel allocated with capacity 1; Result keeps the first result under r.mu", func() {
		bsr := func(f string) *types.Var { return c.field("neutrino", "batchSpendReporter", f) }
		// notifyRequests, or the reporter methods it was folded into
		nDel := 0
		for _, fn := range c.P.Funcs {
			if fn.Parent() != nil || !strings.HasPrefix(c.nm(fn), "(*neutrino.batchSpendReporter).") || len(find(fn, callTo(deliver()))) == 0 {
				continue
			}
			nDel++
			c.R.Funcs[c.nm(fn)] = true
			// without an outpoint there is no state to remove: the edge on
			// which the outpoint handed in is found to be nil (every caller
			// passes the address of a local) is not a way to a delivery that
			// owes a delete
			cut := ir.Cut{}
			for _, p := range fn.Params {
				// (likewise a block that is not there: the requests failed on
				// that edge were never registered)
				if pt, isP := p.Type().(*types.Pointer); isP && (namedTypeIs(pt.Elem(), pWire, "OutPoint") || namedTypeIs(pt.Elem(), pWire, "MsgBlock")) {
					for _, nb := range ir.NilBranches(p) {
						cut[nb.Edge()] = true
					}
				}
			}
			c.precedeCut = cut
			for _, f := range []string{"requests", "initialTxns", "outpoints"} {
				c.mustPrecede(fn, mapDelete(loadsField(bsr(f))), "delete(b."+f+", *outpoint)", callTo(deliver()), "request.deliver", 1)
			}
			c.precedeCut = nil
		}
		c.verdict(nDel >= 1, "neutrino.batchSpendReporter | methods that answer requests", "", fmt.Sprintf("%d method(s) call deliver", nDel), "no method of batchSpendReporter delivers results any more")
		d := c.fn("(*neutrino.GetUtxoRequest).deliver")
		rc := c.field("neutrino", "GetUtxoRequest", "resultChan")
		okNB := false
		ir.Instrs(d, func(in ssa.Instruction) {
			if sel, ok := in.(*ssa.Select); ok && !sel.Blocking {
				for _, st := range sel.States {
					if st.Dir == types.SendOnly && loadsField(rc)(st.Chan) {
						okNB = true
					}
				}
			}
			if s, ok := in.(*ssa.Send); ok && loadsField(rc)(s.Chan) {
				okNB = false
			}
		})
		c.verdict(okNB, c.nm(d)+" | non-blocking send on resultChan", c.P.Pos(d.Pos()), "select with default", "deliver can block (or no longer sends on resultChan)")
		enq := c.fn("(*neutrino.UtxoScanner).Enqueue")
		okCap := false
		for _, st := range find(enq, storeToField(rc)) {
			if mk, ok := st.(*ssa.Store).Val.(*ssa.MakeChan); ok {
				k, isC := ir.ConstInt(mk.Size)
				okCap = isC && k == 1
			}
		}
		c.verdict(okCap, c.nm(enq)+" | resultChan has capacity 1", c.P.Pos(enq.Pos()), "make(chan *getUtxoResult, 1)", "resultChan is not allocated with capacity 1: the single answer could be lost or block")
		whoSend := sendOn(loadsField(rc))
		c.whoMay("send on GetUtxoRequest.resultChan", whoSend, []string{"(*neutrino.GetUtxoRequest).deliver"}, 1)
	})

	c.rule("C10.O2", "scanFromHeight: once the reporter exists every error or shutdown return goes through reporter.FailRemaining and the normal completion through NotifyUnspentAndUnfound", func() {
		fn := c.fn(fnScan)
		mk := find(fn, callTo(c.funcObj("neutrino", "newBatchSpendReporter")))
		if len(mk) != 1 {
			c.fail(c.nm(fn)+" | reporter created once", c.P.Pos(fn.Pos()), "expected one newBatchSpendReporter call")
			return
		}
		fail := rep("FailRemaining")
		var bad, sites []string
		nRet, nDeferred := 0, 0
		ir.WalkAfter(mk[0], nil, func(in ssa.Instruction) bool {
			r, ok := in.(*ssa.Return)
			if !ok {
				return true
			}
			nRet++
			sites = append(sites, c.at(in))
			v := ir.RetVal(r, 0)
			if valIsCallTo(fail)(v) {
				return true
			}
			if ir.IsNil(v) {
				return true // checked below by must-precede
			}
			// a result variable: everything it may hold here is nil or what
			// FailRemaining returned (the exits of a written-out helper meet
			// in one return)
			if ph, isPhi := ir.Strip(v).(*ssa.Phi); isPhi {
				allOK := true
				seenV := map[ssa.Value]bool{}
				var leaves func(x ssa.Value)
				leaves = func(x ssa.Value) {
					x = ir.Strip(x)
					if seenV[x] {
						return
					}
					seenV[x] = true
					if p2, ok := x.(*ssa.Phi); ok {
						for _, e := range p2.Edges {
							leaves(e)
						}
						return
					}
					if !ir.IsNil(x) && !valIsCallTo(fail)(x) {
						allOK = false
					}
				}
				leaves(ph)
				if allOK {
					// (each value it may hold is one of the tabled ways out)
					for x := range seenV {
						if _, isPhi := x.(*ssa.Phi); !isPhi {
							nRet++
						}
					}
					nRet--
					return true
				}
			}
			if c.deferredOnError(fn, r, mk[0], callTo(fail)) {
				nDeferred++
				return true
			}
			bad = append(bad, "return at "+c.at(in)+" does not go through reporter.FailRemaining")
			return true
		})
		sort.Strings(bad)
		c.verdict(len(bad) == 0 && (nRet >= 6 || nDeferred >= 1 && nRet >= 2), c.nm(fn)+" | error returns fail the remaining requests", c.P.Pos(fn.Pos()), fmt.Sprintf("%d returns after the reporter exists, all through FailRemaining or nil", nRet), join(bad), sites...)
		// nil return preceded by NotifyUnspentAndUnfound
		nu := rep("NotifyUnspentAndUnfound")
		var badNil []string
		ir.Walk(fn.Blocks[0], 0, nil, func(in ssa.Instruction) bool {
			if callTo(nu)(in) {
				return false
			}
			if r, ok := in.(*ssa.Return); ok && ir.IsNil(ir.RetVal(r, 0)) {
				badNil = append(badNil, c.at(in))
			}
			return true
		})
		c.verdict(len(badNil) == 0, c.nm(fn)+" | successful completion reports unspent/unfound outpoints", c.P.Pos(fn.Pos()), "return nil only after NotifyUnspentAndUnfound", "return nil at "+join(badNil)+" reachable without NotifyUnspentAndUnfound")
		// FailRemaining / NotifyUnspentAndUnfound answer every pending request
		for _, name := range []string{"FailRemaining", "NotifyUnspentAndUnfound"} {
			f := c.fn("(*neutrino.batchSpendReporter)." + name)
			n := len(find(f, callTo(deliver())))
			if nr := c.P.Method("neutrino", "batchSpendReporter", "notifyRequests"); nr != nil {
				n += len(find(f, callTo(nr)))
			}
			c.verdict(n >= 1, c.nm(f)+" | notifies every entry of b.requests", c.P.Pos(f.Pos()), "ranges over b.requests answering the requests", name+" no longer answers the requests (notifyRequests / deliver)")
		}
	})

	c.rule("C10.O3", "ProcessBlock: requests starting at this height are registered (addNewRequests) before the block is searched for spends (notifySpends), so a spend in a request's own start block is reported", func() {
		fn := c.fn("(*neutrino.batchSpendReporter).ProcessBlock")
		addN := callTo(rep("addNewRequests"))
		spends := callTo(rep("notifySpends"))
		// on the path where there are new requests
		g, _ := relGuard("len(newReqs) > 0", fn, func(v ssa.Value) bool {
			call, ok := ir.Strip(v).(*ssa.Call)
			return ok && isBuiltin("len")(call) && call.Call.Args[0] == ssa.Value(fn.Params[2])
		}, constIntIs(0), token.GTR)
		cut := ir.Cut{}
		for _, s := range g.sites {
			cut[s.br.Other()] = true
		}
		var bad []string
		ir.Walk(fn.Blocks[0], 0, cut, func(in ssa.Instruction) bool {
			if addN(in) {
				return false
			}
			if spends(in) {
				bad = append(bad, c.at(in))
			}
			return true
		})
		n := len(find(fn, addN)) + len(find(fn, spends))
		c.verdict(len(bad) == 0 && n >= 2 && len(g.sites) >= 1, c.nm(fn)+" | addNewRequests precedes notifySpends when there are new requests", c.P.Pos(fn.Pos()), "new requests are watched before the block is searched", "notifySpends at "+join(bad)+" runs before the requests starting at this height are registered: a spend in the start block is never reported")
		// findInitialTransactions sees the same block and requests
		fi := find(fn, callTo(rep("findInitialTransactions")))
		okArgs := len(fi) == 1
		for _, x := range fi {
			a := argsOf(x)
			okArgs = a[0] == ssa.Value(fn.Params[1]) && a[1] == ssa.Value(fn.Params[2])
		}
		c.verdict(okArgs, c.nm(fn)+" | findInitialTransactions(blk, newReqs, height)", c.P.Pos(fn.Pos()), "start block searched for the requested outputs", "the start block is no longer searched for the requested outputs")
	})

	c.rule("C10.O4", "no request left behind between batches: requests a scan deferred (UtxoScanner.nextBatch) are moved back into the queue before batchManager waits for the queue to become non-empty, from the start and after every scan; every ranged element is pushed onto s.pq; nextBatch is written only by the deferral in dequeueAtHeight and the drain", func() {
		fn := c.fn("(*neutrino.UtxoScanner).batchManager")
		nb := c.field("neutrino", "UtxoScanner", "nextBatch")
		drain := and(storeToField(nb), func(in ssa.Instruction) bool {
			k, ok := in.(*ssa.Store).Val.(*ssa.Const)
			return ok && k.IsNil()
		})
		wait := callTo(c.method("sync", "Cond", "Wait"))
		starts := []start{atEntry(fn)}
		for _, x := range find(fn, callTo(us("scanFromHeight"))) {
			starts = append(starts, afterInstr(c, x))
		}
		c.mustReachBefore(fn, "entry and each finished scan", starts, drain, "the drain of nextBatch into the queue", wait, "cv.Wait()", 2)
		// every element of nextBatch is pushed onto s.pq before the slice is cleared
		push := c.funcObj("container/heap", "Push")
		pq := c.field("neutrino", "UtxoScanner", "pq")
		okPush := false
		for _, x := range find(fn, callTo(push)) {
			a := argsOf(x)
			onPQ := ir.DerivesFrom(a[0], func(v ssa.Value) bool {
				fa, ok := v.(*ssa.FieldAddr)
				return ok && ir.FieldOfAddr(fa) == pq
			})
			fromNB := ir.DerivesFrom(a[1], func(v ssa.Value) bool { return loadsField(nb)(v) })
			if onPQ && fromNB {
				okPush = true
			}
		}
		c.verdict(okPush, c.nm(fn)+" | heap.Push(&s.pq, each element of s.nextBatch)", c.P.Pos(fn.Pos()), "deferred requests re-enter the queue", "the deferred requests are no longer pushed back onto the queue")
		c.whoMay("store to UtxoScanner.nextBatch", storeToField(nb), []string{"(*neutrino.UtxoScanner).batchManager", "(*neutrino.UtxoScanner).dequeueAtHeight"}, 2)
	})

	c.rule("C10.V1", "what a caller is told is about its own outpoint: notifySpends builds one fresh SpendReport per matching input (allocated in the input loop, never shared between outpoints) holding the spending transaction, the index of the matching input and the block height, files it and answers the requests under that input's previous outpoint; findInitialTransactions builds one fresh report per request from the output at the request's own index (behind the bounds check), the block height and the transaction's position", func() {
		sr := func(f string) *types.Var { return c.field("neutrino", "SpendReport", f) }
		// ---- notifySpends
		fn := c.fn("(*neutrino.batchSpendReporter).notifySpends")
		// the answer: a notifyRequests call or, folded, the deletes + deliver loop
		type answer struct {
			in           ssa.Instruction
			report, reqs ssa.Value
			keyed        func(ssa.Value) bool
			txin         ssa.Value
		}
		var notify []answer
		prevOut := c.field(pWire, "TxIn", "PreviousOutPoint")
		if nr := c.P.Method("neutrino", "batchSpendReporter", "notifyRequests"); nr != nil && len(find(fn, callTo(nr))) > 0 {
			for _, x := range find(fn, callTo(nr)) {
				a := argsOf(x)
				an := answer{in: x, report: a[2], reqs: a[1]}
				opCell, _ := a[0].(*ssa.Alloc)
				an.keyed = func(v ssa.Value) bool {
					ld, ok := v.(*ssa.UnOp)
					return ok && opCell != nil && ld.X == ssa.Value(opCell)
				}
				if opCell != nil {
					for _, st := range ir.StoresTo(opCell) {
						if ld, ok := st.Val.(*ssa.UnOp); ok {
							if fa, ok := ld.X.(*ssa.FieldAddr); ok && ir.FieldOfAddr(fa) == prevOut {
								an.txin = fa.X
							}
						}
					}
				}
				notify = append(notify, an)
			}
		} else {
			reqsF := c.field("neutrino", "batchSpendReporter", "requests")
			var key ssa.Value
			for _, d := range find(fn, mapDelete(loadsField(reqsF))) {
				key = ir.CallOf(d).Args[1]
			}
			for _, x := range find(fn, callTo(deliver())) {
				a := argsOf(x)
				an := answer{in: x, report: a[0]}
				ir.DerivesFrom(ir.CallOf(x).Args[0], func(v ssa.Value) bool {
					if ia, ok := v.(*ssa.IndexAddr); ok && an.reqs == nil {
						an.reqs = ir.Strip(ia.X)
					}
					return false
				})
				k := key
				an.keyed = func(v ssa.Value) bool { return k != nil && (v == k || ir.Strip(v) == ir.Strip(k)) }
				if k != nil {
					if ld, ok := ir.Strip(k).(*ssa.UnOp); ok {
						if fa, ok := ld.X.(*ssa.FieldAddr); ok && ir.FieldOfAddr(fa) == prevOut {
							an.txin = fa.X
						}
						// a local copy of the outpoint
						if al, ok := ld.X.(*ssa.Alloc); ok {
							for _, st := range ir.StoresTo(al) {
								if l2, ok := st.Val.(*ssa.UnOp); ok {
									if fa, ok := l2.X.(*ssa.FieldAddr); ok && ir.FieldOfAddr(fa) == prevOut {
										an.txin = fa.X
										an.keyed = func(v ssa.Value) bool {
											l3, ok := v.(*ssa.UnOp)
											return ok && l3.X == ssa.Value(al)
										}
									}
								}
							}
						}
					}
				}
				notify = append(notify, an)
			}
		}
		var bad, sites []string
		check := func(cond bool, msg string) {
			if !cond {
				bad = append(bad, msg)
			}
		}
		storedIn := func(al *ssa.Alloc, f *types.Var) ssa.Value {
			var v ssa.Value
			ir.Instrs(al.Parent(), func(in ssa.Instruction) {
				st, ok := in.(*ssa.Store)
				if !ok {
					return
				}
				if fa, ok := st.Addr.(*ssa.FieldAddr); ok && fa.X == ssa.Value(al) && ir.FieldOfAddr(fa) == f {
					v = st.Val
				}
			})
			return v
		}
		check(len(notify) == 1, fmt.Sprintf("%d answer site(s) (notifyRequests / deliver) in notifySpends, 1 tabled", len(notify)))
		for _, an := range notify {
			x := an.in
			sites = append(sites, c.at(x))
			rpt, ok := an.report.(*ssa.Alloc)
			if !ok {
				check(false, "the report answered at "+c.at(x)+" is not a freshly built SpendReport")
				continue
			}
			// the loop over the transaction's inputs (the deliver loop itself is nested in it when written out)
			txin := an.txin
			// the loop over the transaction's inputs: where the matching input is
			// taken from tx.TxIn (the deliver loop is nested in it when written out)
			var hIn *ssa.BasicBlock
			if ti, ok := txin.(ssa.Instruction); ok {
				hIn = ir.LoopHeaderOf(ti.Block())
			}
			check(hIn != nil && ir.LoopHeaderOf(rpt.Block()) == hIn && ir.LoopBlocks(hIn)[x.Block()], "the SpendReport answered at "+c.at(x)+" is allocated outside the input loop: every outpoint spent by one transaction shares (and overwrites) one report")
			keyed := an.keyed
			check(txin != nil, "the outpoint answered at "+c.at(x)+" is not a copy of an input's PreviousOutPoint")
			// tx.TxIn[idx]
			var idx, tx ssa.Value
			if ld, ok := txin.(*ssa.UnOp); ok {
				if ia, ok := ld.X.(*ssa.IndexAddr); ok {
					idx = ia.Index
					if l2, ok := ia.X.(*ssa.UnOp); ok {
						if fa, ok := l2.X.(*ssa.FieldAddr); ok && ir.FieldOfAddr(fa) == c.field(pWire, "MsgTx", "TxIn") {
							tx = fa.X
						}
					}
				}
			}
			check(idx != nil && tx != nil, "the matching input is not an element of tx.TxIn")
			if idx != nil && tx != nil {
				check(storedIn(rpt, sr("SpendingTx")) == tx, "SpendReport.SpendingTx is not the transaction whose input matched")
				// uint32(i) of the i in tx.TxIn[i], or one converted value used for both
				stored := storedIn(rpt, sr("SpendingInputIndex"))
				conv, _ := stored.(*ssa.Convert)
				_, idxIsConv := idx.(*ssa.Convert)
				check(conv != nil && (conv.X == idx || (idxIsConv && stored == idx)), "SpendReport.SpendingInputIndex is not the index of the matching input")
				check(storedIn(rpt, sr("SpendingTxHeight")) == ssa.Value(fn.Params[2]), "SpendReport.SpendingTxHeight is not the height of the processed block")
			}
			// requests looked up, and the report filed, under that outpoint
			lk, _ := an.reqs.(*ssa.Extract)
			okLk := false
			if lk != nil {
				if l, ok := lk.Tuple.(*ssa.Lookup); ok {
					okLk = keyed(l.Index) && loadsField(c.field("neutrino", "batchSpendReporter", "requests"))(l.X)
				}
			}
			check(okLk, "the requests answered are not b.requests[that outpoint]")
			filed := false
			ir.Instrs(fn, func(in ssa.Instruction) {
				// (key and report as what the result variables of a written-out
				// per-input helper hold where the map is written)
				if mu, ok := in.(*ssa.MapUpdate); ok && (mu.Value == ssa.Value(rpt) || ir.ValueAt(mu.Value, mu.Block()) == ssa.Value(rpt)) && (keyed(mu.Key) || keyed(ir.ValueAt(mu.Key, mu.Block()))) {
					filed = true
				}
			})
			check(filed, "the report is not returned under its own outpoint")
		}
		sort.Strings(bad)
		c.verdict(len(bad) == 0, c.nm(fn)+" | one fresh, correctly filled SpendReport per matching input", c.P.Pos(fn.Pos()), "SpendReport{tx, uint32(i), height} allocated per input, keyed and answered by ti.PreviousOutPoint", join(bad), sites...)

		// ---- findInitialTransactions
		fi := c.fn("(*neutrino.batchSpendReporter).findInitialTransactions")
		bad, sites = nil, nil
		n := 0
		ir.Instrs(fi, func(in ssa.Instruction) {
			mu, ok := in.(*ssa.MapUpdate)
			if !ok {
				return
			}
			rpt, ok := mu.Value.(*ssa.Alloc)
			if !ok {
				// a result variable that holds the report or the "not found"
				// nil (the two stores of the pinned tree folded into one)
				if ph, isPhi := mu.Value.(*ssa.Phi); isPhi {
					var one *ssa.Alloc
					clean := true
					for _, e := range ph.Edges {
						if ir.IsNil(e) {
							continue
						}
						al, isAl := e.(*ssa.Alloc)
						if !isAl || (one != nil && one != al) {
							clean = false
							break
						}
						one = al
					}
					if clean && one != nil {
						rpt, ok = one, true
					}
				}
			}
			if !ok {
				return
			}
			n++
			sites = append(sites, c.at(in))
			h := ir.LoopHeaderOf(in.Block())
			check(h != nil && ir.LoopHeaderOf(rpt.Block()) == h, "the SpendReport filed at "+c.at(in)+" is allocated outside the request loop")
			key, _ := mu.Key.(*ssa.UnOp)
			var opCell ssa.Value
			if key != nil {
				opCell = key.X
			}
			// Output = txOuts[op.Index]
			okOut := false
			var outIdx ssa.Value
			if ld, ok := storedIn(rpt, sr("Output")).(*ssa.UnOp); ok {
				if ia, ok := ld.X.(*ssa.IndexAddr); ok {
					outIdx = ia.Index
					if il, ok := ia.Index.(*ssa.UnOp); ok {
						if fa, ok := il.X.(*ssa.FieldAddr); ok && fa.X == opCell && ir.FieldOfAddr(fa) == c.field(pWire, "OutPoint", "Index") {
							okOut = ir.DerivesFrom(ia.X, func(v ssa.Value) bool {
								f, ok := v.(*ssa.FieldAddr)
								return ok && ir.FieldOfAddr(f) == c.field(pWire, "MsgTx", "TxOut")
							})
						}
					}
				}
			}
			check(okOut, "SpendReport.Output is not tx.TxOut[op.Index] for the outpoint it is filed under")
			check(storedIn(rpt, sr("BlockHeight")) == ssa.Value(fi.Params[3]), "SpendReport.BlockHeight is not the height of the processed block")
			conv, _ := storedIn(rpt, sr("BlockIndex")).(*ssa.Convert)
			okIdx := false
			if conv != nil {
				// the index of the transaction in block.Transactions
				ir.Instrs(fi, func(x ssa.Instruction) {
					if ia, ok := x.(*ssa.IndexAddr); ok && ia.Index == conv.X {
						okIdx = okIdx || ir.DerivesFrom(ia.X, func(v ssa.Value) bool {
							f, ok := v.(*ssa.FieldAddr)
							return ok && ir.FieldOfAddr(f) == c.field(pWire, "MsgBlock", "Transactions")
						})
					}
				})
			}
			check(okIdx, "SpendReport.BlockIndex is not the position of the transaction in the block")
			// bounds check dominates the element access
			_ = outIdx
			g, odd := relGuard("op.Index < len(txOuts)", fi, func(v ssa.Value) bool {
				ld, ok := v.(*ssa.UnOp)
				if !ok {
					return false
				}
				fa, ok := ld.X.(*ssa.FieldAddr)
				return ok && fa.X == opCell && ir.FieldOfAddr(fa) == c.field(pWire, "OutPoint", "Index")
			}, func(v ssa.Value) bool {
				return ir.DerivesFrom(v, func(x ssa.Value) bool {
					call, ok := x.(*ssa.Call)
					return ok && isBuiltin("len")(call)
				})
			}, token.LSS)
			check(len(odd) == 0, "output index compared with len(txOuts) by "+join(odd))
			if len(odd) == 0 {
				// (when the store is shared with the "not found" nil, the
				// guarded effect is the building of the report, where
				// txOuts[op.Index] is read)
				eff := ssa.Instruction(in)
				if _, direct := mu.Value.(*ssa.Alloc); !direct {
					eff = rpt
				}
				c.guarded(fi, g, 1, "initialTxns[op] = &SpendReport{Output: txOuts[op.Index]}", []ssa.Instruction{eff}, 1, gDominate)
			}
		})
		sort.Strings(bad)
		c.verdict(len(bad) == 0 && n == 1, c.nm(fi)+" | one fresh, correctly filled report per request", c.P.Pos(fi.Pos()), "SpendReport{txOuts[op.Index], &h, height, uint32(i)} filed under op", join(bad)+fmt.Sprintf(" (%d report site(s))", n), sites...)
	})

	c.rule("C10.V3", "the start block is searched to the end: findInitialTransactions looks at every transaction of the block; the only early way out of the loop is an empty txid index (len(map) == 0 on the map the requests were grouped into, whose entries are deleted one txid at a time), so requests for different transactions of one block cannot hide each other", func() {
		fi := c.fn("(*neutrino.batchSpendReporter).findInitialTransactions")
		txs := c.field(pWire, "MsgBlock", "Transactions")
		var header *ssa.BasicBlock
		ir.Instrs(fi, func(in ssa.Instruction) {
			if ia, ok := in.(*ssa.IndexAddr); ok && loadsField(txs)(ia.X) {
				if h := ir.LoopHeaderOf(in.Block()); h != nil {
					// outermost loop around the element load
					for {
						outer := (*ssa.BasicBlock)(nil)
						for _, b := range fi.Blocks {
							if b != h && len(ir.BackEdgesTo(b)) > 0 && ir.LoopBlocks(b)[h] {
								if outer == nil || len(ir.LoopBlocks(b)) < len(ir.LoopBlocks(outer)) {
									outer = b
								}
							}
						}
						if outer == nil {
							break
						}
						h = outer
					}
					header = h
				}
			}
		})
		// the txid index: the local map keyed by a hash whose values are request lists
		isIndex := func(v ssa.Value) bool {
			m, ok := v.Type().Underlying().(*types.Map)
			if !ok {
				return false
			}
			_, isSlice := m.Elem().Underlying().(*types.Slice)
			return isSlice && ir.DerivesFrom(v, func(x ssa.Value) bool { _, mk := x.(*ssa.MakeMap); return mk })
		}
		isLenIdx := func(v ssa.Value) bool {
			call, ok := ir.Strip(v).(*ssa.Call)
			return ok && isBuiltin("len")(call) && isIndex(call.Call.Args[0])
		}
		empty := equalIs("len(txidReverseIndex) vs 0", find(fi, binops(eqOps, isLenIdx, constIntIs(0))), true)
		emptyG, _ := relGuard("len(txidReverseIndex) <= 0", fi, isLenIdx, constIntIs(0), token.LEQ)
		okExit := func(e ir.Edge) bool {
			for _, g := range []guard{empty, emptyG} {
				for _, st := range g.sites {
					if st.br.Edge() == e || ir.EdgeDominates(fi, st.br.Edge(), e.From) && e.From != st.br.Edge().From && len(e.From.Instrs) == 1 {
						return true
					}
				}
			}
			return false
		}
		if c.fullRange(fi, header, "the loop over block.Transactions", func(v ssa.Value) bool { return loadsField(txs)(v) }, 0, func(*ssa.Return) bool { return true }, okExit) {
			// the index shrinks by whole txids only
			dels := find(fi, mapDelete(isIndex))
			c.verdict(len(dels) >= 1, c.nm(fi)+" | resolved txids are deleted from the index", c.P.Pos(fi.Pos()), fmt.Sprintf("%d delete(s)", len(dels)), "the txid index is tested for emptiness but nothing is ever deleted from it")
		}
	})

	c.rule("C10.V2", "a pending outpoint stays on the watch list until it is answered: the reporter's filter-entry cache (its map field with []byte values) has one entry per outpoint (key type wire.OutPoint: two pending outpoints paying the same script must not share an entry that the first answer removes); addNewRequests enters the request's PkScript under the request's own outpoint; notifyRequests deletes exactly the answered outpoint; ProcessBlock rebuilds filterEntries by appending every cached entry", func() {
		bsr := c.P.Named("neutrino", "batchSpendReporter")
		var cache *types.Var
		st := bsr.Underlying().(*types.Struct)
		for i := 0; i < st.NumFields(); i++ {
			if m, ok := st.Field(i).Type().Underlying().(*types.Map); ok {
				if sl, ok := m.Elem().Underlying().(*types.Slice); ok {
					if b, ok := sl.Elem().Underlying().(*types.Basic); ok && b.Kind() == types.Uint8 {
						cache = st.Field(i)
					}
				}
			}
		}
		if cache == nil {
			c.fail("neutrino.batchSpendReporter | filter-entry cache", "-", "no map field with []byte values (the cache the watch list is rebuilt from)")
			return
		}
		op := c.P.Named(pWire, "OutPoint")
		keyT := cache.Type().Underlying().(*types.Map).Key()
		c.verdict(types.Identical(keyT, op), "neutrino.batchSpendReporter."+cache.Name()+" | one watch-list entry per pending outpoint", "-", "map[wire.OutPoint][]byte", "the watch-list cache is keyed by "+keyT.String()+" instead of the outpoint: outpoints that share a key share one entry, and answering the first removes the script the others still need from the block filter watch list")
		// addNewRequests
		an := c.fn("(*neutrino.batchSpendReporter).addNewRequests")
		inputOP := c.field("neutrino", "InputWithScript", "OutPoint")
		inputPK := c.field("neutrino", "InputWithScript", "PkScript")
		okAdd := false
		for _, x := range find(an, mapUpdate(loadsField(cache))) {
			mu := x.(*ssa.MapUpdate)
			okAdd = loadsField(inputOP)(mu.Key) && bytesFrom(mu.Value, loadsField(inputPK))
		}
		c.verdict(okAdd, c.nm(an)+" | cache[req.Input.OutPoint] = req.Input.PkScript", c.P.Pos(an.Pos()), "entry keyed by the request's outpoint holding its script", "addNewRequests does not enter the request's script under the request's outpoint")
		// ... and every outpoint that is not in the cache yet gets there: the
		// miss edge of the cache lookup leads to the map update within the
		// iteration (an outpoint left out because "its script is watched
		// already" loses its watch when the other outpoint is answered)
		if lks := find(an, lookupsOn(loadsField(cache))); len(lks) >= 1 {
			g := okIs("cache[outpoint]", lks)
			c.mustFollowIter(an, "an outpoint that is not cached yet", c.failEdges(g), mapUpdate(loadsField(cache)), "cache[outpoint] = script", nil, 1)
		}
		fe := c.field("neutrino", "batchSpendReporter", "filterEntries")
		nApp := 0
		for _, x := range find(an, storeToField(fe)) {
			v := x.(*ssa.Store).Val
			okEntry := ir.DerivesFrom(v, loadsField(inputPK))
			if !okEntry {
				// append(b.filterEntries, entry) with entry a private copy
				if call, isCall := ir.Strip(v).(*ssa.Call); isCall && isBuiltin("append")(call) && len(call.Call.Args) == 2 {
					ir.DerivesFrom(call.Call.Args[1], func(y ssa.Value) bool {
						if bytesFrom(y, loadsField(inputPK)) {
							okEntry = true
						}
						return okEntry
					})
				}
			}
			if okEntry {
				nApp++
			}
		}
		c.verdict(nApp >= 1, c.nm(an)+" | the new script joins filterEntries at once", c.P.Pos(an.Pos()), "append(b.filterEntries, entry)", "a new request's script is not added to the current watch list")
		// the answering code (notifyRequests, or the methods it was folded
		// into): the three deletes in front of a delivery use one key, and one
		// of them is on the cache
		nAns := 0
		for _, nr := range c.P.Funcs {
			if nr.Parent() != nil || !strings.HasPrefix(c.nm(nr), "(*neutrino.batchSpendReporter).") {
				continue
			}
			// (failing requests outright because an input that must be
			// present is missing answers nothing that was being watched)
			nDeliver := 0
			for _, d := range find(nr, callTo(deliver())) {
				if !ir.UnderMissingInput(d) {
					nDeliver++
				}
			}
			if nDeliver == 0 {
				continue
			}
			nAns++
			dels := find(nr, func(in ssa.Instruction) bool { return isBuiltin("delete")(in) })
			okDel := 0
			var key ssa.Value
			same := func(x, y ssa.Value) bool {
				x, y = ir.Strip(x), ir.Strip(y)
				if x == y {
					return true
				}
				lx, ok1 := x.(*ssa.UnOp)
				ly, ok2 := y.(*ssa.UnOp)
				return ok1 && ok2 && lx.X == ly.X
			}
			for _, x := range dels {
				a := ir.CallOf(x).Args
				if key == nil {
					key = a[1]
				}
				if same(a[1], key) {
					okDel++
				}
			}
			delCache := len(find(nr, mapDelete(loadsField(cache))))
			c.verdict(delCache == 1 && okDel == len(dels) && len(dels) >= 3, c.nm(nr)+" | the answered outpoint (and only it) leaves requests, initialTxns and the cache", c.P.Pos(nr.Pos()), "three deletes keyed by the answered outpoint", fmt.Sprintf("%d delete(s), %d keyed by the answered outpoint, %d on the cache", len(dels), okDel, delCache))
		}
		c.verdict(nAns >= 1, "neutrino.batchSpendReporter | answering code found", "", fmt.Sprintf("%d method(s)", nAns), "no method of batchSpendReporter answers requests")
		// ProcessBlock: rebuild from every cache entry
		pb := c.fn("(*neutrino.batchSpendReporter).ProcessBlock")
		okRebuild := false
		ir.Instrs(pb, func(in ssa.Instruction) {
			n, ok := in.(*ssa.Next)
			if !ok {
				return
			}
			r, ok := n.Iter.(*ssa.Range)
			if !ok || !loadsField(cache)(r.X) {
				return
			}
			for _, x := range find(pb, storeToField(fe)) {
				if ir.DerivesFrom(x.(*ssa.Store).Val, func(v ssa.Value) bool { return v == ssa.Value(n) }) && ir.LoopHeaderOf(x.Block()) == ir.LoopHeaderOf(n.Block()) {
					okRebuild = true
				}
				// ... or collected in a local slice by that loop and
				// stored once behind it
				h := ir.LoopHeaderOf(n.Block())
				if h != nil && !ir.LoopBlocks(h)[x.Block()] && h.Dominates(x.Block()) && ir.DerivesFrom(x.(*ssa.Store).Val, func(v ssa.Value) bool {
					call, ok := v.(*ssa.Call)
					return ok && isBuiltin("append")(call) && ir.LoopHeaderOf(call.Block()) == h && len(call.Call.Args) == 2 &&
						ir.DerivesFrom(call.Call.Args[1], func(w ssa.Value) bool { return w == ssa.Value(n) })
				}) {
					okRebuild = true
				}
			}
		})
		// ... or collected by the library: slices.AppendSeq(filterEntries[:0], maps.Values(cache))
		for _, x := range find(pb, storeToField(fe)) {
			if allValuesOf(x.(*ssa.Store).Val, loadsField(cache)) {
				okRebuild = true
			}
		}
		c.verdict(okRebuild, c.nm(pb)+" | filterEntries rebuilt from every cached entry", c.P.Pos(pb.Pos()), "for _, entry := range cache { filterEntries = append(filterEntries, entry) }", "the watch list is not rebuilt from all cached entries")
	})

	c.rule("C10.V4", "every caller waits on a request of its own: a GetUtxoRequest serves one reader (its result channel holds one result and Result reads it once), so Enqueue returns nothing but the request it allocated in this call (or nil with an error), that request is what it pushes on the queue, and its result channel is made in the call with capacity 1; handing out a request another caller already holds leaves one of them waiting", func() {
		fn := c.fn("(*neutrino.UtxoScanner).Enqueue")
		reqT := c.P.Named("neutrino", "GetUtxoRequest")
		var fresh []*ssa.Alloc
		ir.Instrs(fn, func(in ssa.Instruction) {
			if al, ok := in.(*ssa.Alloc); ok && al.Heap {
				if p, ok := al.Type().(*types.Pointer); ok && types.Identical(p.Elem(), reqT) {
					fresh = append(fresh, al)
				}
			}
		})
		isFresh := func(v ssa.Value) bool {
			for _, al := range fresh {
				if ir.Strip(v) == ssa.Value(al) {
					return true
				}
			}
			return false
		}
		var bad []string
		var allOf func(v ssa.Value, ok func(ssa.Value) bool, depth int) bool
		allOf = func(v ssa.Value, ok func(ssa.Value) bool, depth int) bool {
			if p, isPhi := v.(*ssa.Phi); isPhi && depth < 6 {
				for _, e := range p.Edges {
					if !allOf(e, ok, depth+1) {
						return false
					}
				}
				return true
			}
			return ok(v)
		}
		rets := find(fn, isExit)
		for _, r := range rets {
			ret, isRet := r.(*ssa.Return)
			if !isRet {
				continue
			}
			v := ir.RetVal(ret, 0)
			if !allOf(v, func(x ssa.Value) bool { return ir.IsNil(ir.Strip(x)) || isFresh(x) }, 0) {
				bad = append(bad, "the request returned at "+c.at(r)+" can be one that was not allocated in this call")
			}
		}
		push := c.funcObj("container/heap", "Push")
		pushes := find(fn, callTo(push))
		for _, p := range pushes {
			a := ir.CallOf(p).Args
			if len(a) != 2 || !isFresh(ir.Strip(a[1])) {
				bad = append(bad, "what is queued at "+c.at(p)+" is not the request allocated in this call")
			}
		}
		rc := c.field("neutrino", "GetUtxoRequest", "resultChan")
		okChan := false
		for _, st := range find(fn, storeToField(rc)) {
			fa, _ := st.(*ssa.Store).Addr.(*ssa.FieldAddr)
			mk, isMk := ir.Strip(st.(*ssa.Store).Val).(*ssa.MakeChan)
			if fa != nil && isFresh(fa.X) && isMk {
				if k, isC := ir.ConstInt(mk.Size); isC && k == 1 {
					okChan = true
				}
			}
		}
		if !okChan {
			bad = append(bad, "the request's result channel is not made in the call with capacity 1")
		}
		if len(fresh) != 1 || len(pushes) < 1 {
			bad = append(bad, fmt.Sprintf("%d request(s) allocated, %d queued, 1 and at least 1 tabled", len(fresh), len(pushes)))
		}
		sort.Strings(bad)
		c.verdict(len(bad) == 0, c.nm(fn)+" | returns and queues the request it allocated", c.P.Pos(fn.Pos()), "one fresh GetUtxoRequest with a result channel of capacity 1: queued, and the only non-nil result", join(bad), c.ats(rets)...)
	})

	c.rule("C10.V5", "what the start block holds is kept for every new request, duplicates included: the reporter's record of initial outputs (initialTxns, what NotifyUnspentAndUnfound answers unspent requests with) is written in a loop over the new requests (or over what was found for them), and every pass of that loop reaches the write - an entry skipped because the outpoint already has more than one request is skipped for first-time duplicates too (they were appended to requests just before), and all of them are told the output does not exist", func() {
		initF := c.field("neutrino", "batchSpendReporter", "initialTxns")
		n := 0
		for _, fn := range c.P.Funcs {
			if fn.Parent() != nil || !strings.HasPrefix(c.nm(fn), "(*neutrino.batchSpendReporter).") {
				continue
			}
			for _, mu := range find(fn, mapUpdate(loadsField(initF))) {
				h := ir.LoopHeaderOf(mu.Block())
				if h == nil {
					continue
				}
				n++
				in := ir.LoopBlocks(h)
				var starts []start
				for i, sc := range h.Succs {
					if in[sc] {
						starts = append(starts, atEdge(c, ir.Edge{From: h, Succ: i}, "next new request"))
					}
				}
				mu := mu
				c.mustFollowIter(fn, "each new request", starts, func(x ssa.Instruction) bool { return x == mu }, "b.initialTxns[outpoint] = ..", nil, 1)
			}
		}
		c.verdict(n >= 1, "neutrino.batchSpendReporter | initial outputs are recorded in a loop over the new requests", "", fmt.Sprintf("%d recording loop(s)", n), "no loop records the initial outputs of new requests any more")
	})

	c.rule("C10.G2", "the batch manager sleeps only on an empty queue: every Wait on the scanner's condition variable in batchManager lies behind pq.IsEmpty() = true, and on nothing else; only Enqueue and Stop signal that variable - neither a new block nor a recovered backend does - so a manager that also parks on 'the head is the request I just tried' leaves a request with a start height above the tip, or one whose first snapshot failed, unanswered until some unrelated request comes in", func() {
		fn := c.fn("(*neutrino.UtxoScanner).batchManager")
		wait := c.method("sync", "Cond", "Wait")
		isEmpty := c.method("neutrino", "GetUtxoRequestPQ", "IsEmpty")
		waits := find(fn, callTo(wait))
		calls := find(fn, callTo(isEmpty))
		c.guarded(fn, boolIs("s.pq.IsEmpty()", calls, 0, true), 1, "s.cv.Wait()", waits, 1, gDominate)
	})

	c.rule("C10.V6", "every request watching a transaction is looked at: in findInitialTransactions the loop over the requests the reverse index holds for one txid has no way out but the end of its range; left at the first request with an output index the transaction does not have, the requests behind it - for outputs the transaction does have - are never given their initial output and their callers are told the output does not exist", func() {
		fn := c.fn("(*neutrino.batchSpendReporter).findInitialTransactions")
		n := 0
		seen := map[*ssa.BasicBlock]bool{}
		ir.Instrs(fn, func(in ssa.Instruction) {
			ia, ok := in.(*ssa.IndexAddr)
			if !ok {
				return
			}
			// a slice that came out of a map lookup keyed by a hash
			fromIndex := ir.DerivesFrom(ia.X, func(x ssa.Value) bool {
				lk, isL := x.(*ssa.Lookup)
				if !isL {
					return false
				}
				mt, isM := lk.X.Type().Underlying().(*types.Map)
				if !isM {
					return false
				}
				_, isSl := mt.Elem().Underlying().(*types.Slice)
				return isSl
			})
			h := ir.LoopHeaderOf(in.Block())
			if !fromIndex || h == nil || seen[h] {
				return
			}
			seen[h] = true
			lf := loopFormOf(h)
			construct := c.nm(fn) + " | the loop over one transaction's requests ends only with its range"
			if lf.problem != "" {
				c.fail(construct, c.at(in), lf.problem)
				return
			}
			if off, isCtr := counterOffset(lf, ia.Index); !isCtr || off != 0 {
				return
			}
			n++
			var early []string
			for _, e := range ir.LoopExits(h) {
				if e != lf.exit {
					early = append(early, c.at(e.From.Instrs[len(e.From.Instrs)-1]))
				}
			}
			sort.Strings(early)
			c.verdict(len(early) == 0, construct, c.at(lf.test), "the counting test is the only exit", "the loop can be left early at "+join(uniq(early))+": the requests behind that one are never looked at", c.at(lf.test))
		})
		if n < 1 {
			c.undecided(c.nm(fn)+" | loop over the requests of one txid", "", "no such loop found")
		}
	})

	c.rule("C10.L1", "UtxoScanner.pq and nextBatch are accessed only under s.mu (= s.cv.L); GetUtxoRequest.result only under r.mu", func() {
		mu := c.field("neutrino", "UtxoScanner", "mu")
		exempt := map[string]string{"neutrino.NewUtxoScanner": "constructor"}
		c.guardedBy([]gField{
			{field: c.field("neutrino", "UtxoScanner", "pq"), mutex: mu, exempt: exempt},
			{field: c.field("neutrino", "UtxoScanner", "nextBatch"), mutex: mu, exempt: exempt},
			{field: c.field("neutrino", "GetUtxoRequest", "result"), mutex: c.field("neutrino", "GetUtxoRequest", "mu")},
		}, 12)
	})
}

// rangeLenOf: the len() call feeds the bound of a range-over-slice loop (its
// value is compared with the loop index).
func rangeLenOf(in ssa.Instruction) bool {
	v, ok := in.(ssa.Value)
	if !ok {
		return false
	}
	for _, r := range ir.Refs(v) {
		if b, ok := r.(*ssa.BinOp); ok {
			if _, isPhiOrAdd := b.X.(*ssa.BinOp); isPhiOrAdd {
				return true
			}
			if _, isPhi := b.X.(*ssa.Phi); isPhi {
				return true
			}
		}
	}
	return false
}

// deferredOnError: the return hands back the function's named error result,
// and a function literal deferred behind `after` on every path to the return
// (its defer statement dominates the return) makes the call `what` whenever
// that named result is not nil when it runs: `defer func() { if err != nil {
// what(err) } }()` is the deferred form of `return what(err)` at every error
// return.
func (c *Ctx) deferredOnError(fn *ssa.Function, r *ssa.Return, after ssa.Instruction, what Sel) bool {
	if len(r.Results) == 0 {
		return false
	}
	ld, ok := r.Results[len(r.Results)-1].(*ssa.UnOp)
	if !ok || ld.Op != token.MUL {
		return false
	}
	cell, ok := ld.X.(*ssa.Alloc)
	if !ok {
		return false
	}
	for _, d := range find(fn, func(in ssa.Instruction) bool { _, ok := in.(*ssa.Defer); return ok }) {
		df := d.(*ssa.Defer)
		mc, ok := df.Call.Value.(*ssa.MakeClosure)
		if !ok || !df.Block().Dominates(r.Block()) {
			continue
		}
		if !(after.Block() == df.Block() && ir.IndexIn(after) < ir.IndexIn(df) || after.Block() != df.Block() && after.Block().Dominates(df.Block())) {
			continue
		}
		lit, ok := mc.Fn.(*ssa.Function)
		if !ok {
			continue
		}
		var fv *ssa.FreeVar
		for i, b := range mc.Bindings {
			if b == ssa.Value(cell) {
				fv = lit.FreeVars[i]
			}
		}
		if fv == nil {
			continue
		}
		// paths through the literal on which the result is nil are cut; every
		// other path to an exit must make the call
		cut := ir.Cut{}
		ir.Instrs(lit, func(in ssa.Instruction) {
			u, ok := in.(*ssa.UnOp)
			if !ok || u.Op != token.MUL || u.X != ssa.Value(fv) {
				return
			}
			for _, b := range ir.NilBranches(u) {
				if b.Pol >= 0 {
					cut[b.Edge()] = true
				}
			}
		})
		if len(cut) == 0 || len(lit.Blocks) == 0 {
			continue
		}
		okAll := true
		ir.Walk(lit.Blocks[0], 0, cut, func(in ssa.Instruction) bool {
			if what(in) {
				return false
			}
			if isExit(in) {
				okAll = false
				return false
			}
			return true
		})
		if okAll {
			c.R.Funcs[c.nm(lit)] = true
			return true
		}
	}
	return false
}
