package rules

import (
	"fmt"
	"go/token"
	"go/types"
	"sort"

	"golang.org/x/tools/go/ssa"

	"verif/checker/internal/ir"
)

func init() {
	register(&Prop{ID: "C04", Run: runC04, NotDecided: []string{
		"convergence itself: it is a liveness property over schedules and peer behaviours and cannot be decided from source",
		"timing, peer selection quality, progress of the query layer under load",
		"only necessary conditions are decided: a message type without a dispatch case, a lost wake-up or a missing re-sync step stalls the sync for every schedule",
	}})
}

// sentTypes collects the dynamic types put on a channel (satisfying pred) by
// any module function: the operand types of the MakeInterface / value sent.
func (c *Ctx) sentTypes(pred func(ssa.Value) bool) (map[string]types.Type, []string) {
	out := map[string]types.Type{}
	var sites []string
	for _, fn := range c.P.Funcs {
		ir.Instrs(fn, func(in ssa.Instruction) {
			var vals []ssa.Value
			switch x := in.(type) {
			case *ssa.Send:
				if pred(x.Chan) {
					vals = append(vals, x.X)
				}
			case *ssa.Select:
				for _, st := range x.States {
					if st.Dir == types.SendOnly && pred(st.Chan) {
						vals = append(vals, st.Send)
					}
				}
			}
			for _, v := range vals {
				t := v.Type()
				if mi, ok := v.(*ssa.MakeInterface); ok {
					t = mi.X.Type()
				}
				out[types.TypeString(t, nil)] = t
				sites = append(sites, c.at(in)+":"+types.TypeString(t, func(p *types.Package) string { return p.Name() }))
			}
		})
	}
	sort.Strings(sites)
	return out, sites
}

// switchCases collects the asserted types of the type switch in fn.
func switchCases(fn *ssa.Function) map[string]bool {
	out := map[string]bool{}
	ir.Instrs(fn, func(in ssa.Instruction) {
		if ta, ok := in.(*ssa.TypeAssert); ok && ta.CommaOk {
			out[types.TypeString(ta.AssertedType, nil)] = true
		}
	})
	return out
}

func runC04(c *Ctx) {
	bm := func(f string) *types.Var { return c.field("neutrino", "blockManager", f) }
	bmM := func(m string) *types.Func { return c.method("neutrino", "blockManager", m) }
	cs := func(f string) *types.Var { return c.field("neutrino", "ChainService", f) }

	c.rule("C04.T1", "dispatch agreement: every message type put on blockManager.peerChan has a case in blockHandler's type switch and reaches its handler; every message type put on ChainService.query has a case in handleQuery; the peer listeners OnVersion, OnVerAck, OnInv, OnHeaders, OnRead are registered with the ServerPeer methods of the same name", func() {
		for _, spec := range []struct {
			ch      *types.Var
			fn      string
			what    string
			minSent int
		}{
			{bm("peerChan"), "(*neutrino.blockManager).blockHandler", "blockManager.peerChan", 4},
			{cs("query"), "(*neutrino.ChainService).handleQuery", "ChainService.query", 8},
		} {
			sent, sites := c.sentTypes(loadsField(spec.ch))
			fn := c.fn(spec.fn)
			cases := switchCases(fn)
			var missing []string
			for t := range sent {
				if !cases[t] {
					missing = append(missing, t)
				}
			}
			sort.Strings(missing)
			construct := fmt.Sprintf("%s | types sent on %s all have a dispatch case", spec.fn, spec.what)
			if len(sent) < spec.minSent {
				c.undecided(construct, c.P.Pos(fn.Pos()), fmt.Sprintf("found %d message types sent on %s, need %d", len(sent), spec.what, spec.minSent))
				continue
			}
			c.verdict(len(missing) == 0, construct, c.P.Pos(fn.Pos()), fmt.Sprintf("%d sent types, %d cases", len(sent), len(cases)), "message type(s) sent but never dispatched (silently dropped by the default case): "+join(missing), sites...)
		}
		// each block-manager message case calls its handler
		bh := c.fn("(*neutrino.blockManager).blockHandler")
		for _, h := range []string{"handleNewPeerMsg", "handleInvMsg", "handleHeadersMsg", "handleDonePeerMsg"} {
			n := len(find(bh, callTo(bmM(h))))
			c.verdict(n == 1, "(*neutrino.blockManager).blockHandler | dispatches to "+h, c.P.Pos(bh.Pos()), "one call", fmt.Sprintf("blockHandler calls %s %d times (expected 1)", h, n))
		}
		// listeners
		np := c.fn("neutrino.NewPeerConfig")
		for _, l := range []string{"OnVersion", "OnVerAck", "OnInv", "OnHeaders", "OnRead"} {
			f := c.field(pPeer, "MessageListeners", l)
			m := c.method("neutrino", "ServerPeer", l)
			okv := false
			for _, st := range find(np, storeToField(f)) {
				if ir.DerivesFrom(st.(*ssa.Store).Val, func(x ssa.Value) bool {
					mc, ok := x.(*ssa.MakeClosure)
					return ok && refersTo(m)(mc)
				}) {
					okv = true
				}
			}
			c.verdict(okv, "neutrino.NewPeerConfig | Listeners."+l+" = sp."+l, c.P.Pos(np.Pos()), "registered", "peer listener "+l+" is not registered with ServerPeer."+l+" (messages of that kind never reach the client)")
		}
		// listeners feed the queues
		for _, spec := range []struct{ fn, callee string }{
			{"(*neutrino.ServerPeer).OnHeaders", "QueueHeaders"}, {"(*neutrino.ServerPeer).OnInv", "QueueInv"},
		} {
			fn := c.fn(spec.fn)
			n := len(find(fn, callTo(bmM(spec.callee))))
			c.verdict(n >= 1, spec.fn+" | forwards to blockManager."+spec.callee, c.P.Pos(fn.Pos()), "forwarded", spec.fn+" no longer forwards to blockManager."+spec.callee)
		}
		va := c.fn("(*neutrino.ServerPeer).OnVerAck")
		c.verdict(len(find(va, callTo(c.method("neutrino", "ChainService", "AddPeer")))) == 1, "(*neutrino.ServerPeer).OnVerAck | announces the peer to the server (AddPeer)", c.P.Pos(va.Pos()), "AddPeer called", "OnVerAck no longer hands the negotiated peer to the server")
	})

	c.rule("C04.O2", "recovery from a lying sync peer: after a checkpoint mismatch the store is rolled back to a checkpoint strictly below the failing one (findPreviousHeaderCheckpoint is strict), otherwise the bogus branch stays and outweighs every honest reply of at most 2000 headers", func() {
		c.prevCheckpointStrict()
	})

	c.rule("C04.V1", "a lighter branch from any peer cannot displace the honest chain: "+knownWorkDoc, func() { c.knownWorkLoop() })

	c.rule("C04.O4", "a peer that was retired from a broadcast query is not consulted again: in queryAllPeers the response callback runs only on the default arm of a non-blocking receive from that peer's own quit channel (peerQuits[sp.Addr()]), and is handed that same channel: the callbacks close it to retire the peer, so a duplicated or late answer must not reach them a second time (close of a closed channel kills the client)", func() {
		fn := c.fn("(*neutrino.ChainService).queryAllPeers")
		var calls []ssa.Instruction
		ir.Instrs(fn, func(in ssa.Instruction) {
			cc := ir.CallOf(in)
			if cc != nil && !cc.IsInvoke() && cc.Value == ssa.Value(fn.Params[2]) {
				calls = append(calls, in)
			}
		})
		g := guard{name: "non-blocking <-peerQuits[addr] did not fire"}
		var quitMap ssa.Value
		ir.Instrs(fn, func(in ssa.Instruction) {
			sel, ok := in.(*ssa.Select)
			if !ok || sel.Blocking || len(sel.States) != 1 || sel.States[0].Dir != types.RecvOnly {
				return
			}
			lk := mapLookupOf(sel.States[0].Chan)
			if lk == nil {
				return
			}
			g.found++
			quitMap = lk.X
			for _, r := range ir.Refs(sel) {
				e, ok := r.(*ssa.Extract)
				if !ok || e.Index != 0 {
					continue
				}
				for _, ib := range ir.IntEqBranches(e) {
					if ib.K == 0 {
						g.sites = append(g.sites, guardSite{ib.Branch.Flip(), in})
					}
				}
			}
		})
		c.guarded(fn, g, 1, "checkResponse(sp, msg, quit, peerQuit)", calls, 1, gDominate)
		okArg := len(calls) == 1 && quitMap != nil
		if okArg {
			a := ir.CallOf(calls[0]).Args
			lk := mapLookupOf(a[3])
			okArg = lk != nil && lk.X == quitMap
		}
		c.verdict(okArg, c.nm(fn)+" | the callback receives the peer's own quit channel", c.P.Pos(fn.Pos()), "peerQuits[sm.sp.Addr()] tested and passed on", "the per-peer quit channel tested before the callback is not the one handed to it")
	})

	c.rule("C04.G2", "a cfheaders answer is written only under the blocks it was computed for: writeCFHeadersMsg pairs the filter headers with the block headers it fetches by the message's own StopHash (FetchHeaderAncestors(n-1, &msg.StopHash) = nil guards the write), so an honest answer that a reorganisation has overtaken is refused rather than written under the new branch's blocks (where it would make every later honest answer mismatch the stored tip and get the honest peers banned)", func() {
		fn := c.fn(fnWriteCFH)
		writes := find(fn, callTo(c.method("headerfs", "FilterHeaderStore", "WriteHeaders")))
		stopHash := c.field(pWire, "MsgCFHeaders", "StopHash")
		anc := find(fn, anyArg(callTo(c.method("headerfs", "BlockHeaderStore", "FetchHeaderAncestors")), fieldAddrOf(stopHash)))
		c.guarded(fn, errNil("BlockHeaders.FetchHeaderAncestors(n-1,&msg.StopHash)", anc, 2), 1, "store.WriteHeaders", writes, 1, gDominate)
	})

	c.rule("C04.O5", "after a reorganisation the filter headers still match the block headers: "+filterRollbackFirstDoc, func() { c.filterRollbackFirst() })

	c.rule("C04.O3", "the peer can locate the fork point: every getheaders request that starts a sync or answers a block announcement (all PushGetHeadersMsg sites of the block manager except the in-batch continuation in handleHeadersMsg, whose single hash the peer itself just supplied) carries a locator that includes the stored chain's LatestBlockLocator, so a peer whose best chain no longer contains our tip still finds the common ancestor", func() {
		push := c.method(pPeer, "Peer", "PushGetHeadersMsg")
		loc := c.method("headerfs", "BlockHeaderStore", "LatestBlockLocator")
		n := 0
		var bad, sites []string
		for _, f := range c.P.Funcs {
			if outermost(f) == c.fn(fnHandleHeaders) {
				continue
			}
			for _, x := range find(f, callTo(push)) {
				n++
				sites = append(sites, c.nm(f)+"@"+c.at(x))
				if !ir.DerivesFrom(argsOf(x)[0], valIsCallTo(loc)) {
					bad = append(bad, c.nm(f)+" at "+c.at(x))
				}
			}
		}
		// ... on every path on which the store handed its locator out: behind
		// the success edge of LatestBlockLocator no way leads to the request
		// that does not put that locator in (the request's locator IS the
		// result, or an append of the result that reaches the request's
		// argument lies on the way); a test of anything else - "only when its
		// first hash differs from the one we lead with" - makes the request go
		// out with our own tip alone in exactly the case the backup is for
		for _, f := range c.P.Funcs {
			if outermost(f) == c.fn(fnHandleHeaders) {
				continue
			}
			pushes := find(f, callTo(push))
			if len(pushes) == 0 {
				continue
			}
			locs := find(f, callTo(loc))
			fromLoc := func(v ssa.Value) bool {
				// without passing a merge
				for i := 0; i < 6; i++ {
					v = ir.Strip(v)
					if e, ok := v.(*ssa.Extract); ok {
						v = e.Tuple
						continue
					}
					break
				}
				return valIsCallTo(loc)(v)
			}
			for _, x := range pushes {
				arg := argsOf(x)[0]
				includes := func(in ssa.Instruction) bool {
					if in == x {
						return fromLoc(arg)
					}
					call, ok := in.(*ssa.Call)
					if !ok || !isBuiltin("append")(call) || len(call.Call.Args) != 2 {
						return false
					}
					return ir.DerivesFrom(call.Call.Args[1], valIsCallTo(loc)) && ir.DerivesFrom(arg, func(v ssa.Value) bool { return v == ssa.Value(call) })
				}
				isX := func(in ssa.Instruction) bool { return in == x && !fromLoc(arg) }
				g := errNil("BlockHeaders.LatestBlockLocator()", locs, 1)
				for _, st := range c.successEdges(g) {
					reached := false
					ir.WalkCtx(st.b, st.idx, st.pred, nil, func(in ssa.Instruction) bool {
						if includes(in) {
							return false
						}
						if isX(in) {
							reached = true
							return false
						}
						return true
					})
					if reached {
						bad = append(bad, c.nm(f)+" at "+c.at(x)+" (a path from the successful LatestBlockLocator call reaches the request without adding its result)")
					}
				}
			}
		}
		sort.Strings(bad)
		bad = uniq(bad)
		c.verdict(len(bad) == 0 && n >= 3, "blockManager | getheaders locators include the stored chain's locator", "-", fmt.Sprintf("%d request site(s), all derive their locator from BlockHeaders.LatestBlockLocator()", n), fmt.Sprintf("getheaders sent with a locator that does not include the stored chain's locator at %s (%d site(s) found, 3 tabled): after the peer reorganises away from our tip it answers from genesis and the client never learns the new branch", join(bad), n), sites...)
	})

	c.rule("C04.G1", "what a misbehaving peer sends never gets between the honest peer and the store: a headers message whose last header builds on nothing leaves the in-memory list ahead of the store if the link pre-check lets it through, and the honest peer's headers are then taken for duplicates: "+headersLinkedDoc, func() { c.headersLinked() })

	c.rule("C04.O7", "the peer can locate the fork point even when none of the recent hashes is on its chain: "+blockLocatorDoc, func() { c.blockLocatorToGenesis() })

	c.rule("C04.O8", "every remaining sync candidate is looked at: container/list clears an element's links when it is removed, so a loop that prunes while it walks must take the next element before the removal; nowhere in the module is Next() or Prev() called on an element after a List.Remove of that same element can have run (the walk would end at the first pruned candidate and the honest peer behind it would never be asked)", func() {
		remove := c.method("container/list", "List", "Remove")
		next := c.method("container/list", "Element", "Next")
		prev := c.method("container/list", "Element", "Prev")
		n := 0
		var bad []string
		var sites []ssa.Instruction
		for _, fn := range c.P.Funcs {
			for _, rm := range find(fn, callTo(remove)) {
				n++
				sites = append(sites, rm)
				_, a := recvAndArgs(rm)
				if len(a) != 1 {
					continue
				}
				el := ir.Strip(a[0])
				// within the iteration: around the back edge the same SSA
				// value stands for the next element
				ir.WalkAfter(rm, ir.BackEdges(fn), func(in ssa.Instruction) bool {
					if callTo(next, prev)(in) {
						recv, _ := recvAndArgs(in)
						if ir.Strip(recv) == el {
							bad = append(bad, c.nm(fn)+": the element removed at "+c.at(rm)+" is asked for its neighbour at "+c.at(in))
						}
					}
					return true
				})
			}
		}
		sort.Strings(bad)
		c.verdict(n >= 1 && len(bad) == 0, "module | no list element is walked from after its removal", "", fmt.Sprintf("%d List.Remove site(s); none followed by Next/Prev on the removed element", n), join(uniq(bad)), c.ats(sites)...)
	})

	c.rule("C04.P1", "the sync never wedges itself: "+lockOrderDoc, func() { c.lockOrder() })

	c.rule("C04.O9", "every connection that ends is reported: ChainService.handleDonePeerMsg is the only place that tells the connection manager a connection is over (the retry of a permanent peer, a new request in place of a discovered one), and it hears of it from peerDoneHandler alone; so from the return of WaitForDisconnect every path of peerDoneHandler passes the select that sends the peer on s.donePeers (its other arm is the shutdown) - made conditional on a completed handshake, a connection that dies between connect and verack is never redialled: the only honest peer is gone for good", func() {
		fn := c.fn("(*neutrino.ChainService).peerDoneHandler")
		wfd := find(fn, func(in ssa.Instruction) bool {
			cc := ir.CallOf(in)
			if cc == nil {
				return false
			}
			f := cc.StaticCallee()
			return f != nil && f.Name() == "WaitForDisconnect"
		})
		done := c.field("neutrino", "ChainService", "donePeers")
		report := func(in ssa.Instruction) bool {
			switch x := in.(type) {
			case *ssa.Select:
				for _, st := range x.States {
					if st.Dir == types.SendOnly && loadsField(done)(st.Chan) {
						return true
					}
				}
			case *ssa.Send:
				return loadsField(done)(x.Chan)
			}
			return false
		}
		var starts []start
		for _, x := range wfd {
			starts = append(starts, afterInstr(c, x))
		}
		c.mustFollow(fn, "the connection ended (WaitForDisconnect returned)", starts, report, "the send on s.donePeers", nil, 1)
	})
	c.rule("C04.V4", "the heavier honest branch is not turned down on the timestamps of the lighter one: "+branchOwnAncestorsDoc, func() { c.branchOwnAncestors() })
	c.rule("C04.V3", "the client keeps the most-work chain whatever lighter headers arrive: "+offeredWorkDoc, func() { c.offeredWorkFromFork() })
	c.rule("C04.V2", "a request for filter headers can be answered: a cfheaders message carries at most wire.MaxCFHeadersPerMsg hashes, and getCFHeadersForAllPeers accepts only answers with exactly the number it asked for; where the request is capped, the header it stops at and the stop height are both height + MaxCFHeadersPerMsg - 1, so that stopHeight - height + 1 stays within the limit (one more and no peer can ever answer: the filter header tip stops following the chain once it is more than a message behind)", func() {
		fn := c.fn("(*neutrino.blockManager).getCFHeadersForAllPeers")
		fetch := c.method("headerfs", "BlockHeaderStore", "FetchHeaderByHeight")
		isH := func(v ssa.Value) bool { return ir.Strip(v) == ssa.Value(fn.Params[1]) }
		const max = 2000 // wire.MaxCFHeadersPerMsg
		lin := func(v ssa.Value) (int64, bool) {
			coef, _, k, ok := linTerms(v, nil, isH)
			if !ok || len(coef) != 1 || coef[0] != 1 {
				return 0, false
			}
			return k, true
		}
		var bad []string
		calls := find(fn, callTo(fetch))
		for _, in := range calls {
			_, a := recvAndArgs(in)
			if k, ok := lin(a[0]); !ok || k != max-1 {
				bad = append(bad, "the capped request stops at a header other than height + MaxCFHeadersPerMsg - 1 ("+c.at(in)+")")
			}
		}
		// the count: stopHeight - height + 1 with stopHeight the store's tip or the cap
		tip := c.method("headerfs", "BlockHeaderStore", "ChainTip")
		nOK := 0
		ir.Instrs(fn, func(in ssa.Instruction) {
			p, ok := in.(*ssa.Phi)
			if !ok {
				return
			}
			fromTip, capped := false, false
			for _, e := range p.Edges {
				if ir.DerivesFrom(e, valIsCallTo(tip)) && !ir.DerivesFrom(e, isH) {
					fromTip = true
					continue
				}
				if k, ok := lin(e); ok {
					capped = true
					if k != max-1 {
						bad = append(bad, fmt.Sprintf("the capped stop height is height%+d, not height + MaxCFHeadersPerMsg - 1 (%s)", k, c.at(in)))
					}
				}
			}
			if fromTip && capped {
				nOK++
			}
		})
		sort.Strings(bad)
		c.verdict(len(calls) >= 1 && nOK >= 1 && len(bad) == 0, c.nm(fn)+" | a capped request spans exactly MaxCFHeadersPerMsg headers", c.P.Pos(fn.Pos()), "stop header and stop height are height + 1999", join(uniq(bad))+fmt.Sprintf(" (%d capped fetch(es), %d stop-height merge(s))", len(calls), nOK), c.ats(calls)...)
	})

	c.rule("C04.O6", "the honest peer stays reachable for queries: "+workerPerPeerDoc, func() { c.workerPerPeer() })

	c.rule("C04.O1", "progress steps (each a necessary condition of convergence): losing the sync peer re-selects one; a new sync candidate triggers startSync; a selected sync peer is asked for headers; a committed headers batch updates the header tip, wakes the filter-header sync and asks for more while not current; committed filter headers wake their waiters; an accepted peer is announced to the block manager and its departure too; the subscription manager is started before the broadcaster subscribes", func() {
		// handleDonePeerMsg
		fn := c.fn("(*neutrino.blockManager).handleDonePeerMsg")
		clears := find(fn, func(in ssa.Instruction) bool {
			return storeToField(bm("syncPeer"))(in) && ir.IsNil(in.(*ssa.Store).Val)
		})
		var starts []start
		for _, s := range clears {
			starts = append(starts, afterInstr(c, s))
		}
		tip := c.method("headerfs", "BlockHeaderStore", "ChainTip")
		errCut := func(fn *ssa.Function, calls []ssa.Instruction, idx int) ir.Cut {
			cut := ir.Cut{}
			g := errNil("", calls, idx)
			for _, s := range g.sites {
				cut[s.br.Other()] = true
			}
			// the result carried to a join by a result variable whose other
			// incoming values are the nil constant (a helper that returns nil
			// when there was nothing to do, inlined): non-nil behind the join
			// means that this call failed
			for _, s := range g.weak {
				if s.br.Via == nil {
					continue
				}
				onlyNil := true
				for _, e := range s.br.Via.Edges {
					if e != s.site.(ssa.Value) && !ir.IsNil(e) {
						onlyNil = false
					}
				}
				if onlyNil {
					cut[s.br.Other()] = true
				}
			}
			return cut
		}
		c.mustFollow(fn, "sync peer lost", starts, callTo(bmM("startSync")), "b.startSync(peers)", errCut(fn, find(fn, callTo(tip)), 2), 1)
		// every departure is compared with the sync peer (no early way out for
		// some class of peers: the reorg path makes any peer the sync peer), and
		// a match clears it
		isSync := func(v ssa.Value) bool {
			return valIsCallTo(bmM("SyncPeer"))(v) || loadsField(bm("syncPeer"))(v)
		}
		var spParam func(ssa.Value) bool = func(ssa.Value) bool { return false }
		if len(fn.Params) == 3 {
			spParam = paramOrSpill(fn.Params[2])
		}
		isGone := func(v ssa.Value) bool { return spParam(v) || isParam(fn, 2)(v) }
		cmp := find(fn, binops(eqOps, isSync, isGone))
		noSync := equalIs("b.SyncPeer() vs nil", find(fn, binops(eqOps, isSync, ir.IsNil)), true).cut()
		isCmp := func(in ssa.Instruction) bool {
			for _, x := range cmp {
				if x == in {
					return true
				}
			}
			return false
		}
		c.mustFollow(fn, "a peer departed", []start{atEntry(fn)}, isCmp, "b.SyncPeer() == sp", noSync, 1)
		gm := equalIs("b.SyncPeer() vs the departing peer", cmp, true)
		c.mustFollow(fn, "the departing peer is the sync peer", c.successEdges(gm), func(in ssa.Instruction) bool {
			for _, x := range clears {
				if x == in {
					return true
				}
			}
			return false
		}, "b.syncPeer = nil", nil, 1)
		// handleNewPeerMsg
		fn = c.fn("(*neutrino.blockManager).handleNewPeerMsg")
		var g guard
		if m := c.P.Method("neutrino", "blockManager", "isSyncCandidate"); m != nil && len(find(fn, callTo(m))) > 0 {
			g = boolIs("isSyncCandidate(sp)", find(fn, callTo(m)), 0, true)
		} else {
			// the candidate test written out: sp.Services()&SFNodeNetwork == SFNodeNetwork
			services := c.method(pPeer, "Peer", "Services")
			isMask := func(v ssa.Value) bool {
				b, ok := ir.Strip(v).(*ssa.BinOp)
				return ok && b.Op == token.AND && (ir.DerivesFrom(b.X, valIsCallTo(services)) || ir.DerivesFrom(b.Y, valIsCallTo(services)))
			}
			g = equalIs("sp.Services()&SFNodeNetwork vs SFNodeNetwork", find(fn, binops(eqOps, isMask, func(v ssa.Value) bool { _, isC := v.(*ssa.Const); return isC })), true)
		}
		loc := c.method("headerfs", "BlockHeaderStore", "LatestBlockLocator")
		cut := ir.Union(errCut(fn, find(fn, callTo(tip)), 2), errCut(fn, find(fn, callTo(loc)), 1))
		c.mustFollow(fn, "new sync candidate", c.successEdges(g), callTo(bmM("startSync")), "b.startSync(peers)", cut, 1)
		// startSync
		fn = c.fn("(*neutrino.blockManager).startSync")
		push := c.method(pPeer, "Peer", "PushGetHeadersMsg")
		var bestCmp []ssa.Instruction
		ir.Instrs(fn, func(in ssa.Instruction) {
			b, ok := in.(*ssa.BinOp)
			if !ok {
				return
			}
			phi, ok := b.X.(*ssa.Phi)
			if ok && ir.IsNil(b.Y) && types.Identical(phi.Type(), types.NewPointer(c.P.Named("neutrino", "ServerPeer"))) {
				// only the test after the candidate loop
				if ir.LoopHeaderOf(in.Block()) == nil {
					bestCmp = append(bestCmp, in)
				}
			}
		})
		gb := equalIs("bestPeer vs nil", bestCmp, false)
		c.mustFollow(fn, "a sync peer was selected", c.successEdges(gb), callTo(push), "PushGetHeadersMsg(locator, stopHash)", errCut(fn, find(fn, callTo(loc)), 1), 1)
		c.mustFollow(fn, "a sync peer was selected", c.successEdges(gb), storeToField(bm("syncPeer")), "b.syncPeer = bestPeer", errCut(fn, find(fn, callTo(loc)), 1), 1)

		// handleHeadersMsg after commit
		fn = c.fn(fnHandleHeaders)
		hdr := c.P.Named("headerfs", "BlockHeader")
		var batch []ssa.Instruction
		for _, w := range find(fn, callTo(c.method("headerfs", "BlockHeaderStore", "WriteHeaders"))) {
			a := argsOf(w)
			if len(a) == 1 && ir.DerivesFrom(a[0], func(v ssa.Value) bool {
				in, ok := v.(ssa.Instruction)
				return ok && appendsOf(hdr)(in)
			}) {
				batch = append(batch, w)
			}
		}
		gw := errNil("batch WriteHeaders", batch, 0)
		bcast := c.method("sync", "Cond", "Broadcast")
		isBcast := func(f *types.Var) Sel {
			return func(in ssa.Instruction) bool {
				return callTo(bcast)(in) && loadsField(f)(ir.CallOf(in).Args[0])
			}
		}
		pushCut := errCut(fn, find(fn, callTo(push)), 0) // tabled exception: PushGetHeadersMsg error return
		// a committed batch is a non-empty batch: a variable that is given a
		// non-nil value before every append to that batch (and never nil
		// again) is non-nil once the batch was committed, so the "is nil"
		// edge of its tests cannot be taken behind the commit
		pushCut = ir.Union(pushCut, c.setWithEveryAppend(fn, appendsOf(hdr)))
		c.mustFollow(fn, "headers batch committed", c.successEdges(gw), storeToField(bm("headerTip")), "b.headerTip = finalHeight", pushCut, 1)
		c.mustFollow(fn, "headers batch committed", c.successEdges(gw), isBcast(bm("newHeadersSignal")), "newHeadersSignal.Broadcast()", pushCut, 1)
		// tip update under the mutex
		res := c.lockResults()
		okL := true
		for _, st := range find(fn, anyOf(storeToField(bm("headerTip")), storeToField(bm("headerTipHash")))) {
			if res[fn].mustHold[st][lockKey{bm("newHeadersMtx")}] != "W" {
				okL = false
			}
		}
		c.verdict(okL, c.nm(fn)+" | header tip updated under newHeadersMtx", c.P.Pos(fn.Pos()), "stores under the mutex", "headerTip/headerTipHash are updated without newHeadersMtx (the waiter can miss the change)")
		// not current => ask for more
		synced := find(fn, callTo(bmM("BlockHeadersSynced")))
		var after []ssa.Instruction
		for _, s := range synced {
			for _, b := range batch {
				reach := false
				ir.WalkAfter(b, nil, func(in ssa.Instruction) bool {
					if in == s {
						reach = true
					}
					return true
				})
				if reach && ir.LoopHeaderOf(s.Block()) == nil {
					after = append(after, s)
				}
			}
		}
		gs := boolIs("BlockHeadersSynced() (after commit)", after, 0, true)
		c.mustFollow(fn, "headers not yet current", c.failEdges(gs), callTo(push), "PushGetHeadersMsg(locator, nextHash)", nil, 1)

		// writeCFHeadersMsg
		fn = c.fn(fnWriteCFH)
		gfw := errNil("store.WriteHeaders", find(fn, callTo(c.method("headerfs", "FilterHeaderStore", "WriteHeaders"))), 0)
		c.mustFollow(fn, "filter headers committed", c.successEdges(gfw), isBcast(bm("newFilterHeadersSignal")), "newFilterHeadersSignal.Broadcast()", nil, 1)

		// handleAddPeerMsg / peerDoneHandler
		fn = c.fn("(*neutrino.ChainService).handleAddPeerMsg")
		psf := func(f string) *types.Var { return c.field("neutrino", "peerState", f) }
		var regs []start
		peerMapUpd, peerMapsCovered := mapUpdateOneOf(psf("outboundPeers"), psf("persistentPeers"))
		nMaps := 0
		for _, in := range find(fn, peerMapUpd) {
			regs = append(regs, afterInstr(c, in))
			nMaps += peerMapsCovered(in)
		}
		minRegs := 2
		if nMaps >= 2 && len(regs) >= 1 {
			minRegs = 1 // one store into "the one map or the other"
		}
		c.mustFollow(fn, "peer entered into the peer maps", regs, callTo(bmM("NewPeer")), "blockManager.NewPeer(sp)", nil, minRegs)
		if fn.Signature.Results().Len() > 0 {
			var retTrue []ssa.Instruction
			for _, in := range find(fn, isExit) {
				if b, isC := ir.ConstBool(ir.RetVal(in.(*ssa.Return), 0)); !isC || b {
					retTrue = append(retTrue, in)
				}
			}
			c.mustPrecede(fn, callTo(bmM("NewPeer")), "blockManager.NewPeer(sp)", func(in ssa.Instruction) bool {
				for _, r := range retTrue {
					if r == in {
						return true
					}
				}
				return false
			}, "return true (peer accepted)", 1)
		}
		fn = c.fn("(*neutrino.ChainService).peerDoneHandler")
		vk := c.method(pPeer, "Peer", "VersionKnown")
		gv := boolIs("sp.VersionKnown()", find(fn, callTo(vk)), 0, true)
		c.mustFollow(fn, "departing peer had completed the handshake", c.successEdges(gv), callTo(bmM("DonePeer")), "blockManager.DonePeer(sp)", nil, 1)
		okDone := len(find(fn, sendOn(loadsField(cs("donePeers"))))) == 1
		c.verdict(okDone, c.nm(fn)+" | the server is told about the departure (donePeers)", c.P.Pos(fn.Pos()), "send on donePeers", "peerDoneHandler no longer reports the departure to the peer handler")

		// Start order
		fn = c.fn("(*neutrino.ChainService).Start")
		subStart := func(in ssa.Instruction) bool {
			return callTo(c.method("blockntfns", "SubscriptionManager", "Start"))(in)
		}
		bStart := callTo(c.method("pushtx", "Broadcaster", "Start"))
		c.mustPrecede(fn, subStart, "blockSubscriptionMgr.Start()", bStart, "broadcaster.Start()", 1)
		c.mustPrecede(fn, callTo(bmM("Start")), "blockManager.Start()", func(in ssa.Instruction) bool {
			g, ok := in.(*ssa.Go)
			return ok && callTo(c.method("neutrino", "ChainService", "peerHandler"))(g)
		}, "go peerHandler()", 1)
		// the handler goroutines are started
		st := c.fn("(*neutrino.blockManager).Start")
		n := 0
		ir.Instrs(st, func(in ssa.Instruction) {
			if g, ok := in.(*ssa.Go); ok {
				if callTo(bmM("blockHandler"))(g) {
					n++
				}
				if mc, ok := g.Call.Value.(*ssa.MakeClosure); ok {
					if f, ok := mc.Fn.(*ssa.Function); ok && len(find(f, callTo(bmM("cfHandler")))) > 0 {
						n++
					}
				}
				if callTo(bmM("cfHandler"))(g) {
					n++
				}
			}
		})
		c.verdict(n >= 2, c.nm(st)+" | starts blockHandler and cfHandler", c.P.Pos(st.Pos()), "both goroutines started", "blockManager.Start no longer starts both the block handler and the filter-header handler")
	})
}

// setWithEveryAppend returns the "is nil" edges of the nil tests of pointer
// variables of fn for which the invariant "something was appended => the
// variable is non-nil" holds: the variable is carried around the loop that
// holds the appends; on every path to each append it was assigned a value that
// cannot be nil (the assigning edge dominates the append's block); and inside
// the loop it is never assigned nil.
func (c *Ctx) setWithEveryAppend(fn *ssa.Function, isAppend Sel) ir.Cut {
	cut := ir.Cut{}
	apps := find(fn, isAppend)
	var inLoopApps []ssa.Instruction
	var h *ssa.BasicBlock
	for _, a := range apps {
		if lh := ir.LoopHeaderOf(a.Block()); lh != nil {
			// the outermost loop around the append
			for {
				outer := (*ssa.BasicBlock)(nil)
				for _, b := range fn.Blocks {
					if b != lh && len(ir.BackEdgesTo(b)) > 0 && ir.LoopBlocks(b)[lh] && (outer == nil || len(ir.LoopBlocks(b)) < len(ir.LoopBlocks(outer))) {
						outer = b
					}
				}
				if outer == nil {
					break
				}
				lh = outer
			}
			if h == nil || h == lh {
				h = lh
				inLoopApps = append(inLoopApps, a)
			}
		}
	}
	if h == nil || len(inLoopApps) == 0 {
		return cut
	}
	inLoop := ir.LoopBlocks(h)
	for _, in := range h.Instrs {
		p, ok := in.(*ssa.Phi)
		if !ok {
			break
		}
		if _, isPtr := p.Type().Underlying().(*types.Pointer); !isPtr {
			continue
		}
		// the phi web of the variable inside the loop
		web := map[*ssa.Phi]bool{p: true}
		for changed := true; changed; {
			changed = false
			for q := range web {
				for _, e := range q.Edges {
					if e2, ok := e.(*ssa.Phi); ok && inLoop[e2.Block()] && !web[e2] {
						web[e2] = true
						changed = true
					}
				}
			}
		}
		type assign struct{ from *ssa.BasicBlock }
		var sets []assign
		okVar := true
		for q := range web {
			for i, e := range q.Edges {
				if _, isPhi := e.(*ssa.Phi); isPhi && web[e.(*ssa.Phi)] {
					continue
				}
				pred := q.Block().Preds[i]
				if !inLoop[pred] {
					continue // the value before the loop
				}
				if ir.IsNil(ir.Strip(e)) {
					okVar = false // reset inside the loop
				} else if ir.KnownNonNil(e) {
					sets = append(sets, assign{pred})
				} else {
					okVar = false
				}
			}
		}
		if !okVar || len(sets) == 0 {
			continue
		}
		for _, a := range inLoopApps {
			covered := false
			for _, st := range sets {
				if st.from == a.Block() || st.from.Dominates(a.Block()) {
					covered = true
				}
			}
			if !covered {
				okVar = false
			}
		}
		if !okVar {
			continue
		}
		// the nil tests of the variable after the loop
		vals := map[ssa.Value]bool{}
		for q := range web {
			vals[q] = true
		}
		ir.Instrs(fn, func(x ssa.Instruction) {
			b, ok := x.(*ssa.BinOp)
			if !ok || (b.Op != token.EQL && b.Op != token.NEQ) || inLoop[x.Block()] {
				return
			}
			var v ssa.Value
			switch {
			case ir.IsNil(b.Y):
				v = b.X
			case ir.IsNil(b.X):
				v = b.Y
			default:
				return
			}
			// the variable itself or a merge of it made after the loop
			isVar := vals[v]
			if q, isPhi := v.(*ssa.Phi); isPhi && !isVar {
				all := true
				for _, e := range q.Edges {
					if !vals[e] {
						all = false
					}
				}
				isVar = all
			}
			if !isVar {
				return
			}
			for _, nb := range ir.NilBranches(v) {
				cut[nb.Edge()] = true
			}
		})
	}
	return cut
}
