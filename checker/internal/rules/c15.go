package rules

import (
	"fmt"
	"go/constant"
	"go/token"
	"go/types"
	"sort"
	"strings"

	"golang.org/x/tools/go/ssa"

	"verif/checker/internal/ir"
)

func init() {
	register(&Prop{ID: "C15", Run: runC15, NotDecided: []string{
		"timing of ticks, block events and confirmations relative to each other",
		"combinations of peer replies at run time (only the comparators' shape and the classification table are decided)",
		"wtxmgr.DependencySort's correctness (trusted)",
	}})
}

const (
	fnBHandler    = "(*pushtx.Broadcaster).broadcastHandler"
	fnRebroadcast = "(*pushtx.Broadcaster).rebroadcast"
	fnMarkConf    = "(*pushtx.Broadcaster).MarkAsConfirmed"
	fnSendTx      = "(*neutrino.ChainService).sendTransaction"
	fnParseBErr   = "pushtx.ParseBroadcastError"
)

func (c *Ctx) pushtxConst(name string) int64 {
	k, ok := c.P.Pkg("pushtx").Scope().Lookup(name).(*types.Const)
	if !ok {
		panic(anchorErr{"const pushtx." + name})
	}
	v, _ := constant.Int64Val(k.Val())
	return v
}

// isBroadcastErrCall selects IsBroadcastError(err, code) calls with the given
// constant code among the variadic codes.
func (c *Ctx) isBroadcastErrCall(code int64) Sel {
	f := c.funcObj("pushtx", "IsBroadcastError")
	return func(in ssa.Instruction) bool {
		if !callTo(f)(in) {
			return false
		}
		a := ir.CallOf(in).Args
		if len(a) < 2 {
			return false
		}
		// variadic slice built from a local array: look at the stored constants
		found := false
		ir.DerivesFrom(a[1], func(x ssa.Value) bool {
			if al, ok := x.(*ssa.Alloc); ok {
				for _, r := range ir.Refs(al) {
					if ia, ok := r.(*ssa.IndexAddr); ok {
						for _, st := range ir.StoresTo(ia) {
							if k, isC := ir.ConstInt(st.Val); isC && k == code {
								found = true
							}
						}
					}
				}
			}
			return false
		})
		return found
	}
}

func runC15(c *Ctx) {
	bf := func(f string) *types.Var { return c.field("pushtx", "Broadcaster", f) }

	c.rule("C15.B1", "every send on Broadcaster.confChan can be abandoned on shutdown: it is an arm of a select that also waits on Broadcaster.quit (MarkAsConfirmed is called from rescans that may outlive the client)", func() {
		n := 0
		for _, fn := range c.P.Funcs {
			for _, in := range find(fn, sendOn(func(v ssa.Value) bool {
				return loadsField(bf("confChan"))(v) || (c.nm(outermost(fn)) == fnRebroadcast && isParam(fn, 2)(v))
			})) {
				n++
				construct := "send on Broadcaster.confChan | " + c.nm(fn)
				sel, isSel := in.(*ssa.Select)
				okv := isSel && selectHasRecv(sel, loadsField(bf("quit")))
				c.verdict(okv, construct, c.at(in), "select with a <-b.quit arm", "bare send on confChan at "+c.at(in)+": blocks forever once the broadcaster has stopped (no receiver, no quit alternative)", c.at(in))
			}
		}
		if n < 2 {
			c.undecided("sends on Broadcaster.confChan | floor", "", fmt.Sprintf("found %d sends on confChan, need 2", n))
		}
	})

	c.rule("C15.G3", "one reading of a backend error: the broadcaster judges a failed broadcast (is it 'already in the mempool' / 'already confirmed'?) by the error the configured MapCustomBroadcastError made of it - a custom backend speaks through that mapping only; every IsBroadcastError test of the handler and of rebroadcast is applied to a value that, where a mapping is configured, went through it (judged raw at one site and mapped at the other, a transaction the backend already has is refused on its first broadcast, never enters the pending set and is never rebroadcast)", func() {
		mapF := c.field("pushtx", "Config", "MapCustomBroadcastError")
		isB := c.funcObj("pushtx", "IsBroadcastError")
		n := 0
		for _, name := range []string{fnBHandler, fnRebroadcast} {
			fn := c.fn(name)
			for _, f := range ir.WithClosures(fn) {
				for _, in := range find(f, callTo(isB)) {
					n++
					a := ir.CallOf(in).Args[0]
					mapped := ir.DerivesFrom(a, func(x ssa.Value) bool {
						call, ok := x.(*ssa.Call)
						return ok && !call.Call.IsInvoke() && call.Call.StaticCallee() == nil && loadsField(mapF)(call.Call.Value)
					})
					c.verdict(mapped, c.nm(f)+" | IsBroadcastError judges the mapped error", c.at(in), "the tested error is (on the configured path) the result of cfg.MapCustomBroadcastError", "the error tested at "+c.at(in)+" never went through cfg.MapCustomBroadcastError: a custom backend's own error for 'already in the mempool' is taken for a rejection", c.at(in))
				}
			}
		}
		if n < 2 {
			c.undecided("pushtx | IsBroadcastError tests", "", fmt.Sprintf("found %d, 2 tabled", n))
		}
	})

	c.rule("C15.B3", "the handler is never held up by a caller that has gone: the verdict of a broadcast is sent back on the request's errChan with a plain send, after a caller may already have returned on the quit arm of its select; so every channel that is put into broadcastReq.errChan is made with room for that one verdict (capacity >= 1) - with an unbuffered channel the handler goroutine parks on the reply for good, no later transaction is broadcast or rebroadcast, and Stop waits for it for ever", func() {
		ef := c.field("pushtx", "broadcastReq", "errChan")
		n := 0
		for _, fn := range c.P.Funcs {
			if fn.Pkg == nil || !strings.HasSuffix(fn.Pkg.Pkg.Path(), "/pushtx") {
				continue
			}
			for _, st := range find(fn, storeToField(ef)) {
				n++
				v := st.(*ssa.Store).Val
				okCap := false
				why := "the channel stored in broadcastReq.errChan is not made here"
				if ir.DerivesFrom(v, func(x ssa.Value) bool {
					mk, ok := x.(*ssa.MakeChan)
					if !ok {
						return false
					}
					k, isC := ir.ConstInt(mk.Size)
					if isC && k >= 1 {
						okCap = true
					} else {
						why = "the reply channel is made without room for the verdict (capacity 0 or not a constant)"
					}
					return true
				}) && okCap {
					c.pass("reply channel has room for the verdict | "+c.nm(fn), c.at(st), "make(chan error, n) with n >= 1", c.at(st))
					continue
				}
				c.fail("reply channel has room for the verdict | "+c.nm(fn), c.at(st), why+": the handler's reply at the end of a broadcast blocks once the caller has left on quit", c.at(st))
			}
		}
		if n < 1 {
			c.undecided("stores to broadcastReq.errChan | floor", "", "found no store to broadcastReq.errChan, need 1")
		}
		// the reply itself is a plain send in the handler (that is what needs the room)
		fn := c.fn(fnBHandler)
		replies := find(fn, sendOn(loadsField(ef)))
		c.verdict(len(replies) >= 1, c.nm(fn)+" | replies on req.errChan", c.P.Pos(fn.Pos()), "req.errChan <- err", "no reply on req.errChan found in the handler", c.ats(replies)...)
	})

	c.rule("C15.B2", "a confirmation takes effect before MarkAsConfirmed returns: confChan is unbuffered (the hand-off is a rendezvous with the handler) and the handler removes the transaction from the pending set in the very arm that receives it; with a buffered channel a rebroadcast started after MarkAsConfirmed returned could still contain the transaction", func() {
		nb := c.fn("pushtx.NewBroadcaster")
		okCap, n := true, 0
		for _, st := range find(nb, storeToField(bf("confChan"))) {
			mk, ok := st.(*ssa.Store).Val.(*ssa.MakeChan)
			if !ok {
				okCap = false
				continue
			}
			n++
			if k, isC := ir.ConstInt(mk.Size); !isC || k != 0 {
				okCap = false
			}
		}
		c.verdict(okCap && n == 1, c.nm(nb)+" | confChan is unbuffered", c.P.Pos(nb.Pos()), "make(chan chainhash.Hash)", "confChan is buffered (or not allocated here): MarkAsConfirmed can return before the handler has removed the transaction, so a later rebroadcast may still include it")
		c.whoMay("store to Broadcaster.confChan", storeToField(bf("confChan")), []string{"pushtx.NewBroadcaster"}, 1)
		// the receiving arm deletes directly
		fn := c.fn(fnBHandler)
		okDel := false
		ir.Instrs(fn, func(in ssa.Instruction) {
			sel, ok := in.(*ssa.Select)
			if !ok || !selectHasRecv(sel, loadsField(bf("confChan"))) {
				return
			}
			for i, st := range sel.States {
				if st.Dir != types.RecvOnly || !loadsField(bf("confChan"))(st.Chan) {
					continue
				}
				for _, r := range ir.Refs(sel) {
					e, ok := r.(*ssa.Extract)
					if !ok || e.Index != 0 {
						continue
					}
					for _, ib := range ir.IntEqBranches(e) {
						if ib.K != int64(i) {
							continue
						}
						// on every path of the arm the delete comes before
						// anything that can wait (nothing but straight-line
						// code, tests and logging in front of it)
						reached, blocked := false, false
						ir.WalkEdge(ib.Edge(), ir.BackEdges(fn), func(x ssa.Instruction) bool {
							if isBuiltin("delete")(x) {
								reached = true
								return false
							}
							switch y := x.(type) {
							case *ssa.Select, *ssa.Send, *ssa.Go, *ssa.Return:
								blocked = true
							case *ssa.UnOp:
								if y.Op == token.ARROW {
									blocked = true
								}
							case *ssa.Call:
								if !isLogCall(x) && !isBuiltin("len")(x) {
									blocked = true
								}
							}
							return !blocked
						})
						if reached && !blocked {
							okDel = true
						}
					}
				}
			}
		})
		c.verdict(okDel, c.nm(fn)+" | the confirmation arm deletes from the pending set immediately", c.P.Pos(fn.Pos()), "delete in the receiving arm", "the arm receiving a confirmation no longer removes the transaction right away")
	})

	c.rule("C15.O1", "every block event and every interval tick starts a rebroadcast unless one is still running: in broadcastHandler's loop the arm that receives from the block subscription's Notifications channel and the arm of the interval ticker both reach the rebroadcast trigger (the non-blocking take of the semaphore token, written out or in the trigger closure) before the next round, on every path; the only way past it is the edge on which the Notifications channel was found closed (a notification that is looked at and skipped - a height already seen, a kind not of interest - leaves the pending transactions unannounced after exactly the events the property names: the block that connects at the height of a disconnected one, in a reorganisation)", func() {
		fn := c.fn(fnBHandler)
		var sem *ssa.MakeChan
		ir.Instrs(fn, func(in ssa.Instruction) {
			if mk, ok := in.(*ssa.MakeChan); ok {
				if k, isC := ir.ConstInt(mk.Size); isC && k == 1 {
					sem = mk
				}
			}
		})
		if sem == nil {
			panic(anchorErr{"rebroadcast semaphore (chan of capacity 1) in broadcastHandler"})
		}
		isSemIn := func(f *ssa.Function) func(ssa.Value) bool {
			return func(v ssa.Value) bool {
				return ir.DerivesFrom(v, func(x ssa.Value) bool {
					if x == ssa.Value(sem) {
						return true
					}
					fv, ok := x.(*ssa.FreeVar)
					return ok && (fv.Type().String() == types.NewPointer(sem.Type()).String() || fv.Type().String() == sem.Type().String())
				})
			}
		}
		takes := func(f *ssa.Function) []ssa.Instruction {
			return find(f, func(in ssa.Instruction) bool {
				sel, ok := in.(*ssa.Select)
				return ok && !sel.Blocking && selectHasRecv(sel, isSemIn(f))
			})
		}
		// trigger functions: closures of the handler that take the token
		triggers := map[*ssa.Function]bool{}
		for _, cl := range ir.WithClosures(fn) {
			if cl != fn && len(takes(cl)) > 0 {
				triggers[cl] = true
				c.R.Funcs[c.nm(cl)] = true
			}
		}
		inline := map[ssa.Instruction]bool{}
		for _, t := range takes(fn) {
			inline[t] = true
		}
		isTrigger := func(in ssa.Instruction) bool {
			if inline[in] {
				return true
			}
			cc := ir.CallOf(in)
			if cc == nil || cc.IsInvoke() {
				return false
			}
			if _, isGo := in.(*ssa.Go); isGo {
				return false
			}
			hit := false
			ir.DerivesFrom(cc.Value, func(x ssa.Value) bool {
				if mc, ok := x.(*ssa.MakeClosure); ok {
					if f, ok := mc.Fn.(*ssa.Function); ok && triggers[f] {
						hit = true
					}
				}
				return hit
			})
			return hit
		}
		construct := c.nm(fn) + " | block events and ticks reach the rebroadcast trigger"
		if len(triggers) == 0 && len(inline) == 0 {
			c.fail(construct, c.P.Pos(fn.Pos()), "no non-blocking take of the rebroadcast semaphore found in broadcastHandler or its closures")
			return
		}
		notif := c.field("blockntfns", "Subscription", "Notifications")
		isNotifArm := func(sel *ssa.Select, st *ssa.SelectState) bool {
			return sel.Blocking && st.Dir == types.RecvOnly && loadsField(notif)(st.Chan)
		}
		tC := c.field("time", "Ticker", "C")
		isTickArm := func(sel *ssa.Select, st *ssa.SelectState) bool {
			return sel.Blocking && st.Dir == types.RecvOnly && loadsField(tC)(st.Chan)
		}
		// the edge on which the received-ok flag of the handler's select is false
		cut := ir.Cut{}
		ir.Instrs(fn, func(in ssa.Instruction) {
			sel, ok := in.(*ssa.Select)
			if !ok || !sel.Blocking {
				return
			}
			for _, r := range ir.Refs(sel) {
				if e, ok := r.(*ssa.Extract); ok && e.Index == 1 {
					for _, b := range ir.TrueBranches(e) {
						if b.Pol >= 0 || b.Flip().Pol >= 0 {
							cut[b.Other()] = true
						}
					}
				}
			}
		})
		c.mustFollowIter(fn, "block notification received", c.selectArms(fn, isNotifArm, "Notifications arm"), isTrigger, "the rebroadcast trigger (token take)", cut, 1)
		c.mustFollowIter(fn, "interval tick", c.selectArms(fn, isTickArm, "ticker arm"), isTrigger, "the rebroadcast trigger (token take)", nil, 1)
	})

	c.rule("C15.G1", "broadcastHandler: a transaction enters the pending set only if the broadcast returned no error or a Mempool error; a rejected broadcast is answered with its error; every request gets exactly one reply", func() {
		fn := c.fn(fnBHandler)
		txMap := c.pendingTxMap(fn)
		isPending := func(v ssa.Value) bool {
			return ir.DerivesFrom(v, func(x ssa.Value) bool { return x == txMap })
		}
		ins := find(fn, mapUpdate(isPending))
		bc := c.field("pushtx", "Config", "Broadcast")
		calls := find(fn, callVia(bc))
		gA := errNil("cfg.Broadcast(tx)", calls, 0)
		gB := boolIs("IsBroadcastError(err, Mempool)", find(fn, c.isBroadcastErrCall(c.pushtxConst("Mempool"))), 0, true)
		g := unionGuard("Broadcast err == nil || IsBroadcastError(err, Mempool)", gA, gB)
		c.guarded(fn, g, 2, "transactions[txid] = tx", ins, 1, gDominate)
		reply := sendOn(loadsField(c.field("pushtx", "broadcastReq", "errChan")))
		c.mustFollowIter(fn, "broadcast rejected (not a Mempool error)", c.failEdges(gB), reply, "req.errChan <- err", nil, 1)
		// the error replied on rejection is not nil-constant
		for _, s := range c.failEdges(gB) {
			ir.WalkCtx(s.b, s.idx, s.pred, ir.BackEdges(fn), func(in ssa.Instruction) bool {
				if snd, ok := in.(*ssa.Send); ok && reply(in) {
					c.verdict(!ir.IsNil(snd.X), c.nm(fn)+" | rejected broadcast is answered with the error", c.at(in), "non-nil reply", "a rejected broadcast is answered with nil (caller believes the transaction was accepted)", c.at(in))
					return false
				}
				return true
			})
		}
		// exactly one reply per request
		var header *ssa.BasicBlock
		ir.Instrs(fn, func(in ssa.Instruction) {
			if sel, ok := in.(*ssa.Select); ok && selectHasRecv(sel, loadsField(bf("broadcastReqs"))) {
				header = ir.LoopHeaderOf(in.Block())
			}
		})
		if header == nil {
			panic(anchorErr{"handler loop of broadcastHandler"})
		}
		// (where the configured broadcast function itself is found missing,
		// the "no" sent back stands in for the call that cannot be made)
		noFunc := map[*ssa.BasicBlock]bool{}
		ir.Instrs(fn, func(in ssa.Instruction) {
			bo, ok := in.(*ssa.BinOp)
			if !ok || (bo.Op != token.EQL && bo.Op != token.NEQ) {
				return
			}
			var v ssa.Value
			switch {
			case ir.IsNil(bo.Y):
				v = bo.X
			case ir.IsNil(bo.X):
				v = bo.Y
			default:
				return
			}
			if !loadsField(bc)(v) {
				return
			}
			for _, br := range ir.EqBranches(bo) {
				if br.Pol < 0 {
					continue
				}
				t := br.If.Block().Succs[br.Idx]
				if len(t.Preds) == 1 {
					noFunc[t] = true
				}
			}
		})
		refusal := func(in ssa.Instruction) bool {
			snd, ok := in.(*ssa.Send)
			if !ok || !reply(in) || !ir.KnownNonNil(snd.X) {
				return false
			}
			for t := range noFunc {
				if t == in.Block() || t.Dominates(in.Block()) {
					return true
				}
			}
			return false
		}
		c.pairedOnce(fn, header, reply, "reply on req.errChan", anyOf(callVia(bc), refusal), "cfg.Broadcast(req.tx)", 2)
		// confirmation removes from the pending set
		dels := find(fn, mapDelete(isPending))
		c.verdict(len(dels) == 1, c.nm(fn)+" | a confirmation removes the transaction from the pending set", c.P.Pos(fn.Pos()), "delete(transactions, txHash)", "confirmed transactions are no longer removed from the pending set", c.ats(dels)...)
		// the key is the transaction's own hash
		okKey := len(ins) == 1
		txHash := c.method(pWire, "MsgTx", "TxHash")
		for _, i := range ins {
			if !valIsCallTo(txHash)(i.(*ssa.MapUpdate).Key) {
				okKey = false
			}
		}
		c.verdict(okKey, c.nm(fn)+" | pending set keyed by tx.TxHash()", c.P.Pos(fn.Pos()), "key is the transaction hash", "the pending set is not keyed by the transaction's hash (confirmation could not remove it)")
	})

	c.rule("C15.V1", "rebroadcast sends the transactions in the order returned by wtxmgr.DependencySort (parents before children) and reports Confirmed ones on confChan", func() {
		fn := c.fn(fnRebroadcast)
		ds := c.funcObj(pWtxmgr, "DependencySort")
		bc := c.field("pushtx", "Config", "Broadcast")
		sorts := find(fn, callTo(ds))
		okv := len(sorts) == 1
		if okv {
			// the pending set handed in, or a map filled from a range over it
			// (entries left out are entries that hold no transaction)
			var isPending func(v ssa.Value, d int) bool
			isPending = func(v ssa.Value, d int) bool {
				v = ir.Strip(v)
				if v == ssa.Value(fn.Params[1]) {
					return true
				}
				if d > 3 {
					return false
				}
				switch x := v.(type) {
				case *ssa.Phi:
					for _, e := range x.Edges {
						if !isPending(e, d+1) {
							return false
						}
					}
					return len(x.Edges) > 0
				case *ssa.MakeMap:
					n := 0
					okAll := true
					ir.Instrs(fn, func(in ssa.Instruction) {
						mu, ok := in.(*ssa.MapUpdate)
						if !ok || ir.Strip(mu.Map) != ssa.Value(x) {
							return
						}
						n++
						fromRange := func(y ssa.Value) bool {
							return ir.DerivesFrom(y, func(z ssa.Value) bool {
								nx, ok := z.(*ssa.Next)
								if !ok {
									return false
								}
								rg, ok := nx.Iter.(*ssa.Range)
								return ok && ir.Strip(rg.X) == ssa.Value(fn.Params[1])
							})
						}
						if !fromRange(mu.Key) || !fromRange(mu.Value) {
							okAll = false
						}
					})
					return n > 0 && okAll
				}
				return false
			}
			okv = isPending(ir.CallOf(sorts[0]).Args[0], 0)
		}
		calls := find(fn, callVia(bc))
		for _, call := range calls {
			a := ir.CallOf(call).Args[0]
			if !ir.DerivesFrom(a, func(x ssa.Value) bool {
				ia, ok := x.(*ssa.IndexAddr)
				return ok && len(sorts) == 1 && ir.Strip(ia.X) == sorts[0].(ssa.Value)
			}) {
				okv = false
			}
		}
		c.verdict(okv && len(calls) == 1, c.nm(fn)+" | Broadcast(tx) for tx ranging over DependencySort(txs)", c.P.Pos(fn.Pos()), "iteration order is the dependency order", "rebroadcast no longer iterates the result of wtxmgr.DependencySort(txs) (children could be sent before their parents)", c.ats(append(sorts, calls...))...)
		gC := boolIs("IsBroadcastError(err, Confirmed)", find(fn, c.isBroadcastErrCall(c.pushtxConst("Confirmed"))), 0, true)
		// on the confirmation channel: the channel parameter (the handler
		// passes b.confChan, C15.P1) or the field itself
		confF := c.field("pushtx", "Broadcaster", "confChan")
		conf := anyOf(sendOn(func(v ssa.Value) bool {
			if len(fn.Params) <= 2 {
				return false
			}
			_, isChan := fn.Params[2].Type().Underlying().(*types.Chan)
			return isChan && isParam(fn, 2)(v)
		}), sendOn(loadsField(confF)))
		c.mustFollowIter(fn, "rebroadcast says Confirmed", c.successEdges(gC), conf, "confChan <- tx.TxHash()", nil, 1)
	})

	c.rule("C15.V3", "every pending transaction is part of every rebroadcast: in rebroadcast's loop over the dependency-sorted transactions each iteration reaches cfg.Broadcast(tx), the only way past it being the shutdown poll; no transaction is left out of a run because of what happened to another one in the same run (a child whose parent was refused this time is still sent: whether it is an orphan is for the peers to say, and a parent that keeps failing would otherwise keep its descendants from ever being rebroadcast)", func() {
		fn := c.fn(fnRebroadcast)
		bc := c.field("pushtx", "Config", "Broadcast")
		calls := find(fn, callVia(bc))
		if len(calls) != 1 {
			c.fail(c.nm(fn)+" | every transaction of the run reaches Broadcast", c.P.Pos(fn.Pos()), fmt.Sprintf("%d Broadcast call(s), 1 tabled", len(calls)))
			return
		}
		h := ir.LoopHeaderOf(calls[0].Block())
		if h == nil {
			c.fail(c.nm(fn)+" | every transaction of the run reaches Broadcast", c.at(calls[0]), "Broadcast is not called in a loop over the pending transactions")
			return
		}
		in := ir.LoopBlocks(h)
		var starts []start
		for i, sc := range h.Succs {
			if in[sc] {
				starts = append(starts, atEdge(c, ir.Edge{From: h, Succ: i}, "next pending transaction"))
			}
		}
		// the shutdown poll: the quit arm of a select on Broadcaster.quit
		quitF := c.field("pushtx", "Broadcaster", "quit")
		cut := ir.Cut{}
		ir.Instrs(fn, func(x ssa.Instruction) {
			sel, ok := x.(*ssa.Select)
			if !ok {
				return
			}
			for i, st := range sel.States {
				if st.Dir != types.RecvOnly || !loadsField(quitF)(st.Chan) {
					continue
				}
				for _, r := range ir.Refs(sel) {
					ex, isEx := r.(*ssa.Extract)
					if !isEx || ex.Index != 0 {
						continue
					}
					for _, ib := range ir.IntEqBranches(ex) {
						if ib.K == int64(i) {
							cut[ib.Edge()] = true
						}
					}
				}
			}
		})
		c.mustFollowIter(fn, "each pending transaction", starts, func(x ssa.Instruction) bool { return x == calls[0] }, "cfg.Broadcast(tx)", cut, 1)
	})

	c.rule("C15.P1", "at most one rebroadcast at a time: the trigger takes the single semaphore token (non-blocking) before it spawns the goroutine, hands it a copy of the pending set, and the goroutine gives the token back only after rebroadcast returned, on every path", func() {
		fn := c.fn(fnBHandler)
		// semaphore: chan struct{} made with capacity 1 in broadcastHandler
		var sem *ssa.MakeChan
		ir.Instrs(fn, func(in ssa.Instruction) {
			if mk, ok := in.(*ssa.MakeChan); ok {
				if k, isC := ir.ConstInt(mk.Size); isC && k == 1 {
					sem = mk
				}
			}
		})
		if sem == nil {
			panic(anchorErr{"rebroadcast semaphore (chan of capacity 1) in broadcastHandler"})
		}
		// spawner / worker pairs: a function (the handler itself, or a closure
		// of it) containing a `go` of a function literal; a spawner written out
		// at each of its call sites gives one pair per site
		type pair struct {
			trigger, worker *ssa.Function
			goIn            *ssa.Go
		}
		var pairs []pair
		for _, cl := range ir.WithClosures(fn) {
			for _, in := range find(cl, func(in ssa.Instruction) bool { _, ok := in.(*ssa.Go); return ok }) {
				if mc, ok := in.(*ssa.Go).Call.Value.(*ssa.MakeClosure); ok {
					if f, ok := mc.Fn.(*ssa.Function); ok {
						pairs = append(pairs, pair{cl, f, in.(*ssa.Go)})
					}
				}
			}
		}
		if len(pairs) == 0 {
			panic(anchorErr{"triggerRebroadcast closure and its goroutine in broadcastHandler"})
		}
		for _, pr := range pairs {
			trigger, worker, theGo := pr.trigger, pr.worker, pr.goIn
			c.R.Funcs[c.nm(trigger)] = true
			c.R.Funcs[c.nm(worker)] = true
			isSem := func(cl *ssa.Function) func(ssa.Value) bool {
				return func(v ssa.Value) bool {
					// a load of the free variable bound to the semaphore cell, or the channel itself
					return ir.DerivesFrom(v, func(x ssa.Value) bool {
						if x == ssa.Value(sem) {
							return true
						}
						fv, ok := x.(*ssa.FreeVar)
						return ok && fv.Type().String() == types.NewPointer(sem.Type()).String() || ok && fv.Type().String() == sem.Type().String()
					})
				}
			}
			// acquire: non-blocking select receiving from the semaphore
			var acq *ssa.Select
			ir.Instrs(trigger, func(in ssa.Instruction) {
				if sel, ok := in.(*ssa.Select); ok && !sel.Blocking && selectHasRecv(sel, isSem(trigger)) {
					// the acquisition this spawn lies behind: the nearest one
					// dominating the go statement
					if sel.Block() != theGo.Block() && !sel.Block().Dominates(theGo.Block()) {
						return
					}
					if acq == nil || acq.Block().Dominates(sel.Block()) {
						acq = sel
					}
				}
			})
			construct := c.nm(fn) + " | goroutine spawned only with the token held"
			if acq == nil {
				c.fail(construct, c.P.Pos(trigger.Pos()), "the trigger no longer takes the semaphore token with a non-blocking receive")
				continue
			}
			// edge taken when the receive arm fired (index 0)
			gs := guard{name: "token received"}
			for _, r := range ir.Refs(acq) {
				if e, ok := r.(*ssa.Extract); ok && e.Index == 0 {
					for _, ib := range ir.IntEqBranches(e) {
						if ib.K == 0 {
							gs.sites = append(gs.sites, guardSite{ib.Branch, acq})
						}
					}
				}
			}
			gos := []ssa.Instruction{theGo}
			c.guarded(trigger, gs, 1, "go rebroadcast", gos, 1, gDominate)
			// token balance in the trigger: once the token was taken, every path to
			// the trigger's exit either starts the goroutine (which gives it back) or
			// gives it back itself
			relT := sendOn(isSem(trigger))
			isGo := func(in ssa.Instruction) bool { _, ok := in.(*ssa.Go); return ok }
			c.mustFollow(trigger, "semaphore token taken", c.successEdges(gs), anyOf(isGo, relT), "go rebroadcast (releases later) / token release", nil, 1)
			// release after rebroadcast on every path
			reb := c.method("pushtx", "Broadcaster", "rebroadcast")
			rel := sendOn(isSem(worker))
			c.mustFollow(worker, "goroutine entry", []start{atEntry(worker)}, rel, "rebroadcastSem <- struct{}{}", nil, 1)
			c.mustPrecede(worker, callTo(reb), "b.rebroadcast(txs, confChan)", rel, "token release", 1)
			rels := find(worker, rel)
			c.verdict(len(rels) == 1, c.nm(worker)+" | the token is returned exactly once", c.P.Pos(worker.Pos()), "one release", fmt.Sprintf("%d releases of the semaphore token", len(rels)), c.ats(rels)...)
			// the goroutine works on a copy: it is given a map made in the trigger, filled with tx.Copy()
			okCopy := false
			cp := c.method(pWire, "MsgTx", "Copy")
			for _, call := range find(worker, callTo(reb)) {
				a := ir.CallOf(call).Args[1]
				// free var bound to a MakeMap of the trigger
				ir.DerivesFrom(a, func(x ssa.Value) bool {
					if fv, ok := x.(*ssa.FreeVar); ok {
						for _, g := range gos {
							mc := g.(*ssa.Go).Call.Value.(*ssa.MakeClosure)
							for i, b := range mc.Bindings {
								if worker.FreeVars[i] == fv {
									if mk, ok := b.(*ssa.MakeMap); ok && mk.Parent() == trigger {
										okCopy = true
									}
									if al, ok := b.(*ssa.Alloc); ok {
										for _, st := range ir.StoresTo(al) {
											if mk, ok := st.Val.(*ssa.MakeMap); ok && mk.Parent() == trigger {
												okCopy = true
											}
										}
									}
								}
							}
						}
					}
					return false
				})
			}
			nCopy := len(find(trigger, callTo(cp)))
			c.verdict(okCopy && nCopy >= 1, c.nm(trigger)+" | the rebroadcast goroutine gets a fresh copy of the pending set (tx.Copy())", c.P.Pos(trigger.Pos()), "fresh map with copied transactions", "the rebroadcast goroutine shares the handler's pending map or its transactions (data race / sees later mutations)")
		}
		// initial token: one send in broadcastHandler before the loop
		init := find(fn, sendOn(func(v ssa.Value) bool {
			return ir.DerivesFrom(v, func(x ssa.Value) bool { return x == ssa.Value(sem) })
		}))
		c.verdict(len(init) == 1, c.nm(fn)+" | semaphore starts with one token", c.P.Pos(fn.Pos()), "one initial token", fmt.Sprintf("%d initial tokens", len(init)), c.ats(init)...)
	})

	c.rule("C15.V2", "interval rebroadcasts are driven by a fixed-period ticker: the handler's select receives the interval signal from the C channel of one time.NewTicker(cfg.RebroadcastInterval) created before the loop (a per-iteration time.After restarts the countdown on every other event, so a busy handler never rebroadcasts between blocks)", func() {
		fn := c.fn(fnBHandler)
		nt := c.funcObj("time", "NewTicker")
		tC := c.field("time", "Ticker", "C")
		after := c.funcObj("time", "After")
		tickers := find(fn, callTo(nt))
		okTicker := len(tickers) == 1 && ir.LoopHeaderOf(tickers[0].Block()) == nil
		if okTicker {
			okTicker = loadsField(c.field("pushtx", "Config", "RebroadcastInterval"))(argsOf(tickers[0])[0])
		}
		c.verdict(okTicker, c.nm(fn)+" | one ticker with the configured interval, created before the loop", c.P.Pos(fn.Pos()), "time.NewTicker(b.cfg.RebroadcastInterval)", "the interval ticker is not created exactly once before the handler loop from cfg.RebroadcastInterval")
		nTick, nAfter := 0, 0
		ir.Instrs(fn, func(in ssa.Instruction) {
			sel, ok := in.(*ssa.Select)
			if !ok || ir.LoopHeaderOf(in.Block()) == nil {
				return
			}
			for _, st := range sel.States {
				if st.Dir != types.RecvOnly {
					continue
				}
				if okTicker && ir.DerivesFrom(st.Chan, func(v ssa.Value) bool {
					fa, ok := v.(*ssa.FieldAddr)
					return ok && ir.FieldOfAddr(fa) == tC && fa.X == tickers[0].(ssa.Value)
				}) {
					nTick++
				}
				if ir.DerivesFrom(st.Chan, valIsCallTo(after)) {
					nAfter++
				}
			}
		})
		c.verdict(nTick == 1 && nAfter == 0, c.nm(fn)+" | the loop waits on the ticker's channel", c.P.Pos(fn.Pos()), "case <-rebroadcastTicker.C", fmt.Sprintf("the handler loop has %d arm(s) on the ticker channel and %d on a per-iteration time.After", nTick, nAfter))
	})

	c.rule("C15.T3", "one key for a pending transaction: the handler files an accepted transaction under its txid (wire.MsgTx.TxHash), rebroadcast reports confirmed ones by TxHash, and every module caller of Broadcaster.MarkAsConfirmed passes a txid too (btcutil.Tx.Hash / MsgTx.TxHash, never the witness hash): the handler's delete must hit the entry the insert made, otherwise a transaction with witness data is rebroadcast for ever after it confirmed", func() {
		mark := c.method("pushtx", "Broadcaster", "MarkAsConfirmed")
		txHash := c.method(pWire, "MsgTx", "TxHash")
		utilHash := c.method(pBtcutil, "Tx", "Hash")
		isTxid := func(v ssa.Value) bool {
			return ir.DerivesFrom(v, func(x ssa.Value) bool { return valIsCallTo(txHash, utilHash)(x) })
		}
		wit := []*types.Func{c.P.Method(pWire, "MsgTx", "WitnessHash"), c.P.Method(pBtcutil, "Tx", "WitnessHash")}
		isWit := func(v ssa.Value) bool {
			return ir.DerivesFrom(v, func(x ssa.Value) bool {
				for _, w := range wit {
					if w != nil && valIsCallTo(w)(x) {
						return true
					}
				}
				return false
			})
		}
		n := 0
		for _, pr := range []*ir.Program{c.P} {
			for _, fn := range pr.Funcs {
				for _, in := range find(fn, callTo(mark)) {
					n++
					a := argsOf(in)
					okv := len(a) == 1 && isTxid(a[0]) && !isWit(a[0])
					c.verdict(okv, c.nm(fn)+" | MarkAsConfirmed is given the txid", c.at(in), "argument derives from Tx.Hash() / MsgTx.TxHash()", "MarkAsConfirmed is called with something other than the transaction's txid (the pending set is keyed by TxHash): the confirmation misses the pending entry", c.at(in))
				}
			}
		}
		c.verdict(n >= 1, "module | callers of Broadcaster.MarkAsConfirmed", "", fmt.Sprintf("%d call(s)", n), "no caller of MarkAsConfirmed found (the rescan reports confirmations in the pinned tree)")
		// the pending set's insert key and rebroadcast's report
		bh := c.fn("(*pushtx.Broadcaster).broadcastHandler")
		ins := 0
		ir.Instrs(bh, func(in ssa.Instruction) {
			mu, ok := in.(*ssa.MapUpdate)
			if !ok {
				return
			}
			pend := c.pendingTxMap(bh)
			if !ir.DerivesFrom(mu.Map, func(x ssa.Value) bool { return x == pend }) {
				return
			}
			ins++
			c.verdict(isTxid(mu.Key) && !isWit(mu.Key), c.nm(bh)+" | pending set keyed by TxHash()", c.at(in), "key = req.tx.TxHash()", "the pending set is keyed by something other than the transaction's txid", c.at(in))
		})
		c.verdict(ins >= 1, c.nm(bh)+" | pending set insert", c.P.Pos(bh.Pos()), fmt.Sprintf("%d insert(s)", ins), "no insert into the pending set found")
		rb := c.fn("(*pushtx.Broadcaster).rebroadcast")
		for _, in := range find(rb, func(in ssa.Instruction) bool {
			sel, ok := in.(*ssa.Select)
			return ok && len(sel.States) > 0
		}) {
			for _, st := range in.(*ssa.Select).States {
				if st.Dir == types.SendOnly {
					c.verdict(isTxid(st.Send) && !isWit(st.Send), c.nm(rb)+" | confirmed transactions are reported by TxHash()", c.at(in), "confChan <- tx.TxHash()", "rebroadcast reports a confirmed transaction under something other than its txid", c.at(in))
				}
			}
		}
	})

	c.rule("C15.T2", "the broadcaster recognises the verdicts the client produces: pushtx.IsBroadcastError classifies an error by asserting its dynamic type (*BroadcastError), so every error the Broadcast callback (ChainService.sendTransaction and the closure wired into pushtx.Config.Broadcast) returns that stems from a peer's reject must be that *BroadcastError itself, not a wrapped error (the two sides agree: assertion-based classifier <-> unwrapped producer; an errors.As-based classifier would admit wrapping)", func() {
		c.graph()
		be := c.P.Named("pushtx", "BroadcastError")
		isBEType := func(t types.Type) bool {
			p, ok := t.(*types.Pointer)
			return ok && be != nil && types.Identical(p.Elem(), be)
		}
		// classifier
		cls := c.fn("pushtx.IsBroadcastError")
		asserts, unwraps := 0, 0
		ir.Instrs(cls, func(in ssa.Instruction) {
			if ta, ok := in.(*ssa.TypeAssert); ok && isBEType(ta.AssertedType) && ta.X == ssa.Value(cls.Params[0]) {
				asserts++
			}
			if cc := ir.CallOf(in); cc != nil {
				if cal := ir.Resolve(cc); cal.Func != nil && cal.Func.Pkg() != nil && cal.Func.Pkg().Path() == "errors" && (cal.Func.Name() == "As" || cal.Func.Name() == "Unwrap") {
					unwraps++
				}
			}
		})
		byAssertion := asserts >= 1 && unwraps == 0
		c.verdict(asserts >= 1 || unwraps >= 1, c.nm(cls)+" | how a broadcast error is recognised", c.P.Pos(cls.Pos()), fmt.Sprintf("type assertion on the error itself: %v; errors.As/Unwrap: %v", asserts >= 1, unwraps >= 1), "IsBroadcastError neither asserts *BroadcastError nor unwraps")
		// producers: the functions wired into Config.Broadcast and the module functions whose result they return
		var prods []*ssa.Function
		seen := map[*ssa.Function]bool{}
		var addProd func(f *ssa.Function, depth int)
		addProd = func(f *ssa.Function, depth int) {
			if f == nil || seen[f] || depth > 2 {
				return
			}
			seen[f] = true
			prods = append(prods, f)
			for _, r := range find(f, isExit) {
				res := r.(*ssa.Return).Results
				if len(res) == 0 {
					continue
				}
				if call, ok := ir.RetVal(r.(*ssa.Return), len(res)-1).(*ssa.Call); ok {
					if cal := ir.Resolve(call.Common()); cal.Fn != nil && c.isModFn[cal.Fn] {
						addProd(cal.Fn, depth+1)
					}
				}
			}
		}
		bf := c.field("pushtx", "Config", "Broadcast")
		for _, f := range c.P.Funcs {
			for _, st := range find(f, storeToField(bf)) {
				for _, t := range c.valueFuncs(st.(*ssa.Store).Val, 0) {
					addProd(t, 0)
				}
			}
		}
		var bad, sites []string
		nRej := 0
		for _, f := range prods {
			// reject-derived values inside f: *BroadcastError values boxed into an
			// error, or results of f's own closures that return such values
			retBE := map[*ssa.Function]bool{}
			for _, a := range f.AnonFuncs {
				for _, r := range find(a, isExit) {
					for _, v := range r.(*ssa.Return).Results {
						if mi, ok := v.(*ssa.MakeInterface); ok && isBEType(mi.X.Type()) {
							retBE[a] = true
						}
					}
				}
			}
			src := func(v ssa.Value) bool {
				if mi, ok := v.(*ssa.MakeInterface); ok && isBEType(mi.X.Type()) {
					return true
				}
				if call, ok := v.(*ssa.Call); ok {
					for _, t := range c.valueFuncs(call.Call.Value, 0) {
						if retBE[t] {
							return true
						}
					}
				}
				return false
			}
			for _, r := range find(f, isExit) {
				res := r.(*ssa.Return).Results
				if len(res) == 0 {
					continue
				}
				v := ir.RetVal(r.(*ssa.Return), len(res)-1)
				if !ir.InfluencedBy(v, src) {
					continue
				}
				nRej++
				sites = append(sites, c.nm(f)+"@"+c.at(r))
				if byAssertion && !ir.DerivesFrom(v, src) {
					bad = append(bad, "return at "+c.at(r)+" in "+c.nm(f)+" wraps the peer's reject in another error: IsBroadcastError (a plain type assertion) no longer recognises Mempool/Confirmed verdicts, so the transaction is not tracked / not retired")
				}
			}
		}
		sort.Strings(bad)
		c.verdict(len(bad) == 0 && nRej >= 2 && len(prods) >= 2, "Broadcast callback | reject verdicts reach the broadcaster unwrapped", "-", fmt.Sprintf("%d producer function(s), %d reject-derived return(s), all returned as *BroadcastError", len(prods), nRej), join(bad)+fmt.Sprintf(" (%d producers, %d reject-derived returns)", len(prods), nRej), sites...)
	})

	c.rule("C15.G2", "the verdict of a broadcast counts only what peers said about this transaction: in sendTransaction's response callback a peer enters the set of peers that replied only behind the comparison of a requested inventory hash with the transaction's hash (vec.Hash == txHash), and a rejection is recorded only behind response.Hash == txHash; a peer that asks for something else must not dilute the rejections of the peers that did ask for the transaction (all of them rejecting is the verdict that keeps a rejected transaction out of the rebroadcast set)", func() {
		fn := c.fn(fnSendTx)
		hashT := c.P.Named(pChainhash, "Hash")
		var bad []string
		n := 0
		for _, cl := range fn.AnonFuncs {
			isTxHash := func(v ssa.Value) bool {
				return ir.DerivesFrom(v, func(x ssa.Value) bool {
					fv, ok := x.(*ssa.FreeVar)
					if !ok {
						return false
					}
					p, ok := fv.Type().(*types.Pointer)
					return ok && types.Identical(p.Elem(), hashT)
				})
			}
			for _, spec := range []struct {
				what  string
				field *types.Var
				isMap func(*types.Map) bool
			}{
				{"replies (vec.Hash == txHash)", c.field(pWire, "InvVect", "Hash"), func(m *types.Map) bool {
					st, ok := m.Elem().Underlying().(*types.Struct)
					return ok && st.NumFields() == 0
				}},
				{"rejections (response.Hash == txHash)", c.field(pWire, "MsgReject", "Hash"), func(m *types.Map) bool {
					p, ok := m.Elem().(*types.Pointer)
					return ok && namedTypeIs(p.Elem(), ir.ModPath+"/pushtx", "BroadcastError")
				}},
			} {
				var effects []ssa.Instruction
				ir.Instrs(cl, func(in ssa.Instruction) {
					if mu, ok := in.(*ssa.MapUpdate); ok {
						if m, ok := mu.Map.Type().Underlying().(*types.Map); ok && spec.isMap(m) {
							effects = append(effects, in)
						}
					}
				})
				if len(effects) == 0 {
					continue
				}
				n++
				field := spec.field
				cmps := find(cl, binops(eqOps, func(v ssa.Value) bool { return isLoadOfPath(v, field) }, isTxHash))
				g := equalIs(spec.what, cmps, true)
				if !c.guarded(cl, g, 1, "count the peer in "+spec.what, effects, 1, gDominate) {
					bad = append(bad, spec.what)
				}
			}
		}
		c.verdict(n == 2, c.nm(fn)+" | the callback records replies and rejections", c.P.Pos(fn.Pos()), "both sets are filled in the response callback", fmt.Sprintf("%d of the two sets (replies, rejections) are filled in a response callback of sendTransaction", n))
		_ = bad
	})

	c.rule("C15.T1", "verdict of the broadcast query: an error is returned only when every replying peer rejected, or when the invalid ratio reaches the threshold (>=); the reject classification maps the tabled reject codes / reason fragments to their codes (Mempool and Confirmed fragments in particular)", func() {
		fn := c.fn(fnSendTx)
		var nonNil []ssa.Instruction
		for _, in := range find(fn, isExit) {
			if !ir.IsNil(ir.RetVal(in.(*ssa.Return), 0)) {
				nonNil = append(nonNil, in)
			}
		}
		var lenEq, ratio []ssa.Instruction
		ir.Instrs(fn, func(in ssa.Instruction) {
			b, ok := in.(*ssa.BinOp)
			if !ok {
				return
			}
			cx, okx := b.X.(*ssa.Call)
			cy, oky := b.Y.(*ssa.Call)
			if (b.Op == token.EQL || b.Op == token.NEQ) && okx && oky && isBuiltin("len")(cx) && isBuiltin("len")(cy) {
				lenEq = append(lenEq, in)
			}
			if q, ok := b.X.(*ssa.BinOp); ok && q.Op == token.QUO && loadsField(c.field("neutrino", "queryOptions", "invalidTxThreshold"))(b.Y) {
				ratio = append(ratio, in)
			}
		})
		thr := loadsField(c.field("neutrino", "queryOptions", "invalidTxThreshold"))
		isRatio := func(v ssa.Value) bool { q, ok := v.(*ssa.BinOp); return ok && q.Op == token.QUO }
		gB, odd := relGuard("numInvalid/numPeersResponded >= threshold", fn, isRatio, thr, token.GEQ)
		okShape := len(odd) == 0 && gB.found == 1
		c.verdict(okShape, c.nm(fn)+" | invalid ratio compared with `>=` against the threshold", c.P.Pos(fn.Pos()), "numInvalid/numPeersResponded >= qo.invalidTxThreshold (in any equivalent form)", "the invalid-ratio comparison is missing or is not equivalent to ratio >= threshold (a ratio equal to the threshold must reject): "+join(odd), c.ats(ratio)...)
		// "reaches" includes the boundary: the share and the threshold are
		// rounded alike. The threshold is kept in a narrow float type; the
		// quotient computed in that type rounds to the threshold exactly when
		// the true share equals it. Widening the stored threshold instead
		// (0.6 as float32 is 0.60000002..) puts it above a share of exactly
		// 3/5 computed in the wider type, and `>=` quietly behaves like `>`.
		thrT := c.field("neutrino", "queryOptions", "invalidTxThreshold").Type()
		for _, st := range gB.sites {
			bo, isB := st.site.(*ssa.BinOp)
			if !isB {
				continue
			}
			same := types.Identical(bo.X.Type().Underlying(), thrT.Underlying()) && types.Identical(bo.Y.Type().Underlying(), thrT.Underlying())
			c.verdict(same, c.nm(fn)+" | share and threshold are compared in the threshold's own precision", c.at(bo), "both operands have the type the threshold is stored in ("+thrT.String()+")", "the share is compared with the threshold in "+bo.X.Type().String()+" while the threshold is stored as "+thrT.String()+": a share exactly at the threshold no longer reaches it", c.at(bo))
		}
		gA := equalIs("len(replies) vs len(rejections)", lenEq, true)
		g := guard{name: "all repliers rejected || invalid ratio >= threshold", sites: append(append([]guardSite{}, gA.sites...), gB.sites...), unchecked: append(gA.unchecked, gB.unchecked...)}
		c.guarded(fn, g, 2, "return a broadcast error", nonNil, 2, gDominate)

		pf := c.fn(fnParseBErr)
		want := map[string]string{
			"txn-mempool-conflict": "Invalid", "txn-already-in-mempool": "Mempool", "txn-already-known": "Confirmed",
			"already spent": "Invalid", "already have transaction": "Mempool", "transaction already exists": "Confirmed",
		}
		contains := c.funcObj("strings", "Contains")
		got := map[string]int64{}
		ir.Instrs(pf, func(in ssa.Instruction) {
			call, ok := in.(*ssa.Call)
			if !ok || !callTo(contains)(call) {
				return
			}
			k, ok := call.Call.Args[1].(*ssa.Const)
			if !ok || k.Value == nil || k.Value.Kind() != constant.String {
				return
			}
			frag := constant.StringVal(k.Value)
			for _, br := range ir.TrueBranches(call) {
				tgt := br.If.Block().Succs[br.Idx]
				// the code chosen on this edge: the phi edge coming from tgt (or through it)
				ir.Instrs(pf, func(x ssa.Instruction) {
					phi, ok := x.(*ssa.Phi)
					if !ok || !types.Identical(phi.Type(), c.P.Named("pushtx", "BroadcastErrorCode")) {
						return
					}
					for i, p := range phi.Block().Preds {
						if p == tgt {
							if v, isC := ir.ConstInt(phi.Edges[i]); isC {
								got[frag] = v
							}
						}
					}
				})
			}
		})
		var bad, sites []string
		for frag, code := range want {
			sites = append(sites, frag+"=>"+code)
			v, ok := got[frag]
			if !ok {
				bad = append(bad, fmt.Sprintf("reason fragment %q is no longer classified", frag))
			} else if v != c.pushtxConst(code) {
				bad = append(bad, fmt.Sprintf("reason fragment %q is classified as code %d, want %s", frag, v, code))
			}
		}
		sort.Strings(bad)
		sort.Strings(sites)
		c.verdict(len(bad) == 0, c.nm(pf)+" | duplicate-reject reason fragments map to the tabled codes", c.P.Pos(pf.Pos()), "6 fragments classified as tabled", join(bad), sites...)
		// reject codes consulted
		codes := map[int64]bool{}
		ir.Instrs(pf, func(in ssa.Instruction) {
			b, ok := in.(*ssa.BinOp)
			if !ok || b.Op != token.EQL {
				return
			}
			if k, isC := ir.ConstInt(b.Y); isC && loadsField(c.field(pWire, "MsgReject", "Code"))(b.X) {
				codes[k] = true
			}
		})
		wireConst := func(n string) int64 {
			k, ok := c.P.Pkg(pWire).Scope().Lookup(n).(*types.Const)
			if !ok {
				panic(anchorErr{"wire." + n})
			}
			v, _ := constant.Int64Val(k.Val())
			return v
		}
		var miss []string
		for _, n := range []string{"RejectInvalid", "RejectNonstandard", "RejectInsufficientFee", "RejectDuplicate"} {
			if !codes[wireConst(n)] {
				miss = append(miss, n)
			}
		}
		c.verdict(len(miss) == 0, c.nm(pf)+" | reject codes Invalid/Nonstandard/InsufficientFee/Duplicate are all classified", c.P.Pos(pf.Pos()), "4 reject codes consulted", "reject code(s) no longer classified: "+join(miss))
	})
}

// pendingTxMap finds the handler's pending set: the map[Hash]*wire.MsgTx made
// in fn from which confirmed transactions are deleted (the per-rebroadcast
// copy handed to the goroutine is of the same type but is never deleted
// from); with no delete at all, the one made outside every loop.
func (c *Ctx) pendingTxMap(fn *ssa.Function) ssa.Value {
	var all, deleted, outside []ssa.Value
	ir.Instrs(fn, func(in ssa.Instruction) {
		mk, ok := in.(*ssa.MakeMap)
		if !ok {
			return
		}
		m := mk.Type().Underlying().(*types.Map)
		p, ok := m.Elem().(*types.Pointer)
		if !ok || p.Elem().String() != c.P.Named(pWire, "MsgTx").String() {
			return
		}
		all = append(all, mk)
		if ir.LoopHeaderOf(mk.Block()) == nil {
			outside = append(outside, mk)
		}
		if len(find(fn, mapDelete(func(v ssa.Value) bool {
			return ir.DerivesFrom(v, func(x ssa.Value) bool { return x == ssa.Value(mk) })
		}))) > 0 {
			deleted = append(deleted, mk)
		}
	})
	switch {
	case len(deleted) == 1:
		return deleted[0]
	case len(deleted) == 0 && len(outside) == 1:
		return outside[0]
	case len(all) == 1:
		return all[0]
	}
	panic(anchorErr{"the pending-transactions map of broadcastHandler"})
}
