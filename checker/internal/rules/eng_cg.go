package rules

import (
	"go/types"
	"sort"

	"golang.org/x/tools/go/ssa"

	"verif/checker/internal/ir"
)

// ---- module-local call graph ----
//
// Edges from a function F (calls started with `go` are NOT edges: they begin
// another goroutine):
//   - static callees that are module source functions (bound-method and
//     wrapper thunks looked through);
//   - interface method calls: every module method implementing the method;
//   - calls through a func-typed struct field: every function / closure /
//     method value ever stored into that field anywhere in the module;
//   - calls of a func-typed parameter: every function value passed at that
//     position at a module call site of F;
//   - function literals created in F and handed to a function outside the
//     module (walletdb.Update, sync.Once.Do, ...) or deferred: assumed to run
//     synchronously in F;
//   - the String / Error / Format / GoString method of a module type whose
//     value F converts to an interface (what fmt and the loggers call).
type callGraph struct {
	out map[*ssa.Function][]*ssa.Function
	// goTargets: functions started by `go` statements, with the statement.
	goSites []goSite
}

type goSite struct {
	in      *ssa.Go
	fn      *ssa.Function // function containing the go statement
	targets []*ssa.Function
	ext     string // external callee name when the target is not a module function
}

// funcsOfValue: module source functions a value may denote (function, closure,
// bound method), without data-flow beyond the immediate construction.
func (c *Ctx) funcsOfValue(v ssa.Value) []*ssa.Function {
	switch x := v.(type) {
	case *ssa.Function:
		return c.srcFunc(x)
	case *ssa.MakeClosure:
		if f, ok := x.Fn.(*ssa.Function); ok {
			return c.srcFunc(f)
		}
	case *ssa.ChangeType:
		return c.funcsOfValue(x.X)
	case *ssa.MakeInterface:
		return c.funcsOfValue(x.X)
	}
	return nil
}

// srcFunc maps an ssa function (possibly a synthetic wrapper / instantiation)
// to the module source function(s) it stands for.
func (c *Ctx) srcFunc(f *ssa.Function) []*ssa.Function {
	if f == nil {
		return nil
	}
	if o := f.Origin(); o != nil {
		f = o
	}
	if f.Synthetic == "" {
		if c.isModFn[f] {
			return []*ssa.Function{f}
		}
		return nil
	}
	// wrapper: resolve through its declared object
	if obj, ok := f.Object().(*types.Func); ok {
		obj = obj.Origin()
		if g := c.byObj[obj]; g != nil {
			return []*ssa.Function{g}
		}
		// bound interface method: all implementations
		return c.implsOf(obj)
	}
	return nil
}

func (c *Ctx) implsOf(im *types.Func) []*ssa.Function {
	if r, ok := c.implCache[im]; ok {
		return r
	}
	sig, _ := im.Type().(*types.Signature)
	if sig == nil || sig.Recv() == nil {
		return nil
	}
	iface, _ := sig.Recv().Type().Underlying().(*types.Interface)
	if iface == nil {
		return nil
	}
	seen := map[*ssa.Function]bool{}
	var out []*ssa.Function
	for _, pk := range c.P.Mod {
		scope := pk.Types.Scope()
		for _, name := range scope.Names() {
			tn, ok := scope.Lookup(name).(*types.TypeName)
			if !ok || tn.IsAlias() {
				continue
			}
			named, ok := tn.Type().(*types.Named)
			if !ok || named.TypeParams().Len() > 0 {
				continue
			}
			if _, isIface := named.Underlying().(*types.Interface); isIface {
				continue
			}
			for _, t := range []types.Type{named, types.NewPointer(named)} {
				if !types.Implements(t, iface) {
					continue
				}
				sel := types.NewMethodSet(t).Lookup(im.Pkg(), im.Name())
				if sel == nil {
					continue
				}
				if obj, ok := sel.Obj().(*types.Func); ok {
					if fn := c.byObj[obj.Origin()]; fn != nil && !seen[fn] {
						seen[fn] = true
						out = append(out, fn)
					}
				}
			}
		}
	}
	// generic module types (chanutils) are matched by method identity
	for obj, fn := range c.byObj {
		if !seen[fn] && ir.Implements(obj, im) {
			seen[fn] = true
			out = append(out, fn)
		}
	}
	sort.Slice(out, func(i, j int) bool { return c.nm(out[i]) < c.nm(out[j]) })
	if c.implCache == nil {
		c.implCache = map[*types.Func][]*ssa.Function{}
	}
	c.implCache[im] = out
	return out
}

func (c *Ctx) graph() *callGraph {
	if c.cg != nil {
		return c.cg
	}
	c.isModFn = map[*ssa.Function]bool{}
	c.byObj = map[*types.Func]*ssa.Function{}
	for _, fn := range c.P.Funcs {
		c.isModFn[fn] = true
		if obj, ok := fn.Object().(*types.Func); ok && fn.Parent() == nil {
			c.byObj[obj.Origin()] = fn
		}
	}
	g := &callGraph{out: map[*ssa.Function][]*ssa.Function{}}
	// values stored into func-typed fields
	fieldFuncs := map[*types.Var][]*ssa.Function{}
	for _, fn := range c.P.Funcs {
		ir.Instrs(fn, func(in ssa.Instruction) {
			st, ok := in.(*ssa.Store)
			if !ok {
				return
			}
			fa, ok := st.Addr.(*ssa.FieldAddr)
			if !ok {
				return
			}
			if _, isSig := st.Val.Type().Underlying().(*types.Signature); !isSig {
				return
			}
			f := ir.FieldOfAddr(fa)
			fieldFuncs[f] = append(fieldFuncs[f], c.valueFuncs(st.Val, 0)...)
		})
	}
	// function values passed as arguments to module functions
	paramFuncs := map[*ssa.Parameter][]*ssa.Function{}
	for _, fn := range c.P.Funcs {
		ir.Instrs(fn, func(in ssa.Instruction) {
			cc := ir.CallOf(in)
			if cc == nil {
				return
			}
			cal := ir.Resolve(cc)
			if cal.Fn == nil || !c.isModFn[cal.Fn] {
				return
			}
			for i, a := range cc.Args {
				if i >= len(cal.Fn.Params) {
					break
				}
				if _, isSig := a.Type().Underlying().(*types.Signature); !isSig {
					continue
				}
				paramFuncs[cal.Fn.Params[i]] = append(paramFuncs[cal.Fn.Params[i]], c.valueFuncs(a, 0)...)
			}
		})
	}
	add := func(from *ssa.Function, to ...*ssa.Function) {
		for _, t := range to {
			if t != nil && t != from {
				g.out[from] = append(g.out[from], t)
			}
		}
	}
	for _, fn := range c.P.Funcs {
		fn := fn
		ir.Instrs(fn, func(in ssa.Instruction) {
			ci, ok := in.(ssa.CallInstruction)
			if !ok {
				return
			}
			cc := ci.Common()
			var targets []*ssa.Function
			ext := ""
			switch {
			case cc.IsInvoke():
				targets = c.implsOf(cc.Method.Origin())
				if len(targets) == 0 {
					ext = cc.Method.FullName()
				}
			case cc.StaticCallee() != nil:
				targets = c.srcFunc(cc.StaticCallee())
				if len(targets) == 0 {
					ext = cc.StaticCallee().String()
				}
			default:
				switch v := cc.Value.(type) {
				case *ssa.Parameter:
					targets = paramFuncs[v]
				default:
					if f := ir.FieldOfValue(cc.Value); f != nil {
						targets = fieldFuncs[f]
					} else {
						targets = c.valueFuncs(cc.Value, 0)
					}
				}
			}
			if g, isGo := in.(*ssa.Go); isGo {
				c.cgGo = append(c.cgGo, goSite{g, fn, targets, ext})
				return
			}
			add(fn, targets...)
			// closures handed to code outside the module run synchronously
			if len(targets) == 0 || ext != "" {
				for _, a := range cc.Args {
					if _, isSig := a.Type().Underlying().(*types.Signature); isSig {
						add(fn, c.valueFuncs(a, 0)...)
					}
				}
			}
		})
	}
	// formatting methods: a value handed to fmt / a logger as an interface has
	// its String / Error / Format / GoString method called by the formatter,
	// in the caller's goroutine (btclog and fmt format synchronously)
	for _, fn := range c.P.Funcs {
		fn := fn
		ir.Instrs(fn, func(in ssa.Instruction) {
			mi, ok := in.(*ssa.MakeInterface)
			if !ok {
				return
			}
			t := mi.X.Type()
			base := t
			if p, ok := base.(*types.Pointer); ok {
				base = p.Elem()
			}
			n, ok := base.(*types.Named)
			if !ok || n.Obj().Pkg() == nil || !c.P.IsModPkg(n.Obj().Pkg()) {
				return
			}
			ms := types.NewMethodSet(t)
			for _, name := range []string{"String", "Error", "Format", "GoString"} {
				sel := ms.Lookup(n.Obj().Pkg(), name)
				if sel == nil {
					continue
				}
				if m, ok := sel.Obj().(*types.Func); ok {
					if target := c.byObj[m.Origin()]; target != nil {
						add(fn, target)
					}
				}
			}
		})
	}
	for f, ts := range g.out {
		seen := map[*ssa.Function]bool{}
		var u []*ssa.Function
		for _, t := range ts {
			if !seen[t] {
				seen[t] = true
				u = append(u, t)
			}
		}
		sort.Slice(u, func(i, j int) bool { return c.nm(u[i]) < c.nm(u[j]) })
		g.out[f] = u
	}
	g.goSites = c.cgGo
	c.cg = g
	return g
}

// valueFuncs: module functions a func-typed value may denote, following
// phis, loads of local cells and free variables a few steps.
func (c *Ctx) valueFuncs(v ssa.Value, depth int) []*ssa.Function {
	if depth > 6 {
		return nil
	}
	if fs := c.funcsOfValue(v); fs != nil {
		return fs
	}
	var out []*ssa.Function
	switch x := v.(type) {
	case *ssa.Phi:
		for _, e := range x.Edges {
			out = append(out, c.valueFuncs(e, depth+1)...)
		}
	case *ssa.UnOp:
		switch a := x.X.(type) {
		case *ssa.Alloc:
			for _, st := range ir.StoresTo(a) {
				out = append(out, c.valueFuncs(st.Val, depth+1)...)
			}
		case *ssa.FreeVar:
			// binding in the parent's MakeClosure
			fn := a.Parent()
			if p := fn.Parent(); p != nil {
				ir.Instrs(p, func(in ssa.Instruction) {
					mc, ok := in.(*ssa.MakeClosure)
					if !ok || mc.Fn != ssa.Value(fn) {
						return
					}
					for i, b := range mc.Bindings {
						if fn.FreeVars[i] == a {
							if al, ok := b.(*ssa.Alloc); ok {
								for _, st := range ir.StoresTo(al) {
									out = append(out, c.valueFuncs(st.Val, depth+1)...)
								}
							}
						}
					}
				})
			}
		}
	}
	return out
}

// reachable returns the functions reachable from the roots over call-graph
// edges (roots included).
func (c *Ctx) reachable(roots ...*ssa.Function) map[*ssa.Function]bool {
	g := c.graph()
	seen := map[*ssa.Function]bool{}
	stack := append([]*ssa.Function{}, roots...)
	for len(stack) > 0 {
		f := stack[len(stack)-1]
		stack = stack[:len(stack)-1]
		if f == nil || seen[f] {
			continue
		}
		seen[f] = true
		stack = append(stack, g.out[f]...)
	}
	return seen
}

// pathTo returns one call path root -> ... -> target for diagnostics.
func (c *Ctx) pathTo(root, target *ssa.Function) []string {
	g := c.graph()
	prev := map[*ssa.Function]*ssa.Function{root: nil}
	queue := []*ssa.Function{root}
	for len(queue) > 0 {
		f := queue[0]
		queue = queue[1:]
		if f == target {
			break
		}
		for _, t := range g.out[f] {
			if _, ok := prev[t]; !ok {
				prev[t] = f
				queue = append(queue, t)
			}
		}
	}
	if _, ok := prev[target]; !ok {
		return nil
	}
	var path []string
	for f := target; f != nil; f = prev[f] {
		path = append([]string{c.nm(f)}, path...)
	}
	return path
}

// reachableWithout: functions reachable from root by synchronous calls when
// the function skip (and everything only it leads to) is left out.
func (c *Ctx) reachableWithout(root, skip *ssa.Function) map[*ssa.Function]bool {
	g := c.graph()
	seen := map[*ssa.Function]bool{}
	stack := []*ssa.Function{root}
	for len(stack) > 0 {
		f := stack[len(stack)-1]
		stack = stack[:len(stack)-1]
		if seen[f] || f == skip {
			continue
		}
		seen[f] = true
		stack = append(stack, g.out[f]...)
	}
	return seen
}
