package rules

import (
	"fmt"
	"go/token"
	"go/types"
	"sort"
	"strings"

	"golang.org/x/tools/go/ssa"

	"verif/checker/internal/ir"
)

// ---- engine L: guarded-by ----

// gField is one row of a guarded-by table.
type gField struct {
	field *types.Var
	mutex *types.Var
	// mutators: methods of the field's value whose call counts as a write
	// (container fields: list.Remove, heap.Push ...). A store to the field or
	// to anything addressed through it is always a write.
	mutators map[string]bool
	// exempt: function name -> reason (constructors before publication,
	// functions tabled as pre-start). One symbol, one reason.
	exempt map[string]string
	// readersNoLock: function name -> reason why a lock-free READ is fine
	// there (the function runs in the field's single writer goroutine).
	readersNoLock map[string]string
}

// access kinds
const (
	accRead  = "read"
	accWrite = "write"
)

type fieldAccess struct {
	in   ssa.Instruction
	kind string
	fn   *ssa.Function
}

// accessesOf lists accesses to field f in fn.
func accessesOf(fn *ssa.Function, f *types.Var, mutators map[string]bool) []fieldAccess {
	var out []fieldAccess
	ir.Instrs(fn, func(in ssa.Instruction) {
		var addr ssa.Value
		switch x := in.(type) {
		case *ssa.FieldAddr:
			if ir.FieldOfAddr(x) != f {
				return
			}
			addr = x
		case *ssa.Field:
			if ir.FieldOfValue(x) != f {
				return
			}
			out = append(out, fieldAccess{in, accRead, fn})
			return
		default:
			return
		}
		out = append(out, fieldAccess{in, classifyAccess(addr, mutators, 0), fn})
	})
	return out
}

// classifyAccess decides whether the uses of an address amount to a write.
func classifyAccess(addr ssa.Value, mutators map[string]bool, depth int) string {
	if depth > 4 {
		return accWrite
	}
	kind := accRead
	for _, r := range ir.Refs(addr) {
		switch x := r.(type) {
		case *ssa.Store:
			if x.Addr == addr {
				return accWrite
			}
		case *ssa.FieldAddr:
			if x.X == addr && classifyAccess(x, mutators, depth+1) == accWrite {
				return accWrite
			}
		case *ssa.IndexAddr:
			if x.X == addr && classifyAccess(x, mutators, depth+1) == accWrite {
				return accWrite
			}
		case *ssa.UnOp:
			if x.Op != token.MUL || x.X != addr {
				continue
			}
			// loaded value: receiver of a mutator call, map update, or
			// further addressing that is written through
			for _, rr := range ir.Refs(x) {
				switch y := rr.(type) {
				case ssa.CallInstruction:
					if isMutatorCall(y, x, mutators) {
						return accWrite
					}
				case *ssa.MapUpdate:
					if y.Map == ssa.Value(x) {
						return accWrite
					}
				case *ssa.FieldAddr:
					if y.X == ssa.Value(x) && classifyAccess(y, mutators, depth+1) == accWrite {
						return accWrite
					}
				case *ssa.IndexAddr:
					if y.X == ssa.Value(x) && classifyAccess(y, mutators, depth+1) == accWrite {
						return accWrite
					}
				}
			}
		case ssa.CallInstruction:
			// address passed as receiver/argument: pointer-receiver method
			if isMutatorCall(x, addr, mutators) {
				return accWrite
			}
			if cc := x.Common(); isBuiltinName(cc, "delete") {
				return accWrite
			}
		}
	}
	return kind
}

func isBuiltinName(cc *ssa.CallCommon, name string) bool {
	b, ok := cc.Value.(*ssa.Builtin)
	return ok && b.Name() == name
}

func isMutatorCall(ci ssa.CallInstruction, recv ssa.Value, mutators map[string]bool) bool {
	cc := ci.Common()
	if isBuiltinName(cc, "delete") && len(cc.Args) > 0 && cc.Args[0] == recv {
		return true
	}
	var name string
	if cc.IsInvoke() {
		if cc.Value != recv {
			return false
		}
		name = cc.Method.Name()
	} else {
		if len(cc.Args) == 0 || cc.Args[0] != recv {
			return false
		}
		cal := ir.Resolve(cc)
		if cal.Func == nil {
			return false
		}
		name = cal.Func.Name()
	}
	return mutators[name]
}

// closureEntry computes the lockset a function literal starts with: the
// lockset at its creation site when it is only deferred, called directly or
// handed to a call (assumed synchronous); empty when it is started with `go`,
// stored, or returned.
func (c *Ctx) closureEntry(cl *ssa.Function, parentRes *lockResult) map[lockKey]string {
	parent := cl.Parent()
	if parent == nil {
		return nil
	}
	var held map[lockKey]string
	first := true
	okAll := true
	ir.Instrs(parent, func(in ssa.Instruction) {
		mc, ok := in.(*ssa.MakeClosure)
		if !ok || mc.Fn != ssa.Value(cl) {
			return
		}
		for _, r := range ir.Refs(mc) {
			switch u := r.(type) {
			case *ssa.Go:
				okAll = false
			case *ssa.Defer:
				// runs at exit: nothing can be assumed held except what is
				// held at every exit; be conservative
				okAll = false
				_ = u
			case *ssa.Call:
				h := parentRes.mustHold[u]
				if first {
					held = map[lockKey]string{}
					for k, v := range h {
						held[k] = v
					}
					first = false
				} else {
					for k := range held {
						if _, ok := h[k]; !ok {
							delete(held, k)
						}
					}
				}
			default:
				okAll = false
			}
		}
	})
	if !okAll {
		return nil
	}
	return held
}

// lockResults analyses every function of the current program once, deriving
// entry locksets for unexported helpers from their call sites (3 rounds) and
// for closures from their creation sites.
func (c *Ctx) lockResults() map[*ssa.Function]*lockResult {
	if c.lres != nil {
		return c.lres
	}
	entry := map[*ssa.Function]map[lockKey]string{}
	var res map[*ssa.Function]*lockResult
	for round := 0; round < 4; round++ {
		res = map[*ssa.Function]*lockResult{}
		for _, fn := range c.P.Funcs {
			if fn.Parent() != nil {
				continue
			}
			res[fn] = c.locksetOf(fn, entry[fn])
		}
		// closures, outermost first (c.P.Funcs is name-sorted: parents first)
		for _, fn := range c.P.Funcs {
			if fn.Parent() == nil {
				continue
			}
			pr := res[fn.Parent()]
			if pr == nil {
				pr = c.locksetOf(fn.Parent(), nil)
			}
			e := c.closureEntry(fn, pr)
			entry[fn] = e
			res[fn] = c.locksetOf(fn, e)
		}
		// helper entry locksets from call sites
		newEntry := map[*ssa.Function]map[lockKey]string{}
		sitesOf := map[*ssa.Function][]map[lockKey]string{}
		escaped := map[*ssa.Function]bool{}
		for _, caller := range c.P.Funcs {
			cr := res[caller]
			ir.Instrs(caller, func(in ssa.Instruction) {
				if ci, ok := in.(ssa.CallInstruction); ok {
					cal := ir.Resolve(ci.Common())
					if cal.Fn != nil && !ci.Common().IsInvoke() {
						if _, isGo := in.(*ssa.Go); isGo {
							sitesOf[cal.Fn] = append(sitesOf[cal.Fn], nil)
						} else if _, isDefer := in.(*ssa.Defer); isDefer {
							sitesOf[cal.Fn] = append(sitesOf[cal.Fn], nil)
						} else {
							sitesOf[cal.Fn] = append(sitesOf[cal.Fn], cr.mustHold[in])
						}
					}
				}
				var ops []*ssa.Value
				cc := ir.CallOf(in)
				for _, op := range in.Operands(ops) {
					if f, ok := (*op).(*ssa.Function); ok && (cc == nil || cc.Value != *op) {
						escaped[f] = true
					}
					if mc, ok := (*op).(*ssa.MakeClosure); ok {
						if f, ok := mc.Fn.(*ssa.Function); ok && f.Parent() == nil {
							escaped[f] = true
						}
					}
				}
			})
		}
		changed := false
		for _, fn := range c.P.Funcs {
			if fn.Parent() != nil {
				newEntry[fn] = entry[fn]
				continue
			}
			obj, _ := fn.Object().(*types.Func)
			if obj == nil || obj.Exported() || escaped[fn] || len(sitesOf[fn]) == 0 {
				continue
			}
			var held map[lockKey]string
			for i, h := range sitesOf[fn] {
				if i == 0 {
					held = map[lockKey]string{}
					for k, v := range h {
						held[k] = v
					}
					continue
				}
				for k, v := range held {
					hv, ok := h[k]
					if !ok {
						delete(held, k)
					} else if hv == "R" && v == "W" {
						held[k] = "R"
					}
				}
			}
			if len(held) > 0 {
				newEntry[fn] = held
			}
			if fmt.Sprint(lockMapStr(held)) != fmt.Sprint(lockMapStr(entry[fn])) {
				changed = true
			}
		}
		entry = newEntry
		if !changed {
			break
		}
	}
	c.lres = res
	c.lentry = entry
	return res
}

func lockMapStr(m map[lockKey]string) string {
	var p []string
	for k, v := range m {
		p = append(p, k.String()+":"+v)
	}
	sort.Strings(p)
	return fmt.Sprint(p)
}

// guardedBy evaluates a guarded-by table over every function of the current
// program: one obligation per (field, function containing an access).
func (c *Ctx) guardedBy(table []gField, minAccesses int) {
	res := c.lockResults()
	total := 0
	for _, row := range table {
		key := lockKey{row.mutex}
		for _, fn := range c.P.Funcs {
			acc := accessesOf(fn, row.field, row.mutators)
			if len(acc) > 0 && c.pointerSetOnce(row.field) {
				// asking whether a pointer that is set once, when the object
				// is built, is nil at all is no access to what it points to
				var kept []fieldAccess
				for _, a := range acc {
					if fa, ok := a.in.(*ssa.FieldAddr); ok && onlyNilTested(fa) {
						continue
					}
					kept = append(kept, a)
				}
				acc = kept
			}
			if len(acc) == 0 {
				continue
			}
			total += len(acc)
			name := c.nm(fn)
			top := c.nm(outermost(fn))
			construct := fmt.Sprintf("field %s guarded by %s | %s", c.on(row.field), c.on(row.mutex), name)
			if why, ok := row.exempt[top]; ok {
				c.pass(construct, c.P.Pos(fn.Pos()), "tabled exemption: "+why, fmt.Sprintf("%d access(es)", len(acc)))
				continue
			}
			// a function that is new relative to the pinned tree and is only
			// ever called from exempt functions (a constructor split into
			// newX + newXWithDeps) shares their exemption
			if len(row.exempt) > 0 && isNewFunc(outermost(fn)) {
				owners := c.ownersOf(outermost(fn), 0)
				allExempt := len(owners) > 0
				for _, o := range owners {
					if _, ok := row.exempt[o]; !ok {
						allExempt = false
					}
				}
				if allExempt {
					c.pass(construct, c.P.Pos(fn.Pos()), "new function called only from exempt function(s) "+join(owners), fmt.Sprintf("%d access(es)", len(acc)))
					continue
				}
			}
			r := res[fn]
			var bad, sites []string
			for _, a := range acc {
				mode, held := r.mustHold[a.in][key]
				sites = append(sites, a.kind+"@"+c.at(a.in))
				if !held {
					if a.kind == accRead {
						if _, ok := row.readersNoLock[top]; ok {
							continue
						}
					}
					bad = append(bad, fmt.Sprintf("%s of %s at %s without %s", a.kind, c.on(row.field), c.at(a.in), c.on(row.mutex)))
					continue
				}
				if a.kind == accWrite && mode != "W" {
					bad = append(bad, fmt.Sprintf("write of %s at %s under the read lock only", c.on(row.field), c.at(a.in)))
				}
			}
			sort.Strings(bad)
			sort.Strings(sites)
			if len(bad) > 0 {
				c.fail(construct, c.at(acc[0].in), join(bad), sites...)
			} else {
				c.pass(construct, c.P.Pos(fn.Pos()), fmt.Sprintf("%d access(es) all under %s in the required mode", len(acc), c.on(row.mutex)), sites...)
			}
		}
	}
	c.R.CallSites += total
	if total < minAccesses {
		c.undecided("guarded-by table | access floor", "", fmt.Sprintf("found %d accesses to tabled fields, the rule table requires at least %d", total, minAccesses))
	}
}

// onlyNilTested: the field address is only loaded, and the loaded value only
// compared with nil.
func onlyNilTested(fa *ssa.FieldAddr) bool {
	refs := ir.Refs(fa)
	if len(refs) == 0 {
		return false
	}
	for _, r := range refs {
		ld, ok := r.(*ssa.UnOp)
		if !ok || ld.Op != token.MUL {
			return false
		}
		lrefs := ir.Refs(ld)
		if len(lrefs) == 0 {
			return false
		}
		for _, rr := range lrefs {
			b, ok := rr.(*ssa.BinOp)
			if !ok || (b.Op != token.EQL && b.Op != token.NEQ) || !(ir.IsNil(b.X) || ir.IsNil(b.Y)) {
				return false
			}
		}
	}
	return true
}

// pointerSetOnce: the field holds a pointer and is stored to only inside
// constructor functions (New.. / new..) of its package.
func (c *Ctx) pointerSetOnce(f *types.Var) bool {
	if _, isPtr := f.Type().Underlying().(*types.Pointer); !isPtr {
		return false
	}
	if v, ok := c.setOnce[f]; ok {
		return v
	}
	if c.setOnce == nil {
		c.setOnce = map[*types.Var]bool{}
	}
	okv := true
	for _, fn := range c.P.Funcs {
		for _, st := range find(fn, storeToField(f)) {
			_ = st
			n := outermost(fn).Name()
			if !(strings.HasPrefix(n, "New") || strings.HasPrefix(n, "new")) {
				okv = false
			}
		}
	}
	c.setOnce[f] = okv
	return okv
}
