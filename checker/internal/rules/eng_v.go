package rules

import (
	"go/token"

	"golang.org/x/tools/go/ssa"

	"verif/checker/internal/ir"
)

// ---- finite value-set dataflow (used for Cmp results) ----

func cmpHolds(op token.Token, a, b int64) bool {
	switch op {
	case token.EQL:
		return a == b
	case token.NEQ:
		return a != b
	case token.LSS:
		return a < b
	case token.LEQ:
		return a <= b
	case token.GTR:
		return a > b
	case token.GEQ:
		return a >= b
	}
	return true
}

// intSetAt computes, by forward dataflow refined along the edges of
// comparisons of v with integer constants, the subset of domain that v may
// hold when control reaches block target.
func intSetAt(v ssa.Value, domain []int64, target *ssa.BasicBlock) map[int64]bool {
	fn := target.Parent()
	type filt map[int64]bool
	edgeFilter := map[ir.Edge]filt{}
	for _, r := range ir.Refs(v) {
		x, ok := r.(*ssa.BinOp)
		if !ok {
			continue
		}
		var k int64
		var kok, vLeft bool
		if x.X == v {
			k, kok = ir.ConstInt(x.Y)
			vLeft = true
		} else {
			k, kok = ir.ConstInt(x.X)
		}
		if !kok {
			continue
		}
		tset, fset := filt{}, filt{}
		for _, d := range domain {
			var h bool
			if vLeft {
				h = cmpHolds(x.Op, d, k)
			} else {
				h = cmpHolds(x.Op, k, d)
			}
			if h {
				tset[d] = true
			} else {
				fset[d] = true
			}
		}
		for _, tb := range ir.TrueBranches(x) {
			edgeFilter[tb.Edge()] = tset
			edgeFilter[tb.Other()] = fset
		}
	}
	def := v.(ssa.Instruction).Block()
	in := map[*ssa.BasicBlock]map[int64]bool{}
	full := map[int64]bool{}
	for _, d := range domain {
		full[d] = true
	}
	in[def] = full
	changed := true
	for changed {
		changed = false
		for _, b := range fn.Blocks {
			cur := in[b]
			if cur == nil {
				continue
			}
			for i, s := range b.Succs {
				if s == def {
					continue
				}
				out := cur
				if f, ok := edgeFilter[ir.Edge{From: b, Succ: i}]; ok {
					out = map[int64]bool{}
					for d := range cur {
						if f[d] {
							out[d] = true
						}
					}
				}
				if in[s] == nil {
					in[s] = map[int64]bool{}
				}
				for d := range out {
					if !in[s][d] {
						in[s][d] = true
						changed = true
					}
				}
			}
		}
	}
	return in[target]
}
