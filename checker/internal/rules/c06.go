package rules

import (
	"fmt"
	"go/types"
	"strings"

	"golang.org/x/tools/go/ssa"

	"verif/checker/internal/ir"
)

func init() {
	register(&Prop{ID: "C06", Run: runC06, NotDecided: []string{
		"btcd's CheckBlockSanity / ValidateWitnessCommitment rules themselves (trusted)",
		"retry and re-issue behaviour of the query layer (C12)",
		"streams of responses at run time",
	}})
}

const fnGetBlock = "(*neutrino.ChainService).GetBlock"

// handleRespOf returns the function literal stored in query.Request.HandleResp
// inside fn (selected by use, not by ordinal).
func (c *Ctx) handleRespOf(fn *ssa.Function) *ssa.Function {
	f := c.field("query", "Request", "HandleResp")
	cl := closuresStoredIn(fn, f)
	if len(cl) != 1 {
		panic(anchorErr{"the response-handler closure stored in query.Request.HandleResp inside " + c.nm(fn)})
	}
	c.R.Funcs[c.nm(cl[0])] = true
	return cl[0]
}

// freeVarNamed finds the closure's free variable bound to the given local of
// the enclosing function.
func freeVar(cl *ssa.Function, name string) *ssa.FreeVar {
	for _, fv := range cl.FreeVars {
		if fv.Name() == name {
			return fv
		}
	}
	return nil
}

// sharedResultCell finds the place where a response handler leaves its result
// for the function that built it: a local variable of type *elem that the
// handler literal captures (the address is the literal's free variable inside
// it, the bound cell outside), or a field of type *elem of a module struct that
// the enclosing function allocates itself and the handler reaches through a
// captured pointer (`q := &blockQuery{..}; HandleResp: q.handleResponse`). The
// predicate recognises addresses of that place in either function.
func (c *Ctx) sharedResultCell(outer, handler *ssa.Function, elem *types.Named) func(ssa.Value) bool {
	if elem == nil {
		return nil
	}
	isPtrToElem := func(t types.Type) bool {
		p, ok := t.(*types.Pointer)
		return ok && types.Identical(p.Elem(), elem)
	}
	// captured local
	for i, fv := range handler.FreeVars {
		pt, ok := fv.Type().(*types.Pointer)
		if !ok || !isPtrToElem(pt.Elem()) {
			continue
		}
		var binding ssa.Value
		ir.Instrs(outer, func(in ssa.Instruction) {
			if mc, ok := in.(*ssa.MakeClosure); ok && mc.Fn == ssa.Value(handler) && i < len(mc.Bindings) {
				binding = mc.Bindings[i]
			}
		})
		fvv := ssa.Value(fv)
		return func(v ssa.Value) bool { return v == fvv || (binding != nil && v == binding) }
	}
	// field of a struct allocated by the enclosing function
	var field *types.Var
	ir.Instrs(handler, func(in ssa.Instruction) {
		st, ok := in.(*ssa.Store)
		if !ok {
			return
		}
		fa, ok := st.Addr.(*ssa.FieldAddr)
		if !ok {
			return
		}
		f := ir.FieldOfAddr(fa)
		if f == nil || !isPtrToElem(f.Type()) {
			return
		}
		pt, ok := fa.X.Type().Underlying().(*types.Pointer)
		if !ok {
			return
		}
		named, ok := pt.Elem().(*types.Named)
		if !ok || named.Obj().Pkg() == nil || !strings.HasPrefix(named.Obj().Pkg().Path(), ir.ModPath) {
			return
		}
		allocated := false
		ir.Instrs(outer, func(x ssa.Instruction) {
			if al, ok := x.(*ssa.Alloc); ok {
				if ap, ok := al.Type().(*types.Pointer); ok && types.Identical(ap.Elem(), named) {
					allocated = true
				}
			}
		})
		if allocated {
			field = f
		}
	})
	if field == nil {
		return nil
	}
	return func(v ssa.Value) bool {
		fa, ok := v.(*ssa.FieldAddr)
		return ok && ir.FieldOfAddr(fa) == field
	}
}

func runC06(c *Ctx) {
	c.rule("C06.O3", "any other response is ignored and the request retried with other peers: "+attemptBoundedDoc, func() { c.attemptBounded() })
	c.rule("C06.G1", "GetBlock's response handler accepts a block (store to foundBlock, positive Progress) only behind: resp.(*wire.MsgBlock) ok, response.BlockHash() == requested hash, blockchain.CheckBlockSanity=nil and blockchain.ValidateWitnessCommitment=nil, both applied to the block built from that response", func() {
		gb := c.fn(fnGetBlock)
		cl := c.handleRespOf(gb)
		// the result cell shared by GetBlock and its handler
		blockT := c.P.Named(pBtcutil, "Block")
		if blockT == nil {
			panic(anchorErr{"btcutil.Block"})
		}
		isResultCell := c.sharedResultCell(gb, cl, blockT)
		if isResultCell == nil {
			panic(anchorErr{"captured *btcutil.Block result variable of GetBlock's handler"})
		}
		stores := find(cl, func(in ssa.Instruction) bool {
			st, ok := in.(*ssa.Store)
			return ok && isResultCell(st.Addr)
		})
		eff := append(append([]ssa.Instruction{}, stores...), progressReturns(cl, true)...)
		const en = "accept block (foundBlock = block / positive progress)"
		msgBlock := c.P.Named(pWire, "MsgBlock")
		c.guarded(cl, okIs("resp.(*wire.MsgBlock)", find(cl, typeAsserts(types.NewPointer(msgBlock)))), 1, en, eff, 2, gDominate)
		bhM := c.method(pWire, "MsgBlock", "BlockHash")
		// requested hash: the captured blockHash parameter
		var hashCell *ssa.FreeVar
		hashT := c.P.Named(pChainhash, "Hash")
		for _, fv := range cl.FreeVars {
			if pt, ok := fv.Type().(*types.Pointer); ok && types.Identical(pt.Elem(), hashT) {
				hashCell = fv
			}
		}
		if hashCell == nil {
			panic(anchorErr{"captured blockHash of GetBlock's handler"})
		}
		// the captured cell must be GetBlock's blockHash parameter
		okBind := false
		ir.Instrs(gb, func(in ssa.Instruction) {
			if mc, ok := in.(*ssa.MakeClosure); ok && mc.Fn == ssa.Value(cl) {
				for i, b := range mc.Bindings {
					if cl.FreeVars[i] == hashCell {
						// parameter spilled into a cell (or a cell that only
						// ever holds a copy of it)
						if paramOrSpill(gb.Params[1])(b) {
							okBind = true
						}
					}
				}
			}
		})
		c.verdict(okBind, c.nm(cl)+" | compared hash is GetBlock's blockHash parameter", c.P.Pos(cl.Pos()), "captured cell holds the requested hash", "the hash the response is compared with is not GetBlock's blockHash parameter")
		isReqHash := func(v ssa.Value) bool {
			ld, ok := v.(*ssa.UnOp)
			return ok && ld.X == ssa.Value(hashCell)
		}
		isRespHash := func(v ssa.Value) bool {
			call, ok := v.(*ssa.Call)
			if !ok || !callTo(bhM)(call) {
				return false
			}
			return ir.DerivesFrom(call.Call.Args[0], func(x ssa.Value) bool {
				ta, ok := x.(*ssa.TypeAssert)
				return ok && ta.CommaOk
			})
		}
		gHash := equalIs("response.BlockHash() vs blockHash", find(cl, binops(eqOps, isRespHash, isReqHash)), true)
		c.guarded(cl, gHash, 1, en, eff, 2, gDominate)
		c.rule("C06.V4", "the ban of an invalid block\x27s sender is not lost to a concurrent lookup: "+banStoreDisciplineDoc, func() { c.banStoreDiscipline() })
		c.rule("C06.V3", "the sender of an invalid block stays out: "+banKeyAgreementDoc, func() { c.banKeyAgreement() })
		c.rule("C06.O5", "the retry of a block request still answers the caller: "+noJobLostDoc, func() { c.noJobLost() })
		c.rule("C06.O4", "every response that carries the requested hash is examined on its own: the handler is one closure shared by all attempts and peers of a GetBlock call, so from the edge on which the response's hash equals the requested one every path to a return passes blockchain.CheckBlockSanity - nothing remembered from an earlier response (an earlier sender's invalid block, a flag) lets a later response be dropped unvalidated, which would discard an honest peer's block and leave a second bad sender unbanned", func() {
			c.mustFollow(cl, "the response carries the requested hash", c.successEdges(gHash), callTo(c.funcObj(pBlockchain, "CheckBlockSanity")), "blockchain.CheckBlockSanity", nil, 1)
		})
		sanity := c.funcObj(pBlockchain, "CheckBlockSanity")
		witness := c.funcObj(pBlockchain, "ValidateWitnessCommitment")
		scv := c.validatorCalls(cl, sanity, 0)
		wcv := c.validatorCalls(cl, witness, 0)
		sc, wc := vcallInstrs(scv), vcallInstrs(wcv)
		gS := errNil("blockchain.CheckBlockSanity", sc, 0)
		gW := errNil("blockchain.ValidateWitnessCommitment", wc, 0)
		c.guarded(cl, gS, 1, en, eff, 2, gDominate)
		c.guarded(cl, gW, 1, en, eff, 2, gDominate)
		// validators and the stored block are all the block built from the response
		newBlock := c.funcObj(pBtcutil, "NewBlock")
		fromResp := func(v ssa.Value) bool {
			call, ok := v.(*ssa.Call)
			if !ok || !callTo(newBlock)(call) {
				return false
			}
			return ir.DerivesFrom(call.Call.Args[0], func(x ssa.Value) bool {
				ta, ok := x.(*ssa.TypeAssert)
				return ok && ta.CommaOk
			})
		}
		okSubj := len(sc) >= 1 && len(wc) >= 1 && len(stores) >= 1
		for _, v := range append(append([]vcall{}, scv...), wcv...) {
			if !fromResp(v.subj) {
				okSubj = false
			}
		}
		for _, st := range stores {
			if !fromResp(st.(*ssa.Store).Val) {
				okSubj = false
			}
		}
		c.verdict(okSubj, c.nm(cl)+" | validated block = stored block = btcutil.NewBlock(response)", c.P.Pos(cl.Pos()), "both validators and foundBlock take the block built from the asserted response", "the block that is validated is not the block that is stored (or not built from the response)", c.ats(append(append(sc, wc...), stores...))...)
		// PowLimit / time source come from the chain service
		okArgs := true
		for _, in := range find(cl, callTo(sanity)) {
			a := ir.CallOf(in).Args
			if !loadsField(c.field(pChaincfg, "Params", "PowLimit"))(a[1]) || !loadsField(c.field("neutrino", "ChainService", "timeSource"))(a[2]) {
				okArgs = false
			}
		}
		c.verdict(okArgs, c.nm(cl)+" | CheckBlockSanity uses chainParams.PowLimit and the service time source", c.P.Pos(cl.Pos()), "arguments from the chain service", "CheckBlockSanity is given a PowLimit/time source other than the chain service's", c.ats(sc)...)

		// O1: ban on each validator failure
		want := c.banReasonConst("InvalidBlock")
		ban := func(in ssa.Instruction) bool { return c.banCalls()(in) && banReason(in) == want }
		c.rule("C06.O1", "on each validator failure edge BanPeer(peer, InvalidBlock) follows before the handler returns, and the return is noProgress", func() {
			c.mustFollow(cl, "CheckBlockSanity failed", c.failEdges(gS), ban, "BanPeer(peer, InvalidBlock)", nil, 1)
			c.mustFollow(cl, "ValidateWitnessCommitment failed", c.failEdges(gW), ban, "BanPeer(peer, InvalidBlock)", nil, 1)
			okPeer := true
			for _, b := range find(cl, ban) {
				a := argsOf(b)
				if !isParam(cl, 2)(a[0]) {
					okPeer = false
				}
			}
			c.verdict(okPeer, c.nm(cl)+" | banned address is the responding peer", c.P.Pos(cl.Pos()), "BanPeer's address is the handler's peer parameter", "BanPeer is called with something other than the responding peer's address")
		})
	})

	c.rule("C06.V1", "GetBlock returns a non-nil block only from BlockCache.Get or from foundBlock; BlockCache.Put happens only in GetBlock behind foundBlock != nil; the header lookup (FetchHeader=nil and header hash == requested hash) guards the query", func() {
		gb := c.fn(fnGetBlock)
		cl := c.handleRespOf(gb)
		lruGet := c.method("cache/lru", "Cache", "Get")
		lruPut := c.method("cache/lru", "Cache", "Put")
		bc := c.field("neutrino", "ChainService", "BlockCache")
		// the result cell shared with the handler
		isCell := c.sharedResultCell(gb, cl, c.P.Named(pBtcutil, "Block"))
		if isCell == nil {
			panic(anchorErr{"foundBlock cell of GetBlock"})
		}
		src := func(v ssa.Value) bool {
			if call, ok := v.(*ssa.Call); ok && callTo(lruGet)(call) && loadsField(bc)(call.Call.Args[0]) {
				return true
			}
			return isCell(v)
		}
		// DerivesFrom treats a load of an Alloc through its stores; here the cell
		// is written by the closure, so accept a direct load of the cell.
		bad, good := []ssa.Instruction{}, []ssa.Instruction{}
		for _, in := range find(gb, isExit) {
			r := in.(*ssa.Return)
			v := ir.RetVal(r, 0)
			if ir.IsNil(v) {
				continue
			}
			if ld, ok := v.(*ssa.UnOp); ok && isCell(ld.X) {
				good = append(good, in)
			} else if ir.DerivesFrom(v, src) {
				good = append(good, in)
			} else {
				bad = append(bad, in)
			}
		}
		c.verdict(len(bad) == 0 && len(good) >= 2, c.nm(gb)+" | provenance of returned block", c.P.Pos(gb.Pos()), "non-nil returns derive from BlockCache.Get or foundBlock", "a returned block has another origin at "+join(c.ats(bad)), c.ats(append(good, bad...))...)
		blockPut := withArg(callTo(lruPut), 0, loadsField(bc))
		c.whoMay("ChainService.BlockCache.Put", blockPut, []string{fnGetBlock}, 1)
		// Put guarded by foundBlock != nil
		var nilCmps []ssa.Instruction
		ir.Instrs(gb, func(in ssa.Instruction) {
			b, ok := in.(*ssa.BinOp)
			if !ok {
				return
			}
			for _, op := range []ssa.Value{b.X, b.Y} {
				if ld, ok := op.(*ssa.UnOp); ok && isCell(ld.X) {
					other := b.X
					if other == op {
						other = b.Y
					}
					if ir.IsNil(other) {
						nilCmps = append(nilCmps, in)
					}
				}
			}
		})
		puts := find(gb, blockPut)
		c.guarded(gb, equalIs("foundBlock vs nil", nilCmps, false), 1, "BlockCache.Put", puts, 1, gDominate)
		// header lookup guards the query
		fetch := c.method("headerfs", "BlockHeaderStore", "FetchHeader")
		q := c.method("query", "WorkManager", "Query")
		queries := find(gb, callTo(q))
		c.guarded(gb, errNil("BlockHeaders.FetchHeader(&blockHash)", find(gb, callTo(fetch)), 2), 1, "workManager.Query", queries, 1, gDominate)
		hbh := c.method(pWire, "BlockHeader", "BlockHash")
		hashCmp := find(gb, binops(eqOps, func(v ssa.Value) bool {
			call, ok := v.(*ssa.Call)
			return ok && callTo(hbh)(call)
		}, anyVal))
		c.guarded(gb, equalIs("blockHeader.BlockHash() vs blockHash", hashCmp, true), 1, "workManager.Query", queries, 1, gDominate)
	})

	c.rule("C06.O2", "the ban of the sender of an invalid block is recorded: "+banRecordedDoc, func() { c.banRecorded() })

	c.rule("C06.V2", "one key for the requested block: the inventory vector built from the requested hash (wire.NewInvVect(_, &blockHash)) is the key of BlockCache.Get, the key of BlockCache.Put and the vector put into the getdata request, so a cached or fetched block is always filed under the hash the caller asked for", func() {
		gb := c.fn(fnGetBlock)
		lruGet := c.method("cache/lru", "Cache", "Get")
		lruPut := c.method("cache/lru", "Cache", "Put")
		bc := c.field("neutrino", "ChainService", "BlockCache")
		newInv := c.funcObj(pWire, "NewInvVect")
		addInv := c.method(pWire, "MsgGetData", "AddInvVect")
		invs := find(gb, callTo(newInv))
		okInv := len(invs) == 1
		var inv ssa.Value
		if okInv {
			inv = invs[0].(ssa.Value)
			// second argument: address of the cell holding parameter blockHash
			a := argsOf(invs[0])
			al, isAlloc := a[1].(*ssa.Alloc)
			okInv = false
			if isAlloc {
				for _, st := range ir.StoresTo(al) {
					if st.Val == ssa.Value(gb.Params[1]) {
						okInv = true
					}
				}
			}
		}
		c.verdict(okInv, c.nm(gb)+" | inventory vector built from the requested hash", c.P.Pos(gb.Pos()), "wire.NewInvVect(invType, &blockHash)", "the inventory vector is not built from the requested block hash")
		if !okInv {
			return
		}
		isKey := func(v ssa.Value) bool {
			u, ok := v.(*ssa.UnOp)
			return ok && u.X == inv
		}
		var bad, sites []string
		n := 0
		for _, x := range find(gb, anyOf(withArg(callTo(lruGet), 0, loadsField(bc)), withArg(callTo(lruPut), 0, loadsField(bc)))) {
			n++
			sites = append(sites, c.at(x))
			if !isKey(argsOf(x)[0]) {
				bad = append(bad, "cache access at "+c.at(x)+" uses another key")
			}
		}
		adds := find(gb, callTo(addInv))
		for _, x := range adds {
			sites = append(sites, c.at(x))
			if argsOf(x)[0] != inv {
				bad = append(bad, "getdata at "+c.at(x)+" requests another inventory vector")
			}
		}
		c.verdict(len(bad) == 0 && n >= 2 && len(adds) == 1, c.nm(gb)+" | cache get, cache put and getdata use the same inventory vector", c.P.Pos(gb.Pos()), "Get(*inv), Put(*inv, ..), AddInvVect(inv)", join(bad)+fmt.Sprintf(" (%d cache accesses, %d getdata vectors)", n, len(adds)), sites...)
	})
}

const blockValidatedDoc = "an invalid block is recognised as such: in GetBlock's response handler accepting the block (store to the result variable, positive Progress) lies behind blockchain.CheckBlockSanity = nil and blockchain.ValidateWitnessCommitment = nil on every path (a validation that is skipped for some class of blocks can neither reject the block nor lead to the ban of its sender)"

// blockValidated: see blockValidatedDoc (the validator part of C06.G1, also C13.G2).
func (c *Ctx) blockValidated() {
	fn := c.fn(fnGetBlock)
	cl := c.handleRespOf(fn)
	var stores []ssa.Instruction
	ir.Instrs(cl, func(in ssa.Instruction) {
		if st, ok := in.(*ssa.Store); ok {
			if _, isFV := st.Addr.(*ssa.FreeVar); isFV {
				if p, ok := st.Val.Type().(*types.Pointer); ok {
					if n, ok := p.Elem().(*types.Named); ok && n.Obj().Name() == "Block" {
						stores = append(stores, in)
					}
				}
			}
		}
	})
	eff := append(append([]ssa.Instruction{}, stores...), progressReturns(cl, true)...)
	const en = "accept block (foundBlock = block / positive progress)"
	sanity := c.funcObj(pBlockchain, "CheckBlockSanity")
	witness := c.funcObj(pBlockchain, "ValidateWitnessCommitment")
	sc, wc := vcallInstrs(c.validatorCalls(cl, sanity, 0)), vcallInstrs(c.validatorCalls(cl, witness, 0))
	c.guarded(cl, errNil("blockchain.CheckBlockSanity", sc, 0), 1, en, eff, 2, gDominate)
	c.guarded(cl, errNil("blockchain.ValidateWitnessCommitment", wc, 0), 1, en, eff, 2, gDominate)
}
