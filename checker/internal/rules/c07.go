package rules

import (
	"fmt"
	"go/constant"
	"go/token"
	"go/types"
	"sort"
	"strings"

	"golang.org/x/tools/go/ssa"

	"verif/checker/internal/ir"
)

func init() {
	register(&Prop{ID: "C07", Run: runC07, NotDecided: []string{
		"equality with a reference list over arbitrary append/rollback histories; reopen equivalence (runtime)",
		"interleavings of readers and writers beyond the structural conditions C07.P1 / C07.P2 (HeightFromHash reads the index alone, in one database transaction, and takes no store lock)",
	}})
}

const (
	fnBWrite  = "(*headerfs.blockHeaderStore).WriteHeaders"
	fnFWrite  = "(*headerfs.filterHeaderStore).WriteHeaders"
	fnBRoll   = "(*headerfs.blockHeaderStore).RollbackBlockHeaders"
	fnFRoll   = "(*headerfs.filterHeaderStore).RollbackLastBlock"
	fnAppend  = "(*headerfs.headerStore).appendRaw"
	fnNewB    = "headerfs.NewBlockHeaderStore"
	fnNewF    = "headerfs.NewFilterHeaderStore"
	fnImportW = "(*chainimport.headersImport).writeHeadersToTargetStores"
)

// storeFuncs returns the functions of package headerfs that belong to the two
// stores (methods of blockHeaderStore, filterHeaderStore, headerStore,
// headerFile, headerIndex and the two constructors).
func (c *Ctx) storeFuncs() []*ssa.Function {
	var out []*ssa.Function
	for _, fn := range c.P.Funcs {
		n := c.nm(fn)
		if strings.HasPrefix(n, "(*headerfs.") || strings.HasPrefix(n, "headerfs.") || strings.HasPrefix(n, "(headerfs.") {
			out = append(out, fn)
			c.R.Funcs[n] = true
		}
	}
	if len(out) < 30 {
		panic(anchorErr{"functions of package headerfs (found fewer than 30)"})
	}
	return out
}

func (c *Ctx) hfs(typ, m string) *types.Func { return c.method("headerfs", typ, m) }

func runC07(c *Ctx) {
	mtx := func() *types.Var { return c.field("headerfs", "headerStore", "mtx") }

	c.rule("C07.P1", "headerfs stores: every method reaches each exit with the store mutex released (defers modelled), no double acquire; the file/index mutation helpers (appendRaw, truncateHeaders, addHeaders, truncateIndices) are called only with mtx held exclusively (constructors exempt: store not yet published)", func() {
		fns := c.storeFuncs()
		res := c.lockResults()
		entry := map[string]map[lockKey]string{}
		for fn, e := range c.lentry {
			entry[c.nm(fn)] = e
		}
		c.pairing(fns, entry, 13)
		key := lockKey{mtx()}
		mut := callTo(c.hfs("headerStore", "appendRaw"), c.hfs("headerFile", "truncateHeaders"), c.hfs("headerIndex", "addHeaders"), c.hfs("headerIndex", "truncateIndices"))
		exempt := map[string]string{fnNewB: "constructor", fnNewF: "constructor"}
		n := 0
		for _, fn := range fns {
			sites := find(fn, mut)
			if len(sites) == 0 {
				continue
			}
			n += len(sites)
			construct := "store mutation under mtx(W) | " + c.nm(fn)
			if why, ok := exempt[c.nm(outermost(fn))]; ok {
				c.pass(construct, c.P.Pos(fn.Pos()), "tabled exemption: "+why, c.ats(sites)...)
				continue
			}
			var bad []string
			for _, s := range sites {
				if res[fn].mustHold[s][key] != "W" {
					bad = append(bad, describeCall(s)+" at "+c.at(s)+" without the exclusive store lock")
				}
			}
			sort.Strings(bad)
			c.verdict(len(bad) == 0, construct, c.P.Pos(fn.Pos()), fmt.Sprintf("%d mutation call(s) under mtx(W)", len(sites)), join(bad), c.ats(sites)...)
		}
		if n < 8 {
			c.undecided("store mutation sites | floor", "", fmt.Sprintf("found %d mutation call sites, need 8", n))
		}
		// readers hold at least the read lock around index+file reads
		rd := callTo(c.hfs("headerIndex", "chainTip"), c.hfs("blockHeaderStore", "readHeader"), c.hfs("filterHeaderStore", "readHeader"))
		for _, name := range []string{"(*headerfs.blockHeaderStore).FetchHeader", "(*headerfs.blockHeaderStore).FetchHeaderByHeight", "(*headerfs.blockHeaderStore).ChainTip",
			"(*headerfs.filterHeaderStore).FetchHeader", "(*headerfs.filterHeaderStore).FetchHeaderByHeight", "(*headerfs.filterHeaderStore).ChainTip"} {
			fn := c.fn(name)
			var bad []string
			sites := find(fn, rd)
			for _, s := range sites {
				if _, held := res[fn].mustHold[s][key]; !held {
					bad = append(bad, describeCall(s)+" at "+c.at(s)+" without the store lock")
				}
			}
			c.verdict(len(bad) == 0 && len(sites) > 0, "store read under mtx | "+name, c.P.Pos(fn.Pos()), "index/file reads under the store lock", join(bad)+" (or no read found)", c.ats(sites)...)
		}
	})

	c.rule("C07.V6", "every hash has a bucket: addHeaders refuses a header whose prefix sub-bucket is missing, so ensureIndexSubBuckets creates one bucket per value of the prefix: its loop counts from 0 to 2^(8*numSubBucketBytes)-1 inclusive, in a counter wide enough to leave the loop (counter <= 0xffff in an int, or counter < 0x10000), and the prefix written is that counter; with the last value left out, a batch holding a header whose hash starts with 0xffff (one in 65536) fails for good - with no fault injected the store stops following the list", func() {
		create := c.method("github.com/btcsuite/btcwallet/walletdb", "ReadWriteBucket", "CreateBucketIfNotExists")
		// the helper, or whichever function of the package it was folded into
		fn := c.P.Func("headerfs.ensureIndexSubBuckets")
		if fn == nil {
			for _, f := range c.storeFuncs() {
				for _, in := range find(f, callTo(create)) {
					if ir.LoopHeaderOf(in.Block()) != nil && fn == nil {
						fn = f
					}
				}
			}
		}
		if fn == nil {
			c.undecided("headerfs | loop creating the prefix sub-buckets", "", "no CreateBucketIfNotExists call inside a loop found in package headerfs")
			return
		}
		c.R.Funcs[c.nm(fn)] = true
		nb := c.importConstIn("headerfs", "numSubBucketBytes")
		want := int64(1)<<(8*uint(nb)) - 1
		calls := find(fn, callTo(create))
		construct := c.nm(fn) + " | one sub-bucket per prefix value"
		var inLoop []ssa.Instruction
		for _, in := range calls {
			if ir.LoopHeaderOf(in.Block()) != nil {
				inLoop = append(inLoop, in)
			}
		}
		if len(inLoop) != 1 {
			c.fail(construct, c.P.Pos(fn.Pos()), fmt.Sprintf("%d CreateBucketIfNotExists call(s) inside a loop, 1 tabled", len(inLoop)))
			return
		}
		h := ir.LoopHeaderOf(inLoop[0].Block())
		lf := loopFormOf(h)
		if lf.problem != "" {
			c.fail(construct, c.at(inLoop[0]), lf.problem)
			return
		}
		var bad []string
		if k, isC := ir.ConstInt(lf.init); !isC || k != 0 || lf.step != 1 || lf.pre {
			bad = append(bad, "the counter does not run from 0 in steps of 1")
		}
		bk, isC := ir.ConstInt(lf.bound)
		bits := int64(64)
		if bt, ok := lf.phi.Type().Underlying().(*types.Basic); ok {
			switch bt.Kind() {
			case types.Uint8, types.Int8:
				bits = 8
			case types.Uint16, types.Int16:
				bits = 16
			case types.Uint32, types.Int32:
				bits = 32
			}
		}
		switch {
		case !isC:
			bad = append(bad, "the bound is not a constant")
		case lf.op == token.LEQ && bk == want && bits > 8*nb:
		case lf.op == token.LSS && bk == want+1:
		default:
			bad = append(bad, fmt.Sprintf("the loop test is counter %s %d on a %d-bit counter; tabled: counter <= %d (on a wider counter) or counter < %d", lf.op, bk, bits, want, want+1))
		}
		// the prefix of the bucket is the counter
		put := false
		ir.Instrs(fn, func(in ssa.Instruction) {
			cc := ir.CallOf(in)
			if cc == nil || ir.LoopHeaderOf(in.Block()) != h {
				return
			}
			name := ""
			if cc.IsInvoke() {
				name = cc.Method.Name()
			} else if f := cc.StaticCallee(); f != nil {
				name = f.Name()
			}
			if name == "PutUint16" || name == "PutUint32" || name == "AppendUint16" {
				if off, isCtr := counterOffset(lf, ir.Strip(cc.Args[len(cc.Args)-1])); isCtr && off == 0 {
					put = true
				} else if cv, isCv := cc.Args[len(cc.Args)-1].(*ssa.Convert); isCv {
					if off, isCtr := counterOffset(lf, cv.X); isCtr && off == 0 {
						put = true
					}
				}
			}
		})
		if !put {
			bad = append(bad, "the prefix written for the bucket is not the loop counter")
		}
		for _, e := range ir.LoopExits(h) {
			if e == lf.exit {
				continue
			}
			ir.WalkEdge(e, nil, func(in ssa.Instruction) bool {
				if r, ok := in.(*ssa.Return); ok {
					if errSuccess(r) {
						bad = append(bad, "the loop can be left early at "+c.at(e.From.Instrs[len(e.From.Instrs)-1])+" and the function still succeeds")
					}
					return false
				}
				return true
			})
		}
		sort.Strings(bad)
		c.verdict(len(bad) == 0, construct, c.at(lf.test), fmt.Sprintf("counter 0..%d inclusive, prefix = counter, early exits fail", want), join(uniq(bad)), c.at(lf.test))
	})

	c.rule("C07.O7", "closing and reopening the block header store changes none of its answers, also after an append or a rollback that failed half-way: on every non-empty open NewBlockHeaderStore compares the index tip with the last record of the file (not with the record at the index tip\x27s own height, which always matches) and cuts the file back when they differ", func() {
		c.startupReconciliation(reconSpec{fnNewB, "IsEqual"})
	})
	c.rule("C07.G3", "an ancestor range that lies within the chain is served: both FetchHeaderAncestors fail only with an error handed up from the index lookup or the file read, or - a refusal of their own - on the edge where the request is known to reach below the first header (numHeaders > height of the stop hash, in whatever spelling, and exactly that: the range [height-numHeaders, height] holds numHeaders+1 headers and starts at height 0 when the two are equal; a guard that is off by one refuses every range that begins with the genesis header - the first filter batch of a sync)", func() {
		for _, name := range []string{"(*headerfs.blockHeaderStore).FetchHeaderAncestors", "(*headerfs.filterHeaderStore).FetchHeaderAncestors"} {
			fn := c.fn(name)
			hfh := c.hfs("headerIndex", "heightFromHash")
			isEnd := func(v ssa.Value) bool {
				ex, ok := ir.Strip(v).(*ssa.Extract)
				return ok && ex.Index == 0 && valIsCallTo(hfh)(ex.Tuple)
			}
			isNum := func(v ssa.Value) bool { return ir.Strip(v) == ssa.Value(fn.Params[1]) }
			g, odd := relGuard("numHeaders > height of the stop hash", fn, isNum, isEnd, token.GTR)
			errT := types.Universe.Lookup("error").Type()
			handedUp := func(v ssa.Value) bool {
				return ir.InfluencedBy(v, func(x ssa.Value) bool {
					if !types.Identical(x.Type(), errT) {
						return false
					}
					switch y := x.(type) {
					case *ssa.Extract:
						_, isCall := y.Tuple.(*ssa.Call)
						return isCall
					case *ssa.Call:
						return !ir.KnownNonNil(y)
					}
					return false
				})
			}
			// refusals of its own: errors made here (fmt.Errorf / errors.New
			// that wrap no error handed up from a call) that reach a return
			var own []ssa.Instruction
			nres := fn.Signature.Results().Len()
			var rets []ssa.Value
			for _, in := range find(fn, isExit) {
				rets = append(rets, ir.RetVal(in.(*ssa.Return), nres-1))
			}
			ir.Instrs(fn, func(in ssa.Instruction) {
				call, ok := in.(*ssa.Call)
				if !ok || !ir.KnownNonNil(call) || !types.Identical(call.Type(), errT) {
					return
				}
				for _, a := range call.Call.Args {
					if handedUp(a) {
						return
					}
				}
				for _, rv := range rets {
					if ir.DerivesFrom(rv, func(x ssa.Value) bool { return x == ssa.Value(call) }) {
						own = append(own, in)
						return
					}
				}
			})
			construct := c.nm(fn) + " | refuses only requests that reach below the first header"
			if len(own) == 0 {
				c.pass(construct, c.P.Pos(fn.Pos()), "no refusal of its own: every failure is handed up from the index lookup or the file read")
				continue
			}
			if len(odd) > 0 {
				c.fail(construct, c.P.Pos(fn.Pos()), "numHeaders is compared with the height of the stop hash by "+join(odd)+": only numHeaders > height means the range starts below height 0", c.ats(own)...)
				continue
			}
			c.guarded(fn, g, 1, "refusal of the request", own, 1, gDominate)
		}
	})

	c.rule("C07.P2", readsOneSectionDoc, func() { c.readsOneSection() })

	c.rule("C07.O1", "a failed append leaves the store as before: in both WriteHeaders, when the index update (addHeaders / truncateIndices) fails, truncateHeaders(len(hdrs)) runs before every return", func() {
		for _, spec := range []struct {
			fn  string
			idx *types.Func
		}{{fnBWrite, c.hfs("headerIndex", "addHeaders")}, {fnFWrite, c.hfs("headerIndex", "truncateIndices")}} {
			fn := c.fn(spec.fn)
			g := errNil("index update "+spec.idx.Name(), find(fn, callTo(spec.idx)), 0)
			trunc := c.hfs("headerFile", "truncateHeaders")
			c.mustFollow(fn, "index update failed", c.failEdges(g), callTo(trunc), "truncateHeaders(len(hdrs))", nil, 1)
			// the number truncated is the number appended
			okN := false
			for _, t := range find(fn, callTo(trunc)) {
				a := argsOf(t)[0]
				okN = ir.DerivesFrom(a, func(x ssa.Value) bool {
					call, ok := x.(*ssa.Call)
					return ok && isBuiltin("len")(call) && call.Call.Args[0] == ssa.Value(fn.Params[1])
				})
			}
			c.verdict(okN, c.nm(fn)+" | compensation truncates len(hdrs) records", c.P.Pos(fn.Pos()), "truncateHeaders(uint32(len(hdrs)))", "the compensating truncation does not remove exactly len(hdrs) records")
			// the compensation removes records only when they were appended: it is
			// reachable only after appendRaw succeeded (appendRaw repairs its own
			// partial writes; cutting len(hdrs) records after a failed append
			// would remove committed ones)
			app := find(fn, callTo(c.hfs("headerStore", "appendRaw")))
			c.guarded(fn, errNil("appendRaw", app, 0), 1, "truncateHeaders(len(hdrs))", find(fn, callTo(trunc)), 1, gDominate)
			// and the index update itself happens only after a successful append
			c.guarded(fn, errNil("appendRaw", app, 0), 1, "index update "+spec.idx.Name(), find(fn, callTo(spec.idx)), 1, gDominate)
		}
	})

	c.rule("C07.O2", "index atomicity: a failed index update leaves no partial trace, because each index operation (addHeaders: entries + tip; truncateIndices: tip + deletions) is exactly one database transaction", func() {
		c.indexAtomic()
	})

	c.rule("C07.V2", rolledBackEntriesRemovedDoc, func() { c.rolledBackEntriesRemoved() })

	c.rule("C07.V3", "rolled-back entries are no longer found, wherever they were stored: when index entries are deleted each hash is routed to its sub-bucket only on the edge where the root bucket (the old place) was asked for that very hash and did not hold a 4-byte height for it; an entry written in the old format is otherwise left behind and its hash keeps resolving after the rollback", func() {
		hosts, _ := c.hostsOf("headerfs.deleteHeaderEntries")
		// (when folded: the transaction closure of the host)
		var fn *ssa.Function
		var visit func(f *ssa.Function)
		visit = func(f *ssa.Function) {
			ir.Instrs(f, func(in ssa.Instruction) {
				if fn == nil && isBuiltin("len")(in) {
					if g, ok := ir.Strip(ir.CallOf(in).Args[0]).(*ssa.Call); ok && callTo(c.method("github.com/btcsuite/btcwallet/walletdb", "ReadBucket", "Get"))(g) {
						fn = f
					}
				}
			})
			for _, a := range f.AnonFuncs {
				visit(a)
			}
		}
		for _, h := range hosts {
			visit(h)
		}
		if fn == nil {
			panic(anchorErr{"the root-bucket probe of headerfs.deleteHeaderEntries (or of the function it was folded into)"})
		}
		c.R.Funcs[c.nm(fn)] = true
		get := c.method("github.com/btcsuite/btcwallet/walletdb", "ReadBucket", "Get")
		del := c.method("github.com/btcsuite/btcwallet/walletdb", "ReadWriteBucket", "Delete")
		nested := c.method("github.com/btcsuite/btcwallet/walletdb", "ReadWriteBucket", "NestedReadWriteBucket")
		isHashSlice := func(t types.Type) bool {
			sl, ok := t.Underlying().(*types.Slice)
			if !ok {
				return false
			}
			p, ok := sl.Elem().(*types.Pointer)
			return ok && namedTypeIs(p.Elem(), "github.com/btcsuite/btcd/chainhash/v2", "Hash")
		}
		// the probes: len(bucket.Get(k)) compared with 4, bucket not a nested one
		probes := find(fn, binops(eqOps, func(v ssa.Value) bool {
			call, ok := ir.Strip(v).(*ssa.Call)
			if !ok || !isBuiltin("len")(call) {
				return false
			}
			g, ok := ir.Strip(call.Call.Args[0]).(*ssa.Call)
			if !ok || !callTo(get)(g) {
				return false
			}
			recv, _ := recvAndArgs(g)
			return !ir.DerivesFrom(recv, valIsCallTo(nested))
		}, constIntIs(4)))
		// only a probe made with the hash of the current iteration says
		// anything about the entry being routed
		var own []ssa.Instruction
		for _, p := range probes {
			b := p.(*ssa.BinOp)
			lenCall, _ := ir.Strip(b.X).(*ssa.Call)
			if lenCall == nil {
				lenCall, _ = ir.Strip(b.Y).(*ssa.Call)
			}
			getCall := ir.Strip(lenCall.Call.Args[0]).(*ssa.Call)
			_, a := recvAndArgs(getCall)
			h := ir.LoopHeaderOf(p.Block())
			if h == nil || len(a) != 1 {
				continue
			}
			lf := loopFormOf(h)
			if ir.InfluencedBy(a[0], func(x ssa.Value) bool {
				ia, ok := x.(*ssa.IndexAddr)
				if !ok || !isHashSlice(ia.X.Type()) || ir.LoopHeaderOf(ia.Block()) != h {
					return false
				}
				off, isCounter := counterOffset(lf, ia.Index)
				return isCounter && off == 0
			}) {
				own = append(own, p)
			}
		}
		g := equalIs("len(rootBucket.Get(this hash)) vs 4", own, false)
		// the routing: the hash joins a per-sub-bucket group, or (written out)
		// is deleted from a nested bucket in the same loop
		var effects []ssa.Instruction
		ir.Instrs(fn, func(in ssa.Instruction) {
			if mu, ok := in.(*ssa.MapUpdate); ok {
				if m, ok := mu.Map.Type().Underlying().(*types.Map); ok && isHashSlice(m.Elem()) {
					effects = append(effects, in)
				}
			}
		})
		if len(effects) == 0 {
			for _, in := range find(fn, callTo(del)) {
				recv, _ := recvAndArgs(in)
				if ir.DerivesFrom(recv, valIsCallTo(nested)) {
					effects = append(effects, in)
				}
			}
		}
		c.guarded(fn, g, 1, "route the hash to its sub-bucket", effects, 1, gDominate)
	})

	c.rule("C07.V5", "every header of a batch gets its index entry, whatever its hash: addHeaders caches the sub-bucket of the previous entry and resolves a new one when the prefix changes; before anything was resolved the cache must not be able to hit, so the resolution is either unconditional, or skipped only behind bytes.Equal(cached, prefix) with a cached prefix that starts as the empty slice and a prefix of constant non-zero length (an empty slice equals no real prefix), or behind an explicit test that a bucket has been resolved - a cached prefix held in an array starts as 00 00, which is a legal prefix: a header whose hash starts with it is put into a nil bucket", func() {
		fn := c.fn("(*headerfs.headerIndex).addHeaders")
		nested := c.method("github.com/btcsuite/btcwallet/walletdb", "ReadWriteBucket", "NestedReadWriteBucket")
		beq := c.funcObj("bytes", "Equal")
		var cl *ssa.Function
		var res ssa.Instruction
		for _, f := range append([]*ssa.Function{fn}, fn.AnonFuncs...) {
			for _, in := range find(f, callTo(nested)) {
				if ir.LoopHeaderOf(in.Block()) != nil {
					cl, res = f, in
				}
			}
		}
		construct := c.nm(fn) + " | the sub-bucket cache cannot hit before a bucket was resolved"
		if res == nil {
			// resolved per entry elsewhere (helper) or not cached at all
			c.verdict(true, construct, c.P.Pos(fn.Pos()), "no cached resolution inside the entry loop", "")
			return
		}
		h := ir.LoopHeaderOf(res.Block())
		inLoop := ir.LoopBlocks(h)
		// the branch that decides whether the resolution runs
		var conds []*ssa.If
		for b := range inLoop {
			iff, ok := b.Instrs[len(b.Instrs)-1].(*ssa.If)
			if !ok || b == res.Block() {
				continue
			}
			d0 := b.Succs[0] == res.Block() || b.Succs[0].Dominates(res.Block())
			d1 := b.Succs[1] == res.Block() || b.Succs[1].Dominates(res.Block())
			// (a test whose other side leaves the loop is the loop's own
			// continuation test, not a decision to skip the resolution)
			if d0 != d1 && b.Dominates(res.Block()) && inLoop[b.Succs[0]] && inLoop[b.Succs[1]] {
				conds = append(conds, iff)
			}
		}
		ok := len(conds) == 0
		why := "the resolution is unconditional"
		for _, iff := range conds {
			cond := iff.Cond
			for {
				u, isU := cond.(*ssa.UnOp)
				if !isU || u.Op != token.NOT {
					break
				}
				cond = u.X
			}
			good := false
			if call, isCall := cond.(*ssa.Call); isCall && callTo(beq)(call) {
				a := call.Call.Args
				emptyStart := func(v ssa.Value) bool {
					p, isPhi := ir.Strip(v).(*ssa.Phi)
					if !isPhi || p.Block() != h {
						return false
					}
					for i, e := range p.Edges {
						if !inLoop[h.Preds[i]] && !ir.IsNil(ir.Strip(e)) {
							return false
						}
					}
					return true
				}
				realPrefix := func(v ssa.Value) bool {
					sl, isSl := ir.Strip(v).(*ssa.Slice)
					if !isSl || sl.High == nil {
						return false
					}
					hi, isC := ir.ConstInt(sl.High)
					lo := int64(0)
					if sl.Low != nil {
						l, isL := ir.ConstInt(sl.Low)
						if !isL {
							return false
						}
						lo = l
					}
					return isC && hi-lo >= 1
				}
				if len(a) == 2 && (emptyStart(a[0]) && realPrefix(a[1]) || emptyStart(a[1]) && realPrefix(a[0])) {
					good = true
					why = "skipped only behind bytes.Equal(cached, prefix) with cached starting empty and a prefix of constant non-zero length"
				}
			}
			// an explicit "nothing resolved yet" test somewhere in the condition
			if b, isB := cond.(*ssa.BinOp); isB && (b.Op == token.EQL || b.Op == token.NEQ) && (ir.IsNil(b.X) || ir.IsNil(b.Y)) {
				good = true
				why = "the condition tests whether a bucket has been resolved"
			}
			if p, isPhi := cond.(*ssa.Phi); isPhi {
				for _, e := range p.Edges {
					if b, isB := e.(*ssa.BinOp); isB && (ir.IsNil(b.X) || ir.IsNil(b.Y)) {
						good = true
						why = "the condition tests whether a bucket has been resolved"
					}
				}
			}
			if good {
				ok = true
			} else {
				ok = false
				break
			}
		}
		_ = cl
		c.verdict(ok, construct, c.at(res), why, "the resolution of the sub-bucket is skipped behind a comparison that the not-yet-filled cache can satisfy (its start value is a possible prefix): such a header is put into a nil bucket", c.at(res))
	})

	c.rule("C07.O6", "an append that reports failure leaves the file as it was: both WriteHeaders take an error of appendRaw to mean that nothing was added and return without cutting anything off; so inside appendRaw every error return behind the Write passes a Truncate back to the length before the write, the one exception being the edge on which the Write is known to have written nothing (n > 0 is false) - a failure reported after a complete write (a failed Sync, say) leaves whole records in the file that the index knows nothing about, and the next append lands behind them", func() {
		fn := c.fn(fnAppend)
		wr := c.method("io", "Writer", "Write")
		truncM := c.method("headerfs", "File", "Truncate")
		writes := find(fn, callTo(wr))
		construct := c.nm(fn) + " | an error return behind the Write has cut the written bytes off"
		if len(writes) != 1 {
			c.fail(construct, c.P.Pos(fn.Pos()), fmt.Sprintf("%d Write call(s) in appendRaw, 1 tabled", len(writes)))
			return
		}
		w := writes[0].(ssa.Value)
		// the count the Write returned, or a running total of such counts
		// (a write issued in chunks): 0 plus counts
		var isCount func(v ssa.Value, seen map[ssa.Value]bool) bool
		isCount = func(v ssa.Value, seen map[ssa.Value]bool) bool {
			v = ir.Strip(v)
			if seen[v] {
				return true
			}
			seen[v] = true
			switch x := v.(type) {
			case *ssa.Extract:
				return x.Index == 0 && x.Tuple == w
			case *ssa.BinOp:
				return x.Op == token.ADD && isCount(x.X, seen) && isCount(x.Y, seen)
			case *ssa.Phi:
				for _, e := range x.Edges {
					if k, isC := ir.ConstInt(e); isC && k == 0 {
						continue
					}
					if !isCount(e, seen) {
						return false
					}
				}
				return true
			}
			return false
		}
		isN := func(v ssa.Value) bool {
			if _, isC := v.(*ssa.Const); isC {
				return false
			}
			return isCount(v, map[ssa.Value]bool{})
		}
		some, _ := relGuard("n > 0", fn, isN, constIntIs(0), token.GTR)
		cut := ir.Cut{}
		for _, s := range some.sites {
			cut[s.br.Other()] = true
		}
		var bad []string
		ir.WalkAfter(writes[0], cut, func(in ssa.Instruction) bool {
			if callTo(truncM)(in) {
				return false
			}
			if r, ok := in.(*ssa.Return); ok {
				if !ir.IsNil(ir.Strip(ir.RetVal(r, 0))) {
					bad = append(bad, c.at(r))
				}
				return false
			}
			return true
		})
		sort.Strings(bad)
		c.verdict(len(bad) == 0, construct, c.at(writes[0]), "every failure behind the Write truncates first (or nothing was written)", "appendRaw can report failure at "+join(uniq(bad))+" with the bytes of this call still in the file: the callers do not cut them off, the index does not know them, and the next append lands behind them", c.ats(writes)...)
	})

	c.rule("C07.V4", blockLocatorDoc, func() { c.blockLocatorToGenesis() })

	c.rule("C07.V1", "appendRaw: the size used to cut a partial write off is the end-of-file offset before the write (the file is opened O_APPEND, so the current offset is not the end of file after open or after a truncate): Seek(0, io.SeekEnd) or Stat().Size()", func() {
		fn := c.fn(fnAppend)
		truncM := c.method("headerfs", "File", "Truncate")
		ts := find(fn, callTo(truncM))
		if len(ts) < 1 {
			c.fail(c.nm(fn)+" | partial-write truncation", c.P.Pos(fn.Pos()), "no File.Truncate call found in appendRaw")
			return
		}
		for _, t := range ts {
			a := argsOf(t)[0]
			okv := ir.DerivesFrom(a, func(x ssa.Value) bool {
				call, ok := x.(*ssa.Call)
				if !ok || !call.Call.IsInvoke() {
					return false
				}
				switch call.Call.Method.Name() {
				case "Seek":
					k, isC := ir.ConstInt(call.Call.Args[1])
					return isC && k == 2 // io.SeekEnd
				case "Size":
					return true
				}
				return false
			})
			c.verdict(okv, c.nm(fn)+" | Truncate size = end of file before the write", c.at(t),
				"size derives from Seek(0, io.SeekEnd) / Stat().Size()",
				"the size given to Truncate after a partial write comes from Seek(0, io.SeekCurrent): on an O_APPEND handle that offset is 0 after open (and stale after a truncate), so the recovery would cut valid headers off", c.at(t))
		}
		// the write error is surfaced on every path
		wr := c.method("io", "Writer", "Write")
		g := errNil("file.Write", find(fn, callTo(wr)), 1)
		// ... or nothing is (left) to be written: len(<the bytes handed in>) <= 0
		isLenBuf := func(v ssa.Value) bool {
			call, ok := ir.Strip(v).(*ssa.Call)
			return ok && isBuiltin("len")(call) && len(fn.Params) > 1 && ir.DerivesFrom(call.Call.Args[0], func(x ssa.Value) bool { return x == ssa.Value(fn.Params[1]) })
		}
		if empty, _ := relGuard("len(header) <= 0", fn, isLenBuf, constIntIs(0), token.LEQ); len(empty.sites) > 0 {
			g = unionGuard("file.Write = nil, or nothing left to write", g, empty)
		}
		c.nilReturnsGuarded(fn, g, 1)
	})

	c.rule("C07.T1", "record-size agreement: every size constant used for offsets/lengths in block-header store code is 80 (= BlockHeaderSize) and in filter-header store code 32 (= RegularFilterHeaderSize); HeaderType.Size returns those constants", func() {
		p := c.P.Pkg("headerfs")
		get := func(n string) int64 {
			k, ok := p.Scope().Lookup(n).(*types.Const)
			if !ok {
				panic(anchorErr{"const headerfs." + n})
			}
			v, _ := constant.Int64Val(k.Val())
			return v
		}
		bsz, fsz := get("BlockHeaderSize"), get("RegularFilterHeaderSize")
		c.verdict(bsz == 80 && fsz == 32, "headerfs.BlockHeaderSize=80, RegularFilterHeaderSize=32", "", "constants have the wire sizes", fmt.Sprintf("BlockHeaderSize=%d RegularFilterHeaderSize=%d", bsz, fsz), "consts")
		check := func(prefixes []string, want int64) {
			var sites, bad []string
			for _, fn := range c.P.Funcs {
				n := c.nm(fn)
				match := false
				for _, pf := range prefixes {
					if strings.HasPrefix(n, pf) {
						match = true
					}
				}
				if !match {
					continue
				}
				c.R.Funcs[n] = true
				ir.Instrs(fn, func(in ssa.Instruction) {
					b, ok := in.(*ssa.BinOp)
					if !ok || (b.Op != token.MUL && b.Op != token.QUO && b.Op != token.REM) {
						return
					}
					for _, op := range []ssa.Value{b.X, b.Y} {
						if k, isC := ir.ConstInt(op); isC && k >= 8 {
							sites = append(sites, fmt.Sprintf("%s:%d", c.at(in), k))
							if k != want {
								bad = append(bad, fmt.Sprintf("constant %d at %s (want %d)", k, c.at(in), want))
							}
						}
					}
				})
			}
			sort.Strings(sites)
			// the size constants may have moved behind HeaderType.Size (checked
			// above) and a shared offset helper: one remaining site is enough
			c.verdict(len(bad) == 0 && len(sites) >= 1, fmt.Sprintf("record size %d | %s", want, prefixes[0]), "", fmt.Sprintf("%d size constants all equal %d", len(sites), want), join(bad)+fmt.Sprintf(" (%d sites)", len(sites)), sites...)
		}
		check([]string{"(*headerfs.blockHeaderStore).", fnNewB}, bsz)
		check([]string{"(*headerfs.filterHeaderStore).", fnNewF}, fsz)
	})

	c.rule("C07.V9", "lookups by hash and of the tip are answered from the database: the block and the filter header store each own a headerIndex over the SAME hash->height bucket (entries are added and removed through the block store only), so an answer one instance kept in memory is stale after the other rolled the bucket back: every successful return of headerIndex.heightFromHash and headerIndex.chainTip lies behind a walletdb.View transaction of that very call", func() {
		view := c.funcObj("github.com/btcsuite/btcwallet/walletdb", "View")
		upd := c.funcObj("github.com/btcsuite/btcwallet/walletdb", "Update")
		for _, name := range []string{"(*headerfs.headerIndex).heightFromHash", "(*headerfs.headerIndex).chainTip"} {
			fn := c.fn(name)
			isOK := func(in ssa.Instruction) bool {
				r, ok := in.(*ssa.Return)
				return ok && errSuccess(r)
			}
			c.mustPrecede(fn, callTo(view, upd), "walletdb.View", isOK, "a successful return", 1)
		}
	})

	c.rule("C07.V8", "a rollback removes exactly the n newest entries from the file too (the index moves back by n: a file that keeps them answers lookups above the tip, and the next append lands behind them): "+truncatesWholeRecordsDoc, func() { c.truncatesWholeRecords() })

	c.rule("C07.V7", "a height beyond the tip is not found, however large: every offset and length handed to the flat file (File.ReadAt / WriteAt / Truncate / Seek) that is the product of a height or count and a record size is multiplied out in 64 bits; a 32-bit product wraps (height 2^27+k of the filter store, 2^28+k of the block store lands on the header at height k, and FetchHeaderByHeight returns it with a nil error where a plain list reports 'not found')", func() {
		fileT := c.P.Named("headerfs", "File")
		if fileT == nil {
			panic(anchorErr{"headerfs.File"})
		}
		n := 0
		var bad, sites []string
		narrow := func(t types.Type) bool {
			b, ok := t.Underlying().(*types.Basic)
			if !ok {
				return false
			}
			switch b.Kind() {
			case types.Int8, types.Int16, types.Int32, types.Uint8, types.Uint16, types.Uint32:
				return true
			}
			return false
		}
		for _, fn := range c.P.Funcs {
			if fn.Pkg == nil || fn.Pkg.Pkg.Path() != ir.ModPath+"/headerfs" {
				continue
			}
			ir.Instrs(fn, func(in ssa.Instruction) {
				cc := ir.CallOf(in)
				if cc == nil {
					return
				}
				name := ""
				if cc.IsInvoke() {
					name = cc.Method.Name()
				} else if f := cc.StaticCallee(); f != nil && f.Signature.Recv() != nil && strings.HasSuffix(f.Signature.Recv().Type().String(), "os.File") {
					name = f.Name()
				}
				var off ssa.Value
				switch name {
				case "ReadAt", "WriteAt":
					if a := argsOf(in); len(a) == 2 {
						off = a[1]
					}
				case "Truncate", "Seek":
					if a := argsOf(in); len(a) >= 1 {
						off = a[0]
					}
				}
				if off == nil {
					return
				}
				if b, ok := off.Type().Underlying().(*types.Basic); !ok || b.Kind() != types.Int64 {
					return
				}
				n++
				sites = append(sites, c.at(in))
				// products on the way to the offset
				seen := map[ssa.Value]bool{}
				var walk func(v ssa.Value, d int)
				walk = func(v ssa.Value, d int) {
					if v == nil || seen[v] || d > 12 {
						return
					}
					seen[v] = true
					switch x := v.(type) {
					case *ssa.Convert:
						walk(x.X, d+1)
					case *ssa.ChangeType:
						walk(x.X, d+1)
					case *ssa.Phi:
						for _, e := range x.Edges {
							walk(e, d+1)
						}
					case *ssa.BinOp:
						if x.Op == token.MUL && narrow(x.Type()) {
							bad = append(bad, fmt.Sprintf("%s: the offset of the file access at %s contains a %s product computed at %s", c.nm(fn), c.at(in), x.Type().String(), c.at(x)))
						}
						// below a product lie the height / count and the
						// record size themselves, not offsets: the walk
						// ends there
						if x.Op == token.ADD || x.Op == token.SUB {
							walk(x.X, d+1)
							walk(x.Y, d+1)
						}
					case *ssa.Parameter:
						// the offset is worked out by the callers
						callee := x.Parent()
						idx := -1
						for i, pp := range callee.Params {
							if pp == x {
								idx = i
							}
						}
						for _, g := range c.P.Funcs {
							if g.Pkg != callee.Pkg {
								continue
							}
							ir.Instrs(g, func(ci ssa.Instruction) {
								cc2 := ir.CallOf(ci)
								if cc2 == nil || cc2.IsInvoke() || cc2.StaticCallee() != callee {
									return
								}
								args := cc2.Args
								if idx >= 0 && idx < len(args) {
									walk(args[idx], d+1)
								}
							})
						}
					case *ssa.UnOp:
						if x.Op == token.MUL { // load of a local cell
							if al, ok := x.X.(*ssa.Alloc); ok {
								for _, st := range ir.StoresTo(al) {
									walk(st.Val, d+1)
								}
							}
						}
					}
				}
				walk(off, 0)
			})
		}
		sort.Strings(bad)
		c.verdict(len(bad) == 0 && n >= 3, "headerfs | flat-file offsets are 64-bit products", "", fmt.Sprintf("%d file accesses with an offset; no narrow product on the way to any of them", n), join(uniq(bad))+fmt.Sprintf(" (%d accesses)", n), sites...)
	})

	c.rule("C07.G1", "RollbackBlockHeaders never rolls back past genesis: both truncations are reachable only when n > chainTipHeight is false", func() {
		fn := c.fn(fnBRoll)
		tip := c.hfs("headerIndex", "chainTip")
		isTip := func(v ssa.Value) bool { return ir.DerivesFrom(v, valIsCallTo(tip)) }
		g, odd := lessFalse("chainTipHeight < n", fn, isTip, func(v ssa.Value) bool { return v == ssa.Value(fn.Params[1]) })
		if len(odd) > 0 {
			c.fail(c.nm(fn)+" | genesis guard shape", c.P.Pos(fn.Pos()), "n compared with the tip height by an unexpected operator: "+join(odd))
		}
		eff := find(fn, callTo(c.hfs("headerFile", "truncateHeaders"), c.hfs("headerIndex", "truncateIndices")))
		c.guarded(fn, g, 1, "truncateHeaders / truncateIndices", eff, 2, gDominate)
		c.guarded(fn, errNil("chainTip()", find(fn, callTo(tip)), 2), 1, "truncateHeaders / truncateIndices", eff, 2, gDominate)
	})
	c.rule("C07.W2", "stated belief vs behaviour: addHeaders treats a missing hash-prefix sub-bucket as a hard error because ensureIndexSubBuckets creates all of them once (marker-gated, never re-run); therefore nothing in package headerfs may delete a bucket (a rollback that drops an emptied sub-bucket makes every later append of a hash with that prefix fail for good)", func() {
		wdb := "github.com/btcsuite/btcwallet/walletdb"
		dels := callTo(c.method(wdb, "ReadWriteBucket", "DeleteNestedBucket"), c.method(wdb, "ReadWriteTx", "DeleteTopLevelBucket"))
		var inPkg, elsewhere []string
		for _, f := range c.P.Funcs {
			for _, x := range find(f, dels) {
				if pkgOf(f) != nil && strings.HasSuffix(pkgOf(f).Path(), "/headerfs") {
					inPkg = append(inPkg, c.nm(f)+" at "+c.at(x))
				} else {
					elsewhere = append(elsewhere, c.nm(f)+"@"+c.at(x))
				}
			}
		}
		sort.Strings(inPkg)
		// the belief is still stated: addHeaders fails on a nil sub-bucket
		add := c.fn("(*headerfs.headerIndex).addHeaders")
		believes := false
		// (this rule looks AT a guard clause: the explorations must follow it)
		ir.DisableNilGuards = true
		defer func() { ir.DisableNilGuards = false }()
		for _, f := range ir.WithClosures(add) {
			for _, x := range find(f, callTo(c.method(wdb, "ReadWriteBucket", "NestedReadWriteBucket"))) {
				for _, br := range ir.NilBranches(x.(ssa.Value)) {
					// on the nil edge an error is returned
					e := br.Other()
					ir.WalkEdge(e, nil, func(in ssa.Instruction) bool {
						if r, ok := in.(*ssa.Return); ok && len(r.Results) == 1 && knownNonNilError(ir.RetVal(r, 0)) {
							believes = true
						}
						return !believes
					})
				}
			}
		}
		if !believes {
			c.pass("package headerfs | sub-buckets are never deleted", "-", "addHeaders no longer assumes pre-created sub-buckets (it tolerates or re-creates a missing one): rule not applicable", elsewhere...)
			return
		}
		c.verdict(len(inPkg) == 0 && len(elsewhere) >= 1, "package headerfs | sub-buckets are never deleted", "-", fmt.Sprintf("no bucket deletion in headerfs (selector control: %d deletion site(s) elsewhere in the module)", len(elsewhere)), "bucket deleted at "+join(inPkg)+fmt.Sprintf(" while addHeaders fails hard on a missing sub-bucket (control sites elsewhere: %d)", len(elsewhere)), append(inPkg, elsewhere...)...)
	})

	c.rule("C07.O4", "pooled write buffers start empty: wherever the module takes a *bytes.Buffer from a sync.Pool, either Reset() is called on it before anything else touches it on every path, or every Put of such a buffer (deferred ones at every exit) comes after a Reset() (a buffer handed back by a failed append still holds that batch; written out in front of the next batch it would put records the index knows nothing about into the file)", func() {
		get := c.method("sync", "Pool", "Get")
		put := c.method("sync", "Pool", "Put")
		reset := c.method("bytes", "Buffer", "Reset")
		isBuf := func(v ssa.Value) bool {
			if mi, ok := v.(*ssa.MakeInterface); ok {
				v = mi.X
			}
			p, ok := v.Type().(*types.Pointer)
			if !ok {
				return false
			}
			nt, ok := p.Elem().(*types.Named)
			return ok && nt.Obj().Name() == "Buffer" && nt.Obj().Pkg() != nil && nt.Obj().Pkg().Path() == "bytes"
		}
		isResetCall := func(in ssa.Instruction) bool {
			_, isCall := in.(*ssa.Call)
			return isCall && callTo(reset)(in)
		}
		// (b) every Put of a buffer is behind a Reset
		putsClean := true
		var putSites, dirtyPuts []string
		for _, fn := range c.P.Funcs {
			for _, in := range find(fn, callTo(put)) {
				cc := ir.CallOf(in)
				if len(cc.Args) < 2 || !isBuf(cc.Args[1]) {
					continue
				}
				putSites = append(putSites, c.at(in))
				dirty := false
				if _, isDefer := in.(*ssa.Defer); isDefer {
					ir.WalkCtx(in.Block(), ir.IndexIn(in)+1, nil, nil, func(x ssa.Instruction) bool {
						if isResetCall(x) {
							return false
						}
						if _, isRet := x.(*ssa.Return); isRet {
							dirty = true
						}
						if _, isRD := x.(*ssa.RunDefers); isRD {
							dirty = true
						}
						return true
					})
				} else {
					ir.WalkCtx(fn.Blocks[0], 0, nil, nil, func(x ssa.Instruction) bool {
						if isResetCall(x) {
							return false
						}
						if x == in {
							dirty = true
						}
						return true
					})
				}
				if dirty {
					putsClean = false
					dirtyPuts = append(dirtyPuts, c.at(in))
				}
			}
		}
		n := 0
		for _, fn := range c.P.Funcs {
			gets := find(fn, callTo(get))
			if len(gets) == 0 {
				continue
			}
			fromPool := func(v ssa.Value) bool {
				return ir.DerivesFrom(v, func(x ssa.Value) bool {
					in, ok := x.(ssa.Instruction)
					return ok && callTo(get)(in)
				})
			}
			isReset := func(in ssa.Instruction) bool {
				if !isResetCall(in) {
					return false
				}
				cc := ir.CallOf(in)
				return len(cc.Args) > 0 && fromPool(cc.Args[0])
			}
			isUse := func(in ssa.Instruction) bool {
				call, isCall := in.(*ssa.Call)
				if !isCall || isReset(in) {
					return false
				}
				cc := call.Common()
				vals := append([]ssa.Value{}, cc.Args...)
				if cc.IsInvoke() {
					vals = append(vals, cc.Value)
				}
				for _, a := range vals {
					if mi, ok := a.(*ssa.MakeInterface); ok {
						a = mi.X
					}
					if isBuf(a) && fromPool(a) {
						return true
					}
				}
				return false
			}
			uses := find(fn, isUse)
			if len(uses) == 0 && len(find(fn, isReset)) == 0 {
				continue
			}
			n++
			construct := c.nm(fn) + " | the pooled buffer is empty when first used"
			var bad []string
			ir.WalkCtx(fn.Blocks[0], 0, nil, nil, func(in ssa.Instruction) bool {
				if isReset(in) {
					return false
				}
				if isUse(in) {
					bad = append(bad, c.at(in))
				}
				return true
			})
			sort.Strings(bad)
			bad = uniq(bad)
			switch {
			case len(bad) == 0:
				c.pass(construct, c.P.Pos(fn.Pos()), "Reset() precedes every use on every path", c.ats(uses)...)
			case putsClean && len(putSites) > 0:
				c.pass(construct, c.P.Pos(fn.Pos()), "every Put of a buffer into a pool comes after a Reset()", putSites...)
			default:
				c.fail(construct, c.P.Pos(fn.Pos()), fmt.Sprintf("the buffer taken from the pool is used at %s without a Reset() before it, and buffers are put back without a Reset() at %s: what a failed append left in the buffer is written in front of the next batch", join(bad), join(dirtyPuts)), bad...)
			}
		}
		c.verdict(n >= 2, "module | functions that take a write buffer from a sync.Pool", "-", fmt.Sprintf("%d function(s) examined", n), fmt.Sprintf("found %d function(s) using a pooled *bytes.Buffer, the pinned tree has 2 (both WriteHeaders)", n))
	})

	c.rule("C07.O5", "nothing in memory outlives a transaction that failed to commit: in package headerfs a function literal handed to walletdb.Update (it may run to completion and the commit still fail) changes, besides the database, only variables of the function that created it; it never stores into a field of the store / index object or of anything else reachable from outside (a tip cached there would survive the rollback of the index and WriteHeaders' compensating truncation: the store reports a batch that was never stored until it is reopened)", func() {
		upd := c.funcObj("github.com/btcsuite/btcwallet/walletdb", "Update")
		n := 0
		var bad, sites []string
		for _, fn := range c.P.Funcs {
			if pkgOf(fn) == nil || !strings.HasSuffix(pkgOf(fn).Path(), "/headerfs") || fn.Parent() != nil {
				continue
			}
			for _, cl := range closuresPassedTo(fn, upd) {
				n++
				sites = append(sites, c.nm(cl))
				for _, f := range ir.WithClosures(cl) {
					ir.Instrs(f, func(in ssa.Instruction) {
						st, ok := in.(*ssa.Store)
						if !ok {
							return
						}
						// a field / element reached through a pointer that the closure
						// did not make itself (a field of a captured local struct
						// variable is still the creator's local)
						outside := false
						var base ssa.Value = st.Addr
						for {
							switch a := base.(type) {
							case *ssa.FieldAddr:
								base = a.X
								continue
							case *ssa.IndexAddr:
								base = a.X
								continue
							}
							break
						}
						switch y := base.(type) {
						case *ssa.Global:
							outside = true
						case *ssa.UnOp:
							// *p: where does p come from
							if base != st.Addr {
								outside = ir.DerivesFrom(y.X, func(x ssa.Value) bool {
									switch x.(type) {
									case *ssa.FreeVar, *ssa.Global:
										return true
									}
									return false
								})
							}
						case *ssa.FreeVar:
							// the captured variable itself (or a field of it): a local of the creator
							_ = y
						}
						if outside {
							bad = append(bad, c.nm(f)+" at "+c.at(in))
						}
					})
				}
			}
		}
		sort.Strings(bad)
		c.verdict(len(bad) == 0 && n >= 2, "headerfs | transaction closures change only the database and their creator's locals", "", fmt.Sprintf("%d function literal(s) handed to walletdb.Update", n), "memory reachable from outside is written inside a walletdb.Update closure (kept even if the commit fails): "+join(bad)+fmt.Sprintf(" (%d closures)", n), sites...)
	})

	c.rule("C07.O3", "a read delivers what was asked for or fails: every function of package headerfs that lets the file fill a buffer (File.ReadAt: readRaw and readHeadersFromFile in the pinned tree) reports success only when ReadAt reported no error at all (a short read at the end of the file is an error, not a shorter result), and never narrows the buffer it had filled", func() {
		n := 0
		for _, fn := range c.P.Funcs {
			if pkgOf(fn) == nil || !strings.HasSuffix(pkgOf(fn).Path(), "/headerfs") || fn.Signature.Results().Len() == 0 {
				continue
			}
			var reads []ssa.Instruction
			ir.Instrs(fn, func(in ssa.Instruction) {
				if cc := ir.CallOf(in); cc != nil {
					if cal := ir.Resolve(cc); cal.Func != nil && cal.Func.Name() == "ReadAt" {
						reads = append(reads, in)
					}
				}
			})
			if len(reads) == 0 {
				continue
			}
			n++
			c.R.Funcs[c.nm(fn)] = true
			last := fn.Signature.Results().Len() - 1
			if !isErrorType(fn.Signature.Results().At(last).Type()) {
				c.fail(c.nm(fn)+" | read errors are reported", c.P.Pos(fn.Pos()), "a function that reads from the header file has no error result")
				continue
			}
			var okRets []ssa.Instruction
			for _, r := range find(fn, isExit) {
				if errSuccess(r.(*ssa.Return)) {
					okRets = append(okRets, r)
				}
			}
			c.guarded(fn, errNil("File.ReadAt", reads, 1), 1, "possibly successful return", okRets, 1, gDominate)
			// the whole buffer
			okWhole := true
			for _, rd := range reads {
				buf := argsOf(rd)[0]
				ir.Instrs(fn, func(x ssa.Instruction) {
					if sl, ok := x.(*ssa.Slice); ok && sl.X == buf && (sl.Low != nil || sl.High != nil) {
						okWhole = false
					}
				})
			}
			c.verdict(okWhole, c.nm(fn)+" | the buffer that was filled is used whole", c.P.Pos(fn.Pos()), "no narrowing of the slice passed to ReadAt", "the buffer handed to ReadAt is narrowed afterwards (a prefix of a short read would be accepted as the range)")
		}
		c.verdict(n >= 2, "headerfs | functions reading from the header file", "", fmt.Sprintf("%d function(s)", n), fmt.Sprintf("%d function(s) of package headerfs call File.ReadAt, at least 2 expected (single-record and range reads)", n))
	})

	c.rule("C07.G2", "the filter-header store refuses a rollback past genesis before touching anything: in filterHeaderStore.RollbackLastBlock both truncations are reachable only after the header at (tip height - 1) was read successfully (at tip height 0 the subtraction wraps and the read fails) or after an explicit tip-height comparison; a rollback at genesis must not move the index or cut the file", func() {
		fn := c.fn("(*headerfs.filterHeaderStore).RollbackLastBlock")
		tip := c.hfs("headerIndex", "chainTip")
		isTip := func(v ssa.Value) bool { return ir.DerivesFrom(v, valIsCallTo(tip)) }
		var reads []ssa.Instruction
		for _, f := range c.fns("(*headerfs.filterHeaderStore).readHeader") {
			obj, _ := f.Object().(*types.Func)
			for _, x := range find(fn, callTo(obj)) {
				a := argsOf(x)
				if b, ok := a[len(a)-1].(*ssa.BinOp); ok && b.Op == token.SUB && isTip(b.X) {
					if k, isC := ir.ConstInt(b.Y); isC && k == 1 {
						reads = append(reads, x)
					}
				}
			}
		}
		g := errNil("readHeader(chainTipHeight-1)", reads, 1)
		cmp, _ := relGuard("chainTipHeight > 0", fn, isTip, constIntIs(0), token.GTR)
		g.sites = append(g.sites, cmp.sites...)
		g.found += cmp.found
		eff := find(fn, callTo(c.hfs("headerFile", "truncateHeaders"), c.hfs("headerIndex", "truncateIndices")))
		c.guarded(fn, g, 1, "truncateHeaders / truncateIndices", eff, 2, gDominate)
	})
}

// indexAtomic: the header index is changed by exactly one database transaction
// per operation: addHeaders (entries + tip) and truncateIndices (tip + entry
// deletion) each contain one walletdb.Update call, outside any loop, and no
// further transaction is reachable from them. A failure or crash therefore
// leaves either all or none of an operation's index changes.
func (c *Ctx) indexAtomic() {
	upd := c.funcObj("github.com/btcsuite/btcwallet/walletdb", "Update")
	put := c.method("github.com/btcsuite/btcwallet/walletdb", "ReadWriteBucket", "Put")
	del := c.method("github.com/btcsuite/btcwallet/walletdb", "ReadWriteBucket", "Delete")
	for _, spec := range []struct {
		name  string
		entry *types.Func // the per-entry helper; nil when it was folded into the operation
		prim  *types.Func // what the helper does per entry
	}{
		{"(*headerfs.headerIndex).addHeaders", c.P.FuncObj("headerfs", "putHeaderEntryInBucket"), put},
		{"(*headerfs.headerIndex).truncateIndices", c.P.FuncObj("headerfs", "deleteHeaderEntries"), del},
	} {
		fn := c.fn(spec.name)
		var sites []ssa.Instruction
		var where []string
		for f := range c.reachable(fn) {
			for _, in := range find(f, callTo(upd)) {
				sites = append(sites, in)
				where = append(where, c.nm(f)+"@"+c.at(in))
			}
		}
		sort.Strings(where)
		okv := len(sites) == 1 && sites[0].Parent() == fn && ir.LoopHeaderOf(sites[0].Block()) == nil
		c.verdict(okv, spec.name+" | one database transaction per index operation", c.P.Pos(fn.Pos()), "a single walletdb.Update, outside any loop",
			fmt.Sprintf("the index operation spans %d database transactions (%s): a failure or crash between them leaves the hash index and the tip pointer inconsistent with each other and with the file", len(sites), join(where)), where...)
		if !okv {
			continue
		}
		// inside that one transaction: the entry mutation and the tip update
		cls := closuresPassedTo(fn, upd)
		okBoth := false
		if len(cls) == 1 {
			nEntry, nTip := 0, 0
			for f := range c.reachable(cls[0]) {
				if spec.entry != nil {
					nEntry += len(find(f, callTo(spec.entry)))
				}
				// written out: the per-entry bucket operation inside a loop
				for _, in := range find(f, callTo(spec.prim)) {
					if ir.LoopHeaderOf(in.Block()) != nil {
						nEntry++
					}
				}
			}
			for _, in := range find(cls[0], callTo(put)) {
				if ir.LoopHeaderOf(in.Block()) == nil {
					nTip++
				}
			}
			okBoth = nEntry >= 1 && nTip >= 1
		}
		c.verdict(okBoth, spec.name+" | entries and tip pointer change in the same transaction", c.P.Pos(fn.Pos()), "entry mutation and tip Put inside the transaction closure", "the transaction no longer contains both the entry mutation and the tip update")
	}
}

const rolledBackEntriesRemovedDoc = "RollbackBlockHeaders removes the index entry of every rolled-back header: the slice handed to truncateIndices holds one distinct hash per removed header (a fresh cell per iteration, filled with that header's BlockHash()), and no module function stores the address of one loop-invariant variable into the elements of a slice inside a loop"

// rolledBackEntriesRemoved: see rolledBackEntriesRemovedDoc (C07.V2, also C02.V6).
func (c *Ctx) rolledBackEntriesRemoved() {
	fn := c.fn(fnBRoll)
	ti := find(fn, callTo(c.hfs("headerIndex", "truncateIndices")))
	bh := c.method(pWire, "BlockHeader", "BlockHash")
	okv := len(ti) == 1
	var elemStores []ssa.Instruction
	ir.Instrs(fn, func(in ssa.Instruction) {
		st, ok := in.(*ssa.Store)
		if !ok {
			return
		}
		if _, isIdx := st.Addr.(*ssa.IndexAddr); !isIdx {
			return
		}
		if al, isAl := st.Val.(*ssa.Alloc); isAl {
			elemStores = append(elemStores, in)
			h := ir.LoopHeaderOf(in.Block())
			// fresh per iteration: allocated inside the same loop
			if h == nil || ir.LoopHeaderOf(al.Block()) != h {
				okv = false
			}
			// filled with the BlockHash of a header
			filled := false
			for _, s2 := range ir.StoresTo(al) {
				if valIsCallTo(bh)(s2.Val) {
					filled = true
				}
			}
			if !filled {
				okv = false
			}
		}
	})
	c.verdict(okv && len(elemStores) == 1, c.nm(fn)+" | one fresh hash cell per removed header", c.P.Pos(fn.Pos()), "per-iteration cell holding header.BlockHash()", "the hashes handed to truncateIndices are not one distinct cell per removed header (all elements alias one variable, or are not the headers' hashes): index entries of rolled-back headers survive", c.ats(elemStores)...)
	// generic aliasing check over the module
	var bad []string
	for _, f := range c.P.Funcs {
		ir.Instrs(f, func(in ssa.Instruction) {
			st, ok := in.(*ssa.Store)
			if !ok {
				return
			}
			if _, isIdx := st.Addr.(*ssa.IndexAddr); !isIdx {
				return
			}
			al, isAl := st.Val.(*ssa.Alloc)
			if !isAl || !al.Heap {
				return
			}
			h := ir.LoopHeaderOf(in.Block())
			if h == nil {
				return
			}
			if !h.Dominates(al.Block()) || al.Block() == h && false {
				bad = append(bad, c.nm(f)+" at "+c.at(in))
			}
		})
	}
	sort.Strings(bad)
	c.verdict(len(bad) == 0, "module | no slice element inside a loop is set to the address of a variable declared outside that loop", "", "no such aliasing", "address of a loop-invariant variable stored into slice elements inside a loop (every element aliases the same variable): "+join(bad), "all module functions")
}

const blockLocatorDoc = "a block locator reaches back to genesis: the walk in blockLocatorFromHash goes on until its height is 0 or the locator is full; its loop is left only on a comparison of the running height with 0, on the length of the locator reaching the message limit, or towards an error return - a walk that stops when the next (doubled) step would overshoot leaves genesis out, and a peer on another branch than all listed hashes cannot locate the fork point"

// blockLocatorToGenesis: see blockLocatorDoc (C07.V4, also C04.O7).
func (c *Ctx) blockLocatorToGenesis() {
	fn := c.fn("(*headerfs.blockHeaderStore).blockLocatorFromHash")
	// (the exported reader, or the lock-free one when the caller's read lock
	// covers the whole walk)
	readers := []*types.Func{c.hfs("blockHeaderStore", "FetchHeaderByHeight")}
	readers = append(readers, c.methodsOpt("headerfs", "blockHeaderStore", "readHeader")...)
	calls := find(fn, callTo(readers...))
	construct := c.nm(fn) + " | the locator walk ends at height 0 or a full locator"
	var h *ssa.BasicBlock
	for _, in := range calls {
		if lh := ir.LoopHeaderOf(in.Block()); lh != nil {
			h = lh
		}
	}
	if h == nil {
		c.fail(construct, c.P.Pos(fn.Pos()), "no loop fetching headers by height")
		return
	}
	inLoop := ir.LoopBlocks(h)
	isHeight := func(v ssa.Value) bool {
		p, ok := ir.Strip(v).(*ssa.Phi)
		if !ok || !inLoop[p.Block()] {
			return false
		}
		for _, in := range calls {
			_, a := recvAndArgs(in)
			if len(a) == 1 && ir.DerivesFrom(a[0], func(x ssa.Value) bool { return x == ssa.Value(p) }) {
				return true
			}
		}
		return false
	}
	isLen := func(v ssa.Value) bool {
		call, ok := ir.Strip(v).(*ssa.Call)
		return ok && isBuiltin("len")(call)
	}
	isConst := func(v ssa.Value) bool { _, ok := ir.ConstInt(ir.Strip(v)); return ok }
	var bad []string
	n := 0
	for _, e := range ir.LoopExits(h) {
		n++
		iff, ok := e.From.Instrs[len(e.From.Instrs)-1].(*ssa.If)
		okExit := false
		if ok {
			if b, isB := iff.Cond.(*ssa.BinOp); isB {
				zero := func(v ssa.Value) bool { k, isC := ir.ConstInt(ir.Strip(v)); return isC && k == 0 }
				switch {
				case isHeight(b.X) && zero(b.Y), isHeight(b.Y) && zero(b.X):
					okExit = true
				case isLen(b.X) && isConst(b.Y), isLen(b.Y) && isConst(b.X):
					okExit = true
				}
			}
		}
		if okExit {
			continue
		}
		// any other way out must fail
		succeeds := false
		ir.WalkEdge(e, nil, func(in ssa.Instruction) bool {
			if r, ok := in.(*ssa.Return); ok {
				if errSuccess(r) {
					succeeds = true
				}
				return false
			}
			return true
		})
		if succeeds {
			bad = append(bad, "the walk can stop at "+c.at(e.From.Instrs[len(e.From.Instrs)-1])+" (neither height 0 nor a full locator) and the locator is returned as complete")
		}
	}
	sort.Strings(bad)
	c.verdict(n >= 2 && len(bad) == 0, construct, c.P.Pos(fn.Pos()), fmt.Sprintf("%d ways out of the walk: height == 0, locator full, or an error", n), join(bad), c.ats(calls)...)
}

const readsOneSectionDoc = "the index and the file are read in one step: in every function of the header stores (constructors aside: the store is not yet published) a lookup in the hash index and a read of the flat file lie in one critical section of the store mutex - both under the lock the function holds or inherits from all its callers, with no release of it in between; a method composed of two calls that each take the lock alone (height from hash, then header at height) lets a rollback or a reorganisation slip in between: the height no longer belongs to the hash, and lookups by hash, by height and of the tip disagree although every access is synchronised"

// readsOneSection: see readsOneSectionDoc.
func (c *Ctx) readsOneSection() {
	fns := c.storeFuncs()
	res := c.lockResults()
	g := c.graph()
	key := lockKey{c.field("headerfs", "headerStore", "mtx")}
	inStore := map[*ssa.Function]bool{}
	for _, fn := range fns {
		inStore[fn] = true
	}
	const (
		kIdx  = 1
		kFile = 2
	)
	prim := func(in ssa.Instruction) int {
		cc := ir.CallOf(in)
		if cc == nil {
			return 0
		}
		if cc.IsInvoke() {
			n := cc.Method.Name()
			if n != "ReadAt" && n != "Read" {
				return 0
			}
			// the header file, also when it was handed on as a narrower
			// interface (io.ReaderAt)
			v := cc.Value
			for d := 0; d < 4 && v != nil; d++ {
				if it, ok := v.Type().Underlying().(*types.Interface); ok {
					for i := 0; i < it.NumMethods(); i++ {
						if it.Method(i).Name() == "Truncate" {
							return kFile
						}
					}
				}
				switch x := v.(type) {
				case *ssa.ChangeInterface:
					v = x.X
				default:
					if w := ir.Strip(v); w != v {
						v = w
					} else {
						v = nil
					}
				}
			}
			return 0
		}
		f := cc.StaticCallee()
		if f == nil || f.Pkg == nil {
			return 0
		}
		switch {
		case strings.HasSuffix(f.Pkg.Pkg.Path(), "/walletdb") && (f.Name() == "View" || f.Name() == "Update"):
			return kIdx
		case f.Pkg.Pkg.Path() == "os" && f.Signature.Recv() != nil && (f.Name() == "ReadAt" || f.Name() == "Read"):
			return kFile
		}
		return 0
	}
	kind := map[*ssa.Function]int{}
	for _, fn := range fns {
		ir.Instrs(fn, func(in ssa.Instruction) { kind[fn] |= prim(in) })
	}
	for changed := true; changed; {
		changed = false
		for _, fn := range fns {
			for _, callee := range g.out[fn] {
				if inStore[callee] && kind[fn]|kind[callee] != kind[fn] {
					kind[fn] |= kind[callee]
					changed = true
				}
			}
		}
	}
	siteKind := func(in ssa.Instruction) int {
		if k := prim(in); k != 0 {
			return k
		}
		cc := ir.CallOf(in)
		if cc == nil {
			return 0
		}
		if _, isGo := in.(*ssa.Go); isGo {
			return 0
		}
		k := 0
		cal := ir.Resolve(cc)
		var callees []*ssa.Function
		if cal.Fn != nil {
			callees = c.srcFunc(cal.Fn)
		} else if cc.IsInvoke() {
			callees = c.implsOf(cc.Method.Origin())
		}
		for _, f := range callees {
			if inStore[f] {
				k |= kind[f]
			}
		}
		return k
	}
	exempt := map[string]string{fnNewB: "constructor", fnNewF: "constructor", "headerfs.newHeaderStore": "constructor", "headerfs.newHeaderIndex": "constructor"}
	// helpers reached from constructors only
	onlyCtor := func(fn *ssa.Function) bool {
		seen := map[*ssa.Function]bool{}
		var up func(f *ssa.Function, d int) bool
		up = func(f *ssa.Function, d int) bool {
			if _, ok := exempt[c.nm(outermost(f))]; ok {
				return true
			}
			if seen[f] || d > 6 {
				return true
			}
			seen[f] = true
			n := 0
			for _, caller := range fns {
				for _, callee := range g.out[caller] {
					if callee == f {
						n++
						if !up(caller, d+1) {
							return false
						}
					}
				}
			}
			return n > 0
		}
		return up(fn, 0)
	}
	checked := 0
	for _, fn := range fns {
		if fn.Parent() != nil || kind[fn] != kIdx|kFile {
			continue
		}
		construct := "index and file read in one critical section | " + c.nm(fn)
		if why, ok := exempt[c.nm(fn)]; ok {
			c.pass(construct, c.P.Pos(fn.Pos()), "tabled exemption: "+why)
			continue
		}
		var sites, unheldIdx, unheldFile, held []ssa.Instruction
		ir.Instrs(fn, func(in ssa.Instruction) {
			k := siteKind(in)
			if k == 0 {
				return
			}
			if _, isDefer := in.(*ssa.Defer); isDefer {
				return
			}
			sites = append(sites, in)
			if _, ok := res[fn].mustHold[in][key]; ok {
				held = append(held, in)
				return
			}
			if k&kIdx != 0 {
				unheldIdx = append(unheldIdx, in)
			}
			if k&kFile != 0 {
				unheldFile = append(unheldFile, in)
			}
		})
		split := false
		for _, a := range unheldIdx {
			for _, b := range unheldFile {
				if a != b {
					split = true
				}
			}
		}
		if len(held) > 0 && len(unheldIdx)+len(unheldFile) > 0 {
			split = true
		}
		if split && onlyCtor(fn) {
			c.pass(construct, c.P.Pos(fn.Pos()), "reached from the constructors only: the store is not yet published", c.ats(sites)...)
			continue
		}
		checked++
		var bad []string
		if split {
			for _, a := range unheldIdx {
				bad = append(bad, describeCall(a)+" at "+c.at(a)+" reads the index outside the critical section")
			}
			for _, b := range unheldFile {
				bad = append(bad, describeCall(b)+" at "+c.at(b)+" reads the file outside the critical section")
			}
		}
		// the lock is not let go between two reads that are under it
		cut := ir.BackEdges(fn)
		for _, a := range held {
			var rels []ssa.Instruction
			ir.WalkAfter(a, cut, func(x ssa.Instruction) bool {
				if _, isDefer := x.(*ssa.Defer); isDefer {
					return true
				}
				if op, ok := c.lockOpOf(x); ok && op.known && !op.acq && !op.wait && op.key.f == key.f {
					rels = append(rels, x)
					return false
				}
				return true
			})
			for _, r := range rels {
				ir.WalkAfter(r, cut, func(x ssa.Instruction) bool {
					for _, b := range held {
						if x == b && b != a && siteKind(a)|siteKind(b) == kIdx|kFile && siteKind(a) != siteKind(b) {
							bad = append(bad, fmt.Sprintf("the lock is released at %s between %s at %s and %s at %s", c.at(r), describeCall(a), c.at(a), describeCall(b), c.at(b)))
						}
					}
					return true
				})
			}
		}
		sort.Strings(bad)
		c.verdict(len(bad) == 0, construct, c.P.Pos(fn.Pos()), fmt.Sprintf("%d index/file read(s), all under one hold of the store mutex (or delegated whole to one callee)", len(sites)), join(uniq(bad)), c.ats(sites)...)
	}
	if checked < 8 {
		c.undecided("index and file read in one critical section | floor", "", fmt.Sprintf("found %d store functions that read both the index and the file, need 8", checked))
	}
}
