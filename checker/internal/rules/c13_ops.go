package rules

import (
	"go/token"
	"go/types"

	"golang.org/x/tools/go/ssa"

	"verif/checker/internal/ir"
)

// ---- index operations of a ban-store transaction ----
//
// The three store methods do their work inside one walletdb.Update closure,
// partly through small helpers (addBannedIPNet, fetchStatus,
// removeBannedIPNet). The rules reason about the bucket operations of the
// whole transaction: the closure's own and those of the helpers it calls, with
// the helpers' parameters resolved to the arguments of that very call. Folding
// a helper into the closure (or extracting one) leaves this view unchanged.

type idxOp struct {
	in     ssa.Instruction // the Put / Get / Delete call
	kind   string
	bucket *ssa.Global // the key variable the nested bucket was opened with
	key    ssa.Value   // record key, resolved into the transaction closure
	val    ssa.Value   // value argument of a Put (unresolved)
	site   ssa.Instruction
	// site: the instruction of the closure that performs the operation: the
	// operation itself or the call of the helper containing it
}

const pWalletdb = "github.com/btcsuite/btcwallet/walletdb"

func isBucketOp(cc *ssa.CallCommon) string {
	if cc == nil || !cc.IsInvoke() || cc.Method.Pkg() == nil || cc.Method.Pkg().Path() != pWalletdb {
		return ""
	}
	switch cc.Method.Name() {
	case "Put", "Get", "Delete":
		return cc.Method.Name()
	}
	return ""
}

// resolveIn maps a value of a helper to the closure's view using the
// parameter binding of one call.
func resolveIn(v ssa.Value, bind map[*ssa.Parameter]ssa.Value) ssa.Value {
	for d := 0; d < 4; d++ {
		s := ir.Strip(v)
		p, ok := s.(*ssa.Parameter)
		if !ok {
			return v
		}
		a, ok := bind[p]
		if !ok {
			return v
		}
		v = a
	}
	return v
}

// bucketKeyOf: the package variable naming the nested bucket v was opened
// with (banStore.NestedReadWriteBucket(<that variable>)).
func bucketKeyOf(v ssa.Value, depth int) *ssa.Global {
	if depth > 6 || v == nil {
		return nil
	}
	switch x := ir.Strip(v).(type) {
	case *ssa.Call:
		cc := x.Common()
		if cc.IsInvoke() && (cc.Method.Name() == "NestedReadWriteBucket" || cc.Method.Name() == "NestedReadBucket") && len(cc.Args) == 1 {
			if ld, ok := ir.Strip(cc.Args[0]).(*ssa.UnOp); ok && ld.Op == token.MUL {
				if g, ok := ld.X.(*ssa.Global); ok {
					return g
				}
			}
		}
	case *ssa.Phi:
		var g *ssa.Global
		for _, e := range x.Edges {
			if ir.IsNil(e) {
				continue
			}
			k := bucketKeyOf(e, depth+1)
			if k == nil || (g != nil && k != g) {
				return nil
			}
			g = k
		}
		return g
	case *ssa.ChangeInterface:
		return bucketKeyOf(x.X, depth+1)
	case *ssa.MakeInterface:
		return bucketKeyOf(x.X, depth+1)
	case *ssa.TypeAssert:
		return bucketKeyOf(x.X, depth+1)
	case *ssa.UnOp:
		// a field of a small struct the function builds itself (the two
		// buckets travelling together): what was stored there
		if _, isFA := x.X.(*ssa.FieldAddr); isFA && x.Op == token.MUL && x.Block() != nil {
			if w := ir.ValueAt(x, x.Block()); w != ssa.Value(x) {
				return bucketKeyOf(w, depth+1)
			}
		}
		if al, ok := x.X.(*ssa.Alloc); ok && x.Op == token.MUL {
			var g *ssa.Global
			for _, st := range ir.StoresTo(al) {
				if ir.IsNil(st.Val) {
					continue
				}
				k := bucketKeyOf(st.Val, depth+1)
				if k == nil || (g != nil && k != g) {
					return nil
				}
				g = k
			}
			return g
		}
	}
	return nil
}

// banIndexOps lists the bucket operations of the transaction closure cl.
func (c *Ctx) banIndexOps(cl *ssa.Function) []idxOp {
	var out []idxOp
	add := func(fn *ssa.Function, bind map[*ssa.Parameter]ssa.Value, site ssa.Instruction) {
		ir.Instrs(fn, func(in ssa.Instruction) {
			cc := ir.CallOf(in)
			kind := isBucketOp(cc)
			if kind == "" {
				return
			}
			op := idxOp{in: in, kind: kind, site: site}
			if site == nil {
				op.site = in
			}
			op.bucket = bucketKeyOf(resolveIn(cc.Value, bind), 0)
			if len(cc.Args) > 0 {
				op.key = resolveIn(cc.Args[0], bind)
			}
			if kind == "Put" && len(cc.Args) > 1 {
				op.val = cc.Args[1]
			}
			out = append(out, op)
		})
	}
	add(cl, nil, nil)
	for _, hc := range c.helperCallsOf(cl) {
		if hc.callee == nil || len(hc.callee.Blocks) == 0 {
			continue
		}
		bind := map[*ssa.Parameter]ssa.Value{}
		args := hc.in.Call.Args
		for i, p := range hc.callee.Params {
			if i < len(args) {
				bind[p] = args[i]
			}
		}
		add(hc.callee, bind, hc.in)
	}
	return out
}

// sameKey: two record keys denote the same value of the closure.
func sameKey(a, b ssa.Value) bool {
	if a == nil || b == nil {
		return false
	}
	a, b = ir.Strip(a), ir.Strip(b)
	if a == b {
		return true
	}
	// k := buf.Bytes() evaluated at two places of one buffer
	ca, ok1 := a.(*ssa.Call)
	cb, ok2 := b.(*ssa.Call)
	if ok1 && ok2 && ca.Call.StaticCallee() != nil && ca.Call.StaticCallee() == cb.Call.StaticCallee() && len(ca.Call.Args) == 1 && len(cb.Call.Args) == 1 {
		return ir.Strip(ca.Call.Args[0]) == ir.Strip(cb.Call.Args[0])
	}
	return false
}

func opsOfKind(ops []idxOp, kind string) []idxOp {
	var out []idxOp
	for _, o := range ops {
		if o.kind == kind {
			out = append(out, o)
		}
	}
	return out
}

func opSites(ops []idxOp) []ssa.Instruction {
	var out []ssa.Instruction
	seen := map[ssa.Instruction]bool{}
	for _, o := range ops {
		if !seen[o.site] {
			seen[o.site] = true
			out = append(out, o.site)
		}
	}
	return out
}

func opIns(ops []idxOp) []ssa.Instruction {
	var out []ssa.Instruction
	for _, o := range ops {
		out = append(out, o.in)
	}
	return out
}

// namedTypeIs: v's type is the named type pkg.name.
func namedTypeIs(t types.Type, pkg, name string) bool {
	n, ok := t.(*types.Named)
	return ok && n.Obj().Name() == name && n.Obj().Pkg() != nil && n.Obj().Pkg().Path() == pkg
}
