package rules

import (
	"fmt"
	"sort"

	"golang.org/x/tools/go/ssa"

	"verif/checker/internal/ir"
)

// ---- engine X: counting two kinds of event per loop iteration ----

// xstate counts events a and b, saturating at 2.
type xstate struct{ a, b int }

func sat(n int) int {
	if n > 2 {
		return 2
	}
	return n
}

// countPairs runs, for one iteration of the loop with the given header (back
// edges to it cut), a forward dataflow over sets of (count a, count b) and
// returns the set of states at every iteration end (back-edge source) and at
// every return, keyed by the position of that end point.
func (c *Ctx) countPairs(fn *ssa.Function, header *ssa.BasicBlock, a, b Sel) map[string]map[xstate]bool {
	be := ir.BackEdgesTo(header)
	in := map[*ssa.BasicBlock]map[xstate]bool{header: {xstate{}: true}}
	work := []*ssa.BasicBlock{header}
	ends := map[string]map[xstate]bool{}
	addEnd := func(key string, s xstate) {
		if ends[key] == nil {
			ends[key] = map[xstate]bool{}
		}
		ends[key][s] = true
	}
	outOf := map[*ssa.BasicBlock]map[xstate]bool{}
	for len(work) > 0 {
		blk := work[len(work)-1]
		work = work[:len(work)-1]
		cur := map[xstate]bool{}
		for s := range in[blk] {
			cur[s] = true
		}
		for _, ins := range blk.Instrs {
			if a(ins) || b(ins) {
				next := map[xstate]bool{}
				for s := range cur {
					if a(ins) {
						s.a = sat(s.a + 1)
					}
					if b(ins) {
						s.b = sat(s.b + 1)
					}
					next[s] = true
				}
				cur = next
			}
			if _, isRet := ins.(*ssa.Return); isRet {
				for s := range cur {
					addEnd("return@"+c.at(ins), s)
				}
			}
		}
		outOf[blk] = cur
		for i, succ := range blk.Succs {
			if ir.NilGuardEdges(fn)[ir.Edge{From: blk, Succ: i}] {
				continue // a guard clause on an input that must be present
			}
			if be[ir.Edge{From: blk, Succ: i}] {
				for s := range cur {
					addEnd("next-iteration@"+c.at(blk.Instrs[len(blk.Instrs)-1]), s)
				}
				continue
			}
			if !header.Dominates(succ) {
				continue // left the loop: not part of an iteration
			}
			changed := false
			if in[succ] == nil {
				in[succ] = map[xstate]bool{}
			}
			for s := range cur {
				if !in[succ][s] {
					in[succ][s] = true
					changed = true
				}
			}
			if changed {
				work = append(work, succ)
			}
		}
	}
	return ends
}

// pairedOnce: on every path through one iteration, event a happens iff event b
// happens, and at most once.
func (c *Ctx) pairedOnce(fn *ssa.Function, header *ssa.BasicBlock, a Sel, aname string, b Sel, bname string, minA int) bool {
	construct := fmt.Sprintf("%s | per iteration: %s iff %s, at most once", c.nm(fn), aname, bname)
	as, bs := find(fn, a), find(fn, b)
	var sites []string
	for _, x := range as {
		sites = append(sites, aname+"@"+c.at(x))
	}
	for _, x := range bs {
		sites = append(sites, bname+"@"+c.at(x))
	}
	sort.Strings(sites)
	if len(as) < minA {
		c.undecided(construct, c.P.Pos(fn.Pos()), fmt.Sprintf("found %d %s site(s), the rule table requires at least %d", len(as), aname, minA))
		return false
	}
	ends := c.countPairs(fn, header, a, b)
	var bad []string
	n := 0
	for key, set := range ends {
		for s := range set {
			n++
			if s.a != s.b || s.a > 1 {
				bad = append(bad, fmt.Sprintf("%s with %d×%s and %d×%s", key, s.a, aname, s.b, bname))
			}
		}
	}
	sort.Strings(bad)
	c.R.CallSites += len(as) + len(bs)
	if len(bad) > 0 {
		c.fail(construct, c.P.Pos(fn.Pos()), join(bad), sites...)
		return false
	}
	c.pass(construct, c.P.Pos(fn.Pos()), fmt.Sprintf("%d end-of-iteration states, all (0,0) or (1,1)", n), sites...)
	return true
}
