package rules

import (
	"go/types"

	"golang.org/x/tools/go/ssa"

	"verif/checker/internal/ir"
)

func init() {
	register(&Prop{ID: "C01", Run: runC01, NotDecided: []string{
		"that btcd's CheckBlockHeaderContext/CheckBlockHeaderSanity implement the consensus rules (trusted)",
		"retarget / median-time arithmetic, skip-list ancestor lookup correctness",
		"agreement of by-height / by-hash / tip lookups of the store (C07)",
		"which sequences of messages arrive; the behaviour over histories (only the validation-before-write mechanism and list/store mirroring are decided)",
		"F14: findPreviousHeaderCheckpoint is off by one when the tip sits exactly on a checkpoint (described in DESIGN, no rule claims it)",
	}})
}

const fnHandleHeaders = "(*neutrino.blockManager).handleHeadersMsg"

// appendsOf selects builtin append calls producing a slice of the named type.
func appendsOf(elem *types.Named) Sel {
	return and(isBuiltin("append"), resultType(func(t types.Type) bool { return elemIs(t, elem) }))
}

// fieldAddrOf reports whether v is the address of the given field.
func fieldAddrOf(f *types.Var) func(ssa.Value) bool {
	return func(v ssa.Value) bool {
		fa, ok := v.(*ssa.FieldAddr)
		return ok && ir.FieldOfAddr(fa) == f
	}
}

// anyArg: some argument (receiver included) satisfies pred.
func anyArg(s Sel, pred func(ssa.Value) bool) Sel {
	return func(in ssa.Instruction) bool {
		if !s(in) {
			return false
		}
		for _, a := range ir.CallOf(in).Args {
			if pred(a) {
				return true
			}
		}
		return false
	}
}

// derives builds a value predicate "derived from a value satisfying src".
func derives(src func(ssa.Value) bool) func(ssa.Value) bool {
	return func(v ssa.Value) bool { return ir.DerivesFrom(v, src) }
}

// isCallTo as a value predicate.
func valIsCallTo(objs ...*types.Func) func(ssa.Value) bool {
	sel := callTo(objs...)
	return func(v ssa.Value) bool {
		in, ok := v.(ssa.Instruction)
		return ok && sel(in)
	}
}

func runC01(c *Ctx) {
	hdrNamed := func() *types.Named {
		n := c.P.Named("headerfs", "BlockHeader")
		if n == nil {
			panic(anchorErr{"type headerfs.BlockHeader"})
		}
		return n
	}
	bhsWrite := func() *types.Func { return c.method("headerfs", "BlockHeaderStore", "WriteHeaders") }

	c.rule("C01.G1", "handleHeadersMsg: a header enters the write batch (append feeding BlockHeaders.WriteHeaders) only behind prevHash.IsEqual(&PrevBlock)=true and checkHeaderSanity(..,false,..)=nil", func() {
		fn := c.fn(fnHandleHeaders)
		effects := find(fn, appendsOf(hdrNamed()))
		isEqual := c.method(pChainhash, "Hash", "IsEqual")
		prevBlock := c.field(pWire, "BlockHeader", "PrevBlock")
		connects := find(fn, anyArg(callTo(isEqual), fieldAddrOf(prevBlock)))
		c.guarded(fn, boolIs("prevHash.IsEqual(&blockHeader.PrevBlock)", connects, 0, true), 1, "append to headerWriteBatch", effects, 1, gDominate)
		sanity := c.method("neutrino", "blockManager", "checkHeaderSanity")
		san := find(fn, withArg(callTo(sanity), 2, isConstBool(false)))
		c.guarded(fn, errNil("checkHeaderSanity(header,false,..)", san, 0), 1, "append to headerWriteBatch", effects, 1, gDominate)
		// the batch that is written is the one the appends built
		var batchWrites []ssa.Instruction
		for _, w := range find(fn, callTo(bhsWrite())) {
			args := argsOf(w)
			if len(args) == 1 && ir.DerivesFrom(args[0], func(v ssa.Value) bool {
				in, ok := v.(ssa.Instruction)
				return ok && appendsOf(hdrNamed())(in)
			}) {
				batchWrites = append(batchWrites, w)
			}
		}
		c.verdict(len(batchWrites) == 1, c.nm(fn)+" | batch write consumes the validated batch", c.P.Pos(fn.Pos()),
			"exactly one BlockHeaders.WriteHeaders call takes the slice built by the guarded appends",
			"expected exactly one BlockHeaders.WriteHeaders(headerWriteBatch...) fed by the guarded appends", c.ats(batchWrites)...)
	})

	c.rule("C01.G2", "checkHeaderSanity is a validator: it returns nil only if blockchain.CheckBlockHeaderContext=nil and blockchain.CheckBlockHeaderSanity=nil, both on its header parameter with BehaviorFlags zero (BFNone) and PowLimit/TimeSource from b.cfg", func() {
		fn := c.fn("(*neutrino.blockManager).checkHeaderSanity")
		ctxF := c.funcObj(pBlockchain, "CheckBlockHeaderContext")
		sanF := c.funcObj(pBlockchain, "CheckBlockHeaderSanity")
		ctxCalls := find(fn, callTo(ctxF))
		sanCalls := find(fn, callTo(sanF))
		c.nilReturnsGuarded(fn, errNil("CheckBlockHeaderContext", ctxCalls, 0), 1)
		c.nilReturnsGuarded(fn, errNil("CheckBlockHeaderSanity", sanCalls, 0), 1)
		// argument shapes
		hdrParam := fn.Params[1]
		okArgs := true
		detail := ""
		for _, in := range append(append([]ssa.Instruction{}, ctxCalls...), sanCalls...) {
			cc := ir.CallOf(in)
			if cc.Args[0] != ssa.Value(hdrParam) {
				okArgs = false
				detail += "validator at " + c.at(in) + " is not applied to the header parameter; "
			}
			for i, a := range cc.Args {
				pt := cc.Signature().Params().At(i).Type()
				if n, ok := pt.(*types.Named); ok && n.Obj().Name() == "BehaviorFlags" {
					if k, isC := ir.ConstInt(a); !isC || k != 0 {
						okArgs = false
						detail += "validator at " + c.at(in) + " is called with behaviour flags other than the zero constant BFNone (flags can disable proof-of-work checks); "
					}
				}
			}
		}
		powLimit := c.field(pChaincfg, "Params", "PowLimit")
		timeSrc := c.field("neutrino", "blockManagerCfg", "TimeSource")
		for _, in := range sanCalls {
			cc := ir.CallOf(in)
			if !loadsField(powLimit)(cc.Args[1]) {
				okArgs = false
				detail += "PowLimit argument at " + c.at(in) + " is not cfg.ChainParams.PowLimit; "
			}
			if !loadsField(timeSrc)(cc.Args[2]) {
				okArgs = false
				detail += "time source argument at " + c.at(in) + " is not cfg.TimeSource; "
			}
		}
		c.verdict(okArgs && len(ctxCalls) > 0 && len(sanCalls) > 0, c.nm(fn)+" | validator argument shapes", c.P.Pos(fn.Pos()),
			"both btcd validators run on the header parameter with zero flags, cfg PowLimit and cfg TimeSource", detail,
			c.ats(append(append([]ssa.Instruction{}, ctxCalls...), sanCalls...))...)
	})

	c.rule("C01.G3", "handleHeadersMsg: areHeadersConnected(msg.Headers)=true guards every store write, rollback and batch append; areHeadersConnected returns true only if no PrevBlock mismatch was seen", func() {
		fn := c.fn(fnHandleHeaders)
		ahc := c.funcObj("neutrino", "areHeadersConnected")
		calls := find(fn, callTo(ahc))
		roll := c.method("neutrino", "blockManager", "rollBackToHeight")
		effects := find(fn, anyOf(appendsOf(hdrNamed()), callTo(bhsWrite()), callTo(roll)))
		c.guarded(fn, boolIs("areHeadersConnected(msg.Headers)", calls, 0, true), 1, "batch append / WriteHeaders / rollBackToHeight", effects, 4, gDominate)

		f2 := c.fn("neutrino.areHeadersConnected")
		prevBlock := c.field(pWire, "BlockHeader", "PrevBlock")
		cmps := find(f2, binops(eqOps, loadsField(prevBlock), anyVal))
		var retTrue []ssa.Instruction
		for _, in := range find(f2, isExit) {
			r := in.(*ssa.Return)
			if b, ok := ir.ConstBool(ir.RetVal(r, 0)); !ok || b {
				retTrue = append(retTrue, in)
			}
		}
		c.guarded(f2, equalIs("blockHeader.PrevBlock vs lastHeader", cmps, true), 1, "return true", retTrue, 1, gFailEdge)
	})

	c.rule("C01.G4", "handleHeadersMsg: on a checkpoint-height header whose hash differs from the checkpoint the batch is not written; rollBackToHeight and peer.Disconnect follow", func() {
		fn := c.fn(fnHandleHeaders)
		isEqual := c.method(pChainhash, "Hash", "IsEqual")
		cpHash := c.field(pChaincfg, "Checkpoint", "Hash")
		cmp := find(fn, anyArg(callTo(isEqual), loadsField(cpHash)))
		g := boolIs("nodeHash.IsEqual(nextCheckpoint.Hash)", cmp, 0, true)
		var batchWrites []ssa.Instruction
		for _, w := range find(fn, callTo(bhsWrite())) {
			args := argsOf(w)
			if len(args) == 1 && ir.DerivesFrom(args[0], func(v ssa.Value) bool {
				in, ok := v.(ssa.Instruction)
				return ok && appendsOf(hdrNamed())(in)
			}) {
				batchWrites = append(batchWrites, w)
			}
		}
		c.guarded(fn, g, 1, "BlockHeaders.WriteHeaders(headerWriteBatch...)", batchWrites, 1, gFailEdge)
		roll := c.method("neutrino", "blockManager", "rollBackToHeight")
		disc := c.method(pPeer, "Peer", "Disconnect")
		c.mustFollow(fn, "checkpoint mismatch", c.failEdges(g), callTo(roll), "rollBackToHeight", nil, 1)
		c.mustFollow(fn, "checkpoint mismatch", c.failEdges(g), callTo(disc), "peer.Disconnect", nil, 1)
		// the checkpoint test itself must be evaluated for the header whose
		// height equals nextCheckpoint.Height: the IsEqual site is dominated by
		// that height comparison.
		cpHeight := c.field(pChaincfg, "Checkpoint", "Height")
		hcmps := find(fn, binops(eqOps, loadsField(cpHeight), anyVal))
		c.verdict(len(hcmps) >= 1, c.nm(fn)+" | node.Height == nextCheckpoint.Height selects the checkpoint test", c.P.Pos(fn.Pos()),
			"height comparison with nextCheckpoint.Height present", "no comparison with nextCheckpoint.Height found: checkpoint test unreachable or unconditional", c.ats(hcmps)...)
	})

	c.rule("C01.W1", "only the tabled functions write or roll back the block-header store (BlockHeaderStore.WriteHeaders / RollbackBlockHeaders / RollbackLastBlock)", func() {
		w := bhsWrite()
		rb := c.method("headerfs", "BlockHeaderStore", "RollbackBlockHeaders")
		rl := c.method("headerfs", "BlockHeaderStore", "RollbackLastBlock")
		c.whoMay("BlockHeaderStore.{WriteHeaders,RollbackBlockHeaders,RollbackLastBlock}", callTo(w, rb, rl), []string{
			fnHandleHeaders,
			"(*neutrino.blockManager).rollBackToHeight",
			"(*chainimport.headersImport).writeHeadersToTargetStores",
			"headerfs.NewBlockHeaderStore",
			"(*headerfs.blockHeaderStore).RollbackLastBlock",
		}, 6)
	})

	c.rule("C01.O2", "handleDonePeerMsg: when the departing peer was the sync peer, headerList.ResetHeaderState(<BlockHeaders.ChainTip()>) follows (list re-mirrors the store)", func() {
		fn := c.fn("(*neutrino.blockManager).handleDonePeerMsg")
		syncPeer := c.field("neutrino", "blockManager", "syncPeer")
		clears := find(fn, func(in ssa.Instruction) bool {
			return storeToField(syncPeer)(in) && ir.IsNil(in.(*ssa.Store).Val)
		})
		reset := c.method("headerlist", "Chain", "ResetHeaderState")
		tip := c.method("headerfs", "BlockHeaderStore", "ChainTip")
		resets := find(fn, callTo(reset))
		var starts []start
		for _, s := range clears {
			starts = append(starts, afterInstr(c, s))
		}
		// the ChainTip error return is the one tabled exit without a reset
		tipCalls := find(fn, callTo(tip))
		gTip := errNil("BlockHeaders.ChainTip", tipCalls, 2)
		cut := ir.Cut{}
		for _, s := range gTip.sites {
			cut[s.br.Other()] = true
		}
		c.mustFollow(fn, "syncPeer = nil", starts, callTo(reset), "headerList.ResetHeaderState", cut, 1)
		okArg := len(resets) > 0
		for _, r := range resets {
			args := argsOf(r)
			if len(args) != 1 || !ir.DerivesFrom(args[0], valIsCallTo(tip)) {
				okArg = false
			}
		}
		c.verdict(okArg, c.nm(fn)+" | ResetHeaderState argument derives from BlockHeaders.ChainTip()", c.P.Pos(fn.Pos()),
			"reset node built from the store's chain tip", "ResetHeaderState is not fed from BlockHeaders.ChainTip()", c.ats(resets)...)
	})
}
