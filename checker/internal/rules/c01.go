package rules

import (
	"fmt"
	"go/token"
	"go/types"
	"sort"

	"golang.org/x/tools/go/ssa"

	"verif/checker/internal/ir"
)

func init() {
	register(&Prop{ID: "C01", Run: runC01, NotDecided: []string{
		"that btcd's CheckBlockHeaderContext/CheckBlockHeaderSanity implement the consensus rules (trusted)",
		"retarget / median-time arithmetic, skip-list ancestor lookup correctness",
		"agreement of by-height / by-hash / tip lookups of the store (C07)",
		"which sequences of messages arrive; the behaviour over histories (only the validation-before-write mechanism and list/store mirroring are decided)",
		"F14: findPreviousHeaderCheckpoint is off by one when the tip sits exactly on a checkpoint (described in DESIGN, no rule claims it)",
	}})
}

const fnHandleHeaders = "(*neutrino.blockManager).handleHeadersMsg"

// appendsOf selects builtin append calls producing a slice of the named type.
func appendsOf(elem *types.Named) Sel {
	return and(isBuiltin("append"), resultType(func(t types.Type) bool { return elemIs(t, elem) }))
}

// fieldAddrOf reports whether v is the address of the given field.
func fieldAddrOf(f *types.Var) func(ssa.Value) bool {
	return func(v ssa.Value) bool {
		if fa, ok := v.(*ssa.FieldAddr); ok {
			return ir.FieldOfAddr(fa) == f
		}
		// the address of a local that was set once, to a copy of the field
		// (`prev := hdr.PrevBlock; prev.IsEqual(..)`)
		a, ok := v.(*ssa.Alloc)
		if !ok {
			return false
		}
		var stores []*ssa.Store
		for _, r := range ir.Refs(a) {
			if st, isSt := r.(*ssa.Store); isSt && st.Addr == ssa.Value(a) {
				stores = append(stores, st)
			}
		}
		if len(stores) != 1 {
			return false
		}
		switch x := stores[0].Val.(type) {
		case *ssa.UnOp:
			fa, isFA := x.X.(*ssa.FieldAddr)
			return x.Op == token.MUL && isFA && ir.FieldOfAddr(fa) == f
		case *ssa.Field:
			if st, isStruct := x.X.Type().Underlying().(*types.Struct); isStruct {
				return st.Field(x.Field) == f
			}
		}
		return false
	}
}

// anyArg: some argument (receiver included) satisfies pred.
func anyArg(s Sel, pred func(ssa.Value) bool) Sel {
	return func(in ssa.Instruction) bool {
		if !s(in) {
			return false
		}
		for _, a := range ir.CallOf(in).Args {
			if pred(a) {
				return true
			}
		}
		return false
	}
}

// derives builds a value predicate "derived from a value satisfying src".
func derives(src func(ssa.Value) bool) func(ssa.Value) bool {
	return func(v ssa.Value) bool { return ir.DerivesFrom(v, src) }
}

// isCallTo as a value predicate.
func valIsCallTo(objs ...*types.Func) func(ssa.Value) bool {
	sel := callTo(objs...)
	return func(v ssa.Value) bool {
		in, ok := v.(ssa.Instruction)
		return ok && sel(in)
	}
}

func runC01(c *Ctx) {
	hdrNamed := func() *types.Named {
		n := c.P.Named("headerfs", "BlockHeader")
		if n == nil {
			panic(anchorErr{"type headerfs.BlockHeader"})
		}
		return n
	}
	bhsWrite := func() *types.Func { return c.method("headerfs", "BlockHeaderStore", "WriteHeaders") }

	c.rule("C01.G1", "handleHeadersMsg: a header enters the write batch (append feeding BlockHeaders.WriteHeaders) only behind prevHash.IsEqual(&PrevBlock)=true and checkHeaderSanity(..,false,..)=nil", func() {
		fn := c.fn(fnHandleHeaders)
		effects := find(fn, appendsOf(hdrNamed()))
		isEqual := c.method(pChainhash, "Hash", "IsEqual")
		prevBlock := c.field(pWire, "BlockHeader", "PrevBlock")
		connects := find(fn, anyArg(callTo(isEqual), fieldAddrOf(prevBlock)))
		c.guarded(fn, boolIs("prevHash.IsEqual(&blockHeader.PrevBlock)", connects, 0, true), 1, "append to headerWriteBatch", effects, 1, gDominate)
		sanity := c.method("neutrino", "blockManager", "checkHeaderSanity")
		san := find(fn, withArg(callTo(sanity), 2, isConstBool(false)))
		c.guarded(fn, errNil("checkHeaderSanity(header,false,..)", san, 0), 1, "append to headerWriteBatch", effects, 1, gDominate)
		// the batch that is written is the one the appends built
		var batchWrites []ssa.Instruction
		for _, w := range find(fn, callTo(bhsWrite())) {
			args := argsOf(w)
			if len(args) == 1 && ir.DerivesFrom(args[0], func(v ssa.Value) bool {
				in, ok := v.(ssa.Instruction)
				return ok && appendsOf(hdrNamed())(in)
			}) {
				batchWrites = append(batchWrites, w)
			}
		}
		c.verdict(len(batchWrites) == 1, c.nm(fn)+" | batch write consumes the validated batch", c.P.Pos(fn.Pos()),
			"exactly one BlockHeaders.WriteHeaders call takes the slice built by the guarded appends",
			"expected exactly one BlockHeaders.WriteHeaders(headerWriteBatch...) fed by the guarded appends", c.ats(batchWrites)...)
	})

	c.rule("C01.V4", "one parent per header: the hash the new header's PrevBlock is compared with, the parent height and the parent header given to checkHeaderSanity all come from the same in-memory node, the tail of headerList fetched in that iteration (b.headerList.Back()): the comparison operand is written only with Back().Header.BlockHash(), never with a hash carried over from an earlier iteration", func() {
		fn := c.fn(fnHandleHeaders)
		isEqual := c.method(pChainhash, "Hash", "IsEqual")
		prevBlock := c.field(pWire, "BlockHeader", "PrevBlock")
		back := c.method("headerlist", "Chain", "Back")
		blockHash := c.method(pWire, "BlockHeader", "BlockHash")
		nodeHeader := c.field("headerlist", "Node", "Header")
		nodeHeight := c.field("headerlist", "Node", "Height")
		sanity := c.method("neutrino", "blockManager", "checkHeaderSanity")
		connects := find(fn, anyArg(callTo(isEqual), fieldAddrOf(prevBlock)))
		construct := c.nm(fn) + " | connection test, parent height and parent header use the same list tail"
		if len(connects) != 1 {
			c.fail(construct, c.P.Pos(fn.Pos()), fmt.Sprintf("%d connection test(s) prevHash.IsEqual(&blockHeader.PrevBlock), 1 tabled", len(connects)))
			return
		}
		var bad []string
		// the node: a Back() call in the same loop iteration
		var node ssa.Value
		fieldOfNode := func(v ssa.Value, f *types.Var) bool {
			fa, ok := v.(*ssa.FieldAddr)
			if !ok || ir.FieldOfAddr(fa) != f {
				return false
			}
			call, ok := fa.X.(*ssa.Call)
			if !ok || !callTo(back)(call) {
				return false
			}
			if node == nil {
				node = call
			}
			return node == ssa.Value(call)
		}
		args := ir.CallOf(connects[0]).Args
		operand := args[0]
		if fieldAddrOf(prevBlock)(args[0]) {
			operand = args[1]
		}
		cell, ok := operand.(*ssa.Alloc)
		if !ok {
			bad = append(bad, "the compared hash is not a local hash variable")
		} else {
			sts := ir.StoresTo(cell)
			if len(sts) == 0 {
				bad = append(bad, "the compared hash is never assigned")
			}
			for _, st := range sts {
				call, ok := st.Val.(*ssa.Call)
				if !ok || !callTo(blockHash)(call) || !fieldOfNode(call.Call.Args[0], nodeHeader) {
					bad = append(bad, "the hash compared with PrevBlock is assigned at "+c.at(st)+" from something other than headerList.Back().Header.BlockHash(): after a skipped (already known) header it is not the hash of the node that supplies the parent height")
				}
			}
		}
		// checkHeaderSanity(header, false, parentHeight, &parentHeader)
		san := find(fn, withArg(callTo(sanity), 2, isConstBool(false)))
		if len(san) != 1 {
			bad = append(bad, fmt.Sprintf("%d checkHeaderSanity(.., false, ..) call(s), 1 tabled", len(san)))
		}
		for _, x := range san {
			a := argsOf(x)
			hld, ok := a[2].(*ssa.UnOp)
			if !ok || !fieldOfNode(hld.X, nodeHeight) {
				bad = append(bad, "parent height at "+c.at(x)+" is not headerList.Back().Height")
			}
			okHdr := false
			if al, ok := a[3].(*ssa.Alloc); ok {
				for _, st := range ir.StoresTo(al) {
					if ld, ok := st.Val.(*ssa.UnOp); ok && fieldOfNode(ld.X, nodeHeader) {
						okHdr = true
					} else {
						okHdr = false
						break
					}
				}
			} else if fieldOfNode(a[3], nodeHeader) {
				okHdr = true
			}
			if !okHdr {
				bad = append(bad, "parent header at "+c.at(x)+" is not headerList.Back().Header")
			}
		}
		// the Back() call sits in the loop over msg.Headers (fetched per header)
		if n, ok := node.(*ssa.Call); ok {
			if ir.LoopHeaderOf(n.Block()) == nil || ir.LoopHeaderOf(n.Block()) != ir.LoopHeaderOf(connects[0].Block()) {
				bad = append(bad, "headerList.Back() is not fetched in the same iteration as the connection test")
			}
		} else {
			bad = append(bad, "no headerList.Back() node identified")
		}
		sort.Strings(bad)
		c.verdict(len(bad) == 0, construct, c.at(connects[0]), "Back().Header.BlockHash() / Back().Height / Back().Header of one Back() call per iteration", join(bad), c.at(connects[0]))
	})

	c.rule("C01.G2", headerSanityValidatorDoc, func() { c.headerSanityValidator() })

	c.rule("C01.G3", headersLinkedDoc, func() { c.headersLinked() })

	c.rule("C01.G4", "handleHeadersMsg: on a checkpoint-height header whose hash differs from the checkpoint the batch is not written; rollBackToHeight and peer.Disconnect follow", func() {
		fn := c.fn(fnHandleHeaders)
		isEqual := c.method(pChainhash, "Hash", "IsEqual")
		cpHash := c.field(pChaincfg, "Checkpoint", "Hash")
		cmp := find(fn, anyArg(callTo(isEqual), loadsField(cpHash)))
		g := boolIs("nodeHash.IsEqual(nextCheckpoint.Hash)", cmp, 0, true)
		var batchWrites []ssa.Instruction
		for _, w := range find(fn, callTo(bhsWrite())) {
			args := argsOf(w)
			if len(args) == 1 && ir.DerivesFrom(args[0], func(v ssa.Value) bool {
				in, ok := v.(ssa.Instruction)
				return ok && appendsOf(hdrNamed())(in)
			}) {
				batchWrites = append(batchWrites, w)
			}
		}
		c.guarded(fn, g, 1, "BlockHeaders.WriteHeaders(headerWriteBatch...)", batchWrites, 1, gFailEdge)
		roll := c.method("neutrino", "blockManager", "rollBackToHeight")
		disc := c.method(pPeer, "Peer", "Disconnect")
		c.mustFollow(fn, "checkpoint mismatch", c.failEdges(g), callTo(roll), "rollBackToHeight", nil, 1)
		c.mustFollow(fn, "checkpoint mismatch", c.failEdges(g), callTo(disc), "peer.Disconnect", nil, 1)
		// the checkpoint test itself must be evaluated for the header whose
		// height equals nextCheckpoint.Height: the IsEqual site is dominated by
		// that height comparison.
		cpHeight := c.field(pChaincfg, "Checkpoint", "Height")
		hcmps := find(fn, binops(eqOps, loadsField(cpHeight), anyVal))
		c.verdict(len(hcmps) >= 1, c.nm(fn)+" | node.Height == nextCheckpoint.Height selects the checkpoint test", c.P.Pos(fn.Pos()),
			"height comparison with nextCheckpoint.Height present", "no comparison with nextCheckpoint.Height found: checkpoint test unreachable or unconditional", c.ats(hcmps)...)
	})

	c.rule("C01.G5", "handleHeadersMsg: once a header has been matched against nextCheckpoint, no further header of the message is added to the batch until nextCheckpoint has been advanced (later headers would be checked against the stale checkpoint, so a second checkpoint inside the same message would never be compared)", func() {
		fn := c.fn(fnHandleHeaders)
		isEqual := c.method(pChainhash, "Hash", "IsEqual")
		cpHash := c.field(pChaincfg, "Checkpoint", "Hash")
		g := boolIs("nodeHash.IsEqual(nextCheckpoint.Hash)", find(fn, anyArg(callTo(isEqual), loadsField(cpHash))), 0, true)
		next := c.field("neutrino", "blockManager", "nextCheckpoint")
		construct := c.nm(fn) + " | after a checkpoint match no header is batched before nextCheckpoint advances"
		if len(g.sites) < 1 {
			c.fail(construct, c.P.Pos(fn.Pos()), "checkpoint comparison not found")
			return
		}
		var bad []string
		for _, s := range c.successEdges(g) {
			ir.WalkCtx(s.b, s.idx, s.pred, nil, func(in ssa.Instruction) bool {
				if storeToField(next)(in) {
					return false
				}
				if appendsOf(hdrNamed())(in) {
					bad = append(bad, c.at(in))
				}
				return true
			})
		}
		sort.Strings(bad)
		c.verdict(len(bad) == 0, construct, c.P.Pos(fn.Pos()), "the batch append is unreachable after a checkpoint match until nextCheckpoint is reassigned", "after a header matched the checkpoint, the batch append at "+join(bad)+" is reachable again without nextCheckpoint having been advanced", c.ats(vcallInstrs(nil))...)
		// and the advance uses the height of the last accepted header
		findNext := c.method("neutrino", "blockManager", "findNextHeaderCheckpoint")
		okAdv := false
		for _, st := range find(fn, storeToField(next)) {
			okAdv = valIsCallTo(findNext)(st.(*ssa.Store).Val)
		}
		c.verdict(okAdv, c.nm(fn)+" | nextCheckpoint advanced by findNextHeaderCheckpoint", c.P.Pos(fn.Pos()), "b.nextCheckpoint = b.findNextHeaderCheckpoint(finalHeight)", "nextCheckpoint is not advanced through findNextHeaderCheckpoint")
	})

	c.rule("C01.G7", "every hard-coded checkpoint is enforced: findNextHeaderCheckpoint returns a checkpoint only if its height is strictly above the given height, so after a checkpoint was verified nextCheckpoint moves on to the following one (and handleHeadersMsg re-arms it right after a checkpoint header)", func() {
		c.nextCheckpointStrict()
		fn := c.fn(fnHandleHeaders)
		nc := c.field("neutrino", "blockManager", "nextCheckpoint")
		next := c.method("neutrino", "blockManager", "findNextHeaderCheckpoint")
		okArm := false
		for _, st := range find(fn, storeToField(nc)) {
			if valIsCallTo(next)(st.(*ssa.Store).Val) {
				okArm = true
			}
		}
		c.verdict(okArm, c.nm(fn)+" | nextCheckpoint re-armed from findNextHeaderCheckpoint", c.P.Pos(fn.Pos()), "b.nextCheckpoint = b.findNextHeaderCheckpoint(finalHeight)", "handleHeadersMsg no longer moves nextCheckpoint on after a checkpoint header")
	})

	c.rule("C01.V10", "lookups by height, by hash and of the tip agree after a reorganisation: the flat file is cut back by exactly the headers the index dropped (a header left behind the new tip is still reported by height, and the competing header written next is found by hash at a height that reads back the old one): "+truncatesWholeRecordsDoc, func() { c.truncatesWholeRecords() })

	c.rule("C01.G8", "a checkpointed header cannot be displaced: "+prevCheckpointFromFirstDoc, func() { c.prevCheckpointFromFirst() })

	c.rule("C01.G6", "checkpoint-mismatch recovery rolls back below the failing checkpoint: findPreviousHeaderCheckpoint adopts a checkpoint only if its height is strictly below the given height", func() {
		c.prevCheckpointStrict()
	})

	c.rule("C01.V3", "in-memory header list (validation baseline): PushBack stores its argument at the advanced tail slot and links it to the previous tail (looked up before the tail index moves); Back returns the tail slot; ResetHeaderState empties the list and pushes its argument", func() {
		bmc := func(f string) *types.Var { return c.field("headerlist", "BoundedMemoryChain", f) }
		pb := c.fn("(*headerlist.BoundedMemoryChain).PushBack")
		tail := bmc("tailPtr")
		chain := bmc("chain")
		prevF := c.field("headerlist", "Node", "prev")
		isSlot := func(v ssa.Value, idx func(ssa.Value) bool) bool {
			ia, ok := v.(*ssa.IndexAddr)
			return ok && loadsField(chain)(ia.X) && idx(ia.Index)
		}
		isTailLoad := func(v ssa.Value) bool { return isLoadOfPath(v, tail) }
		// the node stored is the parameter, into chain[tailPtr]
		okStore := false
		var nodeStore ssa.Instruction
		ir.Instrs(pb, func(in ssa.Instruction) {
			st, ok := in.(*ssa.Store)
			if !ok || !isSlot(st.Addr, isTailLoad) {
				return
			}
			if ir.DerivesFrom(st.Val, func(x ssa.Value) bool { return x == ssa.Value(pb.Params[1]) }) {
				okStore = true
				nodeStore = in
			}
		})
		c.verdict(okStore, c.nm(pb)+" | chain[tailPtr] = n", c.P.Pos(pb.Pos()), "the pushed node is the argument, stored at the tail slot", "PushBack does not store its argument at chain[tailPtr]")
		// prev link = old tail, evaluated before tailPtr is advanced
		tailStores := find(pb, storeToField(tail))
		okPrev := len(tailStores) >= 1
		var prevStores []ssa.Instruction
		for _, st := range find(pb, storeToField(prevF)) {
			v := st.(*ssa.Store).Val
			if ir.IsNil(v) {
				continue
			}
			prevStores = append(prevStores, st)
			// value: phi / address of chain[old tailPtr]
			okVal := ir.DerivesFrom(v, func(x ssa.Value) bool { return isSlot(x, isTailLoad) })
			if !okVal {
				okPrev = false
			}
		}
		// the slot address used for prev is computed before the first store to tailPtr
		if okPrev && len(prevStores) >= 1 {
			ir.Instrs(pb, func(in ssa.Instruction) {
				ia, ok := in.(*ssa.IndexAddr)
				if !ok || !isSlot(ia, isTailLoad) {
					return
				}
				feedsPrev := false
				for _, ps := range prevStores {
					if ir.DerivesFrom(ps.(*ssa.Store).Val, func(x ssa.Value) bool { return x == ssa.Value(ia) }) {
						feedsPrev = true
					}
				}
				if !feedsPrev {
					return
				}
				// no store to tailPtr may precede it
				for _, ts := range tailStores {
					reach := false
					ir.WalkAfter(ts, nil, func(x ssa.Instruction) bool {
						if x == ssa.Instruction(ia) {
							reach = true
						}
						return true
					})
					if reach {
						okPrev = false
					}
				}
			})
		}
		c.verdict(okPrev && len(prevStores) >= 1, c.nm(pb)+" | new tail's prev = the tail before the push", c.P.Pos(pb.Pos()), "prev link taken before tailPtr advances", "the prev link of a pushed node is not the element that was the tail before the push (ancestor walks and header validation would follow the wrong chain)", c.ats(prevStores)...)
		if nodeStore != nil {
			// prev is set after the node value has been copied into the slot
			linkStore := func(in ssa.Instruction) bool {
				return storeToField(prevF)(in) && !ir.IsNil(in.(*ssa.Store).Val)
			}
			c.neverAfter(pb, linkStore, "store of the prev link", func(in ssa.Instruction) bool { return in == nodeStore }, "chain[tailPtr] = n (would overwrite the link)", 1, nil)
		}
		bk := c.fn("(*headerlist.BoundedMemoryChain).Back")
		okBack := false
		for _, in := range find(bk, isExit) {
			v := ir.RetVal(in.(*ssa.Return), 0)
			if ir.IsNil(v) {
				continue
			}
			okBack = isSlot(v, isTailLoad)
		}
		c.verdict(okBack, c.nm(bk)+" | returns &chain[tailPtr]", c.P.Pos(bk.Pos()), "tail slot", "Back does not return the tail slot")
		rs := c.fn("(*headerlist.BoundedMemoryChain).ResetHeaderState")
		pushM := c.method("headerlist", "BoundedMemoryChain", "PushBack")
		okReset := false
		for _, call := range find(rs, callTo(pushM)) {
			okReset = ir.CallOf(call).Args[1] == ssa.Value(rs.Params[1])
		}
		for _, f := range []string{"headPtr", "tailPtr", "len"} {
			c.mustPrecede(rs, storeToField(bmc(f)), "reset of "+f, callTo(pushM), "PushBack(n)", 1)
		}
		c.verdict(okReset, c.nm(rs)+" | pushes its argument after emptying the list", c.P.Pos(rs.Pos()), "PushBack(n)", "ResetHeaderState does not push its argument")
	})

	c.rule("C01.W1", "only the tabled functions write or roll back the block-header store (BlockHeaderStore.WriteHeaders / RollbackBlockHeaders / RollbackLastBlock)", func() {
		w := bhsWrite()
		rb := c.method("headerfs", "BlockHeaderStore", "RollbackBlockHeaders")
		rl := c.method("headerfs", "BlockHeaderStore", "RollbackLastBlock")
		c.whoMay("BlockHeaderStore.{WriteHeaders,RollbackBlockHeaders,RollbackLastBlock}", callTo(w, rb, rl), []string{
			fnHandleHeaders,
			"(*neutrino.blockManager).rollBackToHeight",
			"(*chainimport.headersImport).writeHeadersToTargetStores",
			"headerfs.NewBlockHeaderStore",
			"(*headerfs.blockHeaderStore).RollbackLastBlock",
		}, 6)
	})

	c.rule("C01.O1", dirtyListTypestateDoc, func() { c.dirtyListTypestate() })

	c.rule("C01.O9", checkpointCursorDoc, func() { c.checkpointCursorWithStore() })

	c.rule("C01.V5", "a fork cannot displace a checkpointed header: the fork height is measured against the last checkpoint the accepted chain has passed: "+checkpointFloorDoc, func() { c.checkpointFloor() })

	c.rule("C01.V8", "a side branch is validated at its own heights: a branch header checked with the wrong parent height sees the wrong retarget boundary and is accepted with difficulty bits the retarget rules do not allow: "+branchOwnAncestorsDoc, func() { c.branchOwnAncestors() })

	c.rule("C01.V6", "the context a header is validated in is its real ancestor chain: lightHeaderCtx.RelativeAncestorCtx(distance) looks up exactly the height l.height - distance (in the header list, in the store, and as the height of the returned context; not clamped or adjusted: below genesis there is no ancestor and btcd's median-time and difficulty walks rely on nil there), builds the returned context from the header it found, and returns nil when the store has no such header; newLightHeaderCtx records the height it is given and the header's own bits and timestamp, which Height / Bits / Timestamp return", func() {
		fn := c.fn("(*neutrino.lightHeaderCtx).RelativeAncestorCtx")
		lf := func(n string) *types.Var { return c.field("neutrino", "lightHeaderCtx", n) }
		isAH := func(v ssa.Value) bool {
			b, ok := ir.Strip(v).(*ssa.BinOp)
			return ok && b.Op == token.SUB && isLoadOfPath(b.X, lf("height")) && ir.Strip(b.Y) == ssa.Value(fn.Params[1])
		}
		anc := c.method("headerlist", "Node", "Ancestor")
		fetch := c.method("headerfs", "BlockHeaderStore", "FetchHeaderByHeight")
		mk := c.funcObj("neutrino", "newLightHeaderCtx")
		var bad []string
		var sites []ssa.Instruction
		nAnc := 0
		for _, in := range find(fn, callTo(anc)) {
			nAnc++
			sites = append(sites, in)
			_, a := recvAndArgs(in)
			if len(a) != 1 || !isAH(a[0]) {
				bad = append(bad, "the header list is asked for a height other than l.height - distance at "+c.at(in))
			}
		}
		fetches := find(fn, callTo(fetch))
		for _, in := range fetches {
			sites = append(sites, in)
			a := argsOf(in)
			if len(a) != 1 || !isAH(a[0]) {
				bad = append(bad, "the store is asked for a height other than l.height - distance at "+c.at(in))
			}
		}
		mks := find(fn, callTo(mk))
		for _, in := range mks {
			sites = append(sites, in)
			a := argsOf(in)
			if len(a) < 2 || !isAH(a[0]) {
				bad = append(bad, "the returned context does not carry the height l.height - distance ("+c.at(in)+")")
				continue
			}
			nodeHdr := c.field("headerlist", "Node", "Header")
			okHdr := ir.DerivesFrom(a[1], func(x ssa.Value) bool {
				if fa, ok := x.(*ssa.FieldAddr); ok && ir.FieldOfAddr(fa) == nodeHdr {
					return ir.DerivesFrom(fa.X, valIsCallTo(anc))
				}
				return valIsCallTo(fetch)(x)
			})
			if !okHdr {
				bad = append(bad, "the returned context is not built from the header that was looked up ("+c.at(in)+")")
			}
		}
		if nAnc == 0 && len(fetches) == 0 || len(mks) == 0 {
			bad = append(bad, fmt.Sprintf("%d header-list lookups, %d store lookups, %d contexts built: the ancestor is not looked up", nAnc, len(fetches), len(mks)))
		}
		// a failed store lookup ends in nil
		g := errNil("store.FetchHeaderByHeight", fetches, 1)
		for _, gs := range g.sites {
			ir.WalkEdge(gs.br.Other(), nil, func(in ssa.Instruction) bool {
				if r, ok := in.(*ssa.Return); ok {
					if !ir.IsNil(ir.Strip(ir.RetVal(r, 0))) {
						bad = append(bad, "a failed store lookup does not end in a nil ancestor (return at "+c.at(r)+")")
					}
					return false
				}
				return true
			})
		}
		if len(g.unchecked) > 0 {
			bad = append(bad, "the error of the store lookup is not examined at "+join(c.ats(g.unchecked)))
		}
		sort.Strings(bad)
		c.verdict(len(bad) == 0, c.nm(fn)+" | the ancestor at exactly l.height - distance, or nil", c.P.Pos(fn.Pos()), fmt.Sprintf("%d lookups and the returned context use l.height - distance; store failure returns nil", nAnc+len(fetches)), join(uniq(bad)), c.ats(sites)...)
		// constructor and accessors
		mkFn := c.fn("neutrino.newLightHeaderCtx")
		hdrBits := c.field(pWire, "BlockHeader", "Bits")
		hdrTime := c.field(pWire, "BlockHeader", "Timestamp")
		unix := c.method("time", "Time", "Unix")
		var bad2 []string
		want := map[string]func(ssa.Value) bool{
			"height": func(v ssa.Value) bool { return ir.Strip(v) == ssa.Value(mkFn.Params[0]) },
			"bits": func(v ssa.Value) bool {
				return isLoadOfPath(v, hdrBits) && ir.DerivesFrom(v, func(x ssa.Value) bool { return x == ssa.Value(mkFn.Params[1]) })
			},
			"timestamp": func(v ssa.Value) bool {
				call, ok := ir.Strip(v).(*ssa.Call)
				if !ok || !callTo(unix)(call) {
					return false
				}
				recv, _ := recvAndArgs(call)
				return isLoadOfPath(recv, hdrTime) && ir.DerivesFrom(recv, func(x ssa.Value) bool { return x == ssa.Value(mkFn.Params[1]) })
			},
		}
		for _, name := range []string{"height", "bits", "timestamp"} {
			sts := find(mkFn, storeToField(lf(name)))
			if len(sts) != 1 || !want[name](sts[0].(*ssa.Store).Val) {
				bad2 = append(bad2, "newLightHeaderCtx does not record the "+name+" of the header it is given")
			}
		}
		for name, field := range map[string]string{"Height": "height", "Bits": "bits", "Timestamp": "timestamp"} {
			acc := c.fn("(*neutrino.lightHeaderCtx)." + name)
			for _, r := range find(acc, isExit) {
				if !isLoadOfPath(ir.RetVal(r.(*ssa.Return), 0), lf(field)) {
					bad2 = append(bad2, name+"() does not return the recorded "+field)
				}
			}
		}
		sort.Strings(bad2)
		c.verdict(len(bad2) == 0, "neutrino.lightHeaderCtx | records and reports the header's own height, bits and timestamp", c.P.Pos(mkFn.Pos()), "constructor stores (height, header.Bits, header.Timestamp.Unix()); accessors return them", join(bad2))
	})

	c.rule("C01.P1", "lookups by hash, by height and of the tip agree at every instant: "+readsOneSectionDoc, func() { c.readsOneSection() })
	c.rule("C01.V9", "a whole headers message fits on the in-memory list: headers are validated one by one against the list and written only once the whole batch has passed, so until then the list is the only place the earlier headers of the batch can be found (the ancestor walk of the validation context falls back to the store, which does not have them yet, and then reports that there is no such ancestor - on networks with the minimum-difficulty exception that answer makes a header with minimum-difficulty bits pass where the real difficulty is required); both bounded lists of the block manager are made with a constant capacity above wire.MaxBlockHeadersPerMsg", func() {
		nb := c.fn("neutrino.newBlockManager")
		mk := c.funcObj("headerlist", "NewBoundedMemoryChain")
		maxMsg := c.importConstIn(pWire, "MaxBlockHeadersPerMsg")
		calls := find(nb, callTo(mk))
		var bad []string
		for _, in := range calls {
			k, isC := ir.ConstInt(ir.CallOf(in).Args[0])
			if !isC {
				bad = append(bad, "capacity at "+c.at(in)+" is not a constant")
			} else if k <= maxMsg {
				bad = append(bad, fmt.Sprintf("capacity %d at %s does not hold a headers message of %d on top of the stored tip", k, c.at(in), maxMsg))
			}
		}
		sort.Strings(bad)
		c.verdict(len(bad) == 0 && len(calls) >= 2, c.nm(nb)+" | list capacity > MaxBlockHeadersPerMsg", c.P.Pos(nb.Pos()), fmt.Sprintf("%d bounded lists, each above %d", len(calls), maxMsg), join(bad)+fmt.Sprintf(" (%d NewBoundedMemoryChain calls, 2 tabled)", len(calls)), c.ats(calls)...)
	})
	c.rule("C01.W2", lightCtxNodeDoc, func() { c.lightCtxNode() })

	c.rule("C01.V7", "the header list answers an ancestor query only with the node of exactly that height: Node.Ancestor returns a node only on the edge where its Height equals the requested height (nil otherwise), so a validation context is never built from a nearby header", func() {
		fn := c.fn("(*headerlist.Node).Ancestor")
		nodeH := c.field("headerlist", "Node", "Height")
		isReq := func(v ssa.Value) bool { return ir.Strip(v) == ssa.Value(fn.Params[1]) }
		cmps := find(fn, binops(eqOps, func(v ssa.Value) bool { return isLoadOfPath(v, nodeH) }, isReq))
		cut := ir.Cut{}
		for _, x := range cmps {
			for _, br := range ir.EqBranches(x.(*ssa.BinOp)) {
				cut[br.Edge()] = true
			}
		}
		// edges on which a node value is known to be nil
		ir.Instrs(fn, func(in ssa.Instruction) {
			b, ok := in.(*ssa.BinOp)
			if !ok || (b.Op != token.EQL && b.Op != token.NEQ) || !(ir.IsNil(b.X) || ir.IsNil(b.Y)) {
				return
			}
			for _, br := range ir.TrueBranches(b) {
				e := br.Edge()
				if b.Op == token.NEQ {
					e = br.Other()
				}
				cut[e] = true
			}
		})
		var bad []ssa.Instruction
		for b := range ir.ReachEntry(fn, cut) {
			if r, ok := b.Instrs[len(b.Instrs)-1].(*ssa.Return); ok && !ir.IsNil(ir.Strip(ir.RetVal(r, 0))) {
				bad = append(bad, r)
			}
		}
		c.verdict(len(cmps) >= 1 && len(bad) == 0, c.nm(fn)+" | a node is returned only where node.Height == height", c.P.Pos(fn.Pos()), fmt.Sprintf("%d comparison(s) of a node's Height with the requested height; without their equal edge (and the nil edges) only `return nil` is reachable", len(cmps)), fmt.Sprintf("a node can be returned without its Height having been found equal to the requested height (%d comparison(s))", len(cmps)), c.ats(bad)...)
	})

	c.rule("C01.O2", "handleDonePeerMsg: when the departing peer was the sync peer, headerList.ResetHeaderState(<BlockHeaders.ChainTip()>) follows (list re-mirrors the store)", func() {
		fn := c.fn("(*neutrino.blockManager).handleDonePeerMsg")
		syncPeer := c.field("neutrino", "blockManager", "syncPeer")
		clears := find(fn, func(in ssa.Instruction) bool {
			return storeToField(syncPeer)(in) && ir.IsNil(in.(*ssa.Store).Val)
		})
		reset := c.method("headerlist", "Chain", "ResetHeaderState")
		tip := c.method("headerfs", "BlockHeaderStore", "ChainTip")
		resets := find(fn, callTo(reset))
		var starts []start
		for _, s := range clears {
			starts = append(starts, afterInstr(c, s))
		}
		// the ChainTip error return is the one tabled exit without a reset
		tipCalls := find(fn, callTo(tip))
		gTip := errNil("BlockHeaders.ChainTip", tipCalls, 2)
		cut := ir.Cut{}
		for _, s := range gTip.sites {
			cut[s.br.Other()] = true
		}
		c.mustFollow(fn, "syncPeer = nil", starts, callTo(reset), "headerList.ResetHeaderState", cut, 1)
		okArg := len(resets) > 0
		for _, r := range resets {
			args := argsOf(r)
			if len(args) != 1 || !ir.DerivesFrom(args[0], valIsCallTo(tip)) {
				okArg = false
			}
		}
		c.verdict(okArg, c.nm(fn)+" | ResetHeaderState argument derives from BlockHeaders.ChainTip()", c.P.Pos(fn.Pos()),
			"reset node built from the store's chain tip", "ResetHeaderState is not fed from BlockHeaders.ChainTip()", c.ats(resets)...)
	})
}

// prevCheckpointStrict: findPreviousHeaderCheckpoint returns a checkpoint
// strictly below the height it is given (the genesis pseudo-checkpoint when
// there is none): a candidate is adopted only behind `checkpoint.Height <
// height`. The checkpoint-mismatch recovery of handleHeadersMsg relies on it:
// it rolls back to findPreviousHeaderCheckpoint(failing height); were the
// failing checkpoint itself returned, nothing would be rolled back and the
// bogus branch below the checkpoint would stay in the store.
func (c *Ctx) prevCheckpointStrict() {
	fn := c.fn("(*neutrino.blockManager).findPreviousHeaderCheckpoint")
	cpHeight := c.field(pChaincfg, "Checkpoint", "Height")
	isCp := func(v ssa.Value) bool { return loadsField(cpHeight)(v) }
	isH := func(v ssa.Value) bool { return ir.Strip(v) == ssa.Value(fn.Params[1]) }
	g, odd := relGuard("checkpoint.Height < height", fn, isCp, isH, token.LSS)
	if len(odd) > 0 {
		c.fail(c.nm(fn)+" | comparison shape", c.P.Pos(fn.Pos()), "the candidate checkpoint's height is compared with the given height by "+join(odd)+": a checkpoint AT the given height must not be returned")
	}
	// effects: the candidate addresses that can reach the returned value
	var cands []ssa.Instruction
	for _, in := range find(fn, isExit) {
		v := ir.RetVal(in.(*ssa.Return), 0)
		seen := map[ssa.Value]bool{}
		var walk func(v ssa.Value)
		walk = func(v ssa.Value) {
			if seen[v] {
				return
			}
			seen[v] = true
			switch x := v.(type) {
			case *ssa.Phi:
				for i, e := range x.Edges {
					// the adoption point of a candidate is the edge on which
					// the result variable takes it, not the place where its
					// address was computed
					if ia, ok := e.(*ssa.IndexAddr); ok {
						pred := x.Block().Preds[i]
						if len(pred.Succs) == 1 {
							cands = append(cands, pred.Instrs[len(pred.Instrs)-1])
						} else {
							cands = append(cands, ia)
						}
						continue
					}
					walk(e)
				}
			case *ssa.IndexAddr:
				cands = append(cands, x)
			}
		}
		walk(v)
	}
	c.guarded(fn, g, 1, "adopt checkpoints[i] as the previous checkpoint", cands, 1, gDominate)
}

const prevCheckpointFromFirstDoc = "the search for the last checkpoint below a height looks at every entry of the chain's checkpoint list, the first one included: in findPreviousHeaderCheckpoint the loop over ChainParams.Checkpoints is a unit-step counter that starts at (counting up) or runs down to (counting down) index 0; with the first entry left out, a tip that has reached only that checkpoint gets the genesis block as its reorganisation floor, and a heavier branch forking below the checkpoint replaces the checkpointed header"

// prevCheckpointFromFirst: see prevCheckpointFromFirstDoc.
func (c *Ctx) prevCheckpointFromFirst() {
	fn := c.fn("(*neutrino.blockManager).findPreviousHeaderCheckpoint")
	construct := c.nm(fn) + " | the scan of the checkpoint list includes index 0"
	pos := c.P.Pos(fn.Pos())
	cps := c.field(pChaincfg, "Params", "Checkpoints")
	// the loop(s) indexing the checkpoint list
	heads := map[*ssa.BasicBlock]bool{}
	ir.Instrs(fn, func(in ssa.Instruction) {
		ia, ok := in.(*ssa.IndexAddr)
		if !ok || !loadsField(cps)(ia.X) {
			return
		}
		if h := ir.LoopHeaderOf(in.Block()); h != nil {
			heads[h] = true
		}
	})
	if len(heads) != 1 {
		c.undecided(construct, pos, fmt.Sprintf("found %d loops over ChainParams.Checkpoints, 1 tabled", len(heads)))
		return
	}
	var h *ssa.BasicBlock
	for x := range heads {
		h = x
	}
	lf := loopFormOf(h)
	if lf.problem != "" {
		c.fail(construct, pos, lf.problem)
		return
	}
	switch lf.step {
	case 1:
		k, isC := ir.ConstInt(lf.init)
		if lf.pre {
			k++
		}
		c.verdict(isC && k == 0, construct, c.at(lf.test), "counts up from index 0", fmt.Sprintf("the scan starts at index %d of the checkpoint list (constant start: %v): earlier checkpoints are never candidates", k, isC), c.at(lf.test))
	case -1:
		b, isC := ir.ConstInt(lf.bound)
		lowest := b
		switch lf.op {
		case token.GEQ:
		case token.GTR:
			lowest = b + 1
		default:
			isC = false
		}
		if lf.pre {
			isC = false
		}
		c.verdict(isC && lowest == 0, construct, c.at(lf.test), "counts down to index 0", fmt.Sprintf("the scan stops above index 0 of the checkpoint list (lowest index visited %d, recognised: %v): the first checkpoint is never a candidate", lowest, isC), c.at(lf.test))
	default:
		c.fail(construct, pos, "the loop over the checkpoint list is not a unit-step counter")
	}
}

// nextCheckpointStrict: findNextHeaderCheckpoint hands out a checkpoint only
// if its height is strictly greater than the given height (a checkpoint AT
// the given height was just verified: returning it again parks nextCheckpoint
// there and every later checkpoint is skipped).
func (c *Ctx) nextCheckpointStrict() {
	fn := c.fn("(*neutrino.blockManager).findNextHeaderCheckpoint")
	cpHeight := c.field(pChaincfg, "Checkpoint", "Height")
	isCp := func(v ssa.Value) bool { return loadsField(cpHeight)(v) }
	isH := func(v ssa.Value) bool { return ir.Strip(v) == ssa.Value(fn.Params[1]) }
	g, odd := relGuard("checkpoint.Height > height", fn, isCp, isH, token.GTR)
	if len(odd) > 0 {
		c.fail(c.nm(fn)+" | comparison shape", c.P.Pos(fn.Pos()), "a candidate checkpoint's height is compared with the given height by "+join(odd)+": a checkpoint AT the given height must not be returned as the next one")
		return
	}
	var cands, nonNil []ssa.Instruction
	for _, in := range find(fn, isExit) {
		v := ir.RetVal(in.(*ssa.Return), 0)
		if !ir.IsNil(v) {
			nonNil = append(nonNil, in)
		}
		seen := map[ssa.Value]bool{}
		var walk func(v ssa.Value)
		walk = func(v ssa.Value) {
			if seen[v] {
				return
			}
			seen[v] = true
			switch x := v.(type) {
			case *ssa.Phi:
				for i, e := range x.Edges {
					if ia, ok := e.(*ssa.IndexAddr); ok && ir.LoopHeaderOf(ia.Block()) != nil {
						pred := x.Block().Preds[i]
						if len(pred.Succs) == 1 {
							cands = append(cands, pred.Instrs[len(pred.Instrs)-1])
						} else {
							cands = append(cands, ia)
						}
						continue
					}
					walk(e)
				}
			case *ssa.IndexAddr:
				if ir.LoopHeaderOf(x.Block()) != nil {
					cands = append(cands, x)
				}
			}
		}
		walk(v)
	}
	c.guarded(fn, g, 2, "adopt checkpoints[i] as the next checkpoint", cands, 1, gDominate)
	c.guarded(fn, g, 2, "return a checkpoint", nonNil, 1, gDominate)
}

const headersLinkedDoc = "handleHeadersMsg: areHeadersConnected(msg.Headers)=true guards every store write, rollback and batch append; areHeadersConnected returns true only if no PrevBlock mismatch was seen"

// headersLinked: see headersLinkedDoc.
func (c *Ctx) headersLinked() {
	hdrNamed := func() *types.Named { return c.P.Named("headerfs", "BlockHeader") }
	bhsWrite := func() *types.Func { return c.method("headerfs", "BlockHeaderStore", "WriteHeaders") }
	fn := c.fn(fnHandleHeaders)
	roll := c.method("neutrino", "blockManager", "rollBackToHeight")
	effects := find(fn, anyOf(appendsOf(hdrNamed()), callTo(bhsWrite()), callTo(roll)))
	prevBlock := c.field(pWire, "BlockHeader", "PrevBlock")
	msgHeaders := c.field(pWire, "MsgHeaders", "Headers")

	// the link check lives in areHeadersConnected or, when that helper was
	// folded into the handler, in the handler itself
	f2 := c.P.Func("neutrino.areHeadersConnected")
	folded := f2 == nil
	isSlice := func(v ssa.Value) bool { return v == ssa.Value(f2.Params[0]) }
	if folded {
		f2 = fn
		isSlice = func(v ssa.Value) bool { return loadsField(msgHeaders)(v) }
	} else {
		c.R.Funcs[c.nm(f2)] = true
		calls := find(fn, callTo(c.funcObj("neutrino", "areHeadersConnected")))
		c.guarded(fn, boolIs("areHeadersConnected(msg.Headers)", calls, 0, true), 1, "batch append / WriteHeaders / rollBackToHeight", effects, 4, gDominate)
	}
	cmps := find(f2, binops(eqOps, loadsField(prevBlock), anyVal))
	gLink := equalIs("blockHeader.PrevBlock vs lastHeader", cmps, true)
	if folded && len(cmps) == 0 {
		c.fail(c.nm(fn)+" | headers of a message are linked to each other", c.P.Pos(fn.Pos()), "neither areHeadersConnected nor a PrevBlock comparison over msg.Headers exists: the message's headers are not checked for being connected before they are used")
		return
	}
	failExit := func(e ir.Edge) bool {
		for _, st := range gLink.sites {
			o := st.br.Other()
			if e == o || ir.EdgeDominates(f2, o, e.From) {
				return true
			}
		}
		return false
	}
	for _, x := range cmps {
		if folded {
			c.fullRange(f2, ir.LoopHeaderOf(x.Block()), "the link-checking loop", isSlice, 0, func(*ssa.Return) bool { return true }, failExit)
		} else {
			c.fullRange(f2, ir.LoopHeaderOf(x.Block()), "the link-checking loop", isSlice, 0, boolSuccess)
		}
	}
	if folded {
		// a mismatch never reaches a store write, rollback or batch append, and
		// all of them lie behind the completed loop
		c.guarded(fn, gLink, 1, "batch append / WriteHeaders / rollBackToHeight", effects, 4, gFailEdge)
		okDom := len(cmps) > 0
		for _, x := range cmps {
			h := ir.LoopHeaderOf(x.Block())
			for _, e := range effects {
				if h == nil || !h.Dominates(e.Block()) || ir.LoopBlocks(h)[e.Block()] {
					okDom = false
				}
			}
		}
		c.verdict(okDom, c.nm(fn)+" | the link-checking loop is completed before any store write, rollback or batch append", c.P.Pos(fn.Pos()), "loop dominates the effects and does not contain them", "a store write, rollback or batch append can happen before every header of the message was link-checked", c.ats(cmps)...)
	} else {
		var retTrue []ssa.Instruction
		for _, in := range find(f2, isExit) {
			r := in.(*ssa.Return)
			if b, ok := ir.ConstBool(ir.RetVal(r, 0)); !ok || b {
				retTrue = append(retTrue, in)
			}
		}
		c.guarded(f2, gLink, 1, "return true", retTrue, 1, gFailEdge)
	}
	// every header of the message is linked to its predecessor: from each
	// element of the slice the PrevBlock comparison is reached within the
	// iteration; the only exemption is the very first header (lastHeader is
	// still the zero hash)
	var starts []start
	loopOf := map[*ssa.BasicBlock]bool{}
	for _, x := range cmps {
		if h := ir.LoopHeaderOf(x.Block()); h != nil {
			for b := range ir.LoopBlocks(h) {
				loopOf[b] = true
			}
		}
	}
	ir.Instrs(f2, func(in ssa.Instruction) {
		ia, ok := in.(*ssa.IndexAddr)
		if ok && isSlice(ir.Strip(ia.X)) && loopOf[in.Block()] {
			starts = append(starts, afterInstr(c, in))
		}
	})
	firstCut := ir.Cut{}
	ir.Instrs(f2, func(in ssa.Instruction) {
		b, ok := in.(*ssa.BinOp)
		if !ok || !loopOf[in.Block()] || (b.Op != token.EQL && b.Op != token.NEQ) || loadsField(prevBlock)(b.X) || loadsField(prevBlock)(b.Y) {
			return
		}
		// comparison of two hash values neither of which is a PrevBlock:
		// lastHeader == emptyHash (first header of the message)
		hashT := c.P.Named(pChainhash, "Hash")
		if hashT == nil || !types.Identical(b.X.Type(), hashT) || !types.Identical(b.Y.Type(), hashT) {
			return
		}
		for _, br := range ir.EqBranches(b) {
			firstCut[br.Edge()] = true
		}
	})
	c.mustFollowIter(f2, "each header of the message", starts, oneOf(cmps), "blockHeader.PrevBlock != lastHeader comparison", firstCut, 1)
}

const headerSanityValidatorDoc = "checkHeaderSanity is a validator: it returns nil only if blockchain.CheckBlockHeaderContext=nil and blockchain.CheckBlockHeaderSanity=nil, both on its header parameter with BehaviorFlags zero (BFNone) and PowLimit/TimeSource from b.cfg"

// headerSanityValidator: see headerSanityValidatorDoc.
func (c *Ctx) headerSanityValidator() {
	fn := c.fn("(*neutrino.blockManager).checkHeaderSanity")
	ctxF := c.funcObj(pBlockchain, "CheckBlockHeaderContext")
	sanF := c.funcObj(pBlockchain, "CheckBlockHeaderSanity")
	ctxCalls := find(fn, callTo(ctxF))
	sanCalls := find(fn, callTo(sanF))
	c.nilReturnsGuarded(fn, errNil("CheckBlockHeaderContext", ctxCalls, 0), 1)
	c.nilReturnsGuarded(fn, errNil("CheckBlockHeaderSanity", sanCalls, 0), 1)
	// argument shapes
	hdrParam := fn.Params[1]
	okArgs := true
	detail := ""
	for _, in := range append(append([]ssa.Instruction{}, ctxCalls...), sanCalls...) {
		cc := ir.CallOf(in)
		if cc.Args[0] != ssa.Value(hdrParam) {
			okArgs = false
			detail += "validator at " + c.at(in) + " is not applied to the header parameter; "
		}
		for i, a := range cc.Args {
			pt := cc.Signature().Params().At(i).Type()
			if n, ok := pt.(*types.Named); ok && n.Obj().Name() == "BehaviorFlags" {
				if k, isC := ir.ConstInt(a); !isC || k != 0 {
					okArgs = false
					detail += "validator at " + c.at(in) + " is called with behaviour flags other than the zero constant BFNone (flags can disable proof-of-work checks); "
				}
			}
		}
	}
	powLimit := c.field(pChaincfg, "Params", "PowLimit")
	timeSrc := c.field("neutrino", "blockManagerCfg", "TimeSource")
	for _, in := range sanCalls {
		cc := ir.CallOf(in)
		if !loadsField(powLimit)(cc.Args[1]) {
			okArgs = false
			detail += "PowLimit argument at " + c.at(in) + " is not cfg.ChainParams.PowLimit; "
		}
		if !loadsField(timeSrc)(cc.Args[2]) {
			okArgs = false
			detail += "time source argument at " + c.at(in) + " is not cfg.TimeSource; "
		}
	}
	c.verdict(okArgs && len(ctxCalls) > 0 && len(sanCalls) > 0, c.nm(fn)+" | validator argument shapes", c.P.Pos(fn.Pos()),
		"both btcd validators run on the header parameter with zero flags, cfg PowLimit and cfg TimeSource", detail,
		c.ats(append(append([]ssa.Instruction{}, ctxCalls...), sanCalls...))...)
}

const lightCtxNodeDoc = "a header is validated against the ancestors of its own branch: the list node a validation context starts its ancestor walk from (lightHeaderCtx.node) is set only by RelativeAncestorCtx, from the node the walk itself found; set from elsewhere (the tail of the main list while a side branch is being validated) it makes the median time and difficulty of a branch header come from the chain the branch is meant to displace"

// lightCtxNode: see lightCtxNodeDoc (C01.W2, also C02.W2).
func (c *Ctx) lightCtxNode() {
	node := c.field("neutrino", "lightHeaderCtx", "node")
	c.whoMay("stores into lightHeaderCtx.node", storeToField(node), []string{"(*neutrino.lightHeaderCtx).RelativeAncestorCtx"}, 1)
	// ... and there it is the node the lookup returned
	fn := c.fn("(*neutrino.lightHeaderCtx).RelativeAncestorCtx")
	anc := c.method("headerlist", "Node", "Ancestor")
	okv := true
	sts := find(fn, storeToField(node))
	for _, st := range sts {
		if !ir.DerivesFrom(st.(*ssa.Store).Val, valIsCallTo(anc)) {
			okv = false
		}
	}
	c.verdict(okv && len(sts) >= 1, c.nm(fn)+" | the carried node is the one Ancestor returned", c.P.Pos(fn.Pos()), "ancestorCtx.node = ancestorNode", "the node carried into the ancestor's context is not the result of the Ancestor lookup", c.ats(sts)...)
}

const dirtyListTypestateDoc = "dirty-list typestate in handleHeadersMsg: once a validated header has been pushed onto the in-memory header list (which later headers are validated against), every path to a function exit either commits the batch (final WriteHeaders succeeded) or re-seeds the list from the store (ResetHeaderState); edges that are infeasible after a push are pruned with their justification"

const checkpointCursorDoc = "the checkpoint cursor moves only with the store: in handleHeadersMsg nextCheckpoint is stored only where the batch can no longer be abandoned - behind a store to nextCheckpoint no path reaches an abandon step (a re-seeding of the header list from the store: the batch was dropped, the store is still below the verified checkpoint) unless nextCheckpoint is derived again on the way; otherwise the height of the checkpoint just passed is never compared again and any valid-work header is stored there"

// checkpointCursorWithStore: see checkpointCursorDoc.
func (c *Ctx) checkpointCursorWithStore() {
	fn := c.fn(fnHandleHeaders)
	next := c.field("neutrino", "blockManager", "nextCheckpoint")
	resetM := c.method("headerlist", "Chain", "ResetHeaderState")
	hl := c.field("neutrino", "blockManager", "headerList")
	onList := func(in ssa.Instruction) bool {
		cc := ir.CallOf(in)
		return cc != nil && callTo(resetM)(in) && cc.IsInvoke() && loadsField(hl)(cc.Value)
	}
	// abandon steps: a direct reset of the header list, or a helper that
	// resets it without deriving nextCheckpoint again
	helpers := map[*types.Func]bool{}
	for _, f := range c.P.Funcs {
		obj, _ := f.Object().(*types.Func)
		if obj == nil || f == fn || f.Parent() != nil {
			continue
		}
		if len(find(f, onList)) > 0 && len(find(f, storeToField(next))) == 0 {
			helpers[obj] = true
		}
	}
	isAbandon := func(in ssa.Instruction) bool {
		if onList(in) {
			return true
		}
		cc := ir.CallOf(in)
		if cc == nil {
			return false
		}
		cal := ir.Resolve(cc)
		return cal.Func != nil && helpers[cal.Func]
	}
	construct := c.nm(fn) + " | no abandon step is reachable behind a store to nextCheckpoint"
	stores := find(fn, storeToField(next))
	if len(stores) == 0 {
		c.fail(construct, c.P.Pos(fn.Pos()), "handleHeadersMsg no longer stores nextCheckpoint")
		return
	}
	var bad []string
	for _, st := range stores {
		ir.WalkAfter(st, nil, func(in ssa.Instruction) bool {
			if in != st && storeToField(next)(in) {
				return false
			}
			if isAbandon(in) {
				bad = append(bad, c.at(st)+" -> "+c.at(in))
				return false
			}
			return true
		})
	}
	sort.Strings(bad)
	c.verdict(len(bad) == 0, construct, c.P.Pos(fn.Pos()), fmt.Sprintf("%d store(s) to nextCheckpoint, none followed by an abandon step", len(stores)), "nextCheckpoint is moved on while the batch can still be dropped (store -> abandon step): "+join(bad)+": after the drop the store is below the checkpoint and the cursor beyond it", c.ats(stores)...)
}

// dirtyListTypestate: see dirtyListTypestateDoc.
func (c *Ctx) dirtyListTypestate() {
	hdrNamed := func() *types.Named {
		n := c.P.Named("headerfs", "BlockHeader")
		if n == nil {
			panic(anchorErr{"type headerfs.BlockHeader"})
		}
		return n
	}
	bhsWrite := func() *types.Func { return c.method("headerfs", "BlockHeaderStore", "WriteHeaders") }
	fn := c.fn(fnHandleHeaders)
	pushM := c.method("headerlist", "Chain", "PushBack")
	resetM := c.method("headerlist", "Chain", "ResetHeaderState")
	hl := c.field("neutrino", "blockManager", "headerList")
	onList := func(m *types.Func) Sel {
		return func(in ssa.Instruction) bool {
			cc := ir.CallOf(in)
			return cc != nil && callTo(m)(in) && cc.IsInvoke() && loadsField(hl)(cc.Value)
		}
	}
	appends := find(fn, appendsOf(hdrNamed()))
	// D: the push that goes with the batch append (same branch: dominated by the append's block)
	var ds []ssa.Instruction
	for _, p := range find(fn, onList(pushM)) {
		for _, a := range appends {
			if a.Block().Dominates(p.Block()) {
				ds = append(ds, p)
			}
		}
	}
	construct := c.nm(fn) + " | after headerList.PushBack every exit commits the batch or resets the list"
	if len(ds) != 1 {
		c.undecided(construct, c.P.Pos(fn.Pos()), fmt.Sprintf("expected exactly one headerList.PushBack tied to the batch append, found %d", len(ds)))
		return
	}
	// R: a direct reset of the header list, or a call of a blockManager helper that resets it
	helpers := map[*types.Func]bool{}
	for _, f := range c.P.Funcs {
		obj, _ := f.Object().(*types.Func)
		if obj == nil || f == fn || f.Parent() != nil {
			continue
		}
		if len(find(f, onList(resetM))) > 0 {
			helpers[obj] = true
		}
	}
	isR := func(in ssa.Instruction) bool {
		if onList(resetM)(in) {
			return true
		}
		cc := ir.CallOf(in)
		if cc == nil {
			return false
		}
		cal := ir.Resolve(cc)
		return cal.Func != nil && helpers[cal.Func]
	}
	cut := ir.Cut{}
	var why []string
	// C: success edge of the batch write
	for _, w := range find(fn, callTo(bhsWrite())) {
		args := argsOf(w)
		if len(args) == 1 && ir.DerivesFrom(args[0], func(v ssa.Value) bool {
			in, ok := v.(ssa.Instruction)
			return ok && appendsOf(hdrNamed())(in)
		}) {
			g := errNil("batch WriteHeaders", []ssa.Instruction{w}, 0)
			for _, s := range g.sites {
				cut[s.br.Edge()] = true
			}
			why = append(why, "commit edge: batch WriteHeaders = nil at "+c.at(w))
		}
	}
	// pruned: len(headerWriteBatch) > 0 is true after an append
	ir.Instrs(fn, func(in ssa.Instruction) {
		b, ok := in.(*ssa.BinOp)
		if !ok {
			return
		}
		if call, ok := b.X.(*ssa.Call); ok && isBuiltin("len")(call) && elemIs(call.Call.Args[0].Type(), hdrNamed()) {
			if k, isC := ir.ConstInt(b.Y); isC && k == 0 && b.Op == token.GTR {
				for _, tb := range ir.TrueBranches(b) {
					cut[tb.Other()] = true
					why = append(why, "pruned: len(headerWriteBatch) > 0 cannot be false after an append ("+c.at(in)+")")
				}
			}
		}
	})
	// pruned: headerList.Back() == nil after a PushBack
	backM := c.method("headerlist", "Chain", "Back")
	for _, bk := range find(fn, onList(backM)) {
		for _, nb := range ir.NilBranches(bk.(ssa.Value)) {
			cut[nb.Edge()] = true
			why = append(why, "pruned: headerList.Back() == nil cannot hold after a PushBack ("+c.at(bk)+")")
		}
	}
	// pruned: the non-connecting branch (C01.G3: headers of one message connect to each other)
	isEqual := c.method(pChainhash, "Hash", "IsEqual")
	prevBlock := c.field(pWire, "BlockHeader", "PrevBlock")
	gc := boolIs("connects", find(fn, anyArg(callTo(isEqual), fieldAddrOf(prevBlock))), 0, true)
	for _, s := range gc.sites {
		cut[s.br.Other()] = true
		why = append(why, "pruned: after one header of the message connected the next one connects too (areHeadersConnected, C01.G3) ("+c.at(s.site)+")")
	}
	var bad []string
	ir.WalkAfter(ds[0], cut, func(in ssa.Instruction) bool {
		if isR(in) {
			return false
		}
		if isExit(in) {
			bad = append(bad, c.at(in))
			return false
		}
		if _, isPanic := in.(*ssa.Panic); isPanic {
			return false
		}
		return true
	})
	sort.Strings(bad)
	sort.Strings(why)
	c.verdict(len(bad) == 0, construct, c.at(ds[0]), "no exit reachable with the list ahead of the store", "exit(s) at "+join(bad)+" reachable after the push without committing the batch or resetting the header list: the list (validation baseline) stays ahead of the store", why...)
	// the helper really re-seeds from the store tip
	for h := range helpers {
		hf := c.P.Prog.FuncValue(h)
		if hf == nil {
			continue
		}
		okArg := true
		for _, r := range find(hf, onList(resetM)) {
			if !ir.DerivesFrom(argsOf(r)[0], valIsCallTo(c.method("headerfs", "BlockHeaderStore", "ChainTip"))) {
				okArg = false
			}
		}
		c.verdict(okArg, c.P.Name(hf)+" | header list re-seeded from BlockHeaders.ChainTip()", c.P.Pos(hf.Pos()), "reset node built from the store's tip", "a header-list reset helper does not re-seed from the store's chain tip")
	}
}
