package rules

import (
	"fmt"
	"go/types"
	"sort"

	"golang.org/x/tools/go/ssa"

	"verif/checker/internal/ir"
)

// ---- engine O: order ----

// start is a point in a function from which paths are explored.
type start struct {
	b    *ssa.BasicBlock
	idx  int
	desc string
	pred *ssa.BasicBlock // the start point is the target of the edge pred -> b (nil: unknown)
}

func afterInstr(c *Ctx, in ssa.Instruction) start {
	return start{in.Block(), ir.IndexIn(in) + 1, "after " + c.at(in), nil}
}

func atEdge(c *Ctx, e ir.Edge, what string) start {
	return start{e.From.Succs[e.Succ], 0, what, e.From}
}

func atEntry(fn *ssa.Function) start { return start{fn.Blocks[0], 0, "entry", nil} }

// isExit: a normal function exit.
func isExit(in ssa.Instruction) bool {
	_, ok := in.(*ssa.Return)
	return ok
}

// mustFollow: from every start, every path to a function exit passes an
// instruction matching b (paths ending in panic are not exits). until, when
// non-nil, also terminates a path successfully... (until is treated like b).
// Deferred calls matching b that are registered on every path before the
// start discharge the obligation too (they run at every exit).
func (c *Ctx) mustFollow(fn *ssa.Function, what string, starts []start, b Sel, bname string, cut ir.Cut, minStarts int) bool {
	return c.mustFollowOpt(fn, what, starts, b, bname, cut, minStarts, false)
}

// mustFollowIter is mustFollow scoped to one loop iteration: reaching the back
// edge of the innermost loop around the start point without having passed b
// counts like an exit.
func (c *Ctx) mustFollowIter(fn *ssa.Function, what string, starts []start, b Sel, bname string, cut ir.Cut, minStarts int) bool {
	return c.mustFollowOpt(fn, what, starts, b, bname, cut, minStarts, true)
}

func (c *Ctx) mustFollowOpt(fn *ssa.Function, what string, starts []start, b Sel, bname string, cut ir.Cut, minStarts int, iter bool) bool {
	construct := fmt.Sprintf("%s | from %s | must reach %s before exit", c.nm(fn), what, bname)
	if iter {
		construct = fmt.Sprintf("%s | from %s | must reach %s within the iteration", c.nm(fn), what, bname)
	}
	pos := c.P.Pos(fn.Pos())
	if len(starts) < minStarts {
		c.undecided(construct, pos, fmt.Sprintf("found %d start point(s) %q, the rule table requires at least %d", len(starts), what, minStarts))
		return false
	}
	var bad []string
	var sites []string
	for _, s := range starts {
		sites = append(sites, "from:"+s.desc)
		// deferred b registered before s on every path?
		if c.deferredBefore(fn, s, b) {
			continue
		}
		wcut := cut
		if iter {
			h := ir.LoopHeaderOf(s.b)
			if h == nil {
				bad = append(bad, fmt.Sprintf("%s is not inside a loop", s.desc))
				continue
			}
			// back edges end the iteration: a path arriving there without b fails
			be := ir.BackEdgesTo(h)
			wcut = ir.Union(cut, be)
			arrived := map[*ssa.BasicBlock]bool{}
			ir.WalkCtx(s.b, s.idx, s.pred, wcut, func(in ssa.Instruction) bool {
				if b(in) {
					return false
				}
				blk := in.Block()
				if in == blk.Instrs[len(blk.Instrs)-1] {
					arrived[blk] = true
				}
				return true
			})
			for e := range be {
				if cut[e] || ir.NilGuardEdges(fn)[e] {
					continue // a pruned / tabled edge that happens to be a back edge
				}
				if arrived[e.From] {
					bad = append(bad, fmt.Sprintf("next iteration (back edge from the block ending at %s) reachable from %s without %s", c.at(e.From.Instrs[len(e.From.Instrs)-1]), s.desc, bname))
				}
			}
		}
		ir.WalkCtx(s.b, s.idx, s.pred, wcut, func(in ssa.Instruction) bool {
			if b(in) {
				return false
			}
			if isExit(in) {
				if r, isRet := in.(*ssa.Return); isRet && c.refusalOK && isRefusal(r) {
					return false
				}
				bad = append(bad, fmt.Sprintf("exit at %s reachable from %s without %s", c.at(in), s.desc, bname))
				return false
			}
			if _, isPanic := in.(*ssa.Panic); isPanic {
				return false
			}
			return true
		})
	}
	c.R.CallSites += len(starts)
	sort.Strings(bad)
	if len(bad) > 0 {
		c.fail(construct, pos, join(bad), sites...)
		return false
	}
	c.pass(construct, pos, fmt.Sprintf("every path from %d start point(s) passes %s before a function exit", len(starts), bname), sites...)
	return true
}

// deferredBefore: a `defer` matching b dominates the start point.
func (c *Ctx) deferredBefore(fn *ssa.Function, s start, b Sel) bool {
	for _, blk := range fn.Blocks {
		for i, in := range blk.Instrs {
			d, ok := in.(*ssa.Defer)
			if !ok || !b(d) {
				continue
			}
			if blk == s.b && i < s.idx {
				return true
			}
			if blk != s.b && blk.Dominates(s.b) {
				return true
			}
		}
	}
	return false
}

// mustPrecede: no instruction matching b is reachable from the entry (or the
// given starts) without first passing an instruction matching a.
func (c *Ctx) mustPrecede(fn *ssa.Function, a Sel, aname string, b Sel, bname string, minB int) bool {
	construct := fmt.Sprintf("%s | %s must precede %s", c.nm(fn), aname, bname)
	pos := c.P.Pos(fn.Pos())
	bs := find(fn, b)
	as := find(fn, a)
	var sites []string
	for _, x := range as {
		sites = append(sites, "first:"+c.at(x))
	}
	for _, x := range bs {
		sites = append(sites, "then:"+c.at(x))
	}
	if len(bs) < minB {
		c.undecided(construct, pos, fmt.Sprintf("found %d site(s) of %s, the rule table requires at least %d", len(bs), bname, minB))
		return false
	}
	var bad []string
	s := atEntry(fn)
	seenBad := map[ssa.Instruction]bool{}
	ir.WalkPaths(s.b, s.idx, s.pred, c.precedeCut, func(in ssa.Instruction, incoming func(*ssa.Phi) (ssa.Value, bool)) bool {
		if a(in) {
			return false
		}
		if b(in) && !seenBad[in] {
			// a return that hands back a result variable: on the path being
			// explored the variable may hold an error that is known not to
			// be nil (the exits of an inlined helper share one return)
			if r, isRet := in.(*ssa.Return); isRet && len(r.Results) > 0 && isErrorType(r.Results[len(r.Results)-1].Type()) && errSuccess(r) {
				v := ir.RetVal(r, len(r.Results)-1)
				nonNil := false
				for d := 0; d < 4; d++ {
					ph, isPhi := v.(*ssa.Phi)
					if !isPhi {
						break
					}
					w, ok := incoming(ph)
					if !ok {
						break
					}
					// (an error handed on from the edge on which it was
					// found not to be nil)
					for i, e := range ph.Edges {
						if e == w && (nonNilEdge(w, ph.Block().Preds[i], ph.Block()) || nonNilAt(w, ph.Block().Preds[i])) {
							nonNil = true
						}
					}
					v = w
				}
				if nonNil || knownNonNilError(v) {
					return true
				}
			}
			seenBad[in] = true
			bad = append(bad, fmt.Sprintf("%s at %s reachable from entry without passing %s", bname, c.at(in), aname))
		}
		return true
	})
	c.R.CallSites += len(bs) + len(as)
	sort.Strings(bad)
	if len(bad) > 0 {
		c.fail(construct, pos, join(bad), sites...)
		return false
	}
	c.pass(construct, pos, fmt.Sprintf("%d site(s) of %s all preceded by %s on every path", len(bs), bname, aname), sites...)
	return true
}

// mustReachBefore: from every start, no instruction matching bad is reachable
// without first passing an instruction matching b.
func (c *Ctx) mustReachBefore(fn *ssa.Function, what string, starts []start, b Sel, bname string, bad Sel, badname string, minStarts int) bool {
	construct := fmt.Sprintf("%s | from %s | %s before %s", c.nm(fn), what, bname, badname)
	pos := c.P.Pos(fn.Pos())
	if len(starts) < minStarts {
		c.undecided(construct, pos, fmt.Sprintf("found %d start point(s) %q, the rule table requires at least %d", len(starts), what, minStarts))
		return false
	}
	if len(find(fn, b)) == 0 || len(find(fn, bad)) == 0 {
		c.undecided(construct, pos, fmt.Sprintf("%d site(s) of %s and %d of %s in the function: the rule table needs both", len(find(fn, b)), bname, len(find(fn, bad)), badname))
		return false
	}
	var viol, sites []string
	for _, s := range starts {
		sites = append(sites, "from:"+s.desc)
		ir.WalkCtx(s.b, s.idx, s.pred, nil, func(in ssa.Instruction) bool {
			if b(in) {
				return false
			}
			if bad(in) {
				viol = append(viol, fmt.Sprintf("%s at %s reachable from %s without %s", badname, c.at(in), s.desc, bname))
			}
			return true
		})
	}
	c.R.CallSites += len(starts)
	sort.Strings(viol)
	if len(viol) > 0 {
		c.fail(construct, pos, join(viol), sites...)
		return false
	}
	c.pass(construct, pos, fmt.Sprintf("from %d start point(s) every path passes %s before any %s", len(starts), bname, badname), sites...)
	return true
}

// neverAfter: no instruction matching b is reachable after an instruction
// matching a.
func (c *Ctx) neverAfter(fn *ssa.Function, a Sel, aname string, b Sel, bname string, minA int, cut ir.Cut) bool {
	construct := fmt.Sprintf("%s | no %s after %s", c.nm(fn), bname, aname)
	pos := c.P.Pos(fn.Pos())
	as := find(fn, a)
	if len(as) < minA {
		c.undecided(construct, pos, fmt.Sprintf("found %d site(s) of %s, need %d", len(as), aname, minA))
		return false
	}
	var bad, sites []string
	for _, x := range as {
		sites = append(sites, "after:"+c.at(x))
		ir.WalkAfter(x, cut, func(in ssa.Instruction) bool {
			if b(in) {
				bad = append(bad, fmt.Sprintf("%s at %s reachable after %s at %s", bname, c.at(in), aname, c.at(x)))
			}
			return true
		})
	}
	sort.Strings(bad)
	if len(bad) > 0 {
		c.fail(construct, pos, join(bad), sites...)
		return false
	}
	c.pass(construct, pos, fmt.Sprintf("no %s reachable after %d site(s) of %s", bname, len(as), aname), sites...)
	return true
}

// failEdges returns start points at the failure edges of a guard.
func (c *Ctx) failEdges(g guard) []start {
	var out []start
	for _, s := range g.sites {
		out = append(out, atEdge(c, s.br.Other(), "failure edge of "+g.name+" at "+c.at(s.site)))
	}
	// or-like merges: the merged value being false implies this disjunct false
	for _, s := range g.weak {
		out = append(out, atEdge(c, s.br.Other(), "failure edge of "+g.name+" (merged test) at "+c.at(s.site)))
	}
	return out
}

// successEdges returns start points at the success edges of a guard.
func (c *Ctx) successEdges(g guard) []start {
	var out []start
	for _, s := range g.sites {
		out = append(out, atEdge(c, s.br.Edge(), "success edge of "+g.name+" at "+c.at(s.site)))
	}
	return out
}

// isRefusal: the return hands back an error that is known not to be nil.
func isRefusal(r *ssa.Return) bool {
	if len(r.Results) == 0 {
		return false
	}
	last := r.Results[len(r.Results)-1]
	if !types.Identical(last.Type(), types.Universe.Lookup("error").Type()) {
		return false
	}
	return !errSuccess(r)
}
