package rules

import (
	"fmt"
	"go/token"
	"go/types"
	"sort"

	"golang.org/x/tools/go/ssa"

	"verif/checker/internal/ir"
)

func init() {
	register(&Prop{ID: "C02", Run: runC02, NotDecided: []string{
		"that findPreviousHeaderCheckpoint returns the right checkpoint (F14: off by one when the tip is exactly on a checkpoint; outside rule reach)",
		"'byte-for-byte unchanged' and 'total work never decreases' as statements about store contents",
		"that a valid heavier branch is adopted in full (node.Height / finalHeight are not set for the reorg header; runtime)",
	}})
}

// lessFalse builds the guard "left < right is false" over any comparison
// between a left-like and a right-like operand, normalising operator and
// operand order. `left <= right` is NOT the same guard and is reported as a
// mismatch.
func lessFalse(name string, fn *ssa.Function, left, right func(ssa.Value) bool) (guard, []string) {
	g := guard{name: name + " = false"}
	var odd []string
	ir.Instrs(fn, func(in ssa.Instruction) {
		b, ok := in.(*ssa.BinOp)
		if !ok {
			return
		}
		switch b.Op {
		case token.LSS, token.LEQ, token.GTR, token.GEQ, token.EQL, token.NEQ:
		default:
			return
		}
		var op token.Token
		switch {
		case left(b.X) && right(b.Y):
			op = b.Op
		case left(b.Y) && right(b.X):
			// mirror
			switch b.Op {
			case token.LSS:
				op = token.GTR
			case token.GTR:
				op = token.LSS
			case token.LEQ:
				op = token.GEQ
			case token.GEQ:
				op = token.LEQ
			default:
				op = b.Op
			}
		default:
			return
		}
		// op is now "left op right"
		var want bool
		switch op {
		case token.LSS:
			want = false // guard succeeded when left<right is false
		case token.GEQ:
			want = true
		default:
			odd = append(odd, fmt.Sprintf("comparison `left %s right`", op))
			return
		}
		g.found++
		n := 0
		for _, tb := range ir.TrueBranches(b) {
			if !want {
				tb = tb.Flip()
			}
			g.sites = append(g.sites, guardSite{tb, in})
			n++
		}
		if n == 0 {
			g.unchecked = append(g.unchecked, in)
		}
	})
	return g, odd
}

func runC02(c *Ctx) {
	bhs := func(m string) *types.Func { return c.method("headerfs", "BlockHeaderStore", m) }
	hdrNamed := func() *types.Named {
		n := c.P.Named("headerfs", "BlockHeader")
		if n == nil {
			panic(anchorErr{"type headerfs.BlockHeader"})
		}
		return n
	}
	msgHeaders := func() *types.Var { return c.field(pWire, "MsgHeaders", "Headers") }
	prevBlock := func() *types.Var { return c.field(pWire, "BlockHeader", "PrevBlock") }

	// the reorg-branch effects: rollBackToHeight(backHeight) (argument derives
	// from a FetchHeader result), the single-header WriteHeaders (not fed by
	// the batch appends) and the sync-peer switch.
	reorgEffects := func(fn *ssa.Function) (roll, write, all []ssa.Instruction) {
		rollM := c.method("neutrino", "blockManager", "rollBackToHeight")
		for _, in := range find(fn, callTo(rollM)) {
			args := argsOf(in)
			if len(args) == 1 && ir.DerivesFrom(args[0], valIsCallTo(bhs("FetchHeader"))) {
				roll = append(roll, in)
			}
		}
		for _, in := range find(fn, callTo(bhs("WriteHeaders"))) {
			args := argsOf(in)
			if len(args) == 1 && !ir.DerivesFrom(args[0], func(v ssa.Value) bool {
				x, ok := v.(ssa.Instruction)
				return ok && appendsOf(hdrNamed())(x)
			}) {
				write = append(write, in)
			}
		}
		all = append(append([]ssa.Instruction{}, roll...), write...)
		return
	}

	// FetchHeader(&blockHeader.PrevBlock) with blockHeader an element of msg.Headers
	forkPointFetch := func(fn *ssa.Function) []ssa.Instruction {
		return find(fn, anyArg(callTo(bhs("FetchHeader")), func(v ssa.Value) bool {
			fa, ok := v.(*ssa.FieldAddr)
			return ok && ir.FieldOfAddr(fa) == prevBlock() && loadsField(msgHeaders())(fa.X)
		}))
	}

	c.rule("C02.G1", "reorg branch of handleHeadersMsg: rollBackToHeight(backHeight) and the single-header WriteHeaders happen only if the fork point is known (FetchHeader(&PrevBlock)=nil), not below the previous checkpoint (backHeight < prevCheckpoint.Height is false), every branch header passed checkHeaderSanity(..,true,..), and knownWork.Cmp(totalWork) = -1 (strictly heavier)", func() {
		fn := c.fn(fnHandleHeaders)
		roll, write, all := reorgEffects(fn)
		c.verdict(len(roll) == 1 && len(write) == 1, c.nm(fn)+" | reorg effects located", c.P.Pos(fn.Pos()),
			"one rollBackToHeight(backHeight) and one single-header WriteHeaders", fmt.Sprintf("expected 1+1 reorg effects, found %d rollbacks fed by FetchHeader and %d non-batch writes", len(roll), len(write)), c.ats(all)...)
		if len(all) == 0 {
			return
		}
		// a. fork point known
		fetch := forkPointFetch(fn)
		c.guarded(fn, errNil("BlockHeaders.FetchHeader(&blockHeader.PrevBlock)", fetch, 2), 1, "reorg rollback/write", all, 2, gDominate)
		// b. checkpoint floor
		cpHeight := c.field(pChaincfg, "Checkpoint", "Height")
		findPrev := c.method("neutrino", "blockManager", "findPreviousHeaderCheckpoint")
		isBack := func(v ssa.Value) bool {
			return ir.DerivesFrom(v, func(x ssa.Value) bool {
				e, ok := x.(*ssa.Extract)
				if !ok || e.Index != 1 {
					return false
				}
				in, ok := e.Tuple.(ssa.Instruction)
				return ok && callTo(bhs("FetchHeader"))(in)
			})
		}
		isCp := func(v ssa.Value) bool {
			return loadsField(cpHeight)(v) && ir.DerivesFrom(v, valIsCallTo(findPrev))
		}
		g, odd := lessFalse("backHeight < prevCheckpoint.Height", fn, isBack, isCp)
		if len(odd) > 0 {
			c.fail(c.nm(fn)+" | checkpoint floor comparison shape", c.P.Pos(fn.Pos()), "the fork height is compared with the checkpoint height by an operator other than `<`/`>=`: "+join(odd)+" (a fork exactly at the checkpoint must stay allowed, one below must not)")
		}
		c.guarded(fn, g, 1, "reorg rollback/write", all, 2, gDominate)
		// c. every branch header sane (loop form)
		sanity := c.method("neutrino", "blockManager", "checkHeaderSanity")
		san := find(fn, withArg(callTo(sanity), 2, isConstBool(true)))
		gs := errNil("checkHeaderSanity(reorgHeader,true,..)", san, 0)
		if c.guarded(fn, gs, 1, "reorg rollback/write", all, 2, gFailEdge) {
			// the loop holding the check lies on every path to the effects
			okDom := true
			for _, s := range gs.sites {
				h := ir.LoopHeaderOf(s.br.If.Block())
				for _, e := range all {
					if h == nil || !h.Dominates(e.Block()) {
						okDom = false
					}
				}
			}
			c.verdict(okDom, c.nm(fn)+" | reorg sanity loop dominates the reorg effects", c.P.Pos(fn.Pos()),
				"loop header of the sanity loop dominates rollback and write", "the sanity loop can be bypassed on a path to the rollback/write", c.ats(san)...)
		}
		// the sanity loop covers msg.Headers[i:] — its range operand derives from msg.Headers
		for _, s := range san {
			cc := ir.CallOf(s)
			hv := cc.Args[1]
			c.verdict(loadsField(msgHeaders())(hv), c.nm(fn)+" | reorg sanity check is applied to the offered headers", c.at(s),
				"validated header is an element of msg.Headers", "validated header does not derive from msg.Headers", c.at(s))
		}
		// d. strictly more work
		cmpM := c.method("math/big", "Int", "Cmp")
		cmps := find(fn, callTo(cmpM))
		if len(cmps) != 1 {
			c.fail(c.nm(fn)+" | work comparison", c.P.Pos(fn.Pos()), fmt.Sprintf("expected exactly one big.Int.Cmp work comparison in handleHeadersMsg, found %d", len(cmps)), c.ats(cmps)...)
			return
		}
		// e. ... and nothing but work decides: once the branch is known to
		// fork at or above the checkpoint floor, every path reaches the work
		// comparison unless a header of the branch failed validation
		c.rule("C02.O1", "a valid branch from a listened-to peer is turned down on its work only: in handleHeadersMsg, from the edge on which the fork height is found at or above the checkpoint floor, every path reaches the comparison of the two work totals (knownWork.Cmp(totalWork)); the only ways out before it are the failure edges of error-returning calls (a branch header that fails checkHeaderSanity, a store that cannot be read) - a shortcut that refuses the branch on the number of headers, its length against the displaced part or any other measure treats length as work and refuses shorter, heavier branches", func() {
			cut := ir.Cut{}
			// failure edges of error results
			ir.Instrs(fn, func(in ssa.Instruction) {
				v, ok := in.(ssa.Value)
				if !ok {
					return
				}
				call, isCall := in.(*ssa.Call)
				if !isCall {
					return
				}
				res := call.Call.Signature().Results()
				for i := 0; i < res.Len(); i++ {
					if !types.Identical(res.At(i).Type(), types.Universe.Lookup("error").Type()) {
						continue
					}
					for _, r := range ir.Result(v, i) {
						for _, nb := range ir.NilBranches(r) {
							cut[nb.Other()] = true
						}
					}
				}
			})
			c.mustFollow(fn, "the fork is at or above the checkpoint floor", c.successEdges(g), func(in ssa.Instruction) bool { return in == cmps[0] }, "knownWork.Cmp(totalWork)", cut, 1)
		})
		cmp := cmps[0].(ssa.Value)
		for _, e := range all {
			set := intSetAt(cmp, []int64{-1, 0, 1}, e.Block())
			var vals []int
			for k := range set {
				vals = append(vals, int(k))
			}
			sort.Ints(vals)
			okSet := len(vals) == 1 && vals[0] == -1
			c.verdict(okSet, fmt.Sprintf("%s | knownWork.Cmp(totalWork) value set at %s", c.nm(fn), describeCall(e)), c.at(e),
				"Cmp result can only be -1 here (offered branch strictly heavier)", fmt.Sprintf("Cmp result may be %v at the reorg effect: a branch with equal or less work can be adopted", vals), c.at(cmps[0]), c.at(e))
		}
	})

	c.rule("C02.V1", "operand roles of the work comparison: the receiver accumulates CalcWork over headers of the known chain (headerList / store), the argument over the offered msg.Headers", func() {
		fn := c.fn(fnHandleHeaders)
		cmpM := c.method("math/big", "Int", "Cmp")
		addM := c.method("math/big", "Int", "Add")
		calc := c.funcObj(pBlockchain, "CalcWork")
		cmps := find(fn, callTo(cmpM))
		if len(cmps) != 1 {
			c.fail(c.nm(fn)+" | work comparison", c.P.Pos(fn.Pos()), "expected exactly one Cmp")
			return
		}
		cc := ir.CallOf(cmps[0])
		recv, arg := cc.Args[0], cc.Args[1]
		// sources of the work added into an accumulator
		srcOf := func(acc ssa.Value) (fromMsg, fromKnown, n int) {
			for _, in := range find(fn, callTo(addM)) {
				a := ir.CallOf(in).Args
				if a[0] != acc {
					continue
				}
				n++
				w := a[2]
				wc, ok := ir.Strip(w).(*ssa.Call)
				if !ok || !callTo(calc)(wc) {
					continue
				}
				// the header whose Bits are weighed
				isMsg := loadsField(msgHeaders())(wc.Call.Args[0])
				if isMsg {
					fromMsg++
				} else {
					fromKnown++
				}
			}
			return
		}
		rm, rk, rn := srcOf(recv)
		am, ak, an := srcOf(arg)
		okRoles := rn >= 1 && an >= 1 && rm == 0 && rk >= 1 && am >= 1 && ak == 0
		c.verdict(okRoles, c.nm(fn)+" | Cmp receiver=known work, argument=offered work", c.at(cmps[0]),
			"receiver sums CalcWork of known-chain headers, argument sums CalcWork of msg.Headers",
			fmt.Sprintf("operand roles do not match: receiver adds %d offered/%d known terms, argument adds %d offered/%d known terms (swapped operands invert the comparison)", rm, rk, am, ak), c.at(cmps[0]))
	})

	c.rule("C02.O2", "a valid batch that extends the tip is adopted after an abandoned one: headers left on the in-memory list by a batch that was dropped half-way are phantom work that the next, valid extension of the stored tip has to beat in a reorganisation it never asked for; "+dirtyListTypestateDoc, func() { c.dirtyListTypestate() })
	c.rule("C02.O3", "an accepted reorganisation is carried out: the rollback under it must not fail half-way on a synced client (both stores share the hash index: with the block header rolled back first, the filter store cannot look its own tip up any more and the rollback returns an error after headers were already removed); "+filterRollbackFirstDoc, func() { c.filterRollbackFirst() })
	c.rule("C02.V7", offeredWorkDoc, func() { c.offeredWorkFromFork() })

	c.rule("C02.G3", "the branch offered for a reorganisation is internally linked: the reorg path validates and weighs every remaining header of the message but never compares PrevBlock itself; it relies on this pre-check: "+headersLinkedDoc, func() { c.headersLinked() })

	c.rule("C02.V3", knownWorkDoc, func() { c.knownWorkLoop() })

	c.rule("C02.V2", checkpointFloorDoc, func() { c.checkpointFloor() })
	c.rule("C02.G6", "no reorganisation below the last checkpoint reached: "+prevCheckpointFromFirstDoc, func() { c.prevCheckpointFromFirst() })

	c.rule("C02.V4", branchOwnAncestorsDoc, func() { c.branchOwnAncestors() })

	c.rule("C02.V5", "a rollback starts at the store's tip: the block stamp rollBackToHeight begins its loop with (the height it compares with the target and the hash whose header it fetches) is built from BlockHeaders.ChainTip(), and the filter-header height it compares with from RegFilterHeaders.ChainTip() (the in-memory headerTip / headerTipHash are hints for the filter-header sync: after a headers message that added nothing they are zero / a non-tip hash, and a rollback started from them removes nothing while the new branch is appended behind the old one)", func() {
		fn := c.fn(fnRollBack)
		tip := bhs("ChainTip")
		ftip := c.method("headerfs", "FilterHeaderStore", "ChainTip")
		stampT := c.P.Named("headerfs", "BlockStamp")
		hF := c.field("headerfs", "BlockStamp", "Height")
		hashF := c.field("headerfs", "BlockStamp", "Hash")
		fromTip := func(v ssa.Value) bool { return ir.InfluencedBy(v, valIsCallTo(tip)) }
		n, okv := 0, true
		var sites []string
		ir.Instrs(fn, func(in ssa.Instruction) {
			al, ok := in.(*ssa.Alloc)
			if !ok || stampT == nil || !types.Identical(al.Type().Underlying().(*types.Pointer).Elem(), stampT) || ir.LoopHeaderOf(al.Block()) != nil {
				return
			}
			n++
			sites = append(sites, c.at(in))
			seenH, seenHash := false, false
			ir.Instrs(fn, func(x ssa.Instruction) {
				st, ok := x.(*ssa.Store)
				if !ok {
					return
				}
				fa, ok := st.Addr.(*ssa.FieldAddr)
				if !ok || fa.X != ssa.Value(al) {
					return
				}
				switch ir.FieldOfAddr(fa) {
				case hF:
					seenH = true
					if !fromTip(st.Val) {
						okv = false
					}
				case hashF:
					seenHash = true
					if !fromTip(st.Val) {
						okv = false
					}
				}
			})
			if !seenH || !seenHash {
				okv = false
			}
		})
		c.verdict(okv && n >= 1, c.nm(fn)+" | the rollback's starting stamp is the store's chain tip", c.P.Pos(fn.Pos()), "BlockStamp{Height, Hash} built from BlockHeaders.ChainTip()", "the block stamp rollBackToHeight starts from is not built (height and hash) from BlockHeaders.ChainTip(): a stale in-memory tip makes the rollback remove the wrong headers or none", sites...)
		mem := 0
		for _, f := range []string{"headerTip", "headerTipHash"} {
			mem += len(accessesOf(fn, c.field("neutrino", "blockManager", f), nil))
		}
		c.verdict(mem == 0, c.nm(fn)+" | does not consult the in-memory header tip", c.P.Pos(fn.Pos()), "no access to headerTip / headerTipHash", fmt.Sprintf("rollBackToHeight reads or writes the in-memory headerTip / headerTipHash (%d access(es)): they are not a reliable image of the store's tip", mem))
		c.verdict(len(find(fn, callTo(ftip))) >= 1, c.nm(fn)+" | filter-header height read from RegFilterHeaders.ChainTip()", c.P.Pos(fn.Pos()), "RegFilterHeaders.ChainTip()", "rollBackToHeight no longer reads the filter-header store's tip")
	})

	c.rule("C02.V6", "the headers a reorganisation displaces are gone for good: a hash whose index entry survives the rollback resolves again once the new branch has grown past its height - to the new branch's header at that height - and headers building on the displaced header are then weighed as a fork of the accepted chain: "+rolledBackEntriesRemovedDoc, func() { c.rolledBackEntriesRemoved() })

	c.rule("C02.G4", "every header of an adopted branch carries its proof of work: the forking header is written straight after the rollback and never goes through the regular path, so the scratch validation of the branch is its only check: "+headerSanityValidatorDoc, func() { c.headerSanityValidator() })

	c.rule("C02.W2", "an offered branch is validated on its own: "+lightCtxNodeDoc, func() { c.lightCtxNode() })

	c.rule("C02.W1", "rollBackToHeight is called only from handleHeadersMsg", func() {
		rollM := c.method("neutrino", "blockManager", "rollBackToHeight")
		c.whoMay("blockManager.rollBackToHeight", callTo(rollM), []string{fnHandleHeaders}, 2)
	})

	c.rule("C02.G5", rollbackReachesTargetDoc, func() { c.rollbackReachesTarget() })
	c.rule("C02.G2", "non-connecting headers are considered only from the sync peer or once block headers are synced: the reorg branch (store lookups, rollback, write) is unreachable otherwise", func() {
		fn := c.fn(fnHandleHeaders)
		syncPeer := c.method("neutrino", "blockManager", "SyncPeer")
		synced := c.method("neutrino", "blockManager", "BlockHeadersSynced")
		peerField := c.field("neutrino", "headersMsg", "peer")
		cmps := find(fn, binops(eqOps, loadsField(peerField), valIsCallTo(syncPeer)))
		gA := equalIs("hmsg.peer vs SyncPeer()", cmps, true)
		// BlockHeadersSynced() calls that sit behind the peer comparison
		var syncedCalls []ssa.Instruction
		for _, in := range find(fn, callTo(synced)) {
			for _, s := range gA.sites {
				if s.br.If.Block().Dominates(in.Block()) {
					syncedCalls = append(syncedCalls, in)
					break
				}
			}
		}
		gB := boolIs("BlockHeadersSynced()", syncedCalls, 0, true)
		g := guard{name: "hmsg.peer == SyncPeer() || BlockHeadersSynced()", sites: append(append([]guardSite{}, gA.sites...), gB.sites...),
			unchecked: append(append([]ssa.Instruction{}, gA.unchecked...), gB.unchecked...)}
		_, _, all := reorgEffects(fn)
		all = append(all, forkPointFetch(fn)...)
		c.guarded(fn, g, 2, "fork-point lookup / reorg rollback / write", all, 3, gDominate)
	})
}

func describeCall(in ssa.Instruction) string {
	cc := ir.CallOf(in)
	if cc == nil {
		return in.String()
	}
	cal := ir.Resolve(cc)
	if cal.Func != nil {
		return cal.Func.Name()
	}
	if cal.Field != nil {
		return cal.Field.Name()
	}
	return "call"
}

const knownWorkDoc = "the known chain's work is summed over every height between the tip and the fork point: the loop that accumulates the Cmp receiver runs a height counter from the list tail's height down to the fork height, leaves only on that counter's comparison with the fork height (never because the in-memory list ran out), and adds one CalcWork term on every iteration"

// knownWorkLoop: see knownWorkDoc.
func (c *Ctx) knownWorkLoop() {
	fn := c.fn(fnHandleHeaders)
	cmpM := c.method("math/big", "Int", "Cmp")
	addM := c.method("math/big", "Int", "Add")
	fetch := c.method("headerfs", "BlockHeaderStore", "FetchHeader")
	back := c.method("headerlist", "Chain", "Back")
	cmps := find(fn, callTo(cmpM))
	if len(cmps) != 1 {
		c.fail(c.nm(fn)+" | known-work loop", c.P.Pos(fn.Pos()), "expected exactly one Cmp")
		return
	}
	recv := ir.CallOf(cmps[0]).Args[0]
	var adds []ssa.Instruction
	for _, in := range find(fn, callTo(addM)) {
		if ir.CallOf(in).Args[0] == recv {
			adds = append(adds, in)
		}
	}
	construct := c.nm(fn) + " | known-work loop covers tip..fork"
	if len(adds) != 1 || ir.LoopHeaderOf(adds[0].Block()) == nil {
		c.fail(construct, c.P.Pos(fn.Pos()), fmt.Sprintf("%d accumulation site(s) of the known work inside a loop, 1 tabled", len(adds)))
		return
	}
	h := ir.LoopHeaderOf(adds[0].Block())
	// fork height: result #1 of a FetchHeader call (the one for PrevBlock)
	isFork := func(v ssa.Value) bool {
		return ir.DerivesFrom(v, func(x ssa.Value) bool {
			e, ok := x.(*ssa.Extract)
			return ok && e.Index == 1 && valIsCallTo(fetch)(e.Tuple)
		})
	}
	// linear form a*T + b*F + k over T = height of headerList.Back() and F =
	// fork height (result #1 of FetchHeader)
	type lin struct {
		t, f, k int64
		ok      bool
	}
	nodeHeight := c.field("headerlist", "Node", "Height")
	var linOf func(v ssa.Value, depth int) lin
	linOf = func(v ssa.Value, depth int) lin {
		if depth > 8 {
			return lin{}
		}
		if k, isC := ir.ConstInt(v); isC {
			return lin{0, 0, k, true}
		}
		switch x := v.(type) {
		case *ssa.Convert:
			return linOf(x.X, depth+1)
		case *ssa.ChangeType:
			return linOf(x.X, depth+1)
		case *ssa.BinOp:
			l, r := linOf(x.X, depth+1), linOf(x.Y, depth+1)
			if !l.ok || !r.ok {
				return lin{}
			}
			switch x.Op {
			case token.ADD:
				return lin{l.t + r.t, l.f + r.f, l.k + r.k, true}
			case token.SUB:
				return lin{l.t - r.t, l.f - r.f, l.k - r.k, true}
			}
			return lin{}
		case *ssa.Extract:
			if x.Index == 1 && valIsCallTo(fetch)(x.Tuple) {
				return lin{0, 1, 0, true}
			}
		case *ssa.UnOp:
			if fa, ok := x.X.(*ssa.FieldAddr); ok && x.Op == token.MUL && ir.FieldOfAddr(fa) == nodeHeight && ir.DerivesFrom(fa.X, valIsCallTo(back)) {
				return lin{1, 0, 0, true}
			}
		}
		return lin{}
	}
	_ = isFork
	inLoop := ir.LoopBlocks(h)
	var bad []string
	exits := ir.LoopExits(h)
	for _, e := range exits {
		last := e.From.Instrs[len(e.From.Instrs)-1]
		iff, ok := last.(*ssa.If)
		if !ok {
			bad = append(bad, "loop left at "+c.at(last)+" by something other than a condition")
			continue
		}
		stop := "the summation can stop at " + c.at(iff) + " on a condition other than the height counter reaching its bound (e.g. the in-memory header list being exhausted): headers of the known chain below that point are not counted"
		bo, ok := iff.Cond.(*ssa.BinOp)
		if !ok {
			bad = append(bad, stop)
			continue
		}
		// counter: a phi of the loop header stepping by one
		var phi *ssa.Phi
		var bound ssa.Value
		op := bo.Op
		mirror := map[token.Token]token.Token{token.LSS: token.GTR, token.GTR: token.LSS, token.LEQ: token.GEQ, token.GEQ: token.LEQ}
		neg := map[token.Token]token.Token{token.LSS: token.GEQ, token.GEQ: token.LSS, token.GTR: token.LEQ, token.LEQ: token.GTR}
		if _, rel := mirror[op]; !rel {
			bad = append(bad, stop)
			continue
		}
		if p, ok := ir.Strip(bo.X).(*ssa.Phi); ok && p.Block() == h {
			phi, bound = p, bo.Y
		} else if p, ok := ir.Strip(bo.Y).(*ssa.Phi); ok && p.Block() == h {
			phi, bound, op = p, bo.X, mirror[op]
		} else {
			bad = append(bad, stop)
			continue
		}
		// e is the exit edge: the loop continues on the other one
		if e.Succ == 0 {
			op = neg[op] // exit on true: continuation is the negation
		}
		var init lin
		step := int64(0)
		okPhi := true
		for i, ev := range phi.Edges {
			if !inLoop[h.Preds[i]] {
				init = linOf(ev, 0)
				continue
			}
			sb, ok := ev.(*ssa.BinOp)
			k, isC := int64(0), false
			if ok && sb.X == ssa.Value(phi) {
				k, isC = ir.ConstInt(sb.Y)
			}
			if !ok || !isC || k != 1 || (sb.Op != token.ADD && sb.Op != token.SUB) {
				okPhi = false
				continue
			}
			st := int64(1)
			if sb.Op == token.SUB {
				st = -1
			}
			if step != 0 && step != st {
				okPhi = false
			}
			step = st
		}
		bl := linOf(bound, 0)
		if !okPhi || !init.ok || !bl.ok || step == 0 {
			bad = append(bad, "the loop at "+c.at(iff)+" is not a unit-step height counter between the list tail's height and the fork height")
			continue
		}
		// trip count as a linear form
		var trip lin
		switch {
		case step == -1 && op == token.GTR:
			trip = lin{init.t - bl.t, init.f - bl.f, init.k - bl.k, true}
		case step == -1 && op == token.GEQ:
			trip = lin{init.t - bl.t, init.f - bl.f, init.k - bl.k + 1, true}
		case step == 1 && op == token.LSS:
			trip = lin{bl.t - init.t, bl.f - init.f, bl.k - init.k, true}
		case step == 1 && op == token.LEQ:
			trip = lin{bl.t - init.t, bl.f - init.f, bl.k - init.k + 1, true}
		default:
			bad = append(bad, "the counter at "+c.at(iff)+" steps away from its bound")
			continue
		}
		if trip.t != 1 || trip.f != -1 || trip.k != 0 {
			bad = append(bad, fmt.Sprintf("the loop at %s runs %d*tip %+d*fork %+d times instead of tip-fork: the known chain's work is summed over the wrong number of headers", c.at(iff), trip.t, trip.f, trip.k))
		}
	}
	sort.Strings(bad)
	c.verdict(len(bad) == 0 && len(exits) >= 1, construct, c.at(adds[0]), fmt.Sprintf("%d loop exit(s), each on a unit-step counter whose trip count is tipHeight - forkHeight", len(exits)), join(bad), c.at(adds[0]))
	// one term per iteration
	var starts []start
	for i, sc := range h.Succs {
		if inLoop[sc] {
			starts = append(starts, atEdge(c, ir.Edge{From: h, Succ: i}, "iteration of the known-work loop"))
		}
	}
	isAdd := func(in ssa.Instruction) bool { return in == adds[0] }
	c.mustFollowIter(fn, "each height between tip and fork", starts, isAdd, "knownWork.Add(knownWork, CalcWork(header.Bits))", nil, 1)
}

const checkpointFloorDoc = "the checkpoint floor of a reorganisation is the last checkpoint at or below the tip: findPreviousHeaderCheckpoint (strictly-below semantics, C01.G6) is asked with prevNode.Height + 1, prevNode being the tail of headerList"

// checkpointFloor: see checkpointFloorDoc (shared by C02.V2 and C01.V5).
func (c *Ctx) checkpointFloor() {
	fn := c.fn(fnHandleHeaders)
	findPrev := c.method("neutrino", "blockManager", "findPreviousHeaderCheckpoint")
	back := c.method("headerlist", "Chain", "Back")
	nodeHeight := c.field("headerlist", "Node", "Height")
	cpHeight := c.field(pChaincfg, "Checkpoint", "Height")
	n := 0
	for _, in := range find(fn, callTo(findPrev)) {
		// only the call whose result feeds the floor comparison
		v := in.(ssa.Value)
		feeds := false
		ir.Instrs(fn, func(x ssa.Instruction) {
			b, ok := x.(*ssa.BinOp)
			if !ok || (b.Op != token.LSS && b.Op != token.GEQ && b.Op != token.GTR && b.Op != token.LEQ) {
				return
			}
			for _, op := range []ssa.Value{b.X, b.Y} {
				if loadsField(cpHeight)(op) && ir.DerivesFrom(op, func(y ssa.Value) bool { return y == v }) {
					feeds = true
				}
			}
		})
		if !feeds {
			continue
		}
		n++
		a := argsOf(in)[0]
		isTipHeight := func(v ssa.Value) bool {
			ld, ok := ir.Strip(v).(*ssa.UnOp)
			if !ok || ld.Op != token.MUL {
				return false
			}
			fa, ok := ld.X.(*ssa.FieldAddr)
			return ok && ir.FieldOfAddr(fa) == nodeHeight && ir.DerivesFrom(fa.X, valIsCallTo(back))
		}
		// findPreviousHeaderCheckpoint(h) is the last checkpoint strictly
		// below h (C01.G6): the floor "last checkpoint at or below the tip"
		// is therefore asked for with tip height + 1
		coef, _, k, okLin := linTerms(a, nil, isTipHeight)
		okv := okLin && coef[0] == 1 && k == 1
		c.verdict(okv, c.nm(fn)+" | floor = findPreviousHeaderCheckpoint(headerList.Back().Height + 1)", c.at(in),
			"argument is the height of headerList.Back() plus one", fmt.Sprintf("argument of findPreviousHeaderCheckpoint is not (height of the current tail of headerList) + 1 (tail height x%d, constant %+d, other terms: %v): with the tail height itself a tip sitting exactly on a checkpoint does not protect that checkpoint (the helper is strict); with any other value the floor is not the last checkpoint the accepted chain has reached", coef[0], k, !okLin), c.at(in))
	}
	if n == 0 {
		c.fail(c.nm(fn)+" | floor = findPreviousHeaderCheckpoint(headerList.Back().Height + 1)", c.P.Pos(fn.Pos()), "no findPreviousHeaderCheckpoint result feeds a comparison with the fork height")
	}
}

const branchOwnAncestorsDoc = "the offered branch is validated against its own ancestors: in the loop over the branch headers (msg.Headers[i:]) the header handed to checkHeaderSanity(..,true,..) is the element at the loop position, the parent height is (fork height) + position, the fork height being the one FetchHeader returned for the fork point, and the node pushed on reorgList carries (fork height) + 1 + position (the retarget and median-time rules look ancestors up by these heights)"

// branchOwnAncestors: see branchOwnAncestorsDoc.
func (c *Ctx) branchOwnAncestors() {
	bhs := func(m string) *types.Func { return c.method("headerfs", "BlockHeaderStore", m) }
	msgHeaders := func() *types.Var { return c.field(pWire, "MsgHeaders", "Headers") }
	fn := c.fn(fnHandleHeaders)
	sanity := c.method("neutrino", "blockManager", "checkHeaderSanity")
	san := find(fn, withArg(callTo(sanity), 2, isConstBool(true)))
	if len(san) == 0 {
		c.fail(c.nm(fn)+" | reorg sanity call", c.P.Pos(fn.Pos()), "no checkHeaderSanity(.., true, ..) call found")
		return
	}
	isBack := func(v ssa.Value) bool {
		e, ok := ir.Strip(v).(*ssa.Extract)
		if !ok || e.Index != 1 {
			return false
		}
		in, ok := e.Tuple.(ssa.Instruction)
		return ok && callTo(bhs("FetchHeader"))(in)
	}
	nodeHeight := c.field("headerlist", "Node", "Height")
	for _, s := range san {
		h := ir.LoopHeaderOf(s.Block())
		construct := c.nm(fn) + " | parent height of a branch header = fork height + position"
		if h == nil {
			c.fail(construct, c.at(s), "the reorg sanity check is not inside a loop over the branch")
			continue
		}
		lf := loopFormOf(h)
		if lf.problem != "" {
			c.fail(construct, c.at(s), lf.problem)
			continue
		}
		cc := ir.CallOf(s)
		// validated header: element at the loop position of a sub-slice of msg.Headers
		elemOK := ir.DerivesFrom(cc.Args[1], func(x ssa.Value) bool {
			ia, ok := x.(*ssa.IndexAddr)
			if !ok {
				return false
			}
			off, isCtr := counterOffset(lf, ia.Index)
			return isCtr && off == 0 && loadsField(msgHeaders())(ia.X)
		})
		c.verdict(elemOK, c.nm(fn)+" | validated branch header is the element at the loop position", c.at(s), "msg.Headers[i:][position]", "the header handed to checkHeaderSanity is not the element at the loop position of msg.Headers[i:]", c.at(s))
		coef, ctr, k, ok := linTerms(cc.Args[3], lf, isBack)
		okH := ok && coef[0] == 1 && ctr == 1 && k == 0
		c.verdict(okH, construct, c.at(s), "backHeight + position", fmt.Sprintf("the parent height handed to checkHeaderSanity is not (fork height) + (position in the branch) (decomposed: fork height x%d, position x%d, constant %+d, other terms: %v): the contextual checks (retarget, median time past) would look at the wrong ancestors whenever the message starts with headers the client already has", coef[0], ctr, k, !ok), c.at(s))
		// the node pushed for this header
		in := ir.LoopBlocks(h)
		nPush := 0
		ir.Instrs(fn, func(x ssa.Instruction) {
			st, isSt := x.(*ssa.Store)
			if !isSt || !in[st.Block()] {
				return
			}
			fa, isFa := st.Addr.(*ssa.FieldAddr)
			if !isFa || ir.FieldOfAddr(fa) != nodeHeight {
				return
			}
			nPush++
			coef, ctr, k, ok := linTerms(st.Val, lf, isBack)
			c.verdict(ok && coef[0] == 1 && ctr == 1 && k == 1, c.nm(fn)+" | height of the node pushed on reorgList = fork height + 1 + position", c.at(x), "backHeight + 1 + position", fmt.Sprintf("the height recorded for a branch header on reorgList is not (fork height) + 1 + position (fork height x%d, position x%d, constant %+d, other terms: %v)", coef[0], ctr, k, !ok), c.at(x))
		})
		if nPush == 0 {
			c.fail(c.nm(fn)+" | height of the node pushed on reorgList = fork height + 1 + position", c.at(s), "no headerlist.Node with a Height is built inside the branch loop")
		}
	}
}

const rollbackReachesTargetDoc = "a rollback that reports success has reached its target: rollBackToHeight returns nil only on the edge where the tip of the block header store was found at or below the requested height (the exit of the loop test, in whatever spelling); the reorganisation path writes the first header of the new branch at backHeight+1 straight after a nil return, so a rollback given up half-way (at a shutdown poll, say) and reported as done puts the new branch on top of left-over headers of the old one, and the store that is reopened afterwards is no chain"

// rollbackReachesTarget: see rollbackReachesTargetDoc.
func (c *Ctx) rollbackReachesTarget() {
	fn := c.fn("(*neutrino.blockManager).rollBackToHeight")
	tipH := c.field("headerfs", "BlockStamp", "Height")
	isTip := func(v ssa.Value) bool { return loadsField(tipH)(v) }
	isH := func(v ssa.Value) bool {
		return ir.DerivesFrom(v, func(x ssa.Value) bool { return x == ssa.Value(fn.Params[1]) })
	}
	g, odd := relGuard("store tip height <= target height", fn, isTip, isH, token.LEQ)
	if len(odd) > 0 {
		c.fail(c.nm(fn)+" | comparison shape", c.P.Pos(fn.Pos()), "the tip is compared with the target height by "+join(odd)+": success must mean the tip is at or below the target")
		return
	}
	c.nilReturnsGuarded(fn, g, 1)
}

const offeredWorkDoc = "the work of the offered branch is the work of the headers from the fork point on: every term added to the argument of the work comparison is CalcWork of an element of the very sub-slice of msg.Headers (msg.Headers[i:], i the position of the first header that does not connect to the tip) that the branch validation loop runs over; summed over the whole message, headers the client already has are weighed on the offered side only (the known chain is weighed from the fork point up), and a lighter fork padded with known headers - what an honest node sends when the fork point is not among the locator hashes - displaces the heavier chain"

// offeredWorkFromFork: see offeredWorkDoc.
func (c *Ctx) offeredWorkFromFork() {
	fn := c.fn(fnHandleHeaders)
	msgHeaders := c.field(pWire, "MsgHeaders", "Headers")
	cmpM := c.method("math/big", "Int", "Cmp")
	addM := c.method("math/big", "Int", "Add")
	calc := c.funcObj(pBlockchain, "CalcWork")
	sanity := c.method("neutrino", "blockManager", "checkHeaderSanity")
	cmps := find(fn, callTo(cmpM))
	construct := c.nm(fn) + " | offered work is summed over msg.Headers[i:]"
	if len(cmps) != 1 {
		c.fail(construct, c.P.Pos(fn.Pos()), "expected exactly one Cmp")
		return
	}
	arg := ir.CallOf(cmps[0]).Args[1]
	// the sub-slice an element is taken from
	sliceOf := func(v ssa.Value) ssa.Value {
		var s ssa.Value
		ir.DerivesFrom(v, func(x ssa.Value) bool {
			if ia, ok := x.(*ssa.IndexAddr); ok && s == nil {
				s = ir.Strip(ia.X)
				return true
			}
			return false
		})
		return s
	}
	fromFork := func(s ssa.Value) (low ssa.Value, ok bool) {
		sl, isSl := s.(*ssa.Slice)
		if !isSl || sl.Low == nil || sl.High != nil || !loadsField(msgHeaders)(sl.X) {
			return nil, false
		}
		return ir.Strip(sl.Low), true
	}
	// the validation loop's sub-slice
	var forkLow ssa.Value
	for _, sn := range find(fn, withArg(callTo(sanity), 2, isConstBool(true))) {
		if low, ok := fromFork(sliceOf(ir.CallOf(sn).Args[1])); ok {
			forkLow = low
		}
	}
	if forkLow == nil {
		c.fail(construct, c.P.Pos(fn.Pos()), "the branch validation loop (checkHeaderSanity(.., true, ..)) does not run over a sub-slice msg.Headers[i:]")
		return
	}
	var bad []string
	var sites []ssa.Instruction
	for _, in := range find(fn, callTo(addM)) {
		a := ir.CallOf(in).Args
		if a[0] != arg {
			continue
		}
		sites = append(sites, in)
		wc, ok := ir.Strip(a[2]).(*ssa.Call)
		if !ok || !callTo(calc)(wc) {
			bad = append(bad, "the term added at "+c.at(in)+" is not a CalcWork value")
			continue
		}
		low, ok := fromFork(sliceOf(wc.Call.Args[0]))
		switch {
		case !ok:
			bad = append(bad, "the header weighed at "+c.at(in)+" is not an element of a sub-slice msg.Headers[i:]")
		case low != forkLow:
			bad = append(bad, "the header weighed at "+c.at(in)+" is taken from another sub-slice of msg.Headers than the validated branch")
		}
	}
	sort.Strings(bad)
	c.verdict(len(bad) == 0 && len(sites) >= 1, construct, c.at(cmps[0]), fmt.Sprintf("%d term(s), each CalcWork of an element of the validated sub-slice", len(sites)), join(bad)+" (or no term is added to the offered work)", c.ats(sites)...)
}
