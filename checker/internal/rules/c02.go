package rules

import (
	"fmt"
	"go/token"
	"go/types"
	"sort"

	"golang.org/x/tools/go/ssa"

	"verif/checker/internal/ir"
)

func init() {
	register(&Prop{ID: "C02", Run: runC02, NotDecided: []string{
		"that findPreviousHeaderCheckpoint returns the right checkpoint (F14: off by one when the tip is exactly on a checkpoint; outside rule reach)",
		"'byte-for-byte unchanged' and 'total work never decreases' as statements about store contents",
		"that a valid heavier branch is adopted in full (node.Height / finalHeight are not set for the reorg header; runtime)",
	}})
}

// lessFalse builds the guard "left < right is false" over any comparison
// between a left-like and a right-like operand, normalising operator and
// operand order. `left <= right` is NOT the same guard and is reported as a
// mismatch.
func lessFalse(name string, fn *ssa.Function, left, right func(ssa.Value) bool) (guard, []string) {
	g := guard{name: name + " = false"}
	var odd []string
	ir.Instrs(fn, func(in ssa.Instruction) {
		b, ok := in.(*ssa.BinOp)
		if !ok {
			return
		}
		switch b.Op {
		case token.LSS, token.LEQ, token.GTR, token.GEQ, token.EQL, token.NEQ:
		default:
			return
		}
		var op token.Token
		switch {
		case left(b.X) && right(b.Y):
			op = b.Op
		case left(b.Y) && right(b.X):
			// mirror
			switch b.Op {
			case token.LSS:
				op = token.GTR
			case token.GTR:
				op = token.LSS
			case token.LEQ:
				op = token.GEQ
			case token.GEQ:
				op = token.LEQ
			default:
				op = b.Op
			}
		default:
			return
		}
		// op is now "left op right"
		var want bool
		switch op {
		case token.LSS:
			want = false // guard succeeded when left<right is false
		case token.GEQ:
			want = true
		default:
			odd = append(odd, fmt.Sprintf("comparison `left %s right`", op))
			return
		}
		g.found++
		n := 0
		for _, tb := range ir.TrueBranches(b) {
			if !want {
				tb = tb.Flip()
			}
			g.sites = append(g.sites, guardSite{tb, in})
			n++
		}
		if n == 0 {
			g.unchecked = append(g.unchecked, in)
		}
	})
	return g, odd
}

func runC02(c *Ctx) {
	bhs := func(m string) *types.Func { return c.method("headerfs", "BlockHeaderStore", m) }
	hdrNamed := func() *types.Named {
		n := c.P.Named("headerfs", "BlockHeader")
		if n == nil {
			panic(anchorErr{"type headerfs.BlockHeader"})
		}
		return n
	}
	msgHeaders := func() *types.Var { return c.field(pWire, "MsgHeaders", "Headers") }
	prevBlock := func() *types.Var { return c.field(pWire, "BlockHeader", "PrevBlock") }

	// the reorg-branch effects: rollBackToHeight(backHeight) (argument derives
	// from a FetchHeader result), the single-header WriteHeaders (not fed by
	// the batch appends) and the sync-peer switch.
	reorgEffects := func(fn *ssa.Function) (roll, write, all []ssa.Instruction) {
		rollM := c.method("neutrino", "blockManager", "rollBackToHeight")
		for _, in := range find(fn, callTo(rollM)) {
			args := argsOf(in)
			if len(args) == 1 && ir.DerivesFrom(args[0], valIsCallTo(bhs("FetchHeader"))) {
				roll = append(roll, in)
			}
		}
		for _, in := range find(fn, callTo(bhs("WriteHeaders"))) {
			args := argsOf(in)
			if len(args) == 1 && !ir.DerivesFrom(args[0], func(v ssa.Value) bool {
				x, ok := v.(ssa.Instruction)
				return ok && appendsOf(hdrNamed())(x)
			}) {
				write = append(write, in)
			}
		}
		all = append(append([]ssa.Instruction{}, roll...), write...)
		return
	}

	// FetchHeader(&blockHeader.PrevBlock) with blockHeader an element of msg.Headers
	forkPointFetch := func(fn *ssa.Function) []ssa.Instruction {
		return find(fn, anyArg(callTo(bhs("FetchHeader")), func(v ssa.Value) bool {
			fa, ok := v.(*ssa.FieldAddr)
			return ok && ir.FieldOfAddr(fa) == prevBlock() && loadsField(msgHeaders())(fa.X)
		}))
	}

	c.rule("C02.G1", "reorg branch of handleHeadersMsg: rollBackToHeight(backHeight) and the single-header WriteHeaders happen only if the fork point is known (FetchHeader(&PrevBlock)=nil), not below the previous checkpoint (backHeight < prevCheckpoint.Height is false), every branch header passed checkHeaderSanity(..,true,..), and knownWork.Cmp(totalWork) = -1 (strictly heavier)", func() {
		fn := c.fn(fnHandleHeaders)
		roll, write, all := reorgEffects(fn)
		c.verdict(len(roll) == 1 && len(write) == 1, c.nm(fn)+" | reorg effects located", c.P.Pos(fn.Pos()),
			"one rollBackToHeight(backHeight) and one single-header WriteHeaders", fmt.Sprintf("expected 1+1 reorg effects, found %d rollbacks fed by FetchHeader and %d non-batch writes", len(roll), len(write)), c.ats(all)...)
		if len(all) == 0 {
			return
		}
		// a. fork point known
		fetch := forkPointFetch(fn)
		c.guarded(fn, errNil("BlockHeaders.FetchHeader(&blockHeader.PrevBlock)", fetch, 2), 1, "reorg rollback/write", all, 2, gDominate)
		// b. checkpoint floor
		cpHeight := c.field(pChaincfg, "Checkpoint", "Height")
		findPrev := c.method("neutrino", "blockManager", "findPreviousHeaderCheckpoint")
		isBack := func(v ssa.Value) bool {
			return ir.DerivesFrom(v, func(x ssa.Value) bool {
				e, ok := x.(*ssa.Extract)
				if !ok || e.Index != 1 {
					return false
				}
				in, ok := e.Tuple.(ssa.Instruction)
				return ok && callTo(bhs("FetchHeader"))(in)
			})
		}
		isCp := func(v ssa.Value) bool {
			return loadsField(cpHeight)(v) && ir.DerivesFrom(v, valIsCallTo(findPrev))
		}
		g, odd := lessFalse("backHeight < prevCheckpoint.Height", fn, isBack, isCp)
		if len(odd) > 0 {
			c.fail(c.nm(fn)+" | checkpoint floor comparison shape", c.P.Pos(fn.Pos()), "the fork height is compared with the checkpoint height by an operator other than `<`/`>=`: "+join(odd)+" (a fork exactly at the checkpoint must stay allowed, one below must not)")
		}
		c.guarded(fn, g, 1, "reorg rollback/write", all, 2, gDominate)
		// c. every branch header sane (loop form)
		sanity := c.method("neutrino", "blockManager", "checkHeaderSanity")
		san := find(fn, withArg(callTo(sanity), 2, isConstBool(true)))
		gs := errNil("checkHeaderSanity(reorgHeader,true,..)", san, 0)
		if c.guarded(fn, gs, 1, "reorg rollback/write", all, 2, gFailEdge) {
			// the loop holding the check lies on every path to the effects
			okDom := true
			for _, s := range gs.sites {
				h := ir.LoopHeaderOf(s.br.If.Block())
				for _, e := range all {
					if h == nil || !h.Dominates(e.Block()) {
						okDom = false
					}
				}
			}
			c.verdict(okDom, c.nm(fn)+" | reorg sanity loop dominates the reorg effects", c.P.Pos(fn.Pos()),
				"loop header of the sanity loop dominates rollback and write", "the sanity loop can be bypassed on a path to the rollback/write", c.ats(san)...)
		}
		// the sanity loop covers msg.Headers[i:] — its range operand derives from msg.Headers
		for _, s := range san {
			cc := ir.CallOf(s)
			hv := cc.Args[1]
			c.verdict(loadsField(msgHeaders())(hv), c.nm(fn)+" | reorg sanity check is applied to the offered headers", c.at(s),
				"validated header is an element of msg.Headers", "validated header does not derive from msg.Headers", c.at(s))
		}
		// d. strictly more work
		cmpM := c.method("math/big", "Int", "Cmp")
		cmps := find(fn, callTo(cmpM))
		if len(cmps) != 1 {
			c.fail(c.nm(fn)+" | work comparison", c.P.Pos(fn.Pos()), fmt.Sprintf("expected exactly one big.Int.Cmp work comparison in handleHeadersMsg, found %d", len(cmps)), c.ats(cmps)...)
			return
		}
		cmp := cmps[0].(ssa.Value)
		for _, e := range all {
			set := intSetAt(cmp, []int64{-1, 0, 1}, e.Block())
			var vals []int
			for k := range set {
				vals = append(vals, int(k))
			}
			sort.Ints(vals)
			okSet := len(vals) == 1 && vals[0] == -1
			c.verdict(okSet, fmt.Sprintf("%s | knownWork.Cmp(totalWork) value set at %s", c.nm(fn), describeCall(e)), c.at(e),
				"Cmp result can only be -1 here (offered branch strictly heavier)", fmt.Sprintf("Cmp result may be %v at the reorg effect: a branch with equal or less work can be adopted", vals), c.at(cmps[0]), c.at(e))
		}
	})

	c.rule("C02.V1", "operand roles of the work comparison: the receiver accumulates CalcWork over headers of the known chain (headerList / store), the argument over the offered msg.Headers", func() {
		fn := c.fn(fnHandleHeaders)
		cmpM := c.method("math/big", "Int", "Cmp")
		addM := c.method("math/big", "Int", "Add")
		calc := c.funcObj(pBlockchain, "CalcWork")
		cmps := find(fn, callTo(cmpM))
		if len(cmps) != 1 {
			c.fail(c.nm(fn)+" | work comparison", c.P.Pos(fn.Pos()), "expected exactly one Cmp")
			return
		}
		cc := ir.CallOf(cmps[0])
		recv, arg := cc.Args[0], cc.Args[1]
		// sources of the work added into an accumulator
		srcOf := func(acc ssa.Value) (fromMsg, fromKnown, n int) {
			for _, in := range find(fn, callTo(addM)) {
				a := ir.CallOf(in).Args
				if a[0] != acc {
					continue
				}
				n++
				w := a[2]
				wc, ok := ir.Strip(w).(*ssa.Call)
				if !ok || !callTo(calc)(wc) {
					continue
				}
				// the header whose Bits are weighed
				isMsg := loadsField(msgHeaders())(wc.Call.Args[0])
				if isMsg {
					fromMsg++
				} else {
					fromKnown++
				}
			}
			return
		}
		rm, rk, rn := srcOf(recv)
		am, ak, an := srcOf(arg)
		okRoles := rn >= 1 && an >= 1 && rm == 0 && rk >= 1 && am >= 1 && ak == 0
		c.verdict(okRoles, c.nm(fn)+" | Cmp receiver=known work, argument=offered work", c.at(cmps[0]),
			"receiver sums CalcWork of known-chain headers, argument sums CalcWork of msg.Headers",
			fmt.Sprintf("operand roles do not match: receiver adds %d offered/%d known terms, argument adds %d offered/%d known terms (swapped operands invert the comparison)", rm, rk, am, ak), c.at(cmps[0]))
	})

	c.rule("C02.V2", "the checkpoint floor is findPreviousHeaderCheckpoint(prevNode.Height) with prevNode the tail of headerList", func() {
		fn := c.fn(fnHandleHeaders)
		findPrev := c.method("neutrino", "blockManager", "findPreviousHeaderCheckpoint")
		back := c.method("headerlist", "Chain", "Back")
		nodeHeight := c.field("headerlist", "Node", "Height")
		cpHeight := c.field(pChaincfg, "Checkpoint", "Height")
		n := 0
		for _, in := range find(fn, callTo(findPrev)) {
			// only the call whose result feeds the floor comparison
			v := in.(ssa.Value)
			feeds := false
			ir.Instrs(fn, func(x ssa.Instruction) {
				b, ok := x.(*ssa.BinOp)
				if !ok || (b.Op != token.LSS && b.Op != token.GEQ && b.Op != token.GTR && b.Op != token.LEQ) {
					return
				}
				for _, op := range []ssa.Value{b.X, b.Y} {
					if loadsField(cpHeight)(op) && ir.DerivesFrom(op, func(y ssa.Value) bool { return y == v }) {
						feeds = true
					}
				}
			})
			if !feeds {
				continue
			}
			n++
			a := argsOf(in)[0]
			okv := loadsField(nodeHeight)(a) && ir.DerivesFrom(a, valIsCallTo(back))
			c.verdict(okv, c.nm(fn)+" | floor = findPreviousHeaderCheckpoint(headerList.Back().Height)", c.at(in),
				"argument is the height of headerList.Back()", "argument of findPreviousHeaderCheckpoint is not the height of the current tail of headerList", c.at(in))
		}
		if n == 0 {
			c.fail(c.nm(fn)+" | floor = findPreviousHeaderCheckpoint(headerList.Back().Height)", c.P.Pos(fn.Pos()), "no findPreviousHeaderCheckpoint result feeds a comparison with the fork height")
		}
	})

	c.rule("C02.W1", "rollBackToHeight is called only from handleHeadersMsg", func() {
		rollM := c.method("neutrino", "blockManager", "rollBackToHeight")
		c.whoMay("blockManager.rollBackToHeight", callTo(rollM), []string{fnHandleHeaders}, 2)
	})

	c.rule("C02.G2", "non-connecting headers are considered only from the sync peer or once block headers are synced: the reorg branch (store lookups, rollback, write) is unreachable otherwise", func() {
		fn := c.fn(fnHandleHeaders)
		syncPeer := c.method("neutrino", "blockManager", "SyncPeer")
		synced := c.method("neutrino", "blockManager", "BlockHeadersSynced")
		peerField := c.field("neutrino", "headersMsg", "peer")
		cmps := find(fn, binops(eqOps, loadsField(peerField), valIsCallTo(syncPeer)))
		gA := equalIs("hmsg.peer vs SyncPeer()", cmps, true)
		// BlockHeadersSynced() calls that sit behind the peer comparison
		var syncedCalls []ssa.Instruction
		for _, in := range find(fn, callTo(synced)) {
			for _, s := range gA.sites {
				if s.br.If.Block().Dominates(in.Block()) {
					syncedCalls = append(syncedCalls, in)
					break
				}
			}
		}
		gB := boolIs("BlockHeadersSynced()", syncedCalls, 0, true)
		g := guard{name: "hmsg.peer == SyncPeer() || BlockHeadersSynced()", sites: append(append([]guardSite{}, gA.sites...), gB.sites...),
			unchecked: append(append([]ssa.Instruction{}, gA.unchecked...), gB.unchecked...)}
		_, _, all := reorgEffects(fn)
		all = append(all, forkPointFetch(fn)...)
		c.guarded(fn, g, 2, "fork-point lookup / reorg rollback / write", all, 3, gDominate)
	})
}

func describeCall(in ssa.Instruction) string {
	cc := ir.CallOf(in)
	if cc == nil {
		return in.String()
	}
	cal := ir.Resolve(cc)
	if cal.Func != nil {
		return cal.Func.Name()
	}
	if cal.Field != nil {
		return cal.Field.Name()
	}
	return "call"
}
