package rules

import (
	"fmt"
	"go/token"
	"go/types"
	"sort"

	"golang.org/x/tools/go/ssa"

	"verif/checker/internal/ir"
)

func init() {
	register(&Prop{ID: "C19", Run: runC19, NotDecided: []string{
		"ordering of events across goroutines; consistency of backlog and live events at an arbitrary moment",
		"that every committed block header eventually gets a filter header (liveness)",
	}})
}

const fnSince = "(*neutrino.blockManager).NotificationsSinceHeight"

func runC19(c *Ctx) {
	bm := func(f string) *types.Var { return c.field("neutrino", "blockManager", f) }
	fhs := func(m string) *types.Func { return c.method("headerfs", "FilterHeaderStore", m) }
	bhs := func(m string) *types.Func { return c.method("headerfs", "BlockHeaderStore", m) }

	c.rule("C19.O1", "writeCFHeadersMsg: blocks are announced as connected only after their filter headers were stored (WriteHeaders=nil) and the in-memory filter tip was updated; the announcements range over the fetched block headers in slice order with height startHeight+i", func() {
		fn := c.fn(fnWriteCFH)
		emits := c.emitSites(fn, "onBlockConnected", "NewBlockConnected")
		conn := emitIns(emits)
		isConn := oneOf(conn)
		w := find(fn, callTo(fhs("WriteHeaders")))
		c.guarded(fn, errNil("store.WriteHeaders", w, 0), 1, "onBlockConnected", conn, 1, gDominate)
		_ = isConn
		c.tipBeforeEvents()
		anc := bhs("FetchHeaderAncestors")
		okv := len(conn) == 1
		for _, em := range emits {
			a := em.args
			// header: element of the ancestors slice
			var idx ssa.Value
			okH := ir.DerivesFrom(a[0], func(x ssa.Value) bool {
				ia, ok := x.(*ssa.IndexAddr)
				if !ok {
					return false
				}
				e, ok := ir.Strip(ia.X).(*ssa.Extract)
				if ok && e.Index == 0 && valIsCallTo(anc)(e.Tuple) {
					idx = ia.Index
					return true
				}
				return false
			})
			// height: startHeight (result #1) + uint32(same index)
			okHt := false
			if b, ok := a[1].(*ssa.BinOp); ok && b.Op == token.ADD && idx != nil {
				isStart := func(v ssa.Value) bool {
					e, ok := ir.Strip(v).(*ssa.Extract)
					return ok && e.Index == 1 && valIsCallTo(anc)(e.Tuple)
				}
				isIdx := func(v ssa.Value) bool { return ir.Strip(v) == idx }
				okHt = (isStart(b.X) && isIdx(b.Y)) || (isStart(b.Y) && isIdx(b.X))
			}
			if !okH || !okHt {
				okv = false
			}
		}
		c.verdict(okv, c.nm(fn)+" | onBlockConnected(matchingBlockHeaders[i], startHeight+i)", c.P.Pos(fn.Pos()), "header and height use the same index into the fetched ancestors", "the connected event's header and height do not come from the same position of the fetched block headers", c.ats(conn)...)
		// ascending order: the loop is a forward range (index phi starts at -1/0 and is incremented)
		okAsc := false
		for _, cn := range conn {
			if h := ir.LoopHeaderOf(cn.Block()); h != nil {
				if lf := loopFormOf(h); lf.problem == "" && lf.step == 1 {
					okAsc = true
				}
			}
		}
		c.verdict(okAsc, c.nm(fn)+" | events emitted in increasing height order (forward range)", c.P.Pos(fn.Pos()), "range loop", "connected events are no longer emitted by a forward range over the block headers")
	})

	c.rule("C19.O2", disconnectPayloadDoc, func() { c.disconnectPayload() })

	c.rule("C19.O3", filterTipMirrorDoc, func() { c.filterTipMirror() })

	c.rule("C19.O6", "events go out when the chain changes, in that order: a block event is emitted by a plain call at the point where the store was changed; it is never deferred (deferred emissions run last-in-first-out when the function returns: a rollback of several blocks would announce the lowest block first, and only after all of them are gone) and never handed to a new goroutine (no order at all)", func() {
		var helpers []*types.Func
		for _, n := range []string{"onBlockConnected", "onBlockDisconnected"} {
			if m := c.P.Method("neutrino", "blockManager", n); m != nil {
				helpers = append(helpers, m)
			}
		}
		ch := c.field("neutrino", "blockManager", "blockNtfnChan")
		var bad []string
		n := 0
		for _, fn := range c.P.Funcs {
			if pkgOf(fn) == nil || pkgOf(fn).Path() != ir.ModPath {
				continue
			}
			if len(helpers) > 0 {
				for _, in := range find(fn, callTo(helpers...)) {
					n++
					switch in.(type) {
					case *ssa.Defer:
						bad = append(bad, c.nm(fn)+" defers the emission at "+c.at(in))
					case *ssa.Go:
						bad = append(bad, c.nm(fn)+" emits from a new goroutine at "+c.at(in))
					}
				}
			}
			// a send on the event channel inside a deferred / spawned literal
			sends := find(fn, func(in ssa.Instruction) bool {
				switch x := in.(type) {
				case *ssa.Send:
					return loadsField(ch)(x.Chan)
				case *ssa.Select:
					for _, st := range x.States {
						if st.Dir == types.SendOnly && loadsField(ch)(st.Chan) {
							return true
						}
					}
				}
				return false
			})
			if len(sends) > 0 && fn.Parent() != nil {
				n += len(sends)
				for _, r := range ir.Refs(fn) {
					_ = r
				}
				ir.Instrs(fn.Parent(), func(in ssa.Instruction) {
					var cv ssa.Value
					kind := ""
					switch x := in.(type) {
					case *ssa.Defer:
						cv, kind = x.Call.Value, "deferred"
					case *ssa.Go:
						cv, kind = x.Call.Value, "spawned"
					}
					if mc, ok := cv.(*ssa.MakeClosure); ok && mc.Fn == ssa.Value(fn) {
						bad = append(bad, c.nm(fn.Parent())+" sends a block event from a "+kind+" function literal at "+c.at(in))
					}
				})
			} else {
				n += len(sends)
			}
		}
		sort.Strings(bad)
		c.verdict(n >= 2 && len(bad) == 0, "neutrino.blockManager | block events are emitted by plain calls", "", fmt.Sprintf("%d emission(s), none deferred or spawned", n), join(uniq(bad)))
	})

	c.rule("C19.W1", "single emitters: onBlockConnected is called only from writeCFHeadersMsg, onBlockDisconnected only from rollBackToHeight, and nothing else sends on blockNtfnChan (the two helpers, or the two functions themselves when the emission is written out in them); every such send can be abandoned on quit", func() {
		var senders []string
		for _, spec := range []struct{ helper, host, ctor string }{{"onBlockConnected", fnWriteCFH, "NewBlockConnected"}, {"onBlockDisconnected", fnRollBack, "NewBlockDisconnected"}} {
			name := "(*neutrino.blockManager)." + spec.helper
			if m := c.P.Method("neutrino", "blockManager", spec.helper); m != nil && c.P.Func(name) != nil {
				c.whoMay("blockManager."+spec.helper, callTo(m), []string{spec.host}, 1)
				senders = append(senders, name)
				// event payloads are the helper's parameters
				fn := c.fn(name)
				ctor := c.funcObj("blockntfns", spec.ctor)
				okv := false
				for _, call := range find(fn, callTo(ctor)) {
					okv = true
					for i, a := range ir.CallOf(call).Args {
						if !isParam(fn, i+1)(a) {
							okv = false
						}
					}
				}
				c.verdict(okv, name+" | event built from the helper's arguments in order", c.P.Pos(fn.Pos()), spec.ctor+"(params...)", "the emitted event is not built from the helper's own arguments in order")
			} else {
				senders = append(senders, spec.host)
			}
		}
		isSendOnNtfn := sendOn(loadsField(bm("blockNtfnChan")))
		c.whoMay("send on blockManager.blockNtfnChan", isSendOnNtfn, senders, 2)
		for _, name := range senders {
			fn := c.fn(name)
			okv, n := true, 0
			ir.Instrs(fn, func(in ssa.Instruction) {
				if !isSendOnNtfn(in) {
					return
				}
				n++
				sel, isSel := in.(*ssa.Select)
				if !isSel || !selectHasRecv(sel, loadsField(bm("quit"))) {
					okv = false
				}
			})
			c.verdict(okv && n >= 1, name+" | send can be abandoned on quit", c.P.Pos(fn.Pos()), "select with quit", "event emission can block forever at shutdown")
		}
	})

	c.rule("C19.O4", "backlog and live events join without a gap: "+backlogDoc, func() { c.backlogThenRegister() })

	c.rule("C19.O5", "commit and announcement cannot come apart: in writeCFHeadersMsg, once the filter headers were stored (WriteHeaders=nil) every path reaches the notification loop before the function returns: nothing that can fail (and return early) lies between the commit and the Connected events", func() {
		fn := c.fn(fnWriteCFH)
		w := find(fn, callTo(fhs("WriteHeaders")))
		conn := emitIns(c.emitSites(fn, "onBlockConnected", "NewBlockConnected"))
		if len(conn) != 1 || ir.LoopHeaderOf(conn[0].Block()) == nil {
			c.fail(c.nm(fn)+" | notification loop", c.P.Pos(fn.Pos()), "expected one onBlockConnected call inside a loop")
			return
		}
		h := ir.LoopHeaderOf(conn[0].Block())
		first := h.Instrs[0]
		c.mustFollow(fn, "filter headers committed", c.successEdges(errNil("store.WriteHeaders", w, 0)), func(in ssa.Instruction) bool { return in == first }, "the loop announcing the connected blocks", nil, 1)
	})

	c.rule("C19.X1", "one connected event per committed filter header: the notification loop of writeCFHeadersMsg visits every matching block header (indices 0..len-1, no early exit) and calls onBlockConnected on every iteration with the height startHeight+i", func() {
		fn := c.fn("(*neutrino.blockManager).writeCFHeadersMsg")
		xem := c.emitSites(fn, "onBlockConnected", "NewBlockConnected")
		calls := emitIns(xem)
		if len(calls) != 1 || ir.LoopHeaderOf(calls[0].Block()) == nil {
			c.fail(c.nm(fn)+" | notification loop", c.P.Pos(fn.Pos()), fmt.Sprintf("%d onBlockConnected call(s) in a loop, 1 tabled", len(calls)))
			return
		}
		h := ir.LoopHeaderOf(calls[0].Block())
		anc := c.method("headerfs", "BlockHeaderStore", "FetchHeaderAncestors")
		isMatching := func(v ssa.Value) bool {
			return ir.DerivesFrom(v, func(x ssa.Value) bool {
				e, ok := x.(*ssa.Extract)
				return ok && e.Index == 0 && valIsCallTo(anc)(e.Tuple)
			})
		}
		c.fullRange(fn, h, "the notification loop", isMatching, 0, func(*ssa.Return) bool { return true })
		var starts []start
		for i, sc := range h.Succs {
			if ir.LoopBlocks(h)[sc] {
				starts = append(starts, atEdge(c, ir.Edge{From: h, Succ: i}, "next committed header"))
			}
		}
		call := calls[0]
		c.mustFollowIter(fn, "each committed header", starts, func(in ssa.Instruction) bool { return in == call }, "b.onBlockConnected(header, height)", nil, 1)
		// height = startHeight + uint32(i)
		lf := loopFormOf(h)
		okH := false
		if b, ok := xem[0].args[1].(*ssa.BinOp); ok && b.Op == token.ADD && lf.phi != nil {
			isStart := func(v ssa.Value) bool {
				e, ok := v.(*ssa.Extract)
				return ok && e.Index == 1 && valIsCallTo(anc)(e.Tuple)
			}
			isIdx := func(v ssa.Value) bool {
				v = ir.Strip(v)
				if cv, ok := v.(*ssa.Convert); ok {
					v = ir.Strip(cv.X)
				}
				if lf.pre {
					sb, ok := v.(*ssa.BinOp)
					return ok && ir.Strip(sb.X) == ssa.Value(lf.phi)
				}
				return v == ssa.Value(lf.phi)
			}
			okH = (isStart(b.X) && isIdx(b.Y)) || (isStart(b.Y) && isIdx(b.X))
		}
		c.verdict(okH, c.nm(fn)+" | event height = startHeight + index", c.at(call), "startHeight + uint32(i)", "the height reported with a connected block is not startHeight plus the loop index")
	})

	c.rule("C19.W2", "no event is withheld from a subscriber: notifySubscribers hands every event it receives to every registered subscriber (no per-subscriber height filter: a subscriber's view after a reorg below its registration tip would otherwise miss re-connected blocks), and a subscription's bestHeight is fixed at creation", func() {
		c.fanOutAll()
	})

	c.rule("C19.V3", "a live subscriber stays in the fan-out: "+monotonicSubscriberIDsDoc, func() { c.monotonicSubscriberIDs() })
	c.rule("C19.V2", "the block manager is never more than one event ahead of the subscription manager: blockNtfnChan is made without capacity (a new subscriber's backlog is computed from the stores at registration time; events still queued from before that moment, e.g. of a branch that has since been rolled back, would be replayed on top of it)", func() { c.ntfnRendezvous() })

	c.rule("C19.V1", backlogBoundDoc, func() { c.backlogBound() })
}

// mustFollowOptQuiet: every path from the starts reaches b before an exit
// (no obligation recorded).
func (c *Ctx) mustFollowOptQuiet(fn *ssa.Function, starts []start, b Sel) bool {
	okv := len(starts) > 0
	for _, s := range starts {
		ir.WalkCtx(s.b, s.idx, s.pred, nil, func(in ssa.Instruction) bool {
			if b(in) {
				return false
			}
			if isExit(in) {
				if r := in.(*ssa.Return); len(r.Results) > 0 && !ir.IsNil(ir.RetVal(r, len(r.Results)-1)) {
					return false // error exit: the mutation's later steps failed
				}
				okv = false
				return false
			}
			return true
		})
	}
	return okv
}

const backlogBoundDoc = "NotificationsSinceHeight: the backlog bound is filterHeaderTip read under newFilterHeadersMtx, and the backlog covers height+1 .. bestHeight in increasing order with the header fetched for each height"

// backlogBound: see backlogBoundDoc (shared by C19.V1 and C11.V2).
func (c *Ctx) backlogBound() {
	bm := func(f string) *types.Var { return c.field("neutrino", "blockManager", f) }
	bhs := func(m string) *types.Func { return c.method("headerfs", "BlockHeaderStore", m) }
	_, _ = bm, bhs
	fn := c.fn(fnSince)
	res := c.lockResults()
	key := lockKey{bm("newFilterHeadersMtx")}
	acc := accessesOf(fn, bm("filterHeaderTip"), nil)
	okL := len(acc) >= 1
	for _, a := range acc {
		if _, held := res[fn].mustHold[a.in][key]; !held {
			okL = false
		}
	}
	c.verdict(okL, c.nm(fn)+" | filterHeaderTip read under newFilterHeadersMtx", c.P.Pos(fn.Pos()), "read lock held", "the backlog bound is read without newFilterHeadersMtx")
	// loop i := height+1; i <= bestHeight
	fetch := bhs("FetchHeaderByHeight")
	ctor := c.funcObj("blockntfns", "NewBlockConnected")
	okLoop := false
	for _, f := range find(fn, callTo(fetch)) {
		a := argsOf(f)[0]
		phi, ok := a.(*ssa.Phi)
		if !ok {
			continue
		}
		init, bound := false, false
		for _, e := range phi.Edges {
			if b, ok := e.(*ssa.BinOp); ok && b.Op == token.ADD && b.X == ssa.Value(fn.Params[1]) {
				if k, isC := ir.ConstInt(b.Y); isC && k == 1 {
					init = true
				}
			}
		}
		for _, r := range ir.Refs(phi) {
			if b, ok := r.(*ssa.BinOp); ok && b.Op == token.LEQ && b.X == ssa.Value(phi) && loadsField(bm("filterHeaderTip"))(b.Y) {
				bound = true
			}
		}
		// the event built uses the same height
		same := false
		for _, cc := range find(fn, callTo(ctor)) {
			ca := ir.CallOf(cc).Args
			same = ca[1] == ssa.Value(phi) && ir.DerivesFrom(ca[0], func(x ssa.Value) bool { return x == f.(ssa.Value) })
		}
		okLoop = init && bound && same
	}
	c.verdict(okLoop, c.nm(fn)+" | backlog = connected(header@i, i) for i = height+1 .. filterHeaderTip", c.P.Pos(fn.Pos()), "loop bounds and payload as tabled", "the backlog loop does not cover exactly height+1 .. filterHeaderTip with matching header and height")
	// the bound is the filter header tip and nothing else: a bound merged
	// with another quantity (the block header tip, say) can lie above what
	// has been committed and announced
	tip := bm("filterHeaderTip")
	var onlyTip func(v ssa.Value, d int) bool
	onlyTip = func(v ssa.Value, d int) bool {
		if d > 6 {
			return false
		}
		switch x := v.(type) {
		case *ssa.Phi:
			for _, e := range x.Edges {
				if !onlyTip(e, d+1) {
					return false
				}
			}
			return len(x.Edges) > 0
		case *ssa.UnOp:
			if x.Op == token.MUL {
				fa, ok := x.X.(*ssa.FieldAddr)
				return ok && ir.FieldOfAddr(fa) == tip
			}
		case *ssa.Convert:
			return onlyTip(x.X, d+1)
		case *ssa.ChangeType:
			return onlyTip(x.X, d+1)
		}
		return false
	}
	for _, f := range find(fn, callTo(fetch)) {
		h := ir.LoopHeaderOf(f.Block())
		construct := c.nm(fn) + " | the backlog is complete up to the filter header tip, or refused"
		if h == nil {
			c.fail(construct, c.at(f), "the backlog headers are not fetched in a loop")
			continue
		}
		lf := loopFormOf(h)
		if lf.problem != "" {
			c.fail(construct, c.at(f), lf.problem)
			continue
		}
		var bad []string
		if !onlyTip(lf.bound, 0) {
			bad = append(bad, "the bound of the backlog loop at "+c.at(lf.test)+" is not b.filterHeaderTip alone")
		}
		for _, e := range ir.LoopExits(h) {
			if e == lf.exit {
				continue
			}
			ir.WalkEdge(e, nil, func(in ssa.Instruction) bool {
				if r, ok := in.(*ssa.Return); ok {
					if errSuccess(r) {
						bad = append(bad, fmt.Sprintf("the backlog loop can be left early at %s and the call still succeeds (return at %s): the subscriber is registered with a backlog that stops short of the tip, and the next live event is about a block it was never told of", c.at(e.From.Instrs[len(e.From.Instrs)-1]), c.at(r)))
					}
					return false
				}
				return true
			})
		}
		// the height handed back with a backlog is the same bound
		for _, r := range find(fn, isExit) {
			ret := r.(*ssa.Return)
			if !errSuccess(ret) || len(ret.Results) != 3 {
				continue
			}
			if !onlyTip(ir.RetVal(ret, 1), 0) {
				bad = append(bad, "the best height returned at "+c.at(r)+" is not b.filterHeaderTip as read at the start")
			}
		}
		sort.Strings(bad)
		c.verdict(len(bad) == 0, construct, c.at(f), "bound = filterHeaderTip alone; every early way out of the loop is an error", join(uniq(bad)), c.at(lf.test))
	}
}

// ---- event emission points ----
//
// A block event leaves the block manager either through the helper
// (onBlockConnected / onBlockDisconnected) or, when that helper has been folded
// into its caller, through the constructor call whose result is sent on
// blockNtfnChan. Either way the rule sees one instruction to order and guard,
// and the event's operands.
type emitSite struct {
	in   ssa.Instruction
	args []ssa.Value
}

func (c *Ctx) emitSites(fn *ssa.Function, helper, ctor string) []emitSite {
	var out []emitSite
	if m := c.P.Method("neutrino", "blockManager", helper); m != nil {
		for _, in := range find(fn, callTo(m)) {
			// a deferred or spawned emission is not an emission at this
			// point of the function (C19.O6 reports it)
			if _, isCall := in.(*ssa.Call); !isCall {
				continue
			}
			out = append(out, emitSite{in, argsOf(in)})
		}
	}
	ctorF := c.funcObj("blockntfns", ctor)
	ch := c.field("neutrino", "blockManager", "blockNtfnChan")
	for _, in := range find(fn, callTo(ctorF)) {
		v, ok := in.(ssa.Value)
		if !ok {
			continue
		}
		sent := false
		ir.Instrs(fn, func(x ssa.Instruction) {
			switch y := x.(type) {
			case *ssa.Send:
				if loadsField(ch)(y.Chan) && ir.DerivesFrom(y.X, func(z ssa.Value) bool { return z == v }) {
					sent = true
				}
			case *ssa.Select:
				for _, st := range y.States {
					if st.Dir == types.SendOnly && loadsField(ch)(st.Chan) && ir.DerivesFrom(st.Send, func(z ssa.Value) bool { return z == v }) {
						sent = true
					}
				}
			}
		})
		if sent {
			out = append(out, emitSite{in, ir.CallOf(in).Args})
		}
	}
	return out
}

func emitIns(es []emitSite) []ssa.Instruction {
	var out []ssa.Instruction
	for _, e := range es {
		out = append(out, e.in)
	}
	return out
}

// oneOf selects exactly the given instructions.
func oneOf(ins []ssa.Instruction) Sel {
	return func(in ssa.Instruction) bool {
		for _, x := range ins {
			if x == in {
				return true
			}
		}
		return false
	}
}

// ntfnRendezvous: blockManager.blockNtfnChan is unbuffered.
func (c *Ctx) ntfnRendezvous() {
	ch := c.field("neutrino", "blockManager", "blockNtfnChan")
	n, okv := 0, true
	var sites []string
	for _, fn := range c.P.Funcs {
		ir.Instrs(fn, func(in ssa.Instruction) {
			st, ok := in.(*ssa.Store)
			if !ok {
				return
			}
			fa, ok := st.Addr.(*ssa.FieldAddr)
			if !ok || ir.FieldOfAddr(fa) != ch {
				return
			}
			n++
			sites = append(sites, c.at(in))
			mk, isMk := ir.Strip(st.Val).(*ssa.MakeChan)
			if !isMk {
				okv = false
				return
			}
			if k, isC := ir.ConstInt(mk.Size); !isC || k != 0 {
				okv = false
			}
		})
	}
	c.verdict(okv && n >= 1, "neutrino.blockManager.blockNtfnChan | made without capacity", "", fmt.Sprintf("%d allocation(s), all unbuffered", n), "blockManager.blockNtfnChan is (or may be) a buffered channel: events can queue up behind the subscription manager while the chain moves on", sites...)
}

const tipBeforeEventsDoc = "the in-memory filter header tip (the bound of a new subscriber's backlog) is published before the Connected events of a batch are emitted: a subscriber registered between two events of the batch gets the whole batch in its backlog and loses nothing"

// tipBeforeEvents: see tipBeforeEventsDoc (part of C19.O1, and C11.O3).
func (c *Ctx) tipBeforeEvents() {
	fn := c.fn(fnWriteCFH)
	conn := emitIns(c.emitSites(fn, "onBlockConnected", "NewBlockConnected"))
	c.mustPrecede(fn, storeToField(c.field("neutrino", "blockManager", "filterHeaderTip")), "filterHeaderTip = lastHeight", oneOf(conn), "onBlockConnected", 1)
}

const disconnectPayloadDoc = "rollBackToHeight: each removed block is announced as disconnected after BlockHeaders.RollbackLastBlock succeeded, carrying the header fetched for the old tip before the rollback, its height, and the header fetched for the new tip"

// disconnectPayload: see disconnectPayloadDoc.
func (c *Ctx) disconnectPayload() {
	bhs := func(m string) *types.Func { return c.method("headerfs", "BlockHeaderStore", m) }
	fn := c.fn(fnRollBack)
	demits := c.emitSites(fn, "onBlockDisconnected", "NewBlockDisconnected")
	disc := emitIns(demits)
	rb := find(fn, callTo(bhs("RollbackLastBlock")))
	c.guarded(fn, errNil("BlockHeaders.RollbackLastBlock", rb, 1), 1, "onBlockDisconnected", disc, 1, gDominate)
	c.mustFollowIter(fn, "block header rolled back", c.successEdges(errNil("BlockHeaders.RollbackLastBlock", rb, 1)), oneOf(disc), "onBlockDisconnected", func() ir.Cut {
		// the only exit without an event: failing to read the new tip header
		cut := ir.Cut{}
		for _, in := range find(fn, callTo(bhs("FetchHeader"))) {
			for _, r := range ir.Result(in.(ssa.Value), 2) {
				for _, br := range ir.NilBranches(r) {
					cut[br.Other()] = true
				}
			}
		}
		return cut
	}(), 1)
	// no block header leaves the store without an event: in the root package
	// the only removal of block headers is that one RollbackLastBlock call,
	// inside the per-block loop (a bulk RollbackBlockHeaders would drop
	// blocks silently); the importer's compensating rollback touches headers
	// that were never announced
	c.whoMay("removal of block headers from the store (RollbackLastBlock / RollbackBlockHeaders)", callTo(bhs("RollbackLastBlock"), bhs("RollbackBlockHeaders")), []string{fnRollBack, "(*chainimport.headersImport).writeHeadersToTargetStores", "(*headerfs.blockHeaderStore).RollbackLastBlock"}, 2)
	okOne := len(rb) == 1 && ir.LoopHeaderOf(rb[0].Block()) != nil && len(find(fn, callTo(bhs("RollbackBlockHeaders")))) == 0
	c.verdict(okOne, c.nm(fn)+" | block headers are removed one per loop iteration", c.P.Pos(fn.Pos()), "a single RollbackLastBlock inside the loop", fmt.Sprintf("rollBackToHeight removes block headers at %d RollbackLastBlock site(s) and %d bulk RollbackBlockHeaders site(s): headers removed outside the per-block loop get no Disconnected event", len(rb), len(find(fn, callTo(bhs("RollbackBlockHeaders"))))))
	stampHash := c.field("headerfs", "BlockStamp", "Hash")
	prevBlock := c.field(pWire, "BlockHeader", "PrevBlock")
	fetches := find(fn, callTo(bhs("FetchHeader")))
	var oldFetch, newFetch ssa.Value
	for _, f := range fetches {
		a := argsOf(f)[0]
		switch {
		case ir.DerivesFrom(a, func(x ssa.Value) bool { return fieldAddrOf(stampHash)(x) }):
			oldFetch = f.(ssa.Value)
		case ir.DerivesFrom(a, func(x ssa.Value) bool { return fieldAddrOf(prevBlock)(x) }):
			newFetch = f.(ssa.Value)
		}
	}
	okv := len(disc) == 1 && oldFetch != nil && newFetch != nil
	if okv {
		a := demits[0].args
		from := func(v, call ssa.Value, idx int) bool {
			return ir.DerivesFrom(v, func(x ssa.Value) bool {
				e, ok := x.(*ssa.Extract)
				return ok && e.Tuple == call && e.Index == idx
			})
		}
		okv = from(a[0], oldFetch, 0) && from(a[1], oldFetch, 1) && from(a[2], newFetch, 0)
		// old header fetched before the rollback
		if okv {
			before := false
			ir.WalkAfter(oldFetch.(ssa.Instruction), ir.BackEdges(fn), func(in ssa.Instruction) bool {
				if in == rb[0] {
					before = true
				}
				return true
			})
			okv = before
		}
	}
	c.verdict(okv, c.nm(fn)+" | onBlockDisconnected(header@bs.Hash fetched before rollback, its height, header@newTip)", c.P.Pos(fn.Pos()), "arguments have the tabled provenance", "the disconnected event does not carry (old tip header, its height, new tip header) as fetched around the rollback", c.ats(disc)...)
}

const filterTipMirrorDoc = "mirror maintenance: filterHeaderTip/filterHeaderTipHash mirror the filter-header store's tip and bound the backlog; every blockManager function that mutates cfg.RegFilterHeaders (WriteHeaders, RollbackLastBlock) stores the new tip under newFilterHeadersMtx on its success path"

// filterTipMirror: see filterTipMirrorDoc.
func (c *Ctx) filterTipMirror() {
	fhs := func(m string) *types.Func { return c.method("headerfs", "FilterHeaderStore", m) }
	bm := func(f string) *types.Var { return c.field("neutrino", "blockManager", f) }
	mut := callTo(fhs("WriteHeaders"), fhs("RollbackLastBlock"))
	n := 0
	res := c.lockResults()
	key := lockKey{bm("newFilterHeadersMtx")}
	for _, fn := range c.P.Funcs {
		if c.P.Name(fn) == "" || fn.Parent() != nil {
			continue
		}
		obj, _ := fn.Object().(*types.Func)
		if obj == nil {
			continue
		}
		sig := obj.Type().(*types.Signature)
		if sig.Recv() == nil || !types.Identical(sig.Recv().Type(), types.NewPointer(c.P.Named("neutrino", "blockManager"))) {
			continue
		}
		sites := find(fn, mut)
		if len(sites) == 0 {
			continue
		}
		n++
		c.R.Funcs[c.nm(fn)] = true
		construct := c.nm(fn) + " | filter store mutated => filterHeaderTip updated under newFilterHeadersMtx"
		var g guard
		for _, s := range sites {
			idx := 0
			if callTo(fhs("RollbackLastBlock"))(s) {
				idx = 1
			}
			g2 := errNil(describeCall(s), []ssa.Instruction{s}, idx)
			g.sites = append(g.sites, g2.sites...)
		}
		g.name = "filter store mutation succeeded"
		st := storeToField(bm("filterHeaderTip"))
		stH := storeToField(bm("filterHeaderTipHash"))
		if len(find(fn, st)) == 0 {
			c.fail(construct, c.at(sites[0]), fmt.Sprintf("%s changes the filter-header store (%s) but never updates b.filterHeaderTip: after it the in-memory tip (bound of NotificationsSinceHeight and of the filter sync) no longer equals the store's tip", c.nm(fn), join(c.ats(sites))), c.ats(sites)...)
			continue
		}
		okA := c.mustFollowOptQuiet(fn, c.successEdges(g), st)
		okB := c.mustFollowOptQuiet(fn, c.successEdges(g), stH)
		okL := true
		for _, s := range append(find(fn, st), find(fn, stH)...) {
			if res[fn].mustHold[s][key] != "W" {
				okL = false
			}
		}
		c.verdict(okA && okB && okL, construct, c.P.Pos(fn.Pos()), "both mirror fields stored under the mutex after the mutation", "a success path of the store mutation skips the update of filterHeaderTip/filterHeaderTipHash, or the update is not under newFilterHeadersMtx", c.ats(sites)...)
		// ... and only then: the mirror moves with the filter store, not
		// with the block headers (blocks above the filter tip have no
		// committed filter header; a mirror raised to them makes the
		// backlog offer blocks that were never announced)
		c.guarded(fn, g, 1, "filterHeaderTip = .. (the mirror moves)", find(fn, st), 1, gDominate)
	}
	if n < 2 {
		c.undecided("functions mutating RegFilterHeaders | floor", "", fmt.Sprintf("found %d, need 2", n))
	}
}
